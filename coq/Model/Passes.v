(* An abstract SSA program (straight-line: a region body) with an event semantics, and the two
   generic clean-up rewrites the pipelines rely on: dead-code elimination and common-subexpression
   elimination, both restricted to statements carrying the Pure trait.  Values, events, statement
   kinds, the value function and the event function are arbitrary. *)
From Coq Require Export String List Bool.
From Coq Require Import Arith.
Export ListNotations.

Section Passes.
  Variable Val Ev K : Type.
  Variable k_eqb : K -> K -> bool.
  Variable pure : K -> bool.                           (* the trait table *)
  Variable sem : K -> list Val -> Val.                 (* value of the result *)
  Variable emit : K -> list Val -> option Ev.          (* device-visible event, if any *)
  Variable dflt : Val.

  Record sstmt := mkS { sid : nat; skind : K; sops : list nat }.

  Definition senv := nat -> Val.
  Definition upd (e : senv) (x : nat) (v : Val) : senv := fun y => if Nat.eqb y x then v else e y.

  Fixpoint run (e : senv) (p : list sstmt) : list Ev :=
    match p with
    | [] => []
    | s :: r =>
        let vs := map e (sops s) in
        (match emit (skind s) vs with Some ev => [ev] | None => [] end)
          ++ run (upd e (sid s) (sem (skind s) vs)) r
    end.

  Definition uses (x : nat) (p : list sstmt) : bool :=
    existsb (fun s => existsb (Nat.eqb x) (sops s)) p.

  (* DeadCodeElimination: a Pure statement whose result nobody uses is removed *)
  Fixpoint dce (p : list sstmt) : list sstmt :=
    match p with
    | [] => []
    | s :: r =>
        let r' := dce r in
        if pure (skind s) && negb (uses (sid s) r') then r' else s :: r'
    end.

  (* CommonSubexpressionElimination: a Pure statement equal (kind, operands) to an earlier one is
     dropped and its users are redirected to the earlier result *)
  Definition key_eqb (a b : K * list nat) : bool :=
    k_eqb (fst a) (fst b) && (length (snd a) =? length (snd b)) &&
    forallb (fun xy => Nat.eqb (fst xy) (snd xy)) (combine (snd a) (snd b)).

  Fixpoint find_avail (key : K * list nat) (av : list ((K * list nat) * nat)) : option nat :=
    match av with
    | [] => None
    | (k, x) :: r => if key_eqb key k then Some x else find_avail key r
    end.

  Fixpoint cse (av : list ((K * list nat) * nat)) (ren : nat -> nat) (p : list sstmt) : list sstmt :=
    match p with
    | [] => []
    | s :: r =>
        let ops' := map ren (sops s) in
        if pure (skind s) then
          match find_avail (skind s, ops') av with
          | Some x => cse av (fun y => if Nat.eqb y (sid s) then x else ren y) r
          | None => mkS (sid s) (skind s) ops' :: cse (((skind s, ops'), sid s) :: av) ren r
          end
        else mkS (sid s) (skind s) ops' :: cse av ren r
    end.

  (* well-formed SSA: every statement defines a fresh name and uses names defined before *)
  Fixpoint wf_ssa (defined : list nat) (p : list sstmt) : Prop :=
    match p with
    | [] => True
    | s :: r => ~ In (sid s) defined /\ (forall x, In x (sops s) -> In x defined) /\ wf_ssa (sid s :: defined) r
    end.
End Passes.
