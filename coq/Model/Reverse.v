(* Model of path reversal: AbstractAction.inv for the nine action classes, reverse_path,
   and the schedule-level wrapper (DeviceFunction / ReverseDeviceFunction). *)
From Coq Require Import ZArith List String Bool.
From BS Require Import Core.Show Core.Base.
Import ListNotations.

Definition inv (a : action) : action :=
  match a with
  | AWay ws => AWay (rev ws)
  | ASwitch k fx fy x y => ASwitch (flip_onoff k) fx fy x y
  end.

Definition reverse_path (p : list action) : list action := map inv (rev p).

(* observations used to state "exact time reversal" *)
Definition flat_waypoints (p : list action) : list grid :=
  flat_map (fun a => match a with AWay ws => ws | _ => [] end) p.

Definition switches (p : list action) : list (onoff * form * form * sel * sel) :=
  flat_map (fun a => match a with
                     | ASwitch k fx fy x y => [(k, fx, fy, x, y)]
                     | _ => [] end) p.

Definition flip_switch (s : onoff * form * form * sel * sel) :=
  match s with (k, fx, fy, x, y) => (flip_onoff k, fx, fy, x, y) end.

(* schedule level: a device function value is a forward or a reversed wrapper around a
   tweezer kernel [d]; schedule.reverse unwraps a reversed one *)
Inductive dev (D : Type) := Fwd (d : D) | Rev (d : D).
Arguments Fwd {D} d.
Arguments Rev {D} d.

Definition sched_reverse {D} (v : dev D) : dev D :=
  match v with Fwd d => Rev d | Rev d => Fwd d end.

(* what every Gen evaluator does with the traced path of the underlying kernel *)
Definition gen_path {D} (trace : D -> res (list action)) (v : dev D) : res (list action) :=
  match v with
  | Fwd d => trace d
  | Rev d => bind (trace d) (fun p => Ok (reverse_path p))
  end.
