(* Model of the zone analysis (analysis/zone/analysis.py + impl/{spec,grid,py}.py) on straight-line
   SSA programs, with a concrete semantics that tracks the PROVENANCE of every value: which spec
   zone it is, or of which value it is a view.  That a view's sites lie inside its parent's sites is
   a separate, geometric fact about bloqade.geometry's SubGrid (Proofs/ZoneAnProofs.v). *)
From Coq Require Import String.
From Coq Require Import List Bool Arith.
From BS Require Import Core.Show Core.Base Model.Lattice.
Import ListNotations.

(* concrete values, by provenance *)
Inductive cval :=
| CZone (z : string)                    (* exactly the grid of spec zone z *)
| CView (v : cval)                      (* a sub-grid / indexed view of v *)
| COtherGrid                            (* some other grid *)
| CNonGrid                              (* not a grid *)
| CFail.                                (* the statement raised: no value *)

Inductive zstmt :=
| ZStatic (name : string)               (* spec.get_static_trap(zone_id=name) *)
| ZConstGrid (zone_of : option string)  (* folded constant grid; get_zone_id says zone_of *)
| ZConstSub (parent_zone : option string)(* folded constant SubGrid; get_zone_id(parent) *)
| ZSubGrid (x : nat)                    (* grid.sub_grid(%x, ..) *)
| ZGetItem (x i : nat)                  (* %x[%i] *)
| ZOtherGrid (ops : list nat)           (* any other statement with a grid-typed result: shift, scale,
                                           repeat, from_positions, calls, loop/branch results ... *)
| ZOtherNonGrid (ops : list nat).       (* any other statement *)

Definition zprog := list zstmt.           (* statement k defines value k *)

(* ---- concrete run: the spec knows the static trap names in [statics] ---- *)
Definition failed (v : cval) : bool := match v with CFail => true | _ => false end.

Definition cstep (statics : list string) (env : list cval) (s : zstmt) : cval :=
  let get := fun k => nth k env CFail in
  match s with
  | ZStatic name => if existsb (String.eqb name) statics then CZone name else CFail
  | ZConstGrid (Some z) => CZone z
  | ZConstGrid None => COtherGrid
  | ZConstSub (Some z) => CView (CZone z)
  | ZConstSub None => COtherGrid
  | ZSubGrid x => match get x with CFail => CFail | CNonGrid => CFail | v => CView v end
  | ZGetItem x i =>
      match get x, get i with
      | CFail, _ | _, CFail => CFail
      | CNonGrid, _ => CNonGrid               (* indexing a container *)
      | v, _ => CView v
      end
  | ZOtherGrid ops => if existsb (fun k => failed (get k)) ops then CFail else COtherGrid
  | ZOtherNonGrid ops => if existsb (fun k => failed (get k)) ops then CFail else CNonGrid
  end.

Fixpoint crun (statics : list string) (env : list cval) (p : zprog) : list cval :=
  match p with [] => env | s :: r => crun statics (env ++ [cstep statics env s]) r end.

(* ---- the analysis ---- *)
Definition is_invalid (a : zone) : bool :=
  match a with InvalidZone | InvalidSpecId _ => true | _ => false end.

Definition astep (statics : list string) (env : list zone) (s : zstmt) : zone :=
  let get := fun k => nth k env UnknownZone in
  match s with
  | ZStatic name => if existsb (String.eqb name) statics then SpecZone name else InvalidSpecId name
  | ZConstGrid (Some z) => SpecZone z
  | ZConstGrid None => UnknownZone
  | ZConstSub (Some z) => GetSubGridOfZone (SpecZone z) NotZone NotZone
  | ZConstSub None => GetSubGridOfZone UnknownZone NotZone NotZone
  | ZSubGrid x => if is_invalid (get x) then InvalidZone else GetSubGridOfZone (get x) NotZone NotZone
  | ZGetItem x i => if is_invalid (get x) then InvalidZone else GetItemOfZone (get x) (get i)
  | ZOtherGrid _ => UnknownZone            (* eval_stmt_fallback: top for grid-typed results *)
  | ZOtherNonGrid _ => NotZone             (* ... bottom otherwise *)
  end.

Fixpoint arun (statics : list string) (env : list zone) (p : zprog) : list zone :=
  match p with [] => env | s :: r => arun statics (env ++ [astep statics env s]) r end.

(* ---- what an abstract value claims about a run-time value ---- *)
(* [within z v]: v is zone z or a chain of views over it *)
Fixpoint within (z : string) (v : cval) : bool :=
  match v with
  | CZone z' => String.eqb z z'
  | CView v' => within z v'
  | _ => false
  end.

(* the spec zone an abstract value attributes a value to, if any *)
Fixpoint root_zone (a : zone) : option string :=
  match a with
  | SpecZone z => Some z
  | GetItemOfZone a' _ => root_zone a'
  | GetSubGridOfZone a' _ _ => root_zone a'
  | _ => None
  end.

Definition gamma (a : zone) (v : cval) : bool :=
  if failed v then true else                      (* a statement that raised binds nothing *)
  if is_invalid a then false else                 (* flagged invalid: must never be computed *)
  match a with
  | SpecZone z => match v with CZone z' => String.eqb z z' | _ => false end
  | _ => match root_zone a with Some z => within z v | None => true end
  end.
