(* FilledGrid.get_view as it was on the pinned commit 911cf5f: vacancies were pushed through a
   dictionary {parent index -> position in the selection}, so for a repeated index only the last
   position was marked vacant.  Kept to document the finding repaired by the "fix:" commit. *)
From Coq Require Import List Bool Arith.
From BS Require Import Model.Filled.
Import ListNotations.

(* {ix: i for i, ix in enumerate(indices)}[x]: the LAST position holding x *)
Fixpoint last_pos (indices : list nat) (x : nat) (i : nat) : option nat :=
  match indices with
  | [] => None
  | ix :: r => match last_pos r x (S i) with
               | Some j => Some j
               | None => if Nat.eqb ix x then Some i else None
               end
  end.

Definition view_vac0 (vac : list idx) (xi yi : list nat) : list idx :=
  flat_map (fun p => match last_pos xi (fst p) 0, last_pos yi (snd p) 0 with
                     | Some a, Some b => [(a, b)]
                     | _, _ => []
                     end) vac.
