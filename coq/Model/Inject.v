(* Model of passes/inject_spec.py (InjectSpecRule applied over the call graph) and of the two ways
   a kernel can be evaluated: by the plain interpreter (no spec: a lookup statement has no
   implementation there) and by a spec-carrying interpreter (dialects/spec/concrete.py).
   A small expression language: the four lookup kinds, constants, variables, tuples, integer
   comparison, if, let, invocation of named methods (subroutines, recursion), closures. *)
From Coq Require Import String.
From Coq Require Import ZArith List Bool.
From BS Require Import Core.Show Core.Base.
Import ListNotations.

Inductive lk := LStatic | LSpecial | LInt | LFloat.

Inductive expr :=
| ELookup (k : lk) (name : string)
| EGrid (g : string) | EInt (z : Z) | EFloat (f : string) | ENone
| EVar (x : string)
| ETuple (l : list expr)
| EGe (a b : expr) | EAdd (a b : expr)
| EIf (c t e : expr)
| ELet (x : string) (e1 e2 : expr)
| EInvoke (m : string) (args : list expr)
| ELam (body : expr)                 (* def f(): return body   -- captures the environment *)
| ECall (f : expr).                  (* f() *)

Inductive value :=
| VGrid (g : string) | VInt (z : Z) | VFloat (f : string) | VNone
| VTuple (l : list value)
| VClos (env : list (string * value)) (body : expr).

Definition venv := list (string * value).

Record spec := mkspec {
  s_static : list (string * string);      (* zone name -> grid token *)
  s_special : list (string * string);
  s_int : list (string * Z);
  s_float : list (string * string) }.

Record method := mkmethod { m_params : list string; m_body : expr }.
Definition table := list (string * method).

Fixpoint assoc {A} (x : string) (t : list (string * A)) : option A :=
  match t with [] => None | (y, v) :: r => if String.eqb x y then Some v else assoc x r end.

Definition spec_lookup (s : spec) (k : lk) (name : string) : option value :=
  match k with
  | LStatic => option_map VGrid (assoc name (s_static s))
  | LSpecial => option_map VGrid (assoc name (s_special s))
  | LInt => option_map VInt (assoc name (s_int s))
  | LFloat => option_map VFloat (assoc name (s_float s))
  end.

Definition const_of (v : value) : expr :=
  match v with
  | VGrid g => EGrid g | VInt z => EInt z | VFloat f => EFloat f
  | _ => ENone
  end.

(* ---------- InjectSpecRule ---------- *)
(* [handled k]: whether the rule has a case for lookup kind k (reflected from the code) *)
Fixpoint inject (handled : lk -> bool) (s : spec) (e : expr) : expr :=
  match e with
  | ELookup k name =>
      if handled k then match spec_lookup s k name with Some v => const_of v | None => e end else e
  | ETuple l => ETuple ((fix go (l : list expr) := match l with [] => [] | x :: r => inject handled s x :: go r end) l)
  | EGe a b => EGe (inject handled s a) (inject handled s b)
  | EAdd a b => EAdd (inject handled s a) (inject handled s b)
  | EIf c t f => EIf (inject handled s c) (inject handled s t) (inject handled s f)
  | ELet x a b => ELet x (inject handled s a) (inject handled s b)
  | EInvoke m args => EInvoke m ((fix go (l : list expr) := match l with [] => [] | x :: r => inject handled s x :: go r end) args)
  | ELam b => ELam (inject handled s b)
  | ECall f => ECall (inject handled s f)
  | _ => e
  end.

Definition inject_table (handled : lk -> bool) (s : spec) (t : table) : table :=
  map (fun nm => (fst nm, mkmethod (m_params (snd nm)) (inject handled s (m_body (snd nm))))) t.

(* ---------- evaluation ---------- *)
Inductive mode := Plain | WithSpec (s : spec).

Fixpoint bind_args (ps : list string) (vs : list value) : res venv :=
  match ps, vs with
  | [], [] => Ok []
  | p :: ps', v :: vs' => match bind_args ps' vs' with Ok e => Ok ((p, v) :: e) | Err x => Err x end
  | _, _ => Err EValue
  end.

Fixpoint eval_list (ev : venv -> expr -> res value) (env : venv) (l : list expr) : res (list value) :=
  match l with
  | [] => Ok []
  | x :: r => match ev env x with
              | Ok v => match eval_list ev env r with Ok vs => Ok (v :: vs) | Err y => Err y end
              | Err y => Err y
              end
  end.

Definition int_op (f : Z -> Z -> Z) (a b : res value) : res value :=
  match a, b with
  | Ok (VInt p), Ok (VInt q) => Ok (VInt (f p q))
  | Err y, _ => Err y
  | _, Err y => Err y
  | _, _ => Err EValue
  end.

Fixpoint eval (fuel : nat) (md : mode) (t : table) (env : venv) (e : expr) {struct fuel} : res value :=
  match fuel with
  | O => Err EFuel
  | S f =>
      let ev := eval f md t in
      match e with
      | ELookup k name =>
          match md with
          | Plain => Err EInterp                          (* no implementation without a spec *)
          | WithSpec s => match spec_lookup s k name with Some v => Ok v | None => Err EInterp end
          end
      | EGrid g => Ok (VGrid g) | EInt z => Ok (VInt z) | EFloat x => Ok (VFloat x) | ENone => Ok VNone
      | EVar x => match assoc x env with Some v => Ok v | None => Err EKey end
      | ETuple l => match eval_list ev env l with Ok vs => Ok (VTuple vs) | Err y => Err y end
      | EGe a b => int_op (fun p q => if Z.geb p q then 1%Z else 0%Z) (ev env a) (ev env b)
      | EAdd a b => int_op Z.add (ev env a) (ev env b)
      | EIf c a b => match ev env c with
                     | Ok (VInt z) => if Z.eqb z 0 then ev env b else ev env a
                     | Ok _ => Err EValue
                     | Err y => Err y
                     end
      | ELet x a b => match ev env a with Ok v => ev ((x, v) :: env) b | Err y => Err y end
      | EInvoke m args =>
          match assoc m t with
          | None => Err EKey
          | Some mt =>
              match eval_list ev env args with
              | Err y => Err y
              | Ok vs => match bind_args (m_params mt) vs with
                         | Ok en => ev en (m_body mt)
                         | Err y => Err y
                         end
              end
          end
      | ELam b => Ok (VClos env b)
      | ECall fx => match ev env fx with
                    | Ok (VClos cenv b) => ev cenv b
                    | Ok _ => Err EValue
                    | Err y => Err y
                    end
      end
  end.

(* rendering *)
Local Open Scope string_scope.
Fixpoint show_value (v : value) : string :=
  match v with
  | VGrid g => g | VInt z => show_Z z | VFloat f => f | VNone => "None"
  | VTuple l => "(" ++ sep_by "," ((fix go (l : list value) := match l with [] => [] | x :: r => show_value x :: go r end) l) ++ ")"
  | VClos _ _ => "<closure>"
  end.
Definition show_eval (r : res value) : string :=
  match r with Ok v => show_value v | Err EFuel => "FUEL" | Err _ => "ERR" end.
