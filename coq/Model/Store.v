(* C07: a store of kernels and what compiling one of them with a spec does to it.
   A method is an opaque body, the spec it was specialised with (if any) and its call edges.
   Compilation (InjectSpecsPass = CallGraphPass(Walk(InjectSpecRule))) rewrites the root IN PLACE and
   redirects its calls to fresh CLONES of the callees, which are specialised too; the originals are
   never touched.  Abstraction: the model clones every method of the store, the implementation only
   those in the root's call graph - clones nobody can reach are unobservable. *)
From Coq Require Import List Bool Arith.
From BS Require Import Core.Show.
Import ListNotations.

Record meth := mkmeth { body : nat; tag : option nat; calls : list nat }.
Definition store := list meth.
Definition dflt : meth := mkmeth 0 None [].

Fixpoint update (st : store) (i : nat) (m : meth) : store :=
  match st, i with
  | [], _ => []
  | _ :: r, O => m :: r
  | x :: r, S i' => x :: update r i' m
  end.

Definition ren (n r x : nat) : nat := if Nat.eqb x r then r else n + x.

Definition specialise (st : store) (r s x : nat) : meth :=
  let m := nth x st dflt in mkmeth (body m) (Some s) (map (ren (length st) r) (calls m)).

Definition compile (st : store) (r s : nat) : store :=
  update st r (specialise st r s r) ++ map (specialise st r s) (seq 0 (length st)).

(* executable observations used by the correspondence check *)
Definition opt_eqb (a b : option nat) : bool :=
  match a, b with Some x, Some y => Nat.eqb x y | None, None => true | _, _ => false end.
Definition meth_eqb (a b : meth) : bool :=
  Nat.eqb (body a) (body b) && opt_eqb (tag a) (tag b)
  && (length (calls a) =? length (calls b)) && forallb (fun p => Nat.eqb (fst p) (snd p)) (combine (calls a) (calls b)).

Definition shared_unchanged (k : nat) (st0 st : store) : bool :=
  forallb (fun i => meth_eqb (nth i st0 dflt) (nth i st dflt)) (seq 0 k).

Fixpoint all_tagged (fuel : nat) (st : store) (s : nat) (i : nat) : bool :=
  match fuel with
  | O => true
  | S f => opt_eqb (tag (nth i st dflt)) (Some s) && forallb (all_tagged f st s) (calls (nth i st dflt))
  end.
Definition sees_only (fuel : nat) (st : store) (r s : nat) : bool := all_tagged fuel st s r.

Definition last_spec (steps : list (nat * nat)) (r : nat) : nat :=
  fold_left (fun acc c => if Nat.eqb (fst c) r then snd c else acc) steps 0.

(* reachability through call edges *)
Inductive reaches (st : store) (i : nat) : nat -> Prop :=
| R_self : reaches st i i
| R_step j k : reaches st i j -> In k (calls (nth j st dflt)) -> reaches st i k.

Definition wf_store (st : store) : Prop :=
  forall i, i < length st -> forall c, In c (calls (nth i st dflt)) -> c < length st.
