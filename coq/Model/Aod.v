(* An AOD simulator encoding exactly the four physical conditions C08 names:
   - tweezers never jump while holding atoms               (EJump)
   - spots light up only on trap sites of the layout       (EPickOffTrap) and pick the atom there
   - atoms are released only onto vacant trap sites        (EDropOffTrap / EDropOccupied)
   - a path's tone lists match the dimensions of its grids (EDims / ESel)
   - two lit tones of one axis never sit at the same coordinate (ECollide): two tweezers on one
     spot would claim one atom twice
   Atoms are never created or destroyed (Proofs/AodProofs.v).  Definitions only. *)
From Coq Require Import String.
From Coq Require Import ZArith QArith List Bool Arith.
From BS Require Import Core.Show Core.Base.
Import ListNotations.

Definition pos := (Q * Q)%type.
Definition pos_eqb (a b : pos) : bool := Qeq_bool (fst a) (fst b) && Qeq_bool (snd a) (snd b).

Inductive aerr := EJump | EDims | ESel | EPickOffTrap | EDropOffTrap | EDropOccupied | EIllFormed | ECollide.
Inductive ares (A : Type) := AOk (a : A) | AErr (e : aerr).
Arguments AOk {A} a.
Arguments AErr {A} e.

Record ast := mkast {
  traps : list pos;
  occ : list (pos * nat);          (* occupied sites and the atom sitting there *)
  xon : list (nat * Q);            (* active x tones and their coordinate *)
  yon : list (nat * Q);
  held : list ((nat * nat) * nat)  (* spot (x tone, y tone) -> atom it holds *)
}.

Definition is_trap (st : ast) (p : pos) : bool := existsb (pos_eqb p) (traps st).
Fixpoint occ_find (p : pos) (o : list (pos * nat)) : option nat :=
  match o with [] => None | (q, a) :: r => if pos_eqb p q then Some a else occ_find p r end.
Fixpoint occ_remove (p : pos) (o : list (pos * nat)) : list (pos * nat) :=
  match o with [] => [] | (q, a) :: r => if pos_eqb p q then r else (q, a) :: occ_remove p r end.

Definition spot_eqb (a b : nat * nat) : bool := Nat.eqb (fst a) (fst b) && Nat.eqb (snd a) (snd b).
Fixpoint held_find (s : nat * nat) (h : list ((nat * nat) * nat)) : option nat :=
  match h with [] => None | (t, a) :: r => if spot_eqb s t then Some a else held_find s r end.
Fixpoint held_remove (s : nat * nat) (h : list ((nat * nat) * nat)) : list ((nat * nat) * nat) :=
  match h with [] => [] | (t, a) :: r => if spot_eqb s t then r else (t, a) :: held_remove s r end.

(* lit spots with their positions *)
Definition spots (st : ast) : list ((nat * nat) * pos) :=
  flat_map (fun x => map (fun y => ((fst x, fst y), (snd x, snd y))) (yon st)) (xon st).

Definition tone_on (i : nat) (l : list (nat * Q)) : bool := existsb (fun t => Nat.eqb (fst t) i) l.

(* selection of tone indices out of n tones *)
Definition select (s : sel) (n : nat) : ares (list nat) :=
  match s with
  | SSlice None None None => AOk (seq 0 n)
  | SSlice _ _ _ => AErr ESel                       (* the library only uses ALL *)
  | SList l =>
      if forallb (fun z => (0 <=? z)%Z && (z <? Z.of_nat n)%Z) l then AOk (map Z.to_nat l) else AErr ESel
  end.

(* a newly lit spot: must sit on a trap site; picks the atom there, if any *)
Definition pick1 (st : ast) (sp : (nat * nat) * pos) : ares ast :=
  if negb (is_trap st (snd sp)) then AErr EPickOffTrap else
  match occ_find (snd sp) (occ st) with
  | Some a => AOk (mkast (traps st) (occ_remove (snd sp) (occ st)) (xon st) (yon st) ((fst sp, a) :: held st))
  | None => AOk st
  end.

(* a spot that goes dark: the atom it holds is released onto a vacant trap site *)
Definition drop1 (st : ast) (sp : (nat * nat) * pos) : ares ast :=
  match held_find (fst sp) (held st) with
  | None => AOk st
  | Some a =>
      if negb (is_trap st (snd sp)) then AErr EDropOffTrap else
      match occ_find (snd sp) (occ st) with
      | Some _ => AErr EDropOccupied
      | None => AOk (mkast (traps st) ((snd sp, a) :: occ st) (xon st) (yon st) (held_remove (fst sp) (held st)))
      end
  end.

Fixpoint fold_a {B} (f : ast -> B -> ares ast) (st : ast) (l : list B) : ares ast :=
  match l with
  | [] => AOk st
  | b :: r => match f st b with AOk st' => fold_a f st' r | AErr e => AErr e end
  end.

Definition with_tones (st : ast) (xs ys : list (nat * Q)) : ast := mkast (traps st) (occ st) xs ys (held st).

Definition add_tones (on_ : list (nat * Q)) (idx : list nat) (coords : list Q) : list (nat * Q) :=
  fold_left (fun acc i => if tone_on i acc then acc else acc ++ [(i, nth i coords 0)]) idx on_.
Definition remove_tones (on_ : list (nat * Q)) (idx : list nat) : list (nat * Q) :=
  filter (fun t => negb (existsb (Nat.eqb (fst t)) idx)) on_.

Fixpoint distinct_q (l : list Q) : bool :=
  match l with [] => true | a :: r => negb (existsb (Qeq_bool a) r) && distinct_q r end.
Definition tones_apart (st : ast) : bool := distinct_q (map snd (xon st)) && distinct_q (map snd (yon st)).

Definition sim_switch (st : ast) (k : onoff) (x y : sel) (nx ny : nat) (cur : list Q * list Q) : ares ast :=
  match select x nx, select y ny with
  | AErr e, _ | _, AErr e => AErr e
  | AOk sx, AOk sy =>
      match k with
      | On =>
          let before := map fst (spots st) in
          let st' := with_tones st (add_tones (xon st) sx (fst cur)) (add_tones (yon st) sy (snd cur)) in
          let fresh := filter (fun sp => negb (existsb (spot_eqb (fst sp)) before)) (spots st') in
          if negb (tones_apart st') then AErr ECollide else fold_a pick1 st' fresh
      | Off =>
          let before := spots st in
          let st' := with_tones st (remove_tones (xon st) sx) (remove_tones (yon st) sy) in
          let after := map fst (spots st') in
          let gone := filter (fun sp => negb (existsb (spot_eqb (fst sp)) after)) before in
          fold_a drop1 st' gone
      end
  end.

(* one waypoint: dimensions, no jump at the start of a segment while holding, tones follow *)
Definition move_tones (on_ : list (nat * Q)) (coords : list Q) : list (nat * Q) :=
  map (fun t => (fst t, nth (fst t) coords 0)) on_.
Definition same_place (on_ : list (nat * Q)) (coords : list Q) : bool :=
  forallb (fun t => Qeq_bool (snd t) (nth (fst t) coords 0)) on_.

Definition sim_waypoint (st : ast) (first : bool) (nx ny : nat) (w : list Q * list Q) : ares ast :=
  if negb ((length (fst w) =? nx) && (length (snd w) =? ny)) then AErr EDims else
  if first && negb (match held st with [] => true | _ => false end)
     && negb (same_place (xon st) (fst w) && same_place (yon st) (snd w)) then AErr EJump else
  let st' := with_tones st (move_tones (xon st) (fst w)) (move_tones (yon st) (snd w)) in
  if negb (tones_apart st') then AErr ECollide else AOk st'.

Inductive saction :=
| SWay (ws : list (list Q * list Q))
| SSwitch (k : onoff) (x y : sel).

Fixpoint sim_way (st : ast) (first : bool) (nx ny : nat) (ws : list (list Q * list Q)) (cur : option (list Q * list Q))
  : ares (ast * option (list Q * list Q)) :=
  match ws with
  | [] => AOk (st, cur)
  | w :: r => match sim_waypoint st first nx ny w with
              | AOk st' => sim_way st' false nx ny r (Some w)
              | AErr e => AErr e
              end
  end.

Fixpoint sim_actions (st : ast) (nx ny : nat) (p : list saction) (cur : option (list Q * list Q)) : ares ast :=
  match p with
  | [] => AOk st
  | SWay ws :: r => match sim_way st true nx ny ws cur with
                    | AOk (st', cur') => sim_actions st' nx ny r cur'
                    | AErr e => AErr e
                    end
  | SSwitch k x y :: r =>
      match cur with
      | None => AErr EIllFormed
      | Some c => match sim_switch st k x y nx ny c with
                  | AOk st' => sim_actions st' nx ny r cur
                  | AErr e => AErr e
                  end
      end
  end.

Record spath := mkspath { p_nx : nat; p_ny : nat; p_actions : list saction }.

(* the tone state persists from one played path of a program to the next *)
Definition sim_paths (st : ast) (ps : list spath) : ares ast :=
  fold_a (fun s p => sim_actions s (p_nx p) (p_ny p) (p_actions p) None) st ps.

(* all atoms, wherever they are *)
Definition atoms (st : ast) : list nat := map snd (occ st) ++ map snd (held st).

(* ---------- recognising the round-trip shape of the CZ move (C08; proofs in Proofs/AodRoundTrip.v) ----------
   forward: go to a grid s, switch everything on, travel s -> w1 -> ... -> wn;
   backward: travel wn -> ... -> w1 -> s, switch everything off.  The recogniser compares coordinates
   syntactically (same numerator and denominator), which is what the implementation's reversal produces. *)
Definition Qsyn_eqb (a b : Q) : bool := Z.eqb (Qnum a) (Qnum b) && Pos.eqb (Qden a) (Qden b).
Fixpoint qlist_eqb (a b : list Q) : bool :=
  match a, b with
  | [], [] => true
  | x :: r, y :: r' => Qsyn_eqb x y && qlist_eqb r r'
  | _, _ => false
  end.
Definition wp_eqb (a b : list Q * list Q) : bool := qlist_eqb (fst a) (fst b) && qlist_eqb (snd a) (snd b).
Fixpoint wps_eqb (a b : list (list Q * list Q)) : bool :=
  match a, b with
  | [], [] => true
  | x :: r, y :: r' => wp_eqb x y && wps_eqb r r'
  | _, _ => false
  end.
Definition is_all (s : sel) : bool := match s with SSlice None None None => true | _ => false end.
Definition wp_okb (nx ny : nat) (w : list Q * list Q) : bool :=
  (length (fst w) =? nx) && (length (snd w) =? ny) && distinct_q (fst w) && distinct_q (snd w).
Definition on_traps (T : list pos) (s : list Q * list Q) : bool :=
  forallb (fun x => forallb (fun y => existsb (pos_eqb (x, y)) T) (snd s)) (fst s).
Fixpoint occ_wfb (o : list (pos * nat)) : bool :=
  match o with [] => true | (p, _) :: r => negb (existsb (fun e => pos_eqb p (fst e)) r) && occ_wfb r end.

Definition recognise_round_trip (ps : list spath) : option (nat * nat * (list Q * list Q) * list (list Q * list Q)) :=
  match ps with
  | [mkspath nx ny [SWay [s]; SSwitch On x y; SWay (s' :: ws)]; mkspath nx' ny' [SWay r; SSwitch Off x' y'; SWay [s'']]] =>
      if (nx =? nx') && (ny =? ny') && is_all x && is_all y && is_all x' && is_all y'
         && wp_eqb s s' && wp_eqb s s'' && wps_eqb r (rev (s :: ws))
      then Some (nx, ny, s, ws) else None
  | _ => None
  end.

(* everything the round-trip theorem asks for, decided by computation on a concrete call *)
Definition round_trip_ok (T : list pos) (O : list (pos * nat)) (ps : list spath) : bool :=
  match recognise_round_trip ps with
  | Some (nx, ny, s, ws) => wp_okb nx ny s && forallb (wp_okb nx ny) ws && on_traps T s && occ_wfb O
  | None => false
  end.


(* the transport shape (move_by_waypoints with pick and drop, two_col_zone.rearrange): pick everything up on w0,
   travel, release everything on the last waypoint *)
Definition grid_sites (w : list Q * list Q) : list pos := flat_map (fun x => map (fun y => (x, y)) (snd w)) (fst w).
Definition recognise_transport (ps : list spath) : option (nat * nat * (list Q * list Q) * list (list Q * list Q)) :=
  match ps with
  | [mkspath nx ny [SWay [w0]; SSwitch On x y; SWay (w0' :: ws); SSwitch Off x' y'; SWay [wn]]] =>
      if is_all x && is_all y && is_all x' && is_all y' && wp_eqb w0 w0' && wp_eqb wn (last (w0 :: ws) w0)
      then Some (nx, ny, w0, ws) else None
  | _ => None
  end.
Definition transport_ok (T : list pos) (O : list (pos * nat)) (ps : list spath) : bool :=
  match recognise_transport ps with
  | Some (nx, ny, w0, ws) =>
      let wn := last (w0 :: ws) w0 in
      wp_okb nx ny w0 && forallb (wp_okb nx ny) ws && on_traps T w0 && on_traps T wn && occ_wfb O
      && forallb (fun p => match occ_find p O with None => true | Some _ => existsb (pos_eqb p) (grid_sites w0) end) (grid_sites wn)
  | None => false
  end.


(* the same transport with the tones selected by index lists (gemini.logical.move_by_shift): only the selected
   tones are lit; lx / ly are the index lists written in the path *)
Definition zlist_eqb (a b : list Z) : bool := (length a =? length b) && forallb (fun p => Z.eqb (fst p) (snd p)) (combine a b).
Fixpoint nodup_nat (l : list nat) : bool :=
  match l with [] => true | a :: r => negb (existsb (Nat.eqb a) r) && nodup_nat r end.
Definition in_range (n : nat) (l : list Z) : bool := forallb (fun z => (0 <=? z)%Z && (z <? Z.of_nat n)%Z) l.
Definition pick_coords (ix : list nat) (cs : list Q) : list Q := map (fun i => nth i cs 0) ix.
Definition wp_sel_okb (nx ny : nat) (ix iy : list nat) (w : list Q * list Q) : bool :=
  (length (fst w) =? nx) && (length (snd w) =? ny) && distinct_q (pick_coords ix (fst w)) && distinct_q (pick_coords iy (snd w)).
Definition sel_sites (ix iy : list nat) (w : list Q * list Q) : list pos :=
  flat_map (fun x => map (fun y => (x, y)) (pick_coords iy (snd w))) (pick_coords ix (fst w)).
Definition recognise_transport_sel (ps : list spath)
  : option (nat * nat * list Z * list Z * (list Q * list Q) * list (list Q * list Q)) :=
  match ps with
  | [mkspath nx ny [SWay [w0]; SSwitch On (SList lx) (SList ly); SWay (w0' :: ws); SSwitch Off (SList lx') (SList ly'); SWay [wn]]] =>
      if zlist_eqb lx lx' && zlist_eqb ly ly' && wp_eqb w0 w0' && wp_eqb wn (last (w0 :: ws) w0)
      then Some (nx, ny, lx, ly, w0, ws) else None
  | _ => None
  end.
Definition transport_sel_ok (T : list pos) (O : list (pos * nat)) (ps : list spath) : bool :=
  match recognise_transport_sel ps with
  | Some (nx, ny, lx, ly, w0, ws) =>
      let wn := last (w0 :: ws) w0 in
      let ix := map Z.to_nat lx in let iy := map Z.to_nat ly in
      in_range nx lx && in_range ny ly && nodup_nat ix && nodup_nat iy
      && wp_sel_okb nx ny ix iy w0 && forallb (wp_sel_okb nx ny ix iy) ws
      && forallb (fun p => existsb (pos_eqb p) T) (sel_sites ix iy w0)
      && forallb (fun p => existsb (pos_eqb p) T) (sel_sites ix iy wn) && occ_wfb O
      && forallb (fun p => match occ_find p O with None => true | Some _ => existsb (pos_eqb p) (sel_sites ix iy w0) end) (sel_sites ix iy wn)
  | None => false
  end.


(* "ends where the documentation says" for an index-based move on a zone (two_col_zone.rearrange): the recognised transport
   starts on zone[src_x, src_y] and ends on zone[dst_x, dst_y] *)
Definition documented_transport (zx zy : list Q) (sx sy dx dy : list nat) (ps : list spath) : bool :=
  match recognise_transport ps with
  | Some (nx, ny, w0, ws) =>
      wp_eqb w0 (pick_coords sx zx, pick_coords sy zy) && wp_eqb (last (w0 :: ws) w0) (pick_coords dx zx, pick_coords dy zy)
      && (length sx =? nx) && (length sy =? ny) && (length dx =? nx) && (length dy =? ny)
  | None => false
  end.

(* ---------- a move split into legs (move_by_waypoints with pick on the first call and drop on the last): the paths of
   consecutive calls are merged into one path when each next path begins, with a waypoint segment, at the very waypoint the
   previous one ended on.  Proofs/AodLegs.v: the merged path simulates exactly like the sequence of legs. ---------- *)
Fixpoint split_last_way (acts : list saction) : option (list saction * list (list Q * list Q)) :=
  match acts with
  | [] => None
  | a :: r =>
      match r with
      | [] => match a with SWay l => Some ([], l) | _ => None end
      | _ :: _ => match split_last_way r with Some (pre, l) => Some (a :: pre, l) | None => None end
      end
  end.
Definition merge2 (p q : spath) : option spath :=
  match split_last_way (p_actions p), p_actions q with
  | Some (pre, v :: l1), SWay (u :: l2) :: post =>
      if (p_nx p =? p_nx q) && (p_ny p =? p_ny q) && wp_eqb (last (v :: l1) v) u
      then Some (mkspath (p_nx p) (p_ny p) (pre ++ SWay ((v :: l1) ++ l2) :: post)) else None
  | _, _ => None
  end.
Fixpoint merge_legs (p : spath) (qs : list spath) : option spath :=
  match qs with
  | [] => Some p
  | q :: r => match merge2 p q with Some m => merge_legs m r | None => None end
  end.
Definition legs_transport_ok (T : list pos) (O : list (pos * nat)) (ps : list spath) : bool :=
  match ps with
  | p :: qs => match merge_legs p qs with Some m => transport_ok T O [m] | None => false end
  | [] => false
  end.

(* rendering *)
Local Open Scope string_scope.
Definition show_aerr (e : aerr) : string :=
  match e with EJump => "EJump" | EDims => "EDims" | ESel => "ESelector" | EPickOffTrap => "EPickOffTrap"
             | EDropOffTrap => "EDropOffTrap" | EDropOccupied => "EDropOccupied" | EIllFormed => "EIllFormed"
             | ECollide => "ECollide" end.
Fixpoint insert_occ (o : pos * nat) (l : list (pos * nat)) : list (pos * nat) :=
  match l with
  | [] => [o]
  | q :: r => if Nat.leb (snd o) (snd q) then o :: l else q :: insert_occ o r
  end.
Definition sort_occ (l : list (pos * nat)) : list (pos * nat) := fold_right insert_occ [] l.
Definition show_sim (r : ares ast) : string :=
  match r with
  | AErr e => "reject:" ++ show_aerr e
  | AOk st => "ok held=" ++ show_nat (length (held st)) ++ " occ=" ++
              show_list (fun o => show_nat (snd o) ++ "@" ++ show_Q (fst (fst o)) ++ "," ++ show_Q (snd (fst o))) (sort_occ (occ st))
  end.

