(* Model of the schedule-to-path lowering (passes/schedule2path.py + rewrite/schedule2path.py).
   Source: device calls and nested parallel/auto blocks inside a move kernel body.
   Specification: what property C03 says.  Implementation model: the passes, in kirin's walk
   order (a statement is visited after the statements in its regions).  Definitions only. *)
From Coq Require Import String.
From Coq Require Import List Bool.
From BS Require Import Core.Show.
Import ListNotations.

Inductive kind := KPar | KAuto.
Definition kind_eqb (a b : kind) : bool := match a, b with KPar, KPar | KAuto, KAuto => true | _, _ => false end.

(* a call as written in the source: callee, positional arguments, keyword names and values
   (all opaque descriptors) *)
Record call := mkcall { callee : string; pos : list string; kwn : list string; kwv : list string }.

Inductive sched :=
| SCall (c : call)
| SBlock (k : kind) (body : list sched).

Inductive item :=
| ICall (c : call)
| IBlock (k : kind) (body : list sched)
| IOther (tag : string)                       (* gates, fills, measurements, ... *)
| IIf (t e : list item)
| IFor (b : list item).

Inductive ptree :=
| PGen (c : call)
| PGroup (k : kind) (members : list ptree).

Inductive pitem :=
| PPlay (t : ptree)
| POther (tag : string)
| PIf (t e : list pitem)
| PFor (b : list pitem).

(* ---------------- specification ---------------- *)
(* members of the group played for a block of kind k: calls become paths, a directly nested
   block of the same kind is merged in place, a block of the other kind becomes a nested group *)
Fixpoint spec_members (k : kind) (s : sched) : list ptree :=
  match s with
  | SCall c => [PGen c]
  | SBlock k' body =>
      let ms := (fix go (l : list sched) : list ptree :=
                   match l with [] => [] | x :: r => spec_members k' x ++ go r end) body in
      if kind_eqb k k' then ms else [PGroup k' ms]
  end.

Definition spec_block (k : kind) (body : list sched) : ptree :=
  PGroup k (flat_map (spec_members k) body).

Fixpoint compile_spec_item (i : item) : pitem :=
  match i with
  | ICall c => PPlay (PGen c)
  | IBlock k body => PPlay (spec_block k body)
  | IOther t => POther t
  | IIf t e => PIf (map compile_spec_item t) (map compile_spec_item e)
  | IFor b => PFor (map compile_spec_item b)
  end.
Definition compile_spec (p : list item) : list pitem := map compile_spec_item p.

(* ---------------- implementation model ---------------- *)
Definition is_kind (k : kind) (s : sched) : bool :=
  match s with SBlock k' _ => kind_eqb k k' | SCall _ => false end.

(* Fixpoint(Walk(Canonicalize())): post-order.  The result is what replaces the statement in
   its parent: at a block of kind k inside a block of kind k, the DIRECT children that are not
   blocks of kind k are moved in front of the block; the block is deleted if that leaves it
   empty, otherwise it stays behind them. *)
Fixpoint canon_node (parent : option kind) (s : sched) : list sched :=
  match s with
  | SCall c => [SCall c]
  | SBlock k body =>
      let body' := (fix go (l : list sched) : list sched :=
                      match l with [] => [] | x :: r => canon_node (Some k) x ++ go r end) body in
      match parent with
      | Some pk =>
          if kind_eqb pk k then
            let moved := filter (fun x => negb (is_kind k x)) body' in
            let rest := filter (is_kind k) body' in
            moved ++ (match rest with [] => [] | _ => [SBlock k rest] end)
          else [SBlock k body']
      | None => [SBlock k body']
      end
  end.

(* after Walk(Chain(RewriteAutoInvoke, RewriteDeviceCall)) a region body holds, per call, the
   constants it reads and one path.Gen whose result nobody uses yet *)
Inductive rstmt :=
| RConst                      (* an operand: has a user *)
| RGen (c : call)
| RRegion (k : kind) (body : list rstmt).

Fixpoint to_rstmt (s : sched) : list rstmt :=
  match s with
  | SCall c => [RConst; RGen c]
  | SBlock k body =>
      [RRegion k ((fix go (l : list sched) : list rstmt :=
                     match l with [] => [] | x :: r => to_rstmt x ++ go r end) body)]
  end.

(* Walk(RewriteScheduleRegion()): inner regions first.  Every statement of the region is lifted
   in front of it; a lifted statement whose result has no use is a member of the group. *)
Inductive lifted :=
| LUsed                        (* has users: an operand, or a path already inside a group *)
| LFree (t : ptree).           (* result unused so far *)

Definition free_of (l : list lifted) : list ptree :=
  flat_map (fun x => match x with LFree t => [t] | LUsed => [] end) l.
Definition mark_used (l : list lifted) : list lifted := map (fun _ => LUsed) l.

Fixpoint lift_stmt (s : rstmt) : list lifted :=
  match s with
  | RConst => [LUsed]
  | RGen c => [LFree (PGen c)]
  | RRegion k body =>
      let ls := (fix go (l : list rstmt) : list lifted :=
                   match l with [] => [] | x :: r => lift_stmt x ++ go r end) body in
      (* the inner region was rewritten first: its statements sit in front of it, its paths are
         now used by the new group statement, whose own result is unused *)
      mark_used ls ++ [LFree (PGroup k (free_of ls))]
  end.

Definition impl_block (k : kind) (body : list sched) : ptree :=
  match canon_node None (SBlock k body) with
  | [s] => match free_of (flat_map lift_stmt (to_rstmt s)) with
           | [t] => t
           | _ => PGroup k []          (* unreachable *)
           end
  | _ => PGroup k []                   (* unreachable *)
  end.

Fixpoint compile_impl_item (i : item) : pitem :=
  match i with
  | ICall c => PPlay (PGen c)                  (* RewriteDeviceCall outside a block: Gen + Play *)
  | IBlock k body => PPlay (impl_block k body) (* one Play per top-level block *)
  | IOther t => POther t
  | IIf t e => PIf (map compile_impl_item t) (map compile_impl_item e)
  | IFor b => PFor (map compile_impl_item b)
  end.
Definition compile_impl (p : list item) : list pitem := map compile_impl_item p.

(* the calls of a program / of a compiled program, in order *)
Fixpoint sched_calls (s : sched) : list call :=
  match s with
  | SCall c => [c]
  | SBlock _ body => (fix go (l : list sched) : list call :=
                        match l with [] => [] | x :: r => sched_calls x ++ go r end) body
  end.
Fixpoint item_calls (i : item) : list call :=
  match i with
  | ICall c => [c]
  | IBlock _ body => flat_map sched_calls body
  | IOther _ => []
  | IIf t e => flat_map item_calls t ++ flat_map item_calls e
  | IFor b => flat_map item_calls b
  end.
Fixpoint ptree_calls (t : ptree) : list call :=
  match t with
  | PGen c => [c]
  | PGroup _ ms => (fix go (l : list ptree) : list call :=
                      match l with [] => [] | x :: r => ptree_calls x ++ go r end) ms
  end.
Fixpoint pitem_calls (i : pitem) : list call :=
  match i with
  | PPlay t => ptree_calls t
  | POther _ => []
  | PIf t e => flat_map pitem_calls t ++ flat_map pitem_calls e
  | PFor b => flat_map pitem_calls b
  end.

(* no group directly contains a group of its own kind *)
Fixpoint no_same_kind_child (t : ptree) : bool :=
  match t with
  | PGen _ => true
  | PGroup k ms =>
      (fix go (l : list ptree) : bool :=
         match l with
         | [] => true
         | x :: r => (match x with PGroup k' _ => negb (kind_eqb k k') | PGen _ => true end)
                     && no_same_kind_child x && go r
         end) ms
  end.

(* rendering *)
Local Open Scope string_scope.
Definition show_kind (k : kind) : string := match k with KPar => "parallel" | KAuto => "auto" end.
Definition show_call (c : call) : string :=
  callee c ++ "(" ++ sep_by "," (pos c ++ map (fun p => fst p ++ "=" ++ snd p) (combine (kwn c) (kwv c))) ++ ")".
Fixpoint show_ptree (t : ptree) : string :=
  match t with
  | PGen c => show_call c
  | PGroup k ms => show_kind k ++ "{" ++ sep_by ";" ((fix go (l : list ptree) : list string :=
                      match l with [] => [] | x :: r => show_ptree x :: go r end) ms) ++ "}"
  end.
Fixpoint show_pitem (i : pitem) : string :=
  match i with
  | PPlay t => "play " ++ show_ptree t
  | POther t => t
  | PIf t e => "if{" ++ sep_by ";" (map show_pitem t) ++ "}else{" ++ sep_by ";" (map show_pitem e) ++ "}"
  | PFor b => "for{" ++ sep_by ";" (map show_pitem b) ++ "}"
  end.
Definition show_pitems (p : list pitem) : string := sep_by ";" (map show_pitem p).
