(* Model of the three evaluators of path.Gen: dialects/path/concrete.py ("main": plain
   interpreter, spec recorded on the statement), constprop.py (compile-time folding) and
   spec_interp.py (spec-carrying interpreter), together with kirin's permute_values.
   The tracer is an arbitrary function: all three routes call the same one. *)
From Coq Require Import String.
From Coq Require Import List Bool.
From BS Require Import Core.Base Model.Reverse.
Import ListNotations.

Section Gen3.
  Variable V : Type.            (* run-time values *)
  Variable K : Type.            (* tweezer kernels *)
  Variable S : Type.            (* architecture specs *)
  Variable T : Type.            (* tone lists *)
  Variable trace : S -> K -> list V -> res (list action).
  Variable sig_of : K -> list string.       (* parameter names of a kernel, without self *)

  Inductive task :=
  | TDev (k : K) (xt yt : T)
  | TRev (k : K) (xt yt : T)
  | TOther.                                  (* not a device function *)

  Inductive outcome :=
  | OPath (xt yt : T) (p : list action)
  | OTop                                     (* folding leaves the call as it is *)
  | ORaise.

  Fixpoint lookup_kw (name : string) (kw : list (string * V)) : option V :=
    match kw with
    | [] => None
    | (n, v) :: r => if String.eqb n name then Some v else lookup_kw name r
    end.

  (* kirin's permute_values: the keyword names refer to the last values; positionals first,
     then the remaining signature names looked up among the keywords *)
  Fixpoint lookup_all (names : list string) (kws : list (string * V)) : res (list V) :=
    match names with
    | [] => Ok []
    | name :: r =>
        match lookup_kw name kws, lookup_all r kws with
        | Some v, Ok l => Ok (v :: l)
        | None, _ => Err EKey
        | _, Err e => Err e
        end
    end.

  Definition permute (sig : list string) (vals : list V) (kw : list string) : res (list V) :=
    let npos := length vals - length kw in
    let positionals := firstn npos vals in
    match kw with
    | [] => Ok positionals
    | _ =>
        match lookup_all (skipn npos sig) (combine kw (skipn npos vals)) with
        | Ok l => Ok (positionals ++ l)
        | Err e => Err e
        end
    end.

  (* what all three evaluators do once they have a spec *)
  Definition core (s : S) (t : task) (vals : list V) (kw : list string) : outcome :=
    match t with
    | TOther => ORaise
    | TDev k xt yt =>
        match permute (sig_of k) vals kw with
        | Err _ => ORaise
        | Ok args => match trace s k args with Ok p => OPath xt yt p | Err _ => ORaise end
        end
    | TRev k xt yt =>
        match permute (sig_of k) vals kw with
        | Err _ => ORaise
        | Ok args => match trace s k args with Ok p => OPath xt yt (reverse_path p) | Err _ => ORaise end
        end
    end.

  (* concrete.py: the spec recorded on the statement; none recorded -> InterpreterError *)
  Definition gen_main (stamped : option S) (t : task) (vals : list V) (kw : list string) : outcome :=
    match stamped with None => ORaise | Some s => core s t vals kw end.

  (* spec_interp.py: the interpreter's spec *)
  Definition gen_spec (interp_spec : S) (t : task) (vals : list V) (kw : list string) : outcome :=
    core interp_spec t vals kw.

  (* constprop.py: folds only when the spec is recorded and the task and every input are
     compile-time constants; a non-device constant stays unfolded *)
  Definition gen_constprop (stamped : option S) (task_const : option task) (inputs_const : option (list V))
                           (kw : list string) : outcome :=
    match stamped, task_const, inputs_const with
    | Some s, Some TOther, _ => OTop
    | Some s, Some t, Some vals => core s t vals kw
    | _, _, _ => OTop
    end.

  Definition is_path (o : outcome) : bool := match o with OPath _ _ _ => true | _ => false end.
End Gen3.

Arguments TDev {K T} k xt yt.
Arguments TRev {K T} k xt yt.
Arguments TOther {K T}.
Arguments OPath {T} xt yt p.
Arguments OTop {T}.
Arguments ORaise {T}.
