(* Model of bloqade.shuttle.analysis.zone.lattice (Zone and its subclasses) together
   with kirin's SimpleJoinMixin / SimpleMeetMixin.  Executable definitions only. *)
From Coq Require Import String Bool List.
Import ListNotations.
Local Open Scope string_scope.

Inductive zone : Type :=
| NotZone
| UnknownZone
| InvalidZone
| InvalidSpecId (s : string)
| SpecZone (s : string)
| GetItemOfZone (z i : zone)
| GetSubGridOfZone (z x y : zone).

(* structural equality = the dataclass-generated __eq__ *)
Fixpoint zone_eqb (a b : zone) : bool :=
  match a, b with
  | NotZone, NotZone => true
  | UnknownZone, UnknownZone => true
  | InvalidZone, InvalidZone => true
  | InvalidSpecId s, InvalidSpecId t => String.eqb s t
  | SpecZone s, SpecZone t => String.eqb s t
  | GetItemOfZone z i, GetItemOfZone z' i' => zone_eqb z z' && zone_eqb i i'
  | GetSubGridOfZone z x y, GetSubGridOfZone z' x' y' =>
      zone_eqb z z' && zone_eqb x x' && zone_eqb y y'
  | _, _ => false
  end.

Definition is_top (b : zone) : bool :=
  match b with UnknownZone => true | _ => false end.

(* is_subseteq, one branch per class, in the order the classes are written *)
Fixpoint zleb (a b : zone) : bool :=
  match a with
  | NotZone => true
  | UnknownZone => is_top b
  | InvalidZone =>
      match b with InvalidZone => true | UnknownZone => true | _ => false end
  | InvalidSpecId s =>
      match b with
      | InvalidSpecId t => String.eqb s t
      | InvalidZone => true
      | UnknownZone => true
      | _ => false
      end
  | SpecZone s =>
      match b with
      | UnknownZone => true
      | SpecZone t => String.eqb s t
      | _ => false
      end
  | GetItemOfZone z i =>
      match b with
      | UnknownZone => true
      | GetItemOfZone z' i' => zleb z z' && zleb i i'
      | _ => false
      end
  | GetSubGridOfZone z x y =>
      match b with
      | UnknownZone => true
      | GetSubGridOfZone z' x' y' => zleb z z' && zleb x x' && zleb y y'
      | _ => false
      end
  end.

(* kirin.lattice.mixin.SimpleJoinMixin.join *)
Definition simple_join (a b : zone) : zone :=
  if zleb a b then b else if zleb b a then a else UnknownZone.

(* kirin.lattice.mixin.SimpleMeetMixin.meet *)
Definition meet (a b : zone) : zone :=
  if zleb a b then a else if zleb b a then b else NotZone.

(* InvalidSpecId.join overrides the mixin for two different invalid ids *)
Definition join (a b : zone) : zone :=
  match a, b with
  | InvalidSpecId s, InvalidSpecId t =>
      if String.eqb s t then simple_join a b else InvalidZone
  | _, _ => simple_join a b
  end.

(* enumeration used by the correspondence check: atoms over the given names, and
   one constructor layer over a given pool *)
Definition atoms (names : list string) : list zone :=
  [NotZone; UnknownZone; InvalidZone]
    ++ map InvalidSpecId names ++ map SpecZone names.

Definition layer (pool : list zone) : list zone :=
  flat_map (fun z => map (fun i => GetItemOfZone z i) pool) pool
    ++ flat_map (fun z => flat_map (fun x => map (fun y => GetSubGridOfZone z x y) pool) pool) pool.

Definition elems1 (names : list string) : list zone :=
  atoms names ++ layer (atoms names).

(* rendering (same syntax as the harness uses for the live classes) *)
From BS Require Import Core.Show.
Local Open Scope string_scope.
Fixpoint show_zone (z : zone) : string :=
  match z with
  | NotZone => "NotZone" | UnknownZone => "UnknownZone" | InvalidZone => "InvalidZone"
  | InvalidSpecId s => "(InvalidSpecId """ ++ s ++ """)"
  | SpecZone s => "(SpecZone """ ++ s ++ """)"
  | GetItemOfZone a i => "(GetItemOfZone " ++ show_zone a ++ " " ++ show_zone i ++ ")"
  | GetSubGridOfZone a x y => "(GetSubGridOfZone " ++ show_zone a ++ " " ++ show_zone x ++ " " ++ show_zone y ++ ")"
  end.
