(* Model of dialects/filled/types.py: FilledGrid over an abstract underlying grid type G with
   the operations the Python reads from bloqade.geometry (shape, get_view, shift, scale, repeat,
   equality, positions).  A value is a plain grid or (root grid, vacancy set); vacancy sets are
   lists read as sets.  Executable definitions only. *)
From Coq Require Import QArith List Bool Arith.
From BS Require Import Core.Base.
Import ListNotations.

Definition idx := (nat * nat)%type.
Definition idx_eqb (a b : idx) : bool := Nat.eqb (fst a) (fst b) && Nat.eqb (snd a) (snd b).
Definition mem_idx (p : idx) (l : list idx) : bool := existsb (idx_eqb p) l.
Definition subset_idx (a b : list idx) : bool := forallb (fun p => mem_idx p b) a.
Definition seteq_idx (a b : list idx) : bool := subset_idx a b && subset_idx b a.
Definition all_idx (sh : nat * nat) : list idx :=
  flat_map (fun i => map (fun j => (i, j)) (seq 0 (snd sh))) (seq 0 (fst sh)).

Section Filled.
  Variable G : Type.
  Variable g_shape : G -> nat * nat.
  Variable g_view : G -> list nat -> list nat -> res G.
  Variable g_shift : G -> Q -> Q -> G.
  Variable g_scale : G -> Q -> Q -> G.
  Variable g_repeat : G -> nat -> nat -> Q -> Q -> res G.
  Variable g_eqb : G -> G -> bool.
  Variable g_xpos : G -> list Q.
  Variable g_ypos : G -> list Q.

  Inductive fval :=
  | FPlain (g : G)
  | FFilled (root : G) (vac : list idx).

  Definition root (v : fval) : G := match v with FPlain g => g | FFilled r _ => r end.
  Definition vacancies (v : fval) : list idx := match v with FPlain _ => [] | FFilled _ vac => vac end.

  (* FilledGrid.fill: start from all sites vacant (plain grid) or from the current vacancies *)
  Definition fill (v : fval) (l : list idx) : fval :=
    match v with
    | FPlain g => FFilled g (filter (fun p => negb (mem_idx p l)) (all_idx (g_shape g)))
    | FFilled r vac => FFilled r (filter (fun p => negb (mem_idx p l)) vac)
    end.

  (* FilledGrid.vacate *)
  Definition vacate (v : fval) (l : list idx) : fval :=
    match v with
    | FPlain g => FFilled g l
    | FFilled r vac => FFilled r (vac ++ l)
    end.

  (* get_view / slicing: a site of the view is vacant iff the site it shows is *)
  Definition view_vac (vac : list idx) (xi yi : list nat) : list idx :=
    flat_map (fun a => flat_map (fun b =>
       if mem_idx (nth a xi O, nth b yi O) vac then [(a, b)] else []) (seq 0 (length yi))) (seq 0 (length xi)).

  Definition fview (v : fval) (xi yi : list nat) : res fval :=
    match v with
    | FPlain g => match g_view g xi yi with Ok g' => Ok (FPlain g') | Err e => Err e end
    | FFilled r vac =>
        match g_view r xi yi with Ok r' => Ok (FFilled r' (view_vac vac xi yi)) | Err e => Err e end
    end.

  Definition fshift (v : fval) (dx dy : Q) : fval :=
    match v with
    | FPlain g => FPlain (g_shift g dx dy)
    | FFilled r vac => FFilled (g_shift r dx dy) vac
    end.

  Definition fscale (v : fval) (sx sy : Q) : fval :=
    match v with
    | FPlain g => FPlain (g_scale g sx sy)
    | FFilled r vac => FFilled (g_scale r sx sy) vac
    end.

  (* repeat tiles the vacancy pattern with the period of the grid's own shape *)
  Definition repeat_vac (sh : nat * nat) (vac : list idx) (tx ty : nat) : list idx :=
    flat_map (fun i => flat_map (fun j =>
       map (fun p => (fst p + fst sh * i, snd p + snd sh * j)%nat) vac) (seq 0 ty)) (seq 0 tx).

  Definition frepeat (v : fval) (tx ty : nat) (gx gy : Q) : res fval :=
    match v with
    | FPlain g => match g_repeat g tx ty gx gy with Ok g' => Ok (FPlain g') | Err e => Err e end
    | FFilled r vac =>
        match g_repeat r tx ty gx gy with
        | Ok r' => Ok (FFilled r' (repeat_vac (g_shape r) vac tx ty))
        | Err e => Err e
        end
    end.

  (* .positions: lexicographic product of the grid's positions, vacant sites dropped *)
  Definition fpositions (v : fval) : list (Q * Q) :=
    let vac := vacancies v in
    flat_map (fun ix => flat_map (fun iy =>
        if mem_idx (fst ix, fst iy) vac then [] else [(snd ix, snd iy)])
      (combine (seq 0 (length (g_ypos (root v)))) (g_ypos (root v))))
      (combine (seq 0 (length (g_xpos (root v)))) (g_xpos (root v))).

  (* __eq__ *)
  Definition feq (a b : fval) : bool :=
    match a, b with
    | FPlain x, FPlain y => g_eqb x y
    | FFilled r1 v1, FFilled r2 v2 => g_eqb r1 r2 && seteq_idx v1 v2
    | _, _ => false
    end.

  (* the specification vocabulary: indexed sites of the underlying grid *)
  Definition sites (g : G) : list (idx * (Q * Q)) :=
    map (fun p => ((fst (fst p), fst (snd p)), (snd (fst p), snd (snd p))))
        (list_prod (combine (seq 0 (length (g_xpos g))) (g_xpos g))
                   (combine (seq 0 (length (g_ypos g))) (g_ypos g))).

  (* occupied sites, as the property states them: sites of the underlying grid minus vacancies *)
  Definition occupied (v : fval) : list (Q * Q) :=
    map snd (filter (fun s => negb (mem_idx (fst s) (vacancies v))) (sites (root v))).
End Filled.

(* ---- instance used by the correspondence check: G := GridQ.gridv ---- *)
From BS Require Import Core.GridQ Core.Show.
From Coq Require Import String.

Definition qshape (v : gridv) : nat * nat := gshape (geom v).
Definition qfill := fill gridv qshape.
Definition qvacate := vacate gridv.
Definition qview := fview gridv gview.
Definition qshift := fshift gridv vshift.
Definition qscale := fscale gridv vscale.
Definition qrepeat := frepeat gridv qshape vrepeat.
Definition qpositions := fpositions gridv (fun v => xpos (geom v)) (fun v => ypos (geom v)).
Definition qfeq := feq gridv gridv_eqb.

(* operation chains as the harness generates them *)
Inductive fop :=
| OpFill (l : list idx) | OpVacate (l : list idx)
| OpShift (dx dy : Q) | OpScale (sx sy : Q)
| OpRepeat (tx ty : nat) (gx gy : Q)
| OpView (xi yi : list nat)
| OpParent.                                     (* filled.get_parent *)

Definition apply_op (v : fval gridv) (o : fop) : res (fval gridv) :=
  match o with
  | OpFill l => Ok (qfill v l)
  | OpVacate l => Ok (qvacate v l)
  | OpShift dx dy => Ok (qshift v dx dy)
  | OpScale sx sy => Ok (qscale v sx sy)
  | OpRepeat tx ty gx gy => qrepeat v tx ty gx gy
  | OpView xi yi => qview v xi yi
  | OpParent => match v with FFilled _ r _ => Ok (FPlain gridv r) | FPlain _ _ => Err EOther end
  end.

Fixpoint apply_ops (v : fval gridv) (ops : list fop) : res (fval gridv) :=
  match ops with
  | [] => Ok v
  | o :: r => match apply_op v o with Ok v' => apply_ops v' r | Err e => Err e end
  end.

(* canonical (sorted, duplicate-free) rendering of a vacancy set *)
Definition idx_ltb (a b : idx) : bool :=
  Nat.ltb (fst a) (fst b) || (Nat.eqb (fst a) (fst b) && Nat.ltb (snd a) (snd b)).
Fixpoint insert_idx (p : idx) (l : list idx) : list idx :=
  match l with
  | [] => [p]
  | q :: r => if idx_eqb p q then l else if idx_ltb p q then p :: l else q :: insert_idx p r
  end.
Definition canon_idx (l : list idx) : list idx := fold_right insert_idx [] l.

Local Open Scope string_scope.
Definition show_idx (p : idx) : string := "(" ++ show_nat (fst p) ++ "," ++ show_nat (snd p) ++ ")".
Definition show_fval (v : fval gridv) : string :=
  match v with
  | FPlain _ g => "plain " ++ show_gridv g
  | FFilled _ r vac => "filled " ++ show_gridv r ++ " vac=" ++ show_list show_idx (canon_idx vac)
         ++ " pos=" ++ show_list (show_pair show_Q show_Q) (qpositions v)
  end.
Definition show_fres (r : res (fval gridv)) : string := show_res show_fval r.
