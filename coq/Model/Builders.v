(* Models of the library architecture builders, written with the GridQ operations the Python
   uses: stdlib/layouts/single_col_zone.get_spec, stdlib/spec.single_zone_spec (deprecated),
   stdlib/layouts/two_col_zone.get_spec, gemini/base_spec.get_base_spec and
   gemini/logical.get_spec.  Definitions only. *)
From Coq Require Import String.
From Coq Require Import ZArith QArith List Bool.
From BS Require Import Core.Show Core.Base Core.GridQ Model.Arch.
Import ListNotations.
Local Open Scope Q_scope.

(* tuple(repeat(s, n - 1)) ; n = 0 gives the empty tuple as well *)
Definition rep (s : Q) (n : nat) : list Q := List.repeat s (n - 1).

(* single_col_zone.get_spec(num_x, num_y, spacing) *)
Definition single_col_spec (nx ny : nat) (s : Q) : archspec :=
  mkArch (mkLayout [("traps"%string, GPlain (mkGQ (rep s nx) (rep s ny) (Some 0) (Some 0)))]
                   ["traps"%string] ["traps"%string] ["traps"%string] []) [] [].

(* stdlib/spec.py single_zone_spec: the deprecated builder, transcribed separately *)
Definition deprecated_single_zone_spec (nx ny : nat) (s : Q) : archspec :=
  let x_spacing := List.repeat s (nx - 1) in
  let y_spacing := List.repeat s (ny - 1) in
  mkArch (mkLayout [("traps"%string, GPlain (mkGQ x_spacing y_spacing (Some 0) (Some 0)))]
                   ["traps"%string] ["traps"%string] ["traps"%string] []) [] [].

(* sum(repeat((gate_spacing, spacing), num_x - 1), ()) + (gate_spacing,) *)
Fixpoint pair_spacing (gs s : Q) (k : nat) : list Q :=
  match k with O => [] | S k' => gs :: s :: pair_spacing gs s k' end.
Definition two_col_xsp (nx : nat) (s gs : Q) : list Q := pair_spacing gs s (nx - 1) ++ [gs].

(* range(start, stop, 2) for start in {0, 1} *)
Fixpoint evens_from (start : nat) (count : nat) : list nat :=
  match count with O => [] | S c => start :: evens_from (S (S start)) c end.

Definition two_col_traps (nx ny : nat) (s gs : Q) : gridq :=
  mkGQ (two_col_xsp nx s gs) (rep s ny) (Some 0) (Some 0).

Definition two_col_spec (nx ny : nat) (s gs : Q) : archspec :=
  let all := two_col_traps nx ny s gs in
  let ally := seq 0 ny in
  mkArch (mkLayout [("traps"%string, GPlain all);
                    ("left_traps"%string, GSub all (evens_from 0 nx) ally);
                    ("right_traps"%string, GSub all (evens_from 1 nx) ally)]
                   ["left_traps"%string] ["traps"%string] ["traps"%string] []) [] [].

(* ---- Gemini ---- *)
(* python slicing of index lists *)
Fixpoint every_second {A} (l : list A) : list A :=
  match l with [] => [] | a :: r => a :: match r with [] => [] | _ :: r' => every_second r' end end.
Definition sl {A} (l : list A) (a b : nat) : list A := firstn (b - a) (skipn a l).     (* l[a:b] *)
Definition sl2 {A} (l : list A) (a b : nat) : list A := every_second (sl l a b).       (* l[a:b:2] *)

Definition unwrap_grid (r : res gridq) : gridq :=
  match r with Ok g => g | Err _ => mkGQ [] [] None None end.

Definition gemini_gate_zone : gridq :=
  gshift (unwrap_grid (grepeat (from_positions [0; 2] [0]) 17 5 8 10)) (-81) (-20).
Definition gemini_reservoir : gridq :=
  unwrap_grid (grepeat (from_positions [0; 6] [0]) 17 19 (8 + 2 - 6) 4).
Definition gemini_top_reservoir : gridq := gshift gemini_reservoir (-81 - 6) (10 * 3).
Definition gemini_bottom_reservoir : gridq := gshift gemini_reservoir (-81 - 6) (-3 * 10 - 4 * (19 - 1)).

Definition view_all (g : gridq) : (list nat * list nat) :=
  (seq 0 (fst (gshape g)), seq 0 (snd (gshape g))).

(* all_entangling_zone_traps[::2, :].shift(-GATE_SPACING, 0): a plain grid *)
Definition gemini_aom_sites : gridq :=
  gshift (geom (GSub gemini_gate_zone (every_second (fst (view_all gemini_gate_zone))) (snd (view_all gemini_gate_zone)))) (-2) 0.

Definition gemini_base_spec : archspec :=
  mkArch (mkLayout [("gate_zone"%string, GPlain gemini_gate_zone);
                    ("top_reservoir"%string, GPlain gemini_top_reservoir);
                    ("bottom_reservoir"%string, GPlain gemini_bottom_reservoir)]
                   [] [] [] [("aom_sites"%string, GPlain gemini_aom_sites)])
         [("row_separation"%string, 10); ("col_separation"%string, 8); ("gate_spacing"%string, 2)] [].

(* logical.get_spec: every block is a view (SubGrid) of one of the base zones; slices of
   slices compose their index lists *)
Definition gz_x := fst (view_all gemini_gate_zone).
Definition gz_y := snd (view_all gemini_gate_zone).
Definition left_x := every_second gz_x.                 (* gate_zone[::2, :] *)
Definition right_x := every_second (skipn 1 gz_x).      (* gate_zone[1::2, :] *)
Definition tr_x := fst (view_all gemini_top_reservoir).
Definition tr_y := snd (view_all gemini_top_reservoir).
Definition S_x := sl tr_x 4 (4 + 7 * 4).                (* top_reservoir[4:32, 8:18:2] *)
Definition S_y := sl2 tr_y 8 (8 + 5 * 2).
Definition M_x := sl tr_x 4 (4 + 7 * 4).                (* bottom_reservoir[4:32:, 2:12:2] *)
Definition M_y := sl2 tr_y 2 (2 + 5 * 2).
Definition GLs_x := sl left_x 2 (2 + 2 * 7).
Definition GRs_x := sl right_x 2 (2 + 2 * 7).
Definition aom_x := fst (view_all gemini_aom_sites).
Definition aom_y := snd (view_all gemini_aom_sites).

Definition gemini_logical_spec : archspec :=
  let gz := gemini_gate_zone in
  let tr := gemini_top_reservoir in
  let br := gemini_bottom_reservoir in
  let S0 := sl S_x 0 14 in let S1 := skipn 14 S_x in
  let M0 := sl M_x 0 14 in let M1 := skipn 14 M_x in
  mkArch (mkLayout
    [("gate_zone"%string, GPlain gz); ("top_reservoir"%string, GPlain tr); ("bottom_reservoir"%string, GPlain br);
     ("left_gate_zone_sites"%string, GSub gz left_x gz_y);
     ("right_gate_zone_sites"%string, GSub gz right_x gz_y);
     ("top_reservoir_sites"%string, GPlain tr);
     ("bottom_reservoir_sites"%string, GPlain br);
     ("GL_blocks"%string, GSub gz GLs_x gz_y);
     ("GR_blocks"%string, GSub gz GRs_x gz_y);
     ("GL0_block"%string, GSub gz (sl GLs_x 0 7) gz_y);
     ("GL1_block"%string, GSub gz (sl GLs_x 7 14) gz_y);
     ("GR0_block"%string, GSub gz (sl GRs_x 0 7) gz_y);
     ("GR1_block"%string, GSub gz (sl GRs_x 7 14) gz_y);
     ("SL0_block"%string, GSub tr (every_second S0) S_y);
     ("SL1_block"%string, GSub tr (every_second S1) S_y);
     ("SR0_block"%string, GSub tr (every_second (skipn 1 S0)) S_y);
     ("SR1_block"%string, GSub tr (every_second (skipn 1 S1)) S_y);
     ("ML0_block"%string, GSub br (every_second M0) M_y);
     ("ML1_block"%string, GSub br (every_second M1) M_y);
     ("MR0_block"%string, GSub br (every_second (skipn 1 M0)) M_y);
     ("MR1_block"%string, GSub br (every_second (skipn 1 M1)) M_y)]
    ["GL0_block"%string; "GL1_block"%string]
    ["gate_zone"%string]
    ["GL0_block"%string; "GL1_block"%string; "GR0_block"%string; "GR1_block"%string]
    [("aom_sites"%string, GPlain gemini_aom_sites);
     ("AOM0_block"%string, GSub gemini_aom_sites (sl aom_x 2 9) aom_y);
     ("AOM1_block"%string, GSub gemini_aom_sites (sl aom_x 9 16) aom_y)])
    [("row_separation"%string, 10); ("col_separation"%string, 8); ("gate_spacing"%string, 2)]
    [("logical_rows"%string, 5%Z); ("logical_cols"%string, 2%Z); ("code_size"%string, 7%Z)].

(* rendering of a whole spec, zone by zone *)
Local Open Scope string_scope.
Definition show_zone (e : string * gridv) : string :=
  fst e ++ "=" ++ show_gridv (snd e) ++
  match snd e with
  | GPlain _ => ""
  | GSub p xi yi => " view-of " ++ show_gridq p ++ " x" ++ show_list show_nat xi ++ " y" ++ show_list show_nat yi
  end.
Definition show_spec (a : archspec) : list string :=
  map show_zone (static_traps (lay a)) ++ map (fun e => "special " ++ show_zone e) (special_grid (lay a))
  ++ ["fillable " ++ show_list (fun s => s) (fillable (lay a));
      "has_cz " ++ show_list (fun s => s) (has_cz (lay a));
      "has_local " ++ show_list (fun s => s) (has_local (lay a));
      "float " ++ show_list (show_pair (fun s => s) show_Q) (float_constants a);
      "int " ++ show_list (show_pair (fun s => s) show_Z) (int_constants a)].
