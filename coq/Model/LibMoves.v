(* C08: the library's index-based move kernels THEMSELVES, as functions of the zone's coordinates and the index
   lists of the call (single_col_zone.cz_move = stdlib.moves.default_move_cz, two_col_zone.rearrange):
   which calls they reject, and which grids the accepted ones visit.  Coordinates are exact rationals; the
   index lists are lists of naturals (negative Python indices are outside this model and stay enumerated).
   Definitions only; the proofs are in Proofs/LibMovesProofs.v, and every enumerated call of these moves is
   compared with this model on every run (acceptance and played paths). *)
From Coq Require Import String.
From Coq Require Import ZArith QArith List Bool Arith.
From BS Require Import Core.Show Core.Base Model.Aod.
Import ListNotations.
Local Open Scope nat_scope.

Definition SALL : sel := SSlice None None None.

(* assert_sorted: indices[i-1] < indices[i] for every neighbouring pair *)
Fixpoint sorted_strictb (l : list nat) : bool :=
  match l with
  | a :: r => match r with b :: _ => (a <? b) && sorted_strictb r | [] => true end
  | [] => true
  end.
(* zone[i] raises IndexError when i is not below the number of coordinates *)
Definition in_rangeb (n : nat) (l : list nat) : bool := forallb (fun i => i <? n) l.
(* grid.shift: every coordinate moves by d *)
Definition shift_q (d : Q) (l : list Q) : list Q := map (fun x => (x + d)%Q) l.
(* Grid(...) asserts every spacing >= 0: from_positions accepts exactly the non-decreasing lists *)
Fixpoint nondecb (l : list Q) : bool :=
  match l with
  | a :: r => match r with b :: _ => Qle_bool a b && nondecb r | [] => true end
  | [] => true
  end.

(* ---------- single_zone_move_cz / default_move_cz_impl ---------- *)
Definition cz_waypoints (zx zy : list Q) (cx cy qx qy : list nat) (sx sy : Q) : (list Q * list Q) * list (list Q * list Q) :=
  let start := (pick_coords cx zx, pick_coords cy zy) in
  let target := (pick_coords qx zx, pick_coords qy zy) in
  let end_ := (shift_q sx (fst target), shift_q sy (snd target)) in
  let first := (shift_q sx (fst start), shift_q sy (snd start)) in
  let second := (fst end_, snd first) in
  (start, [first; second; end_]).

Definition cz_model (zx zy : list Q) (cx cy qx qy : list nat) (sx sy : Q) : option (list spath) :=
  if (length cx <? 1) || (length qx <? 1) then Some [] else          (* the move returns before any device call *)
  if negb ((length cx =? length qx) && (length cy =? length qy)) then None else
  if negb (sorted_strictb cx && sorted_strictb cy && sorted_strictb qx && sorted_strictb qy) then None else
  if negb (in_rangeb (length zx) cx && in_rangeb (length zy) cy && in_rangeb (length zx) qx && in_rangeb (length zy) qy) then None else
  if (length cy <? 1) || (length qy <? 1) then None else             (* sub_grid: "Indices cannot be empty" *)
  let '(s, ws) := cz_waypoints zx zy cx cy qx qy sx sy in
  let nx := length cx in
  let ny := length cy in
  Some [mkspath nx ny [SWay [s]; SSwitch On SALL SALL; SWay (s :: ws)];
        mkspath nx ny [SWay (rev (s :: ws)); SSwitch Off SALL SALL; SWay [s]]].

(* ---------- rearrange_impl / rearrange ---------- *)
Definition parking_x (zx : list Q) (i : nat) : Q :=
  (nth i zx 0 + 3 * (2 * (inject_Z (Z.of_nat (i mod 2))) - 1))%Q.
Definition parking_y_start (s e : Q) : Q := if Qle_bool s e then (s + 3)%Q else (s - 3)%Q.
Definition parking_y_end (s e : Q) : Q := if negb (Qle_bool e s) then (e - 3)%Q else (e + 3)%Q.

Definition rearrange_waypoints (zx zy : list Q) (sx sy dx dy : list nat)
  : (list Q * list Q) * list (list Q * list Q) :=
  let start := (pick_coords sx zx, pick_coords sy zy) in
  let end_ := (pick_coords dx zx, pick_coords dy zy) in
  let ys := combine (snd start) (snd end_) in
  let src_parking := (map (parking_x zx) sx, map (fun p => parking_y_start (fst p) (snd p)) ys) in
  let dst_parking := (map (parking_x zx) dx, map (fun p => parking_y_end (fst p) (snd p)) ys) in
  let mid := (fst src_parking, snd dst_parking) in
  (start, [src_parking; mid; dst_parking; end_]).

Definition rearrange_model (zx zy : list Q) (sx sy dx dy : list nat) : option (list spath) :=
  if (length sx <? 1) || (length dx <? 1) then Some [] else
  if negb ((length sx =? length dx) && (length sy =? length dy)) then None else
  if negb (sorted_strictb sx && sorted_strictb sy && sorted_strictb dx && sorted_strictb dy) then None else
  if negb (in_rangeb (length zx) sx && in_rangeb (length zy) sy && in_rangeb (length zx) dx && in_rangeb (length zy) dy) then None else
  if (length sy <? 1) || (length dy <? 1) then None else             (* sub_grid: "Indices cannot be empty" *)
  let '(w0, ws) := rearrange_waypoints zx zy sx sy dx dy in
  (* grid.from_positions of the parking grids asserts non-decreasing coordinates *)
  if negb (forallb (fun w => nondecb (fst w) && nondecb (snd w)) ws) then None else
  Some [mkspath (length sx) (length sy)
          [SWay [w0]; SSwitch On SALL SALL; SWay (w0 :: ws); SSwitch Off SALL SALL; SWay [last ws w0]]].

(* no two tones of an axis are ever driven to one coordinate (what the Grid assertion does NOT exclude) *)
Definition rearrange_strict (zx zy : list Q) (sx sy dx dy : list nat) : bool :=
  let '(w0, ws) := rearrange_waypoints zx zy sx sy dx dy in
  forallb (fun w => distinct_q (fst w) && distinct_q (snd w)) ws.

(* ---------- stdlib.waypoints.move_by_waypoints ---------- *)
Definition same_shape (a b : list Q * list Q) : bool :=
  (length (fst a) =? length (fst b)) && (length (snd a) =? length (snd b)).
(* stdlib.waypoints.move_by_waypoints: set_loc on the first waypoint, optionally switch everything on, move through the others
   (a move to a grid of another shape is an error), optionally switch everything off *)
Definition waypoints_model (ws : list (list Q * list Q)) (pick drop : bool) : option (list spath) :=
  match ws with
  | [] => Some []
  | w0 :: rest =>
      if negb (forallb (same_shape w0) rest) then None else
      let head := if pick then [SWay [w0]; SSwitch On SALL SALL; SWay (w0 :: rest)] else [SWay (w0 :: rest)] in
      let tail := if drop then [SSwitch Off SALL SALL; SWay [last rest w0]] else [] in
      Some [mkspath (length (fst w0)) (length (snd w0)) (head ++ tail)]
  end.


(* ---------- where rearrange can park: the zone-wide conditions under which every documented call is accepted (Proofs/LibMovesProofs.v) ---------- *)
Fixpoint asc_qb (l : list Q) : bool :=
  match l with
  | a :: r => match r with b :: _ => negb (Qle_bool b a) && asc_qb r | [] => true end
  | [] => true
  end.
Fixpoint gaps6b (l : list Q) : bool :=
  match l with
  | a :: r => match r with b :: _ => negb (Qle_bool b (a + 6)) && gaps6b r | [] => true end
  | [] => true
  end.
Definition parking_ok (zx zy : list Q) : bool :=
  asc_qb (map (parking_x zx) (seq 0 (length zx))) && gaps6b zy.
Definition rearrange_preconditionsb (zx zy : list Q) (sx sy dx dy : list nat) : bool :=
  (1 <=? length sx) && (1 <=? length sy) && (length sx =? length dx) && (length sy =? length dy)
  && sorted_strictb sx && sorted_strictb sy && sorted_strictb dx && sorted_strictb dy
  && in_rangeb (length zx) sx && in_rangeb (length zy) sy && in_rangeb (length zx) dx && in_rangeb (length zy) dy.


(* ---------- comparing a model path list with the paths the implementation played (coordinates up to ==) ---------- *)
Fixpoint qlist_qeqb (a b : list Q) : bool :=
  match a, b with
  | [], [] => true
  | x :: r, y :: r' => Qeq_bool x y && qlist_qeqb r r'
  | _, _ => false
  end.
Definition wp_qeqb (a b : list Q * list Q) : bool := qlist_qeqb (fst a) (fst b) && qlist_qeqb (snd a) (snd b).
Fixpoint wps_qeqb (a b : list (list Q * list Q)) : bool :=
  match a, b with
  | [], [] => true
  | x :: r, y :: r' => wp_qeqb x y && wps_qeqb r r'
  | _, _ => false
  end.
Definition onoff_eqb (a b : onoff) : bool := match a, b with On, On | Off, Off => true | _, _ => false end.
Definition saction_qeqb (a b : saction) : bool :=
  match a, b with
  | SWay u, SWay v => wps_qeqb u v
  | SSwitch k x y, SSwitch k' x' y' => onoff_eqb k k' && is_all x && is_all y && is_all x' && is_all y'
  | _, _ => false
  end.
Fixpoint sactions_qeqb (a b : list saction) : bool :=
  match a, b with
  | [], [] => true
  | x :: r, y :: r' => saction_qeqb x y && sactions_qeqb r r'
  | _, _ => false
  end.
Fixpoint spaths_qeqb (a b : list spath) : bool :=
  match a, b with
  | [], [] => true
  | x :: r, y :: r' => (p_nx x =? p_nx y) && (p_ny x =? p_ny y) && sactions_qeqb (p_actions x) (p_actions y) && spaths_qeqb r r'
  | _, _ => false
  end.
(* the implementation's verdict on one call: None = rejected, Some ps = the paths it played *)
Definition agrees (model impl : option (list spath)) : bool :=
  match model, impl with
  | None, None => true
  | Some a, Some b => spaths_qeqb a b
  | _, _ => false
  end.
