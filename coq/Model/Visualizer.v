(* Model of visualizer/interp.py + visualizer/impl/*.py: which renderer calls PathVisualizer
   issues for a program's executed events.  Paths and zones are opaque tokens. *)
From Coq Require Import String.
From Coq Require Import List Bool.
From BS Require Import Core.Show Core.Base.
Import ListNotations.
Local Open Scope string_scope.

Inductive pval :=
| PV (p : string)                       (* a path *)
| PG (members : list pval).             (* a parallel group *)

Inductive event :=
| EPlay (v : pval)
| ECz (zone ub lb : string)
| ELocalR (axis rot zone : string)
| ELocalRz (rot zone : string)
| EGlobalR (axis rot : string)
| EGlobalRz (rot : string)
| EFill (zones : list string)
| EMeasure (zones : list string).

Inductive rcall :=
| RTraps (zone name : string)
| RCz (zone ub lb : string)
| RLocalR (zone : string)
| RLocalRz (zone : string)
| RGlobalR
| RGlobalRz
| RPath (p : string).

(* initialize(): one render_traps per static trap zone, in table order *)
Definition vis_init (static_traps : list (string * string)) : list rcall :=
  map (fun e => RTraps (snd e) (fst e)) static_traps.

(* ParallelRuntime refuses members that are not plain paths *)
Fixpoint plain_members (l : list pval) : res (list string) :=
  match l with
  | [] => Ok []
  | PV p :: r => match plain_members r with Ok ps => Ok (p :: ps) | Err e => Err e end
  | PG _ :: _ => Err EInterp
  end.

Definition vis_event (e : event) : res (list rcall) :=
  match e with
  | EPlay (PV p) => Ok [RPath p]
  | EPlay (PG ms) => match plain_members ms with Ok ps => Ok (map RPath ps) | Err x => Err x end
  | ECz z ub lb => Ok [RCz z ub lb]
  | ELocalR _ _ z => Ok [RLocalR z]
  | ELocalRz _ z => Ok [RLocalRz z]
  | EGlobalR _ _ => Ok [RGlobalR]
  | EGlobalRz _ => Ok [RGlobalRz]
  | EFill _ => Ok []
  | EMeasure _ => Ok []
  end.

Fixpoint vis_events (evs : list event) : res (list rcall) :=
  match evs with
  | [] => Ok []
  | e :: r => match vis_event e, vis_events r with
              | Ok a, Ok b => Ok (a ++ b)%list
              | Err x, _ | _, Err x => Err x
              end
  end.

Definition vis (static_traps : list (string * string)) (evs : list event) : res (list rcall) :=
  match vis_events evs with Ok cs => Ok (vis_init static_traps ++ cs)%list | Err x => Err x end.

(* the specification: what the property says must be drawn *)
Definition flat_group (v : pval) : bool :=
  match v with PV _ => true | PG ms => forallb (fun m => match m with PV _ => true | PG _ => false end) ms end.
Definition flat_event (e : event) : bool := match e with EPlay v => flat_group v | _ => true end.

Definition paths_of (v : pval) : list string :=
  match v with PV p => [p] | PG ms => flat_map (fun m => match m with PV p => [p] | PG _ => [] end) ms end.

Definition calls_of (e : event) : list rcall :=
  match e with
  | EPlay v => map RPath (paths_of v)
  | ECz z ub lb => [RCz z ub lb]
  | ELocalR _ _ z => [RLocalR z]
  | ELocalRz _ z => [RLocalRz z]
  | EGlobalR _ _ => [RGlobalR]
  | EGlobalRz _ => [RGlobalRz]
  | EFill _ | EMeasure _ => []
  end.

Definition is_traps (c : rcall) : bool := match c with RTraps _ _ => true | _ => false end.

Definition show_rcall (c : rcall) : string :=
  match c with
  | RTraps z n => "traps " ++ n ++ " " ++ z
  | RCz z ub lb => "cz " ++ z ++ " " ++ ub ++ " " ++ lb
  | RLocalR z => "local_r " ++ z
  | RLocalRz z => "local_rz " ++ z
  | RGlobalR => "global_r"
  | RGlobalRz => "global_rz"
  | RPath p => "path " ++ p
  end.
Definition show_vis (r : res (list rcall)) : string :=
  match r with Ok cs => sep_by " | " (map show_rcall cs) | Err _ => "ERR" end.
