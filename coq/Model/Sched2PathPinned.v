(* Canonicalize as it was on the pinned commit 911cf5f: it collected `node.body.walk()`, i.e. ALL
   statements nested anywhere inside the block, detached each one and put it in front of the
   block.  A block of the other kind nested inside therefore lost its contents, which became
   members of the outer group next to the emptied block.  (Faithful for bodies without a further
   block of the node's own kind, which is all the refutation needs.) *)
From Coq Require Import List Bool.
From BS Require Import Model.Sched2Path.
Import ListNotations.

Fixpoint walk0 (s : sched) : list sched :=
  match s with
  | SCall c => [SCall c]
  | SBlock k body =>
      SBlock k [] :: (fix go (l : list sched) : list sched :=
                        match l with [] => [] | x :: r => walk0 x ++ go r end) body
  end.

Fixpoint canon_node0 (parent : option kind) (s : sched) : list sched :=
  match s with
  | SCall c => [SCall c]
  | SBlock k body =>
      let body' := (fix go (l : list sched) : list sched :=
                      match l with [] => [] | x :: r => canon_node0 (Some k) x ++ go r end) body in
      match parent with
      | Some pk => if kind_eqb pk k then flat_map walk0 body' else [SBlock k body']
      | None => [SBlock k body']
      end
  end.

Definition impl_block0 (k : kind) (body : list sched) : ptree :=
  match canon_node0 None (SBlock k body) with
  | [s] => match free_of (flat_map lift_stmt (to_rstmt s)) with [t] => t | _ => PGroup k [] end
  | _ => PGroup k []
  end.
