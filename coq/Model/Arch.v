(* Model of arch.py: Layout / ArchSpec identity (__eq__, __hash__ inputs), the zone index built
   by __post_init__, get_zone_id, bounding_box.  Tables are association lists in dict order,
   name sets are lists read as sets; grids are GridQ values compared as Grid.__eq__ does. *)
From Coq Require Import String.
From Coq Require Import ZArith QArith List Bool.
From BS Require Import Core.Show Core.Base Core.GridQ.
Import ListNotations.

Record layout := mkLayout {
  static_traps : list (string * gridv);
  fillable : list string;
  has_cz : list string;
  has_local : list string;
  special_grid : list (string * gridv) }.

Record archspec := mkArch {
  lay : layout;
  float_constants : list (string * Q);
  int_constants : list (string * Z) }.

Inductive lfield := FStatic | FFillable | FHasCz | FHasLocal | FSpecial.
Inductive afield := AFLayout | AFFloat | AFInt.
Definition all_lfields := [FStatic; FFillable; FHasCz; FHasLocal; FSpecial].
Definition all_afields := [AFLayout; AFFloat; AFInt].

Definition lfield_eqb (a b : lfield) : bool :=
  match a, b with
  | FStatic, FStatic | FFillable, FFillable | FHasCz, FHasCz | FHasLocal, FHasLocal | FSpecial, FSpecial => true
  | _, _ => false
  end.

(* dict == dict : same keys, equal values, order irrelevant (keys are unique in a dict) *)
Definition dict_sub {V} (veq : V -> V -> bool) (a b : list (string * V)) : bool :=
  forallb (fun kv => existsb (fun kv' => String.eqb (fst kv) (fst kv') && veq (snd kv) (snd kv')) b) a.
Definition dict_eqb {V} (veq : V -> V -> bool) (a b : list (string * V)) : bool :=
  dict_sub veq a b && dict_sub veq b a.
Definition set_sub (a b : list string) : bool := forallb (fun x => existsb (String.eqb x) b) a.
Definition set_eqb (a b : list string) : bool := set_sub a b && set_sub b a.

(* equality of one field *)
Definition lfield_equiv (f : lfield) (a b : layout) : bool :=
  match f with
  | FStatic => dict_eqb gridv_eqb (static_traps a) (static_traps b)
  | FFillable => set_eqb (fillable a) (fillable b)
  | FHasCz => set_eqb (has_cz a) (has_cz b)
  | FHasLocal => set_eqb (has_local a) (has_local b)
  | FSpecial => dict_eqb gridv_eqb (special_grid a) (special_grid b)
  end.

(* Layout.__eq__ reading the fields [fs] (reflected from the code on every run);
   Layout.__hash__ hashes a tuple of the fields [hs] *)
Definition layout_eqb_on (fs : list lfield) (a b : layout) : bool :=
  forallb (fun f => lfield_equiv f a b) fs.
Definition layout_eqb := layout_eqb_on all_lfields.

Definition Zeq_dict := dict_eqb Z.eqb.
Definition Qeq_dict := dict_eqb Qeq_bool.
Definition arch_eqb (a b : archspec) : bool :=
  layout_eqb (lay a) (lay b) && Qeq_dict (float_constants a) (float_constants b)
  && Zeq_dict (int_constants a) (int_constants b).

(* ---- the zone index ---- *)
Definition index := list (gridv * string).
Fixpoint index_find (ix : index) (g : gridv) : option string :=
  match ix with
  | [] => None
  | (h, n) :: r => if gridv_eqb h g then Some n else index_find r g
  end.

(* __post_init__: first come first served, duplicates are rejected *)
Fixpoint build_index_from (ix : index) (entries : list (string * gridv)) : res index :=
  match entries with
  | [] => Ok ix
  | (n, g) :: r =>
      match index_find ix g with
      | Some _ => Err EValue
      | None => build_index_from (ix ++ [(g, n)]) r
      end
  end.
Definition entries (l : layout) : list (string * gridv) := static_traps l ++ special_grid l.
Definition build_index (l : layout) : res index := build_index_from [] (entries l).
Definition get_zone_id (ix : index) (g : gridv) : option string := index_find ix g.

Fixpoint lookup {V} (n : string) (t : list (string * V)) : option V :=
  match t with [] => None | (k, v) :: r => if String.eqb k n then Some v else lookup n r end.

(* ---- bounding_box ---- *)
Definition qmin (a b : Q) : Q := if Qle_bool a b then a else b.
Definition qmax (a b : Q) : Q := if Qle_bool a b then b else a.
Definition omin (o : option Q) (v : Q) : option Q := match o with None => Some v | Some a => Some (qmin a v) end.
Definition omax (o : option Q) (v : Q) : option Q := match o with None => Some v | Some a => Some (qmax a v) end.

Record bbox_acc := mkAcc { bxmin : option Q; bxmax : option Q; bymin : option Q; bymax : option Q }.

(* a zone with an empty axis has no sites and is skipped *)
Definition bbox_step (acc : bbox_acc) (g : gridq) : bbox_acc :=
  match xin g, yin g with
  | Some x, Some y =>
      mkAcc (omin (bxmin acc) x) (omax (bxmax acc) (x + width g))
            (omin (bymin acc) y) (omax (bymax acc) (y + height g))
  | _, _ => acc
  end.

Definition bounding_box (l : layout) : res (Q * Q * Q * Q) :=
  let acc := fold_left bbox_step (map (fun e => geom (snd e)) (entries l)) (mkAcc None None None None) in
  match bxmin acc, bxmax acc, bymin acc, bymax acc with
  | Some a, Some b, Some c, Some d => Ok (a, b, c, d)
  | _, _, _, _ => Err EValue
  end.

(* rendering *)
Local Open Scope string_scope.
Definition show_bbox (r : res (Q * Q * Q * Q)) : string :=
  match r with
  | Ok (a, b, c, d) => show_Q a ++ " " ++ show_Q b ++ " " ++ show_Q c ++ " " ++ show_Q d
  | Err _ => "ERR"
  end.
