(* A mini move-language with the source-level semantics of @move programs (what evaluating the
   program's source directly means): device calls, nested parallel blocks (same kind merged),
   gates / fills / measurements, for/if, subroutines and closures with early return.
   Events are abstract labels: a played call is labelled by its wrapper direction, kernel and
   ORDERED argument list; what the path of such a call looks like is C01/C02/C05's business.
   Executable definitions only. *)
From Coq Require Import String.
From Coq Require Import ZArith List Bool.
From BS Require Import Core.Show Core.Base Model.Gen3.
Import ListNotations.
Local Open Scope string_scope.

(* integer / boolean expressions over the kernel's arguments and loop variables *)
Inductive iexp :=
| ILit (z : Z)
| IVar (x : string)
| IGt (a b : iexp) | ILt (a b : iexp) | IEq (a b : iexp).

Inductive arg :=
| AInt (e : iexp)
| ABool (e : iexp)
| AFloat (repr : string).          (* float literals are opaque: never computed with *)

(* callee expression of a device call *)
Inductive dexp :=
| DVar (x : string)                (* a device-function variable of the prologue *)
| DRev (d : dexp).                 (* schedule.reverse(...) written inline *)

Inductive bstmt :=                 (* inside a parallel block *)
| BCall (d : dexp) (pos : list arg) (kw : list (string * arg))
| BBlock (body : list bstmt).

Inductive stmt :=
| SCall (d : dexp) (pos : list arg) (kw : list (string * arg))
| SBlock (body : list bstmt)
| SOther (tag : string)
| SFor (x : string) (count : iexp) (body : list stmt)
| SIf (c : iexp) (t e : list stmt)
| SSub (name : string) (args : list iexp)
| SRet.

Record sub := mksub { sub_params : list string; sub_body : list stmt }.
Record prog := mkprog {
  devs : list (string * (string * bool));        (* variable -> (kernel, reversed?) *)
  sigs : list (string * list string);            (* kernel -> parameter names *)
  subs : list (string * sub);
  main_params : list string;
  main_body : list stmt }.

Definition env := list (string * Z).
Fixpoint env_get (x : string) (e : env) : option Z :=
  match e with [] => None | (y, v) :: r => if String.eqb x y then Some v else env_get x r end.

Definition bz (b : bool) : Z := if b then 1%Z else 0%Z.

Fixpoint ieval (e : env) (x : iexp) : res Z :=
  match x with
  | ILit z => Ok z
  | IVar v => match env_get v e with Some z => Ok z | None => Err EKey end
  | IGt a b => match ieval e a, ieval e b with Ok p, Ok q => Ok (bz (Z.gtb p q)) | _, _ => Err EKey end
  | ILt a b => match ieval e a, ieval e b with Ok p, Ok q => Ok (bz (Z.ltb p q)) | _, _ => Err EKey end
  | IEq a b => match ieval e a, ieval e b with Ok p, Ok q => Ok (bz (Z.eqb p q)) | _, _ => Err EKey end
  end.

Definition arg_text (e : env) (a : arg) : res string :=
  match a with
  | AInt x => match ieval e x with Ok z => Ok (show_Z z) | Err r => Err r end
  | ABool x => match ieval e x with Ok z => Ok (if Z.eqb z 0 then "False" else "True") | Err r => Err r end
  | AFloat r => Ok r
  end.

Fixpoint args_text (e : env) (l : list arg) : res (list string) :=
  match l with
  | [] => Ok []
  | a :: r => match arg_text e a, args_text e r with
              | Ok t, Ok ts => Ok (t :: ts)
              | Err x, _ | _, Err x => Err x
              end
  end.

Fixpoint lookup_s {A} (x : string) (t : list (string * A)) : option A :=
  match t with [] => None | (y, v) :: r => if String.eqb x y then Some v else lookup_s x r end.

Fixpoint dev_of (p : prog) (d : dexp) : option (string * bool) :=
  match d with
  | DVar x => lookup_s x (devs p)
  | DRev d' => match dev_of p d' with Some (k, r) => Some (k, negb r) | None => None end
  end.

(* label of one device call: direction, kernel, arguments ordered as kirin's permute_values does *)
Definition call_label (p : prog) (e : env) (d : dexp) (pos : list arg) (kw : list (string * arg)) : res string :=
  match dev_of p d with
  | None => Err EKey
  | Some (k, rev) =>
      match lookup_s k (sigs p), args_text e pos, args_text e (map snd kw) with
      | Some sg, Ok ps, Ok ks =>
          match permute string sg (ps ++ ks)%list (map fst kw) with
          | Ok ordered =>
              if Nat.eqb (length ordered) (length sg)
              then Ok ((if rev then "rev:" else "fwd:") ++ k ++ "(" ++ sep_by "," ordered ++ ")")
              else Err EValue
          | Err x => Err x
          end
      | _, _, _ => Err EKey
      end
  end.

(* members of a parallel block: nested parallel blocks are merged in place *)
Fixpoint block_members (p : prog) (e : env) (b : bstmt) : res (list string) :=
  match b with
  | BCall d pos kw => match call_label p e d pos kw with Ok l => Ok [l] | Err x => Err x end
  | BBlock body =>
      (fix go (l : list bstmt) : res (list string) :=
         match l with
         | [] => Ok []
         | x :: r => match block_members p e x, go r with
                     | Ok a, Ok b => Ok (a ++ b)%list
                     | Err x, _ | _, Err x => Err x
                     end
         end) body
  end.

Inductive flow := Normal | Returned.

Definition result := res (list string * flow).

(* a statement list, given how to run one statement: a return stops the list *)
Fixpoint exec_list (ex : env -> stmt -> result) (e : env) (l : list stmt) : result :=
  match l with
  | [] => Ok ([], Normal)
  | x :: r =>
      match ex e x with
      | Ok (ev, Normal) => match exec_list ex e r with Ok (ev', fl) => Ok ((ev ++ ev')%list, fl) | Err x => Err x end
      | Ok (ev, Returned) => Ok (ev, Returned)
      | Err x => Err x
      end
  end.

(* for x in range(n): body *)
Fixpoint exec_loop (run_body : Z -> result) (k : nat) (i : Z) : result :=
  match k with
  | O => Ok ([], Normal)
  | S k' =>
      match run_body i with
      | Ok (ev, Normal) => match exec_loop run_body k' (i + 1)%Z with Ok (ev', fl) => Ok ((ev ++ ev')%list, fl) | Err r => Err r end
      | Ok (ev, Returned) => Ok (ev, Returned)
      | Err r => Err r
      end
  end.

Fixpoint bind_params (e : env) (ps : list string) (args : list iexp) : res env :=
  match ps, args with
  | [], [] => Ok []
  | x :: ps', a :: as' =>
      match ieval e a, bind_params e ps' as' with
      | Ok z, Ok en => Ok ((x, z) :: en)
      | Err r, _ | _, Err r => Err r
      end
  | _, _ => Err EValue
  end.

(* big-step evaluation with fuel; yields the event labels in execution order *)
Fixpoint exec (fuel : nat) (p : prog) (e : env) (s : stmt) {struct fuel} : result :=
  match fuel with
  | O => Err EFuel
  | S f =>
      match s with
      | SCall d pos kw => match call_label p e d pos kw with Ok l => Ok (["play " ++ l], Normal) | Err x => Err x end
      | SBlock body =>
          match block_members p e (BBlock body) with
          | Ok ms => Ok (["play parallel{" ++ sep_by ";" ms ++ "}"], Normal)
          | Err x => Err x
          end
      | SOther t => Ok ([t], Normal)
      | SIf c t el =>
          match ieval e c with
          | Ok z => exec_list (exec f p) e (if Z.eqb z 0 then el else t)
          | Err x => Err x
          end
      | SFor x count body =>
          match ieval e count with
          | Err r => Err r
          | Ok n => exec_loop (fun i => exec_list (exec f p) ((x, i) :: e) body) (Z.to_nat n) 0%Z
          end
      | SSub name args =>
          match lookup_s name (subs p) with
          | None => Err EKey
          | Some sb =>
              match bind_params e (sub_params sb) args with
              | Err x => Err x
              | Ok en => match exec_list (exec f p) en (sub_body sb) with
                         | Ok (ev, _) => Ok (ev, Normal)      (* a return ends the subroutine only *)
                         | Err x => Err x
                         end
              end
          end
      | SRet => Ok ([], Returned)
      end
  end.

Definition run_prog (fuel : nat) (p : prog) (args : list Z) : res (list string) :=
  if negb (Nat.eqb (length args) (length (main_params p))) then Err EValue else
  match exec fuel p (combine (main_params p) args)
             (SIf (ILit 1) (main_body p) []) with
  | Ok (ev, _) => Ok ev
  | Err x => Err x
  end.

Definition show_run (r : res (list string)) : string :=
  match r with Ok l => sep_by " | " l | Err EFuel => "FUEL" | Err _ => "ERR" end.

(* ---------- inlining subroutines the way kirin's Inline does (C04, AggressiveUnroll.inline_heuristic) ----------
   Inlining pastes the callee's body into the caller.  A `return` at the top level of the callee's body becomes a
   jump to the code after the call; a `return` nested inside the callee's control flow stays a return - of the
   CALLER.  [exec_h h] is the semantics of a program in which exactly the callees admitted by the heuristic [h]
   have been inlined; [nested_ret_free] is the heuristic of bloqade.shuttle.passes.fold.AggressiveUnroll. *)
Fixpoint ret_free_stmt (s : stmt) : bool :=
  match s with
  | SRet => false
  | SIf _ t e => forallb ret_free_stmt t && forallb ret_free_stmt e
  | SFor _ _ b => forallb ret_free_stmt b
  | _ => true
  end.
Definition ret_free (l : list stmt) : bool := forallb ret_free_stmt l.
(* no return inside the control flow of the body; returns written directly in the body are fine *)
Definition nested_ret_free (body : list stmt) : bool :=
  forallb (fun s => match s with SRet => true | _ => ret_free_stmt s end) body.

(* the pasted body: a top-level return ends it normally, a return from deeper inside escapes to the caller *)
Fixpoint exec_pasted (ex : env -> stmt -> result) (e : env) (l : list stmt) : result :=
  match l with
  | [] => Ok ([], Normal)
  | x :: r =>
      match ex e x with
      | Ok (ev, Normal) => match exec_pasted ex e r with Ok (ev', fl) => Ok ((ev ++ ev')%list, fl) | Err y => Err y end
      | Ok (ev, Returned) => match x with SRet => Ok (ev, Normal) | _ => Ok (ev, Returned) end
      | Err y => Err y
      end
  end.

Fixpoint exec_h (h : list stmt -> bool) (fuel : nat) (p : prog) (e : env) (s : stmt) {struct fuel} : result :=
  match fuel with
  | O => Err EFuel
  | S f =>
      match s with
      | SCall d pos kw => match call_label p e d pos kw with Ok l => Ok (["play " ++ l], Normal) | Err x => Err x end
      | SBlock body =>
          match block_members p e (BBlock body) with
          | Ok ms => Ok (["play parallel{" ++ sep_by ";" ms ++ "}"], Normal)
          | Err x => Err x
          end
      | SOther t => Ok ([t], Normal)
      | SIf c t el =>
          match ieval e c with
          | Ok z => exec_list (exec_h h f p) e (if Z.eqb z 0 then el else t)
          | Err x => Err x
          end
      | SFor x count body =>
          match ieval e count with
          | Err r => Err r
          | Ok n => exec_loop (fun i => exec_list (exec_h h f p) ((x, i) :: e) body) (Z.to_nat n) 0%Z
          end
      | SSub name args =>
          match lookup_s name (subs p) with
          | None => Err EKey
          | Some sb =>
              match bind_params e (sub_params sb) args with
              | Err x => Err x
              | Ok en =>
                  if h (sub_body sb)
                  then exec_pasted (exec_h h f p) en (sub_body sb)                      (* inlined *)
                  else match exec_list (exec_h h f p) en (sub_body sb) with              (* a real call *)
                       | Ok (ev, _) => Ok (ev, Normal)
                       | Err x => Err x
                       end
              end
          end
      | SRet => Ok ([], Returned)
      end
  end.

Definition run_prog_h (h : list stmt -> bool) (fuel : nat) (p : prog) (args : list Z) : res (list string) :=
  if negb (Nat.eqb (length args) (length (main_params p))) then Err EValue else
  match exec_h h fuel p (combine (main_params p) args) (SIf (ILit 1) (main_body p) []) with
  | Ok (ev, _) => Ok ev
  | Err x => Err x
  end.
