(* The lattice as it was on the pinned commit 911cf5f, before the "fix:" commit
   for C18.  Kept only to document the finding (Proofs/LatticePinnedRefuted.v). *)
From Coq Require Import String Bool.
From BS Require Import Model.Lattice.
Local Open Scope string_scope.

Fixpoint zleb0 (a b : zone) : bool :=
  match a with
  | NotZone => true
  | UnknownZone => is_top b
  | InvalidZone => match b with InvalidZone | InvalidSpecId _ => true | _ => false end
  | InvalidSpecId s => match b with InvalidSpecId t => String.eqb s t | _ => false end
  | SpecZone s => match b with SpecZone t => String.eqb s t | _ => false end
  | GetItemOfZone z i =>
      match b with GetItemOfZone z' i' => zleb0 z z' && zleb0 i i' | _ => false end
  | GetSubGridOfZone z x y =>
      match b with
      | GetSubGridOfZone z' x' y' => zleb0 z z' && zleb0 x x' && zleb0 y y'
      | _ => false
      end
  end.

Definition simple_join0 (a b : zone) : zone :=
  if zleb0 a b then b else if zleb0 b a then a else UnknownZone.

Definition join0 (a b : zone) : zone :=
  match a with
  | InvalidZone => a
  | InvalidSpecId s =>
      match b with
      | InvalidSpecId t => if String.eqb s t then a else InvalidZone
      | _ => NotZone
      end
  | _ => simple_join0 a b
  end.
