(* Model of codegen/taskgen.py: TraceInterpreter + ActionTracer (implementation model,
   statement by statement) and the reference AOD model in segment vocabulary that
   property C01 describes.  Executable definitions only. *)
From Coq Require Import ZArith List String Bool.
From BS Require Import Core.Show Core.Base.
Import ListNotations.

(* what a terminating kernel presents to the tracer *)
Inductive op :=
| OSet (g : grid)
| OMove (g : grid)
| OSwitch (k : onoff) (x y : sel)
| OFail.                       (* the kernel itself raises here: failing assert, bad lookup or index *)

(* ---------- implementation model ---------- *)
Record ist := mkist { tr : list action; cur : option grid }.

Definition init_ist : ist := mkist [] None.

(* interp.trace[-1].add_waypoint(pos), guarded by the isinstance assert *)
Fixpoint add_last (t : list action) (g : grid) : option (list action) :=
  match t with
  | [] => None
  | [AWay ws] => Some [AWay (ws ++ [g])]
  | [ASwitch _ _ _ _ _] => None
  | a :: r => match add_last r g with Some r' => Some (a :: r') | None => None end
  end.

Definition istep (s : ist) (o : op) : res ist :=
  match o with
  | OSet g => Ok (mkist (tr s ++ [AWay [g]]) (Some g))
  | OMove g =>
      match cur s with
      | None => Err EInterp
      | Some c =>
          match add_last (tr s) g with
          | None => Err EAssert
          | Some t' => if shape_eqb c g then Ok (mkist t' (Some g)) else Err EInterp
          end
      end
  | OSwitch k x y =>
      match cur s with
      | None => Err EInterp
      | Some c =>
          (* the action class is chosen from the run-time selector values *)
          Ok (mkist (tr s ++ [ASwitch k (form_of x) (form_of y) x y; AWay [c]]) (Some c))
      end
  | OFail => Err EOther
  end.

Fixpoint irun (s : ist) (ops : list op) : res ist :=
  match ops with
  | [] => Ok s
  | o :: r => bind (istep s o) (fun s' => irun s' r)
  end.

(* run_trace: initialize, run, return a copy of the trace *)
Definition itrace (ops : list op) : res (list action) :=
  bind (irun init_ist ops) (fun s => Ok (tr s)).

(* ---------- reference model (the property's vocabulary) ---------- *)
Inductive rst :=
| RIdle                                           (* no set_loc yet *)
| RActive (done : list action) (seg : list grid) (pos : grid).

Definition rstep (s : rst) (o : op) : res rst :=
  match s, o with
  | _, OFail => Err EOther
  | RIdle, OSet g => Ok (RActive [] [g] g)
  | RIdle, _ => Err EInterp                       (* AOD used before any set_loc *)
  | RActive done seg pos, OSet g => Ok (RActive (done ++ [AWay seg]) [g] g)
  | RActive done seg pos, OMove g =>
      if shape_eqb pos g then Ok (RActive done (seg ++ [g]) g)
      else Err EInterp                            (* move to a different shape *)
  | RActive done seg pos, OSwitch k x y =>
      Ok (RActive (done ++ [AWay seg; ASwitch k (form_of x) (form_of y) x y]) [pos] pos)
  end.

Fixpoint rrun (s : rst) (ops : list op) : res rst :=
  match ops with
  | [] => Ok s
  | o :: r => bind (rstep s o) (fun s' => rrun s' r)
  end.

Definition rfin (s : rst) : list action :=
  match s with RIdle => [] | RActive done seg _ => done ++ [AWay seg] end.

Definition rtrace (ops : list op) : res (list action) :=
  bind (rrun RIdle ops) (fun s => Ok (rfin s)).

(* ---------- well-formed paths (C11) ---------- *)
Definition hd_grid (ws : list grid) : option grid := hd_error ws.
Fixpoint last_grid (ws : list grid) : option grid :=
  match ws with [] => None | [g] => Some g | _ :: r => last_grid r end.

Definition opt_grid_eqb (a b : option grid) : bool :=
  match a, b with Some x, Some y => grid_eqb x y | _, _ => false end.

(* non-empty, one shape *)
Definition seg_ok (ws : list grid) : bool :=
  match ws with
  | [] => false
  | g :: r => forallb (shape_eqb g) r
  end.

(* [prev] is the segment immediately before the rest of the path *)
Fixpoint wf_after (prev : list grid) (p : list action) : bool :=
  match p with
  | [] => true
  | AWay ws :: rest => seg_ok ws && wf_after ws rest
  | ASwitch _ _ _ _ _ :: rest =>
      match rest with
      | AWay ws :: rest' =>
          seg_ok ws && opt_grid_eqb (last_grid prev) (hd_grid ws) && wf_after ws rest'
      | _ => false
      end
  end.

Definition wfb (p : list action) : bool :=
  match p with
  | [] => true
  | AWay ws :: rest => seg_ok ws && wf_after ws rest
  | ASwitch _ _ _ _ _ :: _ => false
  end.

(* rendering for the correspondence *)
Definition show_trace (r : res (list action)) : string := show_res show_path r.
