(* Model of analysis/runtime.py (RuntimeAnalysis.has_quantum_runtime) over an abstraction of the
   compiled IR, together with a nondeterministic execution semantics that says when a kernel
   "acts" (some execution performs a device-visible operation).  Definitions only. *)
From Coq Require Import String.
From Coq Require Import List Bool Arith.
From BS Require Import Core.Show Core.Base.
Import ListNotations.

Inductive rstmt :=
| RDev                                   (* fill, one of the five gates, measure, or playing a path *)
| RIf (t e : list rstmt)
| RFor (body : list rstmt)
| RInvoke (m : string)                   (* func.Invoke of a named kernel *)
| RCallLam (body : option (list rstmt)). (* func.Call: Some body when the const hint resolves the
                                            closure, None when the callee is only known at run time *)

Definition rprog := list (string * list rstmt).

Fixpoint rlookup (m : string) (p : rprog) : option (list rstmt) :=
  match p with [] => None | (n, b) :: r => if String.eqb m n then Some b else rlookup m r end.

(* what the analysis has seen: a device-visible statement (is_quantum) / a dynamic call (raises) *)
Record seen := mkseen { s_dev : bool; s_dyn : bool }.
Definition seen_or (a b : seen) : seen := mkseen (s_dev a || s_dev b) (s_dyn a || s_dyn b).
Definition nothing : seen := mkseen false false.

(* one kernel body, given what an invoked kernel contributes: the is_quantum flags are OR-ed
   upwards through both branches, loop bodies, invoked kernels and resolved closures *)
Fixpoint scan_stmt (inv : string -> seen) (s : rstmt) : seen :=
  let scan_list := fix go (l : list rstmt) : seen :=
        match l with [] => nothing | x :: r => seen_or (scan_stmt inv x) (go r) end in
  match s with
  | RDev => mkseen true false
  | RIf t e => seen_or (scan_list t) (scan_list e)
  | RFor b => scan_list b
  | RInvoke m => inv m
  | RCallLam (Some b) => scan_list b
  | RCallLam None => mkseen false true
  end.
Definition scan_list (inv : string -> seen) (l : list rstmt) : seen :=
  fold_right (fun x acc => seen_or (scan_stmt inv x) acc) nothing l.

(* kirin's max_depth: an invoke nested deeper than [d] contributes a quiet frame *)
Fixpoint scan_depth (d : nat) (p : rprog) (m : string) : seen :=
  match d with
  | O => nothing
  | S d' => match rlookup m p with Some b => scan_list (scan_depth d' p) b | None => nothing end
  end.

Inductive answer := ATrue | AFalse | ARefuse.

(* has_quantum_runtime: errors are not swallowed, so a dynamic call makes the query refuse *)
Definition analyze (d : nat) (p : rprog) (body : list rstmt) : answer :=
  let s := scan_list (scan_depth d p) body in
  if s_dyn s then ARefuse else if s_dev s then ATrue else AFalse.

(* ---- executions: branches go either way, loops run any number of times, a dynamically resolved
   callee may do anything; [d] bounds the nesting of kernel invocations exactly as the
   interpreters' max_depth does ---- *)
Inductive acts (p : rprog) : nat -> list rstmt -> Prop :=
| A_dev d r : acts p d (RDev :: r)
| A_next d s r : acts p d r -> acts p d (s :: r)
| A_then d t e r : acts p d t -> acts p d (RIf t e :: r)
| A_else d t e r : acts p d e -> acts p d (RIf t e :: r)
| A_loop d b r : acts p d b -> acts p d (RFor b :: r)
| A_invoke d m b r : rlookup m p = Some b -> acts p d b -> acts p (S d) (RInvoke m :: r)
| A_closure d b r : acts p d b -> acts p d (RCallLam (Some b) :: r)
| A_dynamic d r : acts p d (RCallLam None :: r).

(* a call graph without any device-visible statement and without dynamic calls *)
Fixpoint quiet_stmt (s : rstmt) : bool :=
  let ql := fix go (l : list rstmt) : bool := match l with [] => true | x :: r => quiet_stmt x && go r end in
  match s with
  | RDev => false
  | RIf t e => ql t && ql e
  | RFor b => ql b
  | RInvoke _ => true
  | RCallLam (Some b) => ql b
  | RCallLam None => false
  end.
Definition quiet_list (l : list rstmt) : bool := forallb quiet_stmt l.
Definition quiet_prog (p : rprog) : bool := forallb (fun nb => quiet_list (snd nb)) p.

(* ---- the same scan written as ONE step over a statement, given what the statement lists inside it contribute ([go]) and what
   invoked kernels contribute ([inv]); the translator of analysis/runtime.py (harness/gen/runtime_translate.py) emits this step from
   the handlers' source and proves it equal to [step_model] on every run ---- *)
Definition step_model (inv : string -> seen) (go : list rstmt -> seen) (s : rstmt) : seen :=
  match s with
  | RDev => mkseen true false
  | RIf t e => seen_or (go t) (go e)
  | RFor b => go b
  | RInvoke m => inv m
  | RCallLam (Some b) => go b
  | RCallLam None => mkseen false true
  end.

(* ilist.map / for_each / foldl / foldr / scan: the function operand as the const hint describes it; the harness abstracts the
   statement as a loop around one call *)
Inductive hcallee := HMethod (m : string) | HLambda (b : list rstmt) | HUnknown.
Definition abs_higher (c : hcallee) : rstmt :=
  RFor [match c with HMethod m => RInvoke m | HLambda b => RCallLam (Some b) | HUnknown => RCallLam None end].
Definition higher_model (inv : string -> seen) (go : list rstmt -> seen) (c : hcallee) : seen :=
  match c with HMethod m => inv m | HLambda b => go b | HUnknown => mkseen false true end.

Definition answer_of (s : seen) : answer := if s_dyn s then ARefuse else if s_dev s then ATrue else AFalse.

Local Open Scope string_scope.
(* the statements whose "runtime" handler marks the frame (RDev), and the higher-order list statements, by class name *)
Definition device_statements : list string :=
  ["Fill"; "GlobalR"; "GlobalRz"; "LocalR"; "LocalRz"; "Measure"; "Play"; "TopHatCZ"].
Definition higher_order_statements : list string := ["Foldl"; "Foldr"; "ForEach"; "Map"; "Scan"].
Definition show_answer (a : answer) : string :=
  match a with ATrue => "True" | AFalse => "False" | ARefuse => "refuses" end.
