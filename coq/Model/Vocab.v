(* C17: which dialect categories each kernel kind accepts (the documented matrix), and
   acceptance as membership in the kind's dialect group. *)
From Coq Require Import List Bool.
Import ListNotations.

Inductive kind := KTweezer | KMove | KKernel.
Inductive cat := CAction | CSchedule | CGate | CInit | CMeasure | CAtom | CSpec | CGrid | CFilled | CPath | COther.

Definition cat_eqb (a b : cat) : bool :=
  match a, b with
  | CAction, CAction | CSchedule, CSchedule | CGate, CGate | CInit, CInit | CMeasure, CMeasure
  | CAtom, CAtom | CSpec, CSpec | CGrid, CGrid | CFilled, CFilled | CPath, CPath | COther, COther => true
  | _, _ => false
  end.

(* the documented vocabulary; filled-grid operations count as grid operations *)
Definition policy (k : kind) (c : cat) : bool :=
  match c with
  | CSpec | CGrid | CFilled => true
  | CAction => match k with KTweezer => true | _ => false end
  | CSchedule | CInit | CMeasure => match k with KMove => true | _ => false end
  | CGate => match k with KMove | KKernel => true | KTweezer => false end
  | CAtom => match k with KKernel => true | _ => false end
  | CPath | COther => false    (* no public wrapper may live there *)
  end.

Definition mem (c : cat) (l : list cat) : bool := existsb (cat_eqb c) l.

(* acceptance as the code decides it: the statement's dialect is in the kind's group *)
Definition accepts (group : kind -> list cat) (k : kind) (c : cat) : bool := mem c (group k).

Definition kinds : list kind := [KTweezer; KMove; KKernel].

Definition vocab_exact (group : kind -> list cat) (wrappers : list cat) : bool :=
  forallb (fun c => forallb (fun k => Bool.eqb (accepts group k c) (policy k c)) kinds) wrappers.

(* the tracer's guard: which code classes run_trace admits *)
Inductive code := CodeTweezer | CodeLambda | CodeMove | CodeKernel.
Definition tracer_admits (c : code) : bool :=
  match c with CodeTweezer | CodeLambda => true | _ => false end.
