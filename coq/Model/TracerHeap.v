(* C15: one TraceInterpreter instance reused over a history of run_trace calls, with Python's
   aliasing made explicit.  WayPointsAction objects are mutable cells in a heap (add_waypoint
   appends in place); the trace is a list of references; `initialize` rebinds the trace to a
   new empty list and clears the position but never clears the heap; `run_trace` returns a copy
   of the reference list (the cells stay shared with the instance); a failing call leaves
   whatever it had built.  Executable definitions only. *)
From Coq Require Import String.
From Coq Require Import ZArith List Bool.
From BS Require Import Core.Base Model.Tracer.
Import ListNotations.
Local Open Scope list_scope.

Inductive aref :=
| RSeg (a : nat)                                     (* reference to a WayPointsAction cell *)
| RSwitch (k : onoff) (fx fy : form) (x y : sel).    (* frozen dataclass: a value *)

Record hst := mkhst { heap : list (list grid); htr : list aref; hcur : option grid }.

Definition deref1 (h : list (list grid)) (r : aref) : action :=
  match r with
  | RSeg a => AWay (nth a h [])
  | RSwitch k fx fy x y => ASwitch k fx fy x y
  end.
Definition deref (h : list (list grid)) (l : list aref) : list action := map (deref1 h) l.

Fixpoint upd (h : list (list grid)) (a : nat) (g : grid) : list (list grid) :=
  match h, a with
  | [], _ => []
  | c :: r, O => (c ++ [g]) :: r
  | c :: r, S a' => c :: upd r a' g
  end.

Fixpoint last_ref (l : list aref) : option aref :=
  match l with [] => None | [r] => Some r | _ :: t => last_ref t end.

(* one statement; the new state is returned even when the statement raises *)
Definition hstep (s : hst) (o : op) : hst * option err :=
  match o with
  | OSet g => (mkhst (heap s ++ [[g]]) (htr s ++ [RSeg (length (heap s))]) (Some g), None)
  | OMove g =>
      match hcur s with
      | None => (s, Some EInterp)
      | Some c =>
          match last_ref (htr s) with
          | Some (RSeg a) =>
              let s' := mkhst (upd (heap s) a g) (htr s) (hcur s) in   (* add_waypoint first *)
              if shape_eqb c g then (mkhst (heap s') (htr s') (Some g), None)
              else (s', Some EInterp)
          | _ => (s, Some EAssert)
          end
      end
  | OSwitch k x y =>
      match hcur s with
      | None => (s, Some EInterp)
      | Some c =>
          (mkhst (heap s ++ [[c]])
                 (htr s ++ [RSwitch k (form_of x) (form_of y) x y; RSeg (length (heap s))])
                 (Some c), None)
      end
  | OFail => (s, Some EOther)
  end.

Fixpoint hrun (s : hst) (ops : list op) : hst * option err :=
  match ops with
  | [] => (s, None)
  | o :: r => match hstep s o with
              | (s', None) => hrun s' r
              | (s', Some e) => (s', Some e)
              end
  end.

(* run_trace: initialize (new trace list, no position), run, return trace.copy() *)
Definition hcall (s : hst) (ops : list op) : hst * option (list aref) :=
  match hrun (mkhst (heap s) [] None) ops with
  | (s', None) => (s', Some (htr s'))
  | (s', Some _) => (s', None)
  end.

(* a history of calls on one instance: the returned values (as references) and the final state *)
Fixpoint run_history (s : hst) (calls : list (list op)) : list (option (list aref)) * hst :=
  match calls with
  | [] => ([], s)
  | ops :: rest =>
      let (s1, r) := hcall s ops in
      let (rs, sf) := run_history s1 rest in
      (r :: rs, sf)
  end.

(* what a holder of an earlier result sees when looking at it with the heap as it is now *)
Definition observe (h : list (list grid)) (r : option (list aref)) : option (list action) :=
  option_map (deref h) r.

Definition fresh_result (ops : list op) : option (list action) :=
  match itrace ops with Ok p => Some p | Err _ => None end.

Definition new_instance : hst := mkhst [] [] None.

(* addresses held by a result: used to state that results of different calls share no cell *)
Definition addrs (l : list aref) : list nat :=
  flat_map (fun r => match r with RSeg a => [a] | _ => [] end) l.

Definition show_obs (o : option (list action)) : string :=
  match o with Some p => show_path p | None => "ERR"%string end.
