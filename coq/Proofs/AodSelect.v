(* C08: transport with the tones selected by index lists (gemini.logical.move_by_shift / vertical_shift):
   only the selected tones are lit, picked up on the first grid and released on the last one. *)
From Coq Require Import String.
From Coq Require Import ZArith QArith List Bool Arith Lia.
From BS Require Import Core.Base Model.Aod Proofs.AodProofs Proofs.AodRoundTrip.
Import ListNotations.
Local Open Scope nat_scope.

Definition sel_tones (ix : list nat) (cs : list Q) : list (nat * Q) := map (fun i => (i, nth i cs 0%Q)) ix.

Lemma tone_on_sel_notin ix cs k : ~ In k ix -> tone_on k (sel_tones ix cs) = false.
Proof.
  intros H. unfold tone_on, sel_tones. apply not_true_is_false. intros X. apply existsb_exists in X.
  destruct X as [t [I E]]. apply in_map_iff in I. destruct I as [i [<- I]]. simpl in E. apply Nat.eqb_eq in E. subst. contradiction.
Qed.

Lemma add_tones_sel : forall ix pre cs, NoDup (pre ++ ix) ->
  fold_left (fun acc i => if tone_on i acc then acc else acc ++ [(i, nth i cs 0%Q)]) ix (sel_tones pre cs) = sel_tones (pre ++ ix) cs.
Proof.
  induction ix as [|i r IH]; intros pre cs N; simpl; [rewrite app_nil_r; reflexivity|].
  rewrite tone_on_sel_notin.
  - replace (sel_tones pre cs ++ [(i, nth i cs 0%Q)]) with (sel_tones (pre ++ [i]) cs) by (unfold sel_tones; rewrite map_app; reflexivity).
    rewrite IH; rewrite <- app_assoc; [reflexivity | exact N].
  - apply NoDup_remove_2 in N. intros I. apply N. apply in_or_app. left. exact I.
Qed.
Lemma add_tones_sel_all ix cs : NoDup ix -> add_tones [] ix cs = sel_tones ix cs.
Proof. intros N. unfold add_tones. apply (add_tones_sel ix [] cs N). Qed.

Lemma move_tones_sel ix cs cs' : move_tones (sel_tones ix cs) cs' = sel_tones ix cs'.
Proof. unfold move_tones, sel_tones. rewrite map_map. apply map_ext. intros i. reflexivity. Qed.
Lemma map_snd_sel ix cs : map snd (sel_tones ix cs) = pick_coords ix cs.
Proof. unfold sel_tones, pick_coords. rewrite map_map. reflexivity. Qed.
Lemma remove_tones_sel ix cs : remove_tones (sel_tones ix cs) ix = [].
Proof.
  unfold remove_tones, sel_tones.
  assert (G : forall l, (forall i, In i l -> In i ix) ->
            filter (fun t : nat * Q => negb (existsb (Nat.eqb (fst t)) ix)) (map (fun i => (i, nth i cs 0%Q)) l) = []).
  { induction l as [|i r IH]; intros H; [reflexivity|]. simpl.
    assert (X : existsb (Nat.eqb i) ix = true) by (apply existsb_exists; exists i; split; [apply H; left; reflexivity | apply Nat.eqb_refl]).
    rewrite X. simpl. apply IH. intros j I. apply H. right. exact I. }
  apply G. auto.
Qed.
Lemma same_place_sel ix cs : same_place (sel_tones ix cs) cs = true.
Proof. unfold same_place, sel_tones. apply forallb_forall. intros t I. apply in_map_iff in I. destruct I as [i [<- _]]. simpl. apply Qeqb_refl. Qed.

Lemma tones_ok_sel ix cs : NoDup ix -> distinct_q (pick_coords ix cs) = true -> tones_ok (sel_tones ix cs).
Proof.
  induction ix as [|i r IH]; intros N D; simpl; [exact I|]. inversion N as [|? ? Hi N']; subst.
  simpl in D. apply andb_true_iff in D. destruct D as [D1 D2]. split; [|apply IH; assumption].
  intros t' I. apply in_map_iff in I. destruct I as [k [<- Ik]]. simpl. split.
  - intros E. subst. contradiction.
  - apply negb_true_iff in D1. apply not_true_is_false. intros E.
    assert (X : existsb (Qeq_bool (nth i cs 0%Q)) (pick_coords r cs) = true).
    { apply existsb_exists. exists (nth k cs 0%Q). split; [exact (in_map (fun i0 => nth i0 cs 0%Q) r k Ik) | rewrite Qeqb_sym; exact E]. }
    rewrite X in D1. discriminate.
Qed.

Lemma in_spots_sel ix iy cx cy sp : In sp (spots_of (sel_tones ix cx) (sel_tones iy cy)) ->
  exists i j, In i ix /\ In j iy /\ sp = ((i, j), (nth i cx 0%Q, nth j cy 0%Q)).
Proof.
  unfold spots_of, sel_tones. intros I. apply in_flat_map in I. destruct I as [x [Ix I]]. apply in_map_iff in I. destruct I as [y [<- Iy]].
  apply in_map_iff in Ix, Iy. destruct Ix as [i [<- Ii]], Iy as [j [<- Ij]]. exists i, j. auto.
Qed.
Lemma in_spots_sel_conv ix iy cx cy i j : In i ix -> In j iy ->
  In ((i, j), (nth i cx 0%Q, nth j cy 0%Q)) (spots_of (sel_tones ix cx) (sel_tones iy cy)).
Proof.
  intros Hi Hj. unfold spots_of, sel_tones. apply in_flat_map. exists (i, nth i cx 0%Q). split.
  - apply in_map_iff. exists i. auto.
  - apply in_map_iff. exists (j, nth j cy 0%Q). split; [reflexivity|]. apply in_map_iff. exists j. auto.
Qed.

Definition wp_sel_ok (nx ny : nat) (ix iy : list nat) (w : list Q * list Q) : Prop :=
  length (fst w) = nx /\ length (snd w) = ny /\ distinct_q (pick_coords ix (fst w)) = true /\ distinct_q (pick_coords iy (snd w)) = true.

Lemma way_off_sel nx ny ix iy : forall ws T O H first cur, Forall (wp_sel_ok nx ny ix iy) ws ->
  sim_way (mkast T O [] [] H) first nx ny ws cur = AOk (mkast T O [] [] H, cur_after ws cur).
Proof.
  induction ws as [|w r IH]; intros T O H first cur F; [reflexivity|].
  inversion F as [|? ? Hw F']; subst. destruct Hw as [Lx [Ly _]]. simpl. unfold sim_waypoint. rewrite Lx, Ly, !Nat.eqb_refl. simpl.
  rewrite andb_false_r. simpl. apply IH, F'.
Qed.

Lemma way_on_sel nx ny ix iy : forall ws T O H cx cy first cur, Forall (wp_sel_ok nx ny ix iy) ws ->
  (first = true -> match ws with w :: _ => w = (cx, cy) | [] => True end) ->
  sim_way (mkast T O (sel_tones ix cx) (sel_tones iy cy) H) first nx ny ws cur =
  AOk (mkast T O (sel_tones ix (fst (last ws (cx, cy)))) (sel_tones iy (snd (last ws (cx, cy)))) H, cur_after ws cur).
Proof.
  induction ws as [|w r IH]; intros T O H cx cy first cur F Hf; [reflexivity|].
  inversion F as [|? ? Hw F']; subst. destruct Hw as [Lx [Ly [Dx Dy]]].
  cbn [sim_way]. unfold sim_waypoint. rewrite Lx, Ly, !Nat.eqb_refl. cbn [negb andb].
  assert (J : first && negb match H with [] => true | _ :: _ => false end &&
              negb (same_place (sel_tones ix cx) (fst w) && same_place (sel_tones iy cy) (snd w)) = false).
  { destruct first; [|reflexivity]. specialize (Hf eq_refl). subst w. simpl fst. simpl snd.
    rewrite !same_place_sel. simpl. apply andb_false_r. }
  cbn [xon yon held]. rewrite J. unfold with_tones, tones_apart. cbn [traps occ xon yon held].
  rewrite !move_tones_sel, !map_snd_sel, Dx, Dy. cbn [negb andb].
  rewrite (IH T O H (fst w) (snd w) false (Some w) F' (fun E => ltac:(discriminate))).
  destruct r as [|w' r']; [destruct w; reflexivity|].
  change (last (w :: w' :: r') (cx, cy)) with (last (w' :: r') (cx, cy)).
  rewrite (last_default_irrelevant w' r' (fst w, snd w) (cx, cy)). reflexivity.
Qed.

Lemma nodup_nat_NoDup l : nodup_nat l = true -> NoDup l.
Proof.
  induction l as [|a r IH]; simpl; intros H; [constructor|]. apply andb_true_iff in H. destruct H as [H1 H2].
  constructor; [|apply IH, H2]. intros I. apply negb_true_iff in H1.
  assert (X : existsb (Nat.eqb a) r = true) by (apply existsb_exists; exists a; split; [exact I | apply Nat.eqb_refl]).
  rewrite X in H1. discriminate.
Qed.

Lemma select_list n l : in_range n l = true -> select (SList l) n = AOk (map Z.to_nat l).
Proof. intros H. unfold select. unfold in_range in H. rewrite H. reflexivity. Qed.

Lemma switch_on_sel nx ny T O H cx cy lx ly :
  in_range nx lx = true -> in_range ny ly = true -> NoDup (map Z.to_nat lx) -> NoDup (map Z.to_nat ly) ->
  distinct_q (pick_coords (map Z.to_nat lx) cx) = true -> distinct_q (pick_coords (map Z.to_nat ly) cy) = true ->
  sim_switch (mkast T O [] [] H) On (SList lx) (SList ly) nx ny (cx, cy) =
  fold_a pick1 (mkast T O (sel_tones (map Z.to_nat lx) cx) (sel_tones (map Z.to_nat ly) cy) H)
               (spots_of (sel_tones (map Z.to_nat lx) cx) (sel_tones (map Z.to_nat ly) cy)).
Proof.
  intros Rx Ry Nx Ny Dx Dy. unfold sim_switch. rewrite (select_list nx lx Rx), (select_list ny ly Ry).
  unfold with_tones, tones_apart. cbn [traps occ xon yon held fst snd].
  rewrite (add_tones_sel_all _ cx Nx), (add_tones_sel_all _ cy Ny), !map_snd_sel, Dx, Dy. cbn [negb andb].
  f_equal. apply filter_all_true. intros a _. reflexivity.
Qed.

Lemma switch_off_sel nx ny T O H cx cy lx ly c : in_range nx lx = true -> in_range ny ly = true ->
  sim_switch (mkast T O (sel_tones (map Z.to_nat lx) cx) (sel_tones (map Z.to_nat ly) cy) H) Off (SList lx) (SList ly) nx ny c =
  fold_a drop1 (mkast T O [] [] H) (spots_of (sel_tones (map Z.to_nat lx) cx) (sel_tones (map Z.to_nat ly) cy)).
Proof.
  intros Rx Ry. unfold sim_switch. rewrite (select_list nx lx Rx), (select_list ny ly Ry).
  unfold with_tones. cbn [traps occ xon yon held]. rewrite !remove_tones_sel. f_equal. apply filter_all_true. intros a _. reflexivity.
Qed.

Theorem transport_sel nx ny (T : list pos) (O : list (pos * nat)) lx ly (w0 : list Q * list Q) (ws : list (list Q * list Q)) :
  let ix := map Z.to_nat lx in let iy := map Z.to_nat ly in
  let wn := last (w0 :: ws) w0 in
  let Lsrc := spots_of (sel_tones ix (fst w0)) (sel_tones iy (snd w0)) in
  in_range nx lx = true -> in_range ny ly = true -> NoDup ix -> NoDup iy ->
  wp_sel_ok nx ny ix iy w0 -> Forall (wp_sel_ok nx ny ix iy) ws ->
  (forall i j, In i ix -> In j iy -> existsb (pos_eqb (nth i (fst w0) 0%Q, nth j (snd w0) 0%Q)) T = true) ->
  (forall i j, In i ix -> In j iy -> existsb (pos_eqb (nth i (fst wn) 0%Q, nth j (snd wn) 0%Q)) T = true) ->
  (forall i j, In i ix -> In j iy ->
     occ_find (nth i (fst wn) 0%Q, nth j (snd wn) 0%Q) O = None \/ has_pos (nth i (fst wn) 0%Q, nth j (snd wn) 0%Q) Lsrc = true) ->
  occ_wf O = true ->
  exists st', sim_paths (mkast T O [] [] [])
                [mkspath nx ny [SWay [w0]; SSwitch On (SList lx) (SList ly); SWay (w0 :: ws); SSwitch Off (SList lx) (SList ly); SWay [wn]]] = AOk st' /\
    traps st' = T /\ xon st' = [] /\ yon st' = [] /\ held st' = [] /\
    (forall i j, In i ix -> In j iy ->
       occ_find (nth i (fst wn) 0%Q, nth j (snd wn) 0%Q) (occ st') = occ_find (nth i (fst w0) 0%Q, nth j (snd w0) 0%Q) O) /\
    (forall p, has_pos p (spots_of (sel_tones ix (fst wn)) (sel_tones iy (snd wn))) = false ->
       occ_find p (occ st') = if has_pos p Lsrc then None else occ_find p O).
Proof.
  intros ix iy wn Lsrc Rx Ry Nx Ny H0 Hws Ht0 Htn Hvac Hocc.
  assert (Hall : Forall (wp_sel_ok nx ny ix iy) (w0 :: ws)) by (constructor; assumption).
  assert (Hn : wp_sel_ok nx ny ix iy wn).
  { unfold wn. apply (proj1 (Forall_forall _ _) Hall). destruct ws as [|v r]; [left; reflexivity|].
    pose proof (@app_removelast_last _ (w0 :: v :: r) w0 ltac:(discriminate)) as E. rewrite E at 2. apply in_or_app. right. left. reflexivity. }
  destruct w0 as [sx sy]. destruct wn as [ex ey] eqn:Ewn. simpl fst in *. simpl snd in *.
  destruct H0 as [Lx [Ly [Dx Dy]]]. destruct Hn as [Mx [My [Ex Ey]]]. simpl fst in *. simpl snd in *.
  set (Ldst := spots_of (sel_tones ix ex) (sel_tones iy ey)).
  assert (OkS : spots_ok Lsrc) by (unfold Lsrc; apply spots_ok_product; apply tones_ok_sel; assumption).
  assert (OkD : spots_ok Ldst) by (unfold Ldst; apply spots_ok_product; apply tones_ok_sel; assumption).
  assert (TrS : forall st, traps st = T -> forall sp, In sp Lsrc -> is_trap st (snd sp) = true).
  { intros st Et sp I. apply in_spots_sel in I. destruct I as [i [j [Hi [Hj ->]]]]. unfold is_trap. rewrite Et. simpl. apply Ht0; assumption. }
  assert (TrD : forall st, traps st = T -> forall sp, In sp Ldst -> is_trap st (snd sp) = true).
  { intros st Et sp I. apply in_spots_sel in I. destruct I as [i [j [Hi [Hj ->]]]]. unfold is_trap. rewrite Et. simpl. apply Htn; assumption. }
  destruct (picks_spec Lsrc (mkast T O (sel_tones ix sx) (sel_tones iy sy) []) OkS) as [st2 [E2 [[F1 [F2 F3]] [W2 [O2 H2]]]]].
  { apply TrS. reflexivity. }
  { split; [exact Hocc | constructor]. }
  { intros sp _. reflexivity. }
  destruct st2 as [T2 Oc2 X2 Y2 Hd2]. simpl in F1, F2, F3, O2, H2. subst T2 X2 Y2.
  destruct (drops_spec Ldst (mkast T Oc2 [] [] Hd2) OkD) as [st4 [E4 [[G1 [G2 G3]] [W4 [O4 H4]]]]].
  { apply TrD. reflexivity. }
  { exact W2. }
  { intros sp a I _. simpl. rewrite O2. destruct (has_pos (snd sp) Lsrc) eqn:Hp; [reflexivity|].
    apply in_spots_sel in I. destruct I as [i [j [Hi [Hj ->]]]]. simpl snd in *.
    destruct (Hvac i j Hi Hj) as [V | V]; [exact V|]. fold Lsrc in V. rewrite V in Hp. discriminate. }
  destruct st4 as [T4 Oc4 X4 Y4 Hd4]. simpl in G1, G2, G3, O4, H4. subst T4 X4 Y4.
  exists (mkast T Oc4 [] [] Hd4).
  split; [|split; [reflexivity | split; [reflexivity | split; [reflexivity | split; [|split]]]]].
  - unfold sim_paths. cbn [fold_a p_nx p_ny p_actions sim_actions].
    assert (W0 : wp_sel_ok nx ny ix iy (sx, sy)) by (repeat split; assumption).
    rewrite (way_off_sel nx ny ix iy [(sx, sy)] T O [] true None (Forall_cons _ W0 (Forall_nil _))). cbn [cur_after fold_left].
    rewrite (switch_on_sel nx ny T O [] sx sy lx ly Rx Ry Nx Ny Dx Dy). fold ix iy. fold Lsrc. rewrite E2.
    rewrite (way_on_sel nx ny ix iy ((sx, sy) :: ws) T Oc2 Hd2 sx sy true (Some (sx, sy)) Hall (fun _ => eq_refl)).
    assert (Ewn' : last ((sx, sy) :: ws) (sx, sy) = (ex, ey)) by exact Ewn.
    rewrite Ewn'. simpl fst. simpl snd. rewrite cur_after_cons.
    unfold ix, iy. rewrite (switch_off_sel nx ny T Oc2 Hd2 ex ey lx ly (last ((sx, sy) :: ws) (sx, sy)) Rx Ry). fold ix iy. fold Ldst. rewrite E4.
    assert (Wn : wp_sel_ok nx ny ix iy (ex, ey)) by (repeat split; assumption).
    rewrite (way_off_sel nx ny ix iy [(ex, ey)] T Oc4 Hd4 true _ (Forall_cons _ Wn (Forall_nil _))). reflexivity.
  - simpl. apply held_all_none. intros t. rewrite H4. simpl. destruct (has_id t Ldst) eqn:Hi; [reflexivity|].
    rewrite H2. destruct (find_id t Lsrc) as [sp|] eqn:Fi; [|reflexivity].
    exfalso. destruct (find_some _ _ Fi) as [I E]. apply spot_eqb_eq in E. apply in_spots_sel in I.
    destruct I as [i [j [Hi' [Hj' ->]]]]. simpl in E. subst t.
    assert (X : has_id (i, j) Ldst = true).
    { unfold has_id. apply existsb_exists. eexists. split; [apply (in_spots_sel_conv ix iy ex ey i j Hi' Hj') | apply spot_eqb_refl]. }
    rewrite X in Hi. discriminate.
  - intros i j Hi Hj. simpl. rewrite O4. simpl.
    pose proof (find_pos_in Ldst ((i, j), (nth i ex 0%Q, nth j ey 0%Q)) OkD (in_spots_sel_conv ix iy ex ey i j Hi Hj)) as Fp.
    pose proof (find_id_in Lsrc ((i, j), (nth i sx 0%Q, nth j sy 0%Q)) OkS (in_spots_sel_conv ix iy sx sy i j Hi Hj)) as Fi.
    simpl snd in Fp. simpl fst in Fi. rewrite Fp. simpl fst. rewrite H2, Fi. simpl snd.
    destruct (occ_find (nth i sx 0%Q, nth j sy 0%Q) O) as [a|]; [reflexivity|].
    rewrite O2. destruct (has_pos (nth i ex 0%Q, nth j ey 0%Q) Lsrc) eqn:Hp; [reflexivity|].
    destruct (Hvac i j Hi Hj) as [V | V]; [exact V|]. fold Lsrc in V. rewrite V in Hp. discriminate.
  - intros p Hp. simpl. rewrite O4. simpl. fold Ldst in Hp. rewrite (find_pos_none p Ldst Hp). apply O2.
Qed.

(* ---------- from the boolean recogniser to the theorem ---------- *)
Lemma zlist_eqb_eq a : forall b, zlist_eqb a b = true -> a = b.
Proof.
  unfold zlist_eqb. induction a as [|x r IH]; intros [|y r'] H; simpl in H; try discriminate; [reflexivity|].
  apply andb_true_iff in H. destruct H as [L H]. apply andb_true_iff in H. destruct H as [E H]. apply Z.eqb_eq in E. subst.
  f_equal. apply IH. rewrite H. simpl in L. rewrite L. reflexivity.
Qed.
Lemma wp_sel_okb_ok nx ny ix iy w : wp_sel_okb nx ny ix iy w = true -> wp_sel_ok nx ny ix iy w.
Proof.
  unfold wp_sel_okb, wp_sel_ok. intros H. apply andb_true_iff in H. destruct H as [H D2]. apply andb_true_iff in H. destruct H as [H D1].
  apply andb_true_iff in H. destruct H as [L1 L2]. apply Nat.eqb_eq in L1, L2. auto.
Qed.
Lemma in_sel_sites ix iy w i j : In i ix -> In j iy -> In (nth i (fst w) 0%Q, nth j (snd w) 0%Q) (sel_sites ix iy w).
Proof.
  intros Hi Hj. unfold sel_sites, pick_coords. apply in_flat_map. exists (nth i (fst w) 0%Q). split.
  - exact (in_map (fun k => nth k (fst w) 0%Q) ix i Hi).
  - apply in_map_iff. exists (nth j (snd w) 0%Q). split; [reflexivity|]. exact (in_map (fun k => nth k (snd w) 0%Q) iy j Hj).
Qed.
Lemma has_pos_of_sel_sites ix iy w p :
  existsb (pos_eqb p) (sel_sites ix iy w) = true -> has_pos p (spots_of (sel_tones ix (fst w)) (sel_tones iy (snd w))) = true.
Proof.
  intros H. apply existsb_exists in H. destruct H as [q [I E]]. unfold sel_sites, pick_coords in I.
  apply in_flat_map in I. destruct I as [x [Ix I]]. apply in_map_iff in I. destruct I as [y [<- Iy]].
  apply in_map_iff in Ix, Iy. destruct Ix as [i [<- Hi]], Iy as [j [<- Hj]].
  unfold has_pos. apply existsb_exists. exists ((i, j), (nth i (fst w) 0%Q, nth j (snd w) 0%Q)). split.
  - apply in_spots_sel_conv; assumption.
  - exact E.
Qed.

Lemma recognise_transport_sel_sound ps nx ny lx ly w0 ws : recognise_transport_sel ps = Some (nx, ny, lx, ly, w0, ws) ->
  ps = [mkspath nx ny [SWay [w0]; SSwitch On (SList lx) (SList ly); SWay (w0 :: ws); SSwitch Off (SList lx) (SList ly); SWay [last (w0 :: ws) w0]]].
Proof.
  unfold recognise_transport_sel. intros H.
  repeat match goal with
         | H : match ?x with _ => _ end = Some _ |- _ => destruct x eqn:?; try discriminate
         end.
  inversion H; subst.
  repeat match goal with
         | H : _ && _ = true |- _ => apply andb_true_iff in H; destruct H
         end.
  repeat match goal with
         | H : zlist_eqb _ _ = true |- _ => apply zlist_eqb_eq in H
         | H : wp_eqb _ _ = true |- _ => apply wp_eqb_eq in H
         end.
  subst. reflexivity.
Qed.

Theorem recognised_transport_sel_executable T O ps nx ny lx ly w0 ws :
  recognise_transport_sel ps = Some (nx, ny, lx, ly, w0, ws) -> transport_sel_ok T O ps = true ->
  let ix := map Z.to_nat lx in let iy := map Z.to_nat ly in
  let wn := last (w0 :: ws) w0 in
  exists st', sim_paths (mkast T O [] [] []) ps = AOk st' /\
    traps st' = T /\ xon st' = [] /\ yon st' = [] /\ held st' = [] /\
    (forall i j, In i ix -> In j iy ->
       occ_find (nth i (fst wn) 0%Q, nth j (snd wn) 0%Q) (occ st') = occ_find (nth i (fst w0) 0%Q, nth j (snd w0) 0%Q) O) /\
    (forall p, has_pos p (spots_of (sel_tones ix (fst wn)) (sel_tones iy (snd wn))) = false ->
       occ_find p (occ st') = if has_pos p (spots_of (sel_tones ix (fst w0)) (sel_tones iy (snd w0))) then None else occ_find p O).
Proof.
  intros R H ix iy wn. unfold transport_sel_ok in H. rewrite R in H. fold ix iy in H.
  repeat match goal with
         | H : _ && _ = true |- _ => apply andb_true_iff in H; destruct H
         end.
  rewrite (recognise_transport_sel_sound _ _ _ _ _ _ _ R).
  match goal with
  | R1 : in_range nx lx = true, R2 : in_range ny ly = true, N1 : nodup_nat ix = true, N2 : nodup_nat iy = true,
    W0 : wp_sel_okb nx ny ix iy w0 = true, Ws : forallb (wp_sel_okb nx ny ix iy) ws = true,
    T0 : forallb _ (sel_sites ix iy w0) = true, Tn : forallb (fun p => existsb (pos_eqb p) T) (sel_sites ix iy _) = true,
    Ow : occ_wfb O = true, V : forallb (fun p => match occ_find p O with None => true | Some _ => _ end) _ = true |- _ =>
      apply (transport_sel nx ny T O lx ly w0 ws R1 R2 (nodup_nat_NoDup _ N1) (nodup_nat_NoDup _ N2) (wp_sel_okb_ok _ _ _ _ _ W0))
  end.
  - apply Forall_forall. intros w I. apply wp_sel_okb_ok.
    match goal with Ws : forallb (wp_sel_okb nx ny ix iy) ws = true |- _ => apply (proj1 (forallb_forall _ _) Ws w I) end.
  - intros i j Hi Hj.
    match goal with T0 : forallb (fun p => existsb (pos_eqb p) T) (sel_sites ix iy w0) = true |- _ =>
      apply (proj1 (forallb_forall _ _) T0 _ (in_sel_sites ix iy w0 i j Hi Hj)) end.
  - intros i j Hi Hj.
    match goal with Tn : forallb (fun p => existsb (pos_eqb p) T) (sel_sites ix iy (last (w0 :: ws) w0)) = true |- _ =>
      apply (proj1 (forallb_forall _ _) Tn _ (in_sel_sites ix iy _ i j Hi Hj)) end.
  - intros i j Hi Hj.
    match goal with V : forallb (fun p => match occ_find p O with None => true | Some _ => _ end) _ = true |- _ =>
      pose proof (proj1 (forallb_forall _ _) V _ (in_sel_sites ix iy (last (w0 :: ws) w0) i j Hi Hj)) as V' end.
    set (q := (nth i (fst (last (w0 :: ws) w0)) 0%Q, nth j (snd (last (w0 :: ws) w0)) 0%Q)) in *.
    cbv beta in V'. destruct (occ_find q O); [right; apply (has_pos_of_sel_sites ix iy w0 _ V') | left; reflexivity].
  - match goal with Ow : occ_wfb O = true |- _ => rewrite <- occ_wfb_wf; exact Ow end.
Qed.
