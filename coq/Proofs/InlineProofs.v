(* C04: inlining exactly the callees admitted by AggressiveUnroll.inline_heuristic (no return nested in the callee's
   control flow) does not change what a program executes; inlining everything does. *)
From Coq Require Import String.
From Coq Require Import ZArith List Bool Lia.
From BS Require Import Core.Show Core.Base Model.Gen3 Model.MoveLang.
Import ListNotations.

(* a list of statements without any return finishes normally *)
Lemma loop_normal (rb : Z -> result) : (forall i ev fl, rb i = Ok (ev, fl) -> fl = Normal) ->
  forall k i ev fl, exec_loop rb k i = Ok (ev, fl) -> fl = Normal.
Proof.
  intros H. induction k as [|k IH]; intros i ev fl E; simpl in E; [inversion E; reflexivity|].
  destruct (rb i) as [[ev1 fl1]|er] eqn:E1; [|discriminate].
  rewrite (H _ _ _ E1) in E. destruct (exec_loop rb k (i + 1)%Z) as [[ev2 fl2]|er] eqn:E2; [|discriminate].
  inversion E; subst. apply (IH _ _ _ E2).
Qed.

Lemma ret_free_normal : forall f p,
  (forall e s ev fl, ret_free_stmt s = true -> exec f p e s = Ok (ev, fl) -> fl = Normal) /\
  (forall e l ev fl, ret_free l = true -> exec_list (exec f p) e l = Ok (ev, fl) -> fl = Normal).
Proof.
  induction f as [|f IH]; intros p.
  - split.
    + intros e s ev fl _ E. simpl in E. discriminate.
    + intros e l. induction l as [|x r IHl]; intros ev fl R E; cbn [exec_list exec] in E; [inversion E; reflexivity | discriminate].
  - destruct (IH p) as [IHs IHl].
    assert (S1 : forall e s ev fl, ret_free_stmt s = true -> exec (S f) p e s = Ok (ev, fl) -> fl = Normal).
    { intros e s ev fl R E. destruct s as [d pos kw | body | t | x count body | c t el | name args |]; cbn [exec] in E.
      - destruct (call_label p e d pos kw); [inversion E; reflexivity | discriminate].
      - destruct (block_members p e (BBlock body)); [inversion E; reflexivity | discriminate].
      - inversion E; reflexivity.
      - destruct (ieval e count) as [n|]; [|discriminate]. simpl in R.
        apply (loop_normal _ (fun i ev' fl' E' => IHl ((x, i) :: e) body ev' fl' R E') _ _ _ _ E).
      - destruct (ieval e c) as [z|]; [|discriminate]. simpl in R. apply andb_true_iff in R. destruct R as [Rt Re].
        destruct (Z.eqb z 0); [apply (IHl _ _ _ _ Re E) | apply (IHl _ _ _ _ Rt E)].
      - destruct (lookup_s name (subs p)) as [sb|]; [|discriminate].
        destruct (bind_params e (sub_params sb) args) as [en|]; [|discriminate].
        destruct (exec_list (exec f p) en (sub_body sb)) as [[ev' fl']|]; [inversion E; reflexivity | discriminate].
      - discriminate. }
    split; [exact S1|].
    intros e l. induction l as [|x r IHr]; intros ev fl R E; cbn [exec_list] in E; [inversion E; reflexivity|].
    simpl in R. apply andb_true_iff in R. destruct R as [Rx Rr].
    destruct (exec (S f) p e x) as [[ev1 fl1]|er] eqn:E1; [|discriminate].
    rewrite (S1 _ _ _ _ Rx E1) in E.
    destruct (exec_list (exec (S f) p) e r) as [[ev2 fl2]|er] eqn:E2; [|discriminate].
    inversion E; subst. apply (IHr _ _ Rr eq_refl).
Qed.

(* pasting a body without nested returns = calling it *)
Lemma pasted_is_call f p e body : nested_ret_free body = true ->
  exec_pasted (exec f p) e body =
  match exec_list (exec f p) e body with Ok (ev, _) => Ok (ev, Normal) | Err x => Err x end.
Proof.
  induction body as [|x r IH]; intros R; simpl; [reflexivity|].
  simpl in R. apply andb_true_iff in R. destruct R as [Rx Rr].
  destruct (exec f p e x) as [[ev1 fl1]|er] eqn:E1; [|reflexivity].
  destruct fl1.
  - rewrite (IH Rr). destruct (exec_list (exec f p) e r) as [[ev2 fl2]|]; reflexivity.
  - destruct x; try reflexivity;
      (exfalso; pose proof (proj1 (ret_free_normal f p) _ _ _ _ Rx E1) as X; discriminate).
Qed.

Lemma exec_list_ext ex1 ex2 : (forall e s, ex1 e s = ex2 e s) -> forall e l, exec_list ex1 e l = exec_list ex2 e l.
Proof.
  intros H e l. induction l as [|x r IH]; simpl; [reflexivity|]. rewrite H, IH. reflexivity.
Qed.
Lemma exec_pasted_ext ex1 ex2 : (forall e s, ex1 e s = ex2 e s) -> forall e l, exec_pasted ex1 e l = exec_pasted ex2 e l.
Proof.
  intros H e l. induction l as [|x r IH]; simpl; [reflexivity|]. rewrite H, IH. reflexivity.
Qed.
Lemma exec_loop_ext (b1 b2 : Z -> result) : (forall i, b1 i = b2 i) -> forall k i, exec_loop b1 k i = exec_loop b2 k i.
Proof.
  intros H. induction k as [|k IH]; intros i; simpl; [reflexivity|]. rewrite H. destruct (b2 i) as [[ev fl]|]; [|reflexivity].
  destruct fl; [rewrite IH|]; reflexivity.
Qed.

(* the heuristic is sound: the program with the admitted callees inlined executes what the source executes *)
Theorem heuristic_inlining_preserves : forall f p e s, exec_h nested_ret_free f p e s = exec f p e s.
Proof.
  induction f as [|f IH]; intros p e s; [reflexivity|].
  destruct s as [d pos kw | body | t | x count body | c t el | name args |]; cbn [exec exec_h]; try reflexivity.
  - destruct (ieval e count) as [n|]; [|reflexivity]. apply exec_loop_ext. intros i. apply exec_list_ext. intros e' s'. apply IH.
  - destruct (ieval e c) as [z|]; [|reflexivity]. apply exec_list_ext. intros e' s'. apply IH.
  - destruct (lookup_s name (subs p)) as [sb|]; [|reflexivity].
    destruct (bind_params e (sub_params sb) args) as [en|]; [|reflexivity].
    destruct (nested_ret_free (sub_body sb)) eqn:H.
    + rewrite (exec_pasted_ext _ _ (fun e' s' => IH p e' s')). apply pasted_is_call, H.
    + rewrite (exec_list_ext _ _ (fun e' s' => IH p e' s')). reflexivity.
Qed.

Theorem heuristic_inlining_preserves_runs f p args : run_prog_h nested_ret_free f p args = run_prog f p args.
Proof. unfold run_prog_h, run_prog. rewrite heuristic_inlining_preserves. reflexivity. Qed.

(* ... and it is needed: inlining a callee that returns from inside an `if` cuts the caller short *)
Local Open Scope string_scope.
Definition inl_example : prog :=
  mkprog [] [] [("sub", mksub ["c"] [SIf (IVar "c") [SOther "fill"; SRet] []; SOther "cz"])] ["c"]
         [SOther "a"; SSub "sub" [IVar "c"]; SOther "b"].
Theorem inline_everything_refuted :
  run_prog 20 inl_example [1%Z] = Ok ["a"; "fill"; "b"] /\
  run_prog_h (fun _ => true) 20 inl_example [1%Z] = Ok ["a"; "fill"].
Proof. split; reflexivity. Qed.
