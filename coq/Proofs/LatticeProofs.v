From Coq Require Import String Bool List Lia.
From BS Require Import Model.Lattice.
Import ListNotations.
Open Scope string_scope.

Lemma zone_eqb_refl a : zone_eqb a a = true.
Proof.
  induction a; simpl; rewrite ?String.eqb_refl, ?IHa1, ?IHa2, ?IHa3; reflexivity.
Qed.

Lemma zone_eqb_eq a b : zone_eqb a b = true <-> a = b.
Proof.
  split.
  - revert b; induction a; intros b H; destruct b; simpl in H; try discriminate; try reflexivity.
    + apply String.eqb_eq in H; subst; reflexivity.
    + apply String.eqb_eq in H; subst; reflexivity.
    + apply andb_true_iff in H as [H1 H2].
      f_equal; auto.
    + apply andb_true_iff in H as [H12 H3]. apply andb_true_iff in H12 as [H1 H2].
      f_equal; auto.
  - intros ->; apply zone_eqb_refl.
Qed.

Lemma zleb_top a : zleb a UnknownZone = true.
Proof. destruct a; reflexivity. Qed.

Lemma zleb_bot b : zleb NotZone b = true.
Proof. reflexivity. Qed.

Lemma zleb_refl a : zleb a a = true.
Proof.
  induction a; simpl; rewrite ?String.eqb_refl, ?IHa1, ?IHa2, ?IHa3; reflexivity.
Qed.

Lemma zleb_antisym a : forall b, zleb a b = true -> zleb b a = true -> a = b.
Proof.
  induction a; intros b Hab Hba; destruct b; simpl in *; try discriminate; try reflexivity.
  - apply String.eqb_eq in Hab; subst; reflexivity.
  - apply String.eqb_eq in Hab; subst; reflexivity.
  - apply andb_true_iff in Hab as [A1 A2]. apply andb_true_iff in Hba as [B1 B2].
    f_equal; auto.
  - apply andb_true_iff in Hab as [A12 A3]. apply andb_true_iff in A12 as [A1 A2].
    apply andb_true_iff in Hba as [B12 B3]. apply andb_true_iff in B12 as [B1 B2].
    f_equal; auto.
Qed.

Lemma zleb_trans a : forall b c, zleb a b = true -> zleb b c = true -> zleb a c = true.
Proof.
  induction a; intros b c Hab Hbc.
  - reflexivity.
  - destruct b; simpl in Hab; try discriminate. exact Hbc.
  - destruct b; simpl in Hab; try discriminate; destruct c; simpl in Hbc; try discriminate; reflexivity.
  - destruct b; simpl in Hab; try discriminate; destruct c; simpl in Hbc; try discriminate;
      try reflexivity.
    simpl. apply String.eqb_eq in Hab; apply String.eqb_eq in Hbc; subst. apply String.eqb_refl.
  - destruct b; simpl in Hab; try discriminate; destruct c; simpl in Hbc; try discriminate;
      try reflexivity.
    simpl. apply String.eqb_eq in Hab; apply String.eqb_eq in Hbc; subst. apply String.eqb_refl.
  - destruct b; simpl in Hab; try discriminate; destruct c; simpl in Hbc; try discriminate;
      try reflexivity.
    simpl.
    apply andb_true_iff in Hab as [A1 A2]. apply andb_true_iff in Hbc as [B1 B2].
    rewrite (IHa1 _ _ A1 B1), (IHa2 _ _ A2 B2). reflexivity.
  - destruct b; simpl in Hab; try discriminate; destruct c; simpl in Hbc; try discriminate;
      try reflexivity.
    simpl.
    apply andb_true_iff in Hab as [A12 A3]. apply andb_true_iff in A12 as [A1 A2].
    apply andb_true_iff in Hbc as [B12 B3]. apply andb_true_iff in B12 as [B1 B2].
    rewrite (IHa1 _ _ A1 B1), (IHa2 _ _ A2 B2), (IHa3 _ _ A3 B3). reflexivity.
Qed.

(* ---- simple join / meet ---- *)

Lemma simple_join_comm a b : simple_join a b = simple_join b a.
Proof.
  unfold simple_join.
  destruct (zleb a b) eqn:Hab; destruct (zleb b a) eqn:Hba; try reflexivity.
  symmetry; apply zleb_antisym; assumption.
Qed.

Lemma simple_join_upper a b :
  zleb a (simple_join a b) = true /\ zleb b (simple_join a b) = true.
Proof.
  unfold simple_join.
  destruct (zleb a b) eqn:Hab.
  - split; [assumption | apply zleb_refl].
  - destruct (zleb b a) eqn:Hba.
    + split; [apply zleb_refl | assumption].
    + split; apply zleb_top.
Qed.

Lemma join_is_simple_or_invalid a b :
  join a b = simple_join a b \/
  (exists s t, a = InvalidSpecId s /\ b = InvalidSpecId t /\ String.eqb s t = false
               /\ join a b = InvalidZone).
Proof.
  destruct a; try (left; reflexivity).
  destruct b; try (left; reflexivity).
  simpl. destruct (String.eqb s s0) eqn:E.
  - left; reflexivity.
  - right. exists s, s0. repeat split; assumption.
Qed.

Lemma join_comm a b : join a b = join b a.
Proof.
  destruct a, b; try apply simple_join_comm.
  unfold join. rewrite (String.eqb_sym s0 s).
  destruct (String.eqb s s0); [apply simple_join_comm | reflexivity].
Qed.

Lemma join_idem a : join a a = a.
Proof.
  destruct a; unfold join, simple_join; rewrite ?String.eqb_refl, ?zleb_refl; reflexivity.
Qed.

Lemma join_upper a b : zleb a (join a b) = true /\ zleb b (join a b) = true.
Proof.
  destruct (join_is_simple_or_invalid a b) as [-> | (s & t & -> & -> & _ & ->)].
  - apply simple_join_upper.
  - split; reflexivity.
Qed.

Lemma join_of_le a b : zleb a b = true -> join a b = b.
Proof.
  intros H.
  destruct (join_is_simple_or_invalid a b) as [-> | (s & t & -> & -> & E & _)].
  - unfold simple_join; rewrite H; reflexivity.
  - simpl in H. congruence.
Qed.

Lemma le_of_join a b : join a b = b -> zleb a b = true.
Proof. intros H. rewrite <- H. apply join_upper. Qed.

Lemma meet_comm a b : meet a b = meet b a.
Proof.
  unfold meet.
  destruct (zleb a b) eqn:Hab; destruct (zleb b a) eqn:Hba; try reflexivity.
  apply zleb_antisym; assumption.
Qed.

Lemma meet_idem a : meet a a = a.
Proof. unfold meet; rewrite zleb_refl; reflexivity. Qed.

Lemma meet_lower a b : zleb (meet a b) a = true /\ zleb (meet a b) b = true.
Proof.
  unfold meet.
  destruct (zleb a b) eqn:Hab.
  - split; [apply zleb_refl | assumption].
  - destruct (zleb b a) eqn:Hba.
    + split; [assumption | apply zleb_refl].
    + split; reflexivity.
Qed.

Lemma meet_of_le a b : zleb a b = true -> meet a b = a.
Proof. intros H; unfold meet; rewrite H; reflexivity. Qed.

Lemma le_of_meet a b : meet a b = a -> zleb a b = true.
Proof. intros H. rewrite <- H. apply meet_lower. Qed.

(* join is even the least upper bound, meet the greatest lower bound, wherever
   the mixins' answer is one of the arguments *)
Lemma join_least_when_comparable a b c :
  (zleb a b = true \/ zleb b a = true) ->
  zleb a c = true -> zleb b c = true -> zleb (join a b) c = true.
Proof.
  intros [H | H] Ha Hb.
  - rewrite (join_of_le _ _ H); assumption.
  - rewrite join_comm, (join_of_le _ _ H); assumption.
Qed.

(* the only non-mixin join is a least upper bound too *)
Lemma join_invalid_ids_least s t c :
  zleb (InvalidSpecId s) c = true -> zleb (InvalidSpecId t) c = true ->
  String.eqb s t = false -> zleb (join (InvalidSpecId s) (InvalidSpecId t)) c = true.
Proof.
  intros Hs Ht E. simpl. rewrite E.
  destruct c; simpl in *; try discriminate; try reflexivity.
  apply String.eqb_eq in Hs; apply String.eqb_eq in Ht; subst. rewrite String.eqb_refl in E. discriminate.
Qed.
