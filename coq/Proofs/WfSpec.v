(* C11: the boolean checker [wfb] says exactly what the property says.  [WF] is the statement in
   the property's own words, by positions in the path; [wfb_iff_WF] shows the two coincide. *)
From Coq Require Import ZArith List Bool Arith Lia.
From BS Require Import Core.Base Model.Tracer.
Import ListNotations.

Definition is_seg (a : action) : Prop := match a with AWay _ => True | _ => False end.
Definition meet (prev next : list grid) : Prop := opt_grid_eqb (last_grid prev) (hd_grid next) = true.

(* a path is well formed when
   - it is empty, or its first and its last action are waypoint segments;
   - every waypoint segment is non-empty and of a single grid shape;
   - every switch sits between two segments, the end of the one before being the start of the one after *)
Definition WF (p : list action) : Prop :=
  (forall a, nth_error p 0 = Some a -> is_seg a) /\
  (forall a, nth_error p (length p - 1) = Some a -> is_seg a) /\
  (forall i ws, nth_error p i = Some (AWay ws) -> seg_ok ws = true) /\
  (forall i k fx fy x y, nth_error p i = Some (ASwitch k fx fy x y) ->
     exists prev next, 1 <= i /\ nth_error p (i - 1) = Some (AWay prev) /\ nth_error p (i + 1) = Some (AWay next) /\ meet prev next).

(* the same for the tail of a path whose preceding action is the segment [prev] *)
Definition WFtail (prev : list grid) (p : list action) : Prop :=
  WF (AWay prev :: p).

Lemma wf_after_sound : forall n p prev, length p <= n -> seg_ok prev = true -> wf_after prev p = true -> WFtail prev p.
Proof.
  induction n as [|n IH]; intros p prev Hn Hp H.
  - destruct p; [|simpl in Hn; lia]. unfold WFtail, WF; simpl. repeat split.
    + intros a E; inversion E; exact I.
    + intros a E; inversion E; exact I.
    + intros i ws E. destruct i; simpl in E; [inversion E; subst; exact Hp | destruct i; discriminate].
    + intros i k fx fy x y E. destruct i; simpl in E; [discriminate | destruct i; discriminate].
  - destruct p as [|a rest].
    + apply (IH [] prev); [simpl; lia | exact Hp | exact H].
    + destruct a as [ws | k fx fy x y]; simpl in H.
      * apply andb_true_iff in H. destruct H as [Hws Hr].
        assert (T : WFtail ws rest) by (apply IH; [simpl in Hn; lia | exact Hws | exact Hr]).
        destruct T as [T1 [T2 [T3 T4]]]. unfold WFtail, WF. repeat split.
        -- intros a E; simpl in E; inversion E; exact I.
        -- intros a E. simpl length in E. replace (S (S (length rest)) - 1) with (S (length (AWay ws :: rest) - 1)) in E by (simpl; lia).
           simpl nth_error in E. apply T2. exact E.
        -- intros i ws' E. destruct i; simpl in E; [inversion E; subst; exact Hp | apply (T3 i); exact E].
        -- intros i k fx fy x y E. destruct i; simpl in E; [discriminate|].
           destruct (T4 i k fx fy x y E) as [pv [nx [Hi [Ea [Eb M]]]]].
           exists pv, nx. repeat split; [lia | | | exact M].
           ++ replace (S i - 1) with (S (i - 1)) by lia. simpl. exact Ea.
           ++ simpl. exact Eb.
      * destruct rest as [|b rest']; [discriminate|]. destruct b as [ws|]; [|discriminate].
        apply andb_true_iff in H. destruct H as [H Hr]. apply andb_true_iff in H. destruct H as [Hws Hm].
        assert (T : WFtail ws rest') by (apply IH; [simpl in Hn; lia | exact Hws | exact Hr]).
        destruct T as [T1 [T2 [T3 T4]]]. unfold WFtail, WF. repeat split.
        -- intros a E; simpl in E; inversion E; exact I.
        -- intros a E. simpl length in E.
           replace (S (S (S (length rest'))) - 1) with (S (S (length (AWay ws :: rest') - 1))) in E by (simpl; lia).
           simpl nth_error in E. apply T2. exact E.
        -- intros i ws' E. destruct i; simpl in E; [inversion E; subst; exact Hp|].
           destruct i; simpl in E; [discriminate|]. apply (T3 i). exact E.
        -- intros i k' fx' fy' x' y' E. destruct i; simpl in E; [discriminate|].
           destruct i; simpl in E.
           ++ exists prev, ws. repeat split; [lia | exact Hm].
           ++ destruct (T4 i k' fx' fy' x' y' E) as [pv [nx [Hi [Ea [Eb M]]]]].
              exists pv, nx. repeat split; [lia | | | exact M].
              ** replace (S (S i) - 1) with (S (S (i - 1))) by lia. simpl. exact Ea.
              ** simpl. exact Eb.
Qed.

Lemma wf_after_complete : forall n p prev, length p <= n -> WFtail prev p -> wf_after prev p = true.
Proof.
  induction n as [|n IH]; intros p prev Hn W.
  - destruct p; [reflexivity | simpl in Hn; lia].
  - destruct p as [|a rest]; [reflexivity|].
    destruct W as [W1 [W2 [W3 W4]]].
    destruct a as [ws | k fx fy x y]; simpl.
    + assert (Hws : seg_ok ws = true) by (apply (W3 1); reflexivity).
      rewrite Hws. simpl. apply IH; [simpl in Hn; lia|].
      unfold WFtail, WF. repeat split.
      * intros a E; simpl in E; inversion E; exact I.
      * intros a E. apply W2. simpl length. simpl length in E.
        replace (S (S (length rest)) - 1) with (S (S (length rest) - 1)) by lia. simpl. exact E.
      * intros i ws' E. apply (W3 (S i)). simpl. exact E.
      * intros i k fx fy x y E. destruct (W4 (S i) k fx fy x y) as [pv [nx [Hi [Ea [Eb M]]]]]; [simpl; exact E|].
        destruct i; [simpl in E; discriminate|].
        exists pv, nx. repeat split; [lia | | | exact M].
        -- replace (S (S i) - 1) with (S (S i - 1)) in Ea by lia. simpl in Ea. exact Ea.
        -- simpl in Eb. exact Eb.
    + destruct (W4 1 k fx fy x y) as [pv [nx [_ [Ea [Eb M]]]]]; [reflexivity|].
      simpl in Ea. inversion Ea; subst pv. simpl in Eb.
      destruct rest as [|b rest']; [discriminate|]. simpl in Eb. inversion Eb; subst b.
      assert (Hws : seg_ok nx = true) by (apply (W3 2); reflexivity).
      rewrite Hws. unfold meet in M. rewrite M. simpl. apply IH; [simpl in Hn; lia|].
      unfold WFtail, WF. repeat split.
      * intros a E; simpl in E; inversion E; exact I.
      * intros a E. apply W2. simpl length. simpl length in E.
        replace (S (S (S (length rest'))) - 1) with (S (S (S (length rest') - 1))) by lia. simpl. exact E.
      * intros i ws' E. apply (W3 (S (S i))). simpl. exact E.
      * intros i k' fx' fy' x' y' E. destruct (W4 (S (S i)) k' fx' fy' x' y') as [pv [nx' [Hi [Ea' [Eb' M']]]]]; [simpl; exact E|].
        destruct i; [simpl in E; discriminate|].
        exists pv, nx'. repeat split; [lia | | | exact M'].
        -- replace (S (S (S i)) - 1) with (S (S (S i - 1))) in Ea' by lia. simpl in Ea'. exact Ea'.
        -- simpl in Eb'. exact Eb'.
Qed.

Theorem wfb_iff_WF p : wfb p = true <-> WF p.
Proof.
  destruct p as [|a rest].
  - split; [intros _ | reflexivity]. unfold WF; simpl. repeat split.
    + intros a E; discriminate.
    + intros a E; discriminate.
    + intros i ws E; destruct i; discriminate.
    + intros i k fx fy x y E; destruct i; discriminate.
  - destruct a as [ws | k fx fy x y]; simpl.
    + split.
      * intros H. apply andb_true_iff in H. destruct H as [Hws Hr].
        apply (wf_after_sound (length rest) rest ws (le_n _) Hws Hr).
      * intros W. assert (Hws : seg_ok ws = true) by (destruct W as [_ [_ [W3 _]]]; apply (W3 0); reflexivity).
        rewrite Hws. simpl. apply (wf_after_complete (length rest)); [apply le_n | exact W].
    + split; [discriminate|]. intros [W1 _]. exfalso. apply (W1 (ASwitch k fx fy x y)). reflexivity.
Qed.
