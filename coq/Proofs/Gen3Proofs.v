From Coq Require Import String.
From Coq Require Import List Bool Arith Lia Permutation.
From BS Require Import Core.Base Model.Reverse Model.Gen3 Proofs.ReverseProofs.
Import ListNotations.
Set Default Proof Using "Type".

Section Gen3Proofs.
  Variable V K S T : Type.
  Variable trace : S -> K -> list V -> res (list action).
  Variable sig_of : K -> list string.

  Notation core := (core V K S T trace sig_of).
  Notation gen_main := (gen_main V K S T trace sig_of).
  Notation gen_spec := (gen_spec V K S T trace sig_of).
  Notation gen_constprop := (gen_constprop V K S T trace sig_of).
  Notation permute := (permute V).
  Notation lookup_kw := (lookup_kw V).
  Notation lookup_all := (lookup_all V).
  Notation is_path := (is_path T).

  (* ---- the routes agree ---- *)
  Theorem main_is_spec_route s t vals kw : gen_main (Some s) t vals kw = gen_spec s t vals kw.
  Proof. reflexivity. Qed.

  Theorem constprop_path_is_runtime_path s t vals kw xt yt p :
    gen_constprop (Some s) (Some t) (Some vals) kw = OPath xt yt p ->
    gen_main (Some s) t vals kw = OPath xt yt p /\ gen_spec s t vals kw = OPath xt yt p.
  Proof. destruct t; simpl; intros H; try discriminate; split; exact H. Qed.

  Theorem constprop_folds_what_runtime_computes s t vals kw :
    t <> TOther ->
    gen_constprop (Some s) (Some t) (Some vals) kw = gen_main (Some s) t vals kw.
  Proof. destruct t; simpl; intros H; try reflexivity. contradiction. Qed.

  (* ---- when no path can be produced, no route returns one ---- *)
  Theorem no_spec_no_path t vals kw tc ic :
    gen_main None t vals kw = ORaise /\ gen_constprop None tc ic kw = OTop.
  Proof. split; [reflexivity | destruct tc as [[| |]|]; reflexivity]. Qed.

  Theorem not_a_device_function_no_path s stamped vals kw ic :
    gen_main stamped TOther vals kw = ORaise /\ gen_spec s TOther vals kw = ORaise /\
    is_path (gen_constprop stamped (Some TOther) ic kw) = false.
  Proof.
    repeat split; [destruct stamped; reflexivity | destruct stamped, ic; reflexivity].
  Qed.

  Theorem kernel_fails_no_path s t vals kw :
    (forall k args, trace s k args = Err EInterp) ->
    gen_main (Some s) t vals kw = ORaise /\ gen_spec s t vals kw = ORaise /\
    is_path (gen_constprop (Some s) (Some t) (Some vals) kw) = false.
  Proof.
    intros H. destruct t as [k xt yt | k xt yt |]; simpl; repeat split;
      destruct (Gen3.permute V (sig_of k) vals kw); try rewrite H; reflexivity.
  Qed.

  Theorem non_constant_operands_stay_unfolded stamped tc kw :
    gen_constprop stamped tc None kw = OTop /\ gen_constprop stamped None (Some []) kw = OTop.
  Proof. split; destruct stamped, tc as [[| |]|]; reflexivity. Qed.

  (* ---- forward and reversed wrappers ---- *)
  Theorem reversed_task_gives_reversed_path s k xt yt vals kw p :
    core s (TDev k xt yt) vals kw = OPath xt yt p ->
    core s (TRev k xt yt) vals kw = OPath xt yt (reverse_path p).
  Proof.
    simpl. destruct (Gen3.permute V (sig_of k) vals kw); [|discriminate].
    destruct (trace s k a); [|discriminate]. intros H; inversion H; subst. reflexivity.
  Qed.

  (* ---- keyword arguments: any order, same ordered argument list = signature order ---- *)
  Lemma lookup_kw_perm name kws kws' :
    NoDup (map fst kws) -> Permutation kws kws' -> lookup_kw name kws = lookup_kw name kws'.
  Proof.
    intros Hnd Hp. induction Hp as [| [n v] l l' Hp IH | [n1 v1] [n2 v2] l | l1 l2 l3 H12 IH12 H23 IH23].
    - reflexivity.
    - simpl. inversion Hnd; subst. rewrite IH by assumption. reflexivity.
    - simpl. inversion Hnd as [|? ? Hin Hnd']; subst. simpl in Hin.
      destruct (String.eqb n1 name) eqn:E1, (String.eqb n2 name) eqn:E2; try reflexivity.
      apply String.eqb_eq in E1, E2. subst. exfalso. apply Hin. left; reflexivity.
    - rewrite IH12 by assumption. apply IH23.
      eapply Permutation_NoDup; [apply Permutation_map; exact H12 | exact Hnd].
  Qed.

  Lemma lookup_all_perm names kws kws' :
    NoDup (map fst kws) -> Permutation kws kws' -> lookup_all names kws = lookup_all names kws'.
  Proof.
    intros Hnd Hp. induction names as [|n r IH]; simpl; [reflexivity|].
    rewrite (lookup_kw_perm n kws kws' Hnd Hp), IH. reflexivity.
  Qed.

  Lemma permute_explicit sig pos kws :
    permute sig (pos ++ map snd kws) (map fst kws) =
    match kws with
    | [] => Ok pos
    | _ => match lookup_all (skipn (length pos) sig) kws with
           | Ok l => Ok (pos ++ l)
           | Err e => Err e
           end
    end.
  Proof.
    unfold Gen3.permute.
    assert (N : length (pos ++ map snd kws) - length (map fst kws) = length pos)
      by (rewrite app_length, !map_length; lia).
    rewrite N.
    assert (F : firstn (length pos) (pos ++ map snd kws) = pos)
      by (rewrite firstn_app, Nat.sub_diag, firstn_all; simpl; apply app_nil_r).
    assert (Sk : skipn (length pos) (pos ++ map snd kws) = map snd kws)
      by (rewrite skipn_app, Nat.sub_diag, skipn_all; reflexivity).
    rewrite F, Sk.
    assert (C : combine (map fst kws) (map snd kws) = kws)
      by (clear; induction kws as [|[n v] r IH]; simpl; [reflexivity | rewrite IH; reflexivity]).
    rewrite C. destruct kws as [|kv r]; reflexivity.
  Qed.

  Theorem permute_kw_order_irrelevant sig pos kws kws' :
    NoDup (map fst kws) -> Permutation kws kws' ->
    permute sig (pos ++ map snd kws) (map fst kws) = permute sig (pos ++ map snd kws') (map fst kws').
  Proof.
    intros Hnd Hp. rewrite !permute_explicit.
    destruct kws as [|kv r].
    - apply Permutation_nil in Hp. subst. reflexivity.
    - destruct kws' as [|kv' r']; [apply Permutation_sym, Permutation_nil in Hp; discriminate|].
      rewrite (lookup_all_perm _ _ _ Hnd Hp). reflexivity.
  Qed.

  Lemma lookup_all_order names kws l :
    lookup_all names kws = Ok l -> Forall2 (fun n v => lookup_kw n kws = Some v) names l.
  Proof.
    revert l; induction names as [|n r IH]; intros l H; simpl in H.
    - inversion H; constructor.
    - destruct (lookup_kw n kws) as [v|] eqn:E; [|discriminate].
      destruct (lookup_all r kws) as [l'|e]; [|discriminate]. inversion H; subst.
      constructor; [exact E | apply IH; reflexivity].
  Qed.

  (* the ordered argument list is: positionals, then the remaining parameters in signature order *)
  Theorem permute_is_signature_order sig pos kws args :
    kws <> [] ->
    permute sig (pos ++ map snd kws) (map fst kws) = Ok args ->
    exists l, args = pos ++ l /\ Forall2 (fun n v => lookup_kw n kws = Some v) (skipn (length pos) sig) l.
  Proof.
    intros Hne. rewrite permute_explicit. destruct kws as [|kv r]; [contradiction|].
    destruct (lookup_all (skipn (length pos) sig) (kv :: r)) as [l|e] eqn:E; [|discriminate].
    intros H; inversion H; subst. exists l. split; [reflexivity | apply lookup_all_order; exact E].
  Qed.

  Theorem permute_missing_keyword sig pos kws :
    kws <> [] ->
    (exists n, In n (skipn (length pos) sig) /\ lookup_kw n kws = None) ->
    permute sig (pos ++ map snd kws) (map fst kws) = Err EKey.
  Proof.
    intros Hne (n & Hin & Hn). rewrite permute_explicit. destruct kws as [|kv r]; [contradiction|].
    assert (H : lookup_all (skipn (length pos) sig) (kv :: r) = Err EKey).
    { induction (skipn (length pos) sig) as [|m names IH]; [contradiction|].
      cbn [Gen3.lookup_all]. destruct Hin as [-> | Hin].
      - rewrite Hn. reflexivity.
      - destruct (lookup_kw m (kv :: r)); [|reflexivity]. rewrite (IH Hin). reflexivity. }
    rewrite H. reflexivity.
  Qed.
End Gen3Proofs.
