From Coq Require Import String.
From Coq Require Import List Bool Arith Lia.
From BS Require Import Core.Base Model.Visualizer.
Import ListNotations.

Lemma plain_members_flat ms :
  forallb (fun m => match m with PV _ => true | PG _ => false end) ms = true ->
  plain_members ms = Ok (flat_map (fun m => match m with PV p => [p] | PG _ => [] end) ms).
Proof.
  induction ms as [|m ms IH]; simpl; [reflexivity|].
  destruct m as [p|g]; [|discriminate]. intros H. rewrite (IH H). reflexivity.
Qed.

Lemma vis_event_spec e : flat_event e = true -> vis_event e = Ok (calls_of e).
Proof.
  destruct e as [v | | | | | | |]; simpl; try reflexivity.
  destruct v as [p|ms]; simpl; [reflexivity|]. intros H. rewrite (plain_members_flat _ H). reflexivity.
Qed.

Lemma vis_events_spec evs : forallb flat_event evs = true -> vis_events evs = Ok (flat_map calls_of evs).
Proof.
  induction evs as [|e r IH]; simpl; [reflexivity|].
  intros H. apply andb_true_iff in H as [H1 H2]. rewrite (vis_event_spec _ H1), (IH H2). reflexivity.
Qed.

(* the visualizer is a homomorphism from the event log to renderer calls, preceded by the traps *)
Theorem vis_is_replay traps evs :
  forallb flat_event evs = true -> vis traps evs = Ok (vis_init traps ++ flat_map calls_of evs).
Proof. intros H. unfold vis. rewrite (vis_events_spec _ H). reflexivity. Qed.

(* every static trap zone is drawn exactly once, before anything else, in table order *)
Theorem traps_first_once traps evs cs :
  vis traps evs = Ok cs ->
  firstn (length traps) cs = vis_init traps /\
  forallb (fun c => negb (is_traps c)) (skipn (length traps) cs) = true.
Proof.
  unfold vis. destruct (vis_events evs) as [l|e] eqn:E; [|discriminate]. intros H; inversion H; subst.
  assert (L : length (vis_init traps) = length traps) by (unfold vis_init; apply map_length).
  split.
  - rewrite <- L, firstn_app, Nat.sub_diag, firstn_all. simpl. apply app_nil_r.
  - rewrite <- L, skipn_app, Nat.sub_diag, skipn_all. simpl.
    clear -E. revert l E. induction evs as [|ev r IH]; intros l E; simpl in E.
    + inversion E; reflexivity.
    + destruct (vis_event ev) as [a|x] eqn:Ea; [|discriminate].
      destruct (vis_events r) as [b|x] eqn:Eb; [|discriminate]. inversion E; subst.
      rewrite forallb_app, (IH _ eq_refl), andb_true_r.
      destruct ev as [v | | | | | | |]; simpl in Ea; try (inversion Ea; reflexivity).
      destruct v as [p|ms]; [inversion Ea; reflexivity|].
      destruct (plain_members ms) as [ps|x]; [|discriminate]. inversion Ea; subst.
      clear. induction ps; simpl; auto.
Qed.

(* one renderer call per executed gate and per played path (each member of a group) *)
Theorem call_count traps evs cs :
  forallb flat_event evs = true -> vis traps evs = Ok cs ->
  length cs = length traps + length (flat_map calls_of evs).
Proof.
  intros H Hv. rewrite (vis_is_replay _ _ H) in Hv. inversion Hv; subst.
  rewrite app_length. unfold vis_init. rewrite map_length. reflexivity.
Qed.

(* a group that still contains a group is refused (the program was not canonicalized) *)
Theorem nested_group_refused traps evs :
  forallb flat_event evs = false -> vis traps evs = Err EInterp.
Proof.
  unfold vis. intros H.
  assert (E : vis_events evs = Err EInterp).
  { induction evs as [|e r IH]; simpl in *; [discriminate|].
    destruct (flat_event e) eqn:Fe.
    - simpl in H. rewrite (vis_event_spec _ Fe), (IH H). reflexivity.
    - destruct e as [v | | | | | | |]; try discriminate. destruct v as [p|ms]; [discriminate|]. simpl in *.
      assert (P : plain_members ms = Err EInterp).
      { clear -Fe. induction ms as [|m ms IHm]; simpl in *; [discriminate|].
        destruct m as [p|g]; [|reflexivity]. rewrite (IHm Fe). reflexivity. }
      rewrite P. reflexivity. }
  rewrite E. reflexivity.
Qed.
