(* C08: the hypotheses of the transport theorems follow from the documented preconditions of the moves:
   index lists that are strictly ascending and in range, taken from a grid whose coordinates are strictly
   ascending (positive spacings), select pairwise different coordinates and no index twice. *)
From Coq Require Import String.
From Coq Require Import ZArith QArith List Bool Arith Lia.
From BS Require Import Core.Base Model.Aod Proofs.AodProofs Proofs.AodRoundTrip Proofs.AodSelect.
Import ListNotations.
Local Open Scope nat_scope.

Fixpoint ascending_q (l : list Q) : Prop :=
  match l with
  | [] => True
  | a :: r => match r with [] => True | b :: _ => (a < b)%Q end /\ ascending_q r
  end.
Fixpoint ascending_nat (l : list nat) : Prop :=
  match l with
  | [] => True
  | a :: r => match r with [] => True | b :: _ => a < b end /\ ascending_nat r
  end.

Lemma ascending_q_head a r : ascending_q (a :: r) -> forall j, j < length r -> (a < nth j r 0)%Q.
Proof.
  revert a. induction r as [|b r' IH]; intros a A j Hj; simpl in Hj; [lia|].
  destruct A as [A1 A2]. destruct j as [|j]; [exact A1|].
  eapply Qlt_trans; [exact A1|]. simpl. apply (IH b A2 j). lia.
Qed.

Lemma ascending_q_nth xs : ascending_q xs -> forall i j, i < j -> j < length xs -> (nth i xs 0 < nth j xs 0)%Q.
Proof.
  induction xs as [|a r IH]; simpl; intros A i j Hij Hj; [lia|].
  destruct j as [|j]; [lia|]. destruct i as [|i].
  - apply (ascending_q_head a r A j). lia.
  - destruct A as [_ A2]. apply IH; [exact A2 | lia | lia].
Qed.

Lemma ascending_nat_lt l : ascending_nat l -> forall a r, l = a :: r -> forall b, In b r -> a < b.
Proof.
  induction l as [|x r IH]; intros A a r' E b I; inversion E; subst. destruct A as [A1 A2].
  destruct r' as [|y r'']; [inversion I|]. destruct I as [<- | I]; [exact A1|].
  apply Nat.lt_trans with y; [exact A1|]. apply (IH A2 y r'' eq_refl b I).
Qed.

Lemma ascending_nat_NoDup l : ascending_nat l -> NoDup l.
Proof.
  induction l as [|a r IH]; intros A; [constructor|]. constructor; [|apply IH; destruct A; assumption].
  intros I. pose proof (ascending_nat_lt _ A a r eq_refl a I). lia.
Qed.

(* ascending, in-range indices into ascending coordinates pick pairwise different coordinates *)
Lemma sorted_indices_pick_distinct xs ix :
  ascending_q xs -> ascending_nat ix -> (forall i, In i ix -> i < length xs) -> distinct_q (pick_coords ix xs) = true.
Proof.
  intros Ax. induction ix as [|a r IH]; intros Ai Hr; [reflexivity|].
  simpl. apply andb_true_iff. split.
  - apply negb_true_iff. apply not_true_is_false. intros X. apply existsb_exists in X. destruct X as [q [I E]].
    unfold pick_coords in I. apply in_map_iff in I. destruct I as [b [<- Ib]].
    pose proof (ascending_nat_lt _ Ai a r eq_refl b Ib) as Lt.
    pose proof (ascending_q_nth xs Ax a b Lt (Hr b (or_intror Ib))) as Q.
    apply Qeq_bool_iff in E. rewrite E in Q. exact (Qlt_irrefl _ Q).
  - apply IH; [destruct Ai; assumption | intros i I; apply Hr; right; exact I].
Qed.

(* ... so a waypoint with ascending coordinates satisfies what the transport theorems ask of it *)
Theorem documented_preconditions_give_wp_sel_ok nx ny ix iy (w : list Q * list Q) :
  length (fst w) = nx -> length (snd w) = ny -> ascending_q (fst w) -> ascending_q (snd w) ->
  ascending_nat ix -> ascending_nat iy -> (forall i, In i ix -> i < nx) -> (forall j, In j iy -> j < ny) ->
  wp_sel_ok nx ny ix iy w /\ NoDup ix /\ NoDup iy.
Proof.
  intros Lx Ly Ax Ay Ix Iy Rx Ry. split; [|split; apply ascending_nat_NoDup; assumption].
  unfold wp_sel_ok. repeat split; try assumption.
  - apply sorted_indices_pick_distinct; [exact Ax | exact Ix | intros i I; rewrite Lx; apply Rx, I].
  - apply sorted_indices_pick_distinct; [exact Ay | exact Iy | intros j I; rewrite Ly; apply Ry, I].
Qed.

(* a grid with positive spacings has strictly ascending coordinates (bloqade.geometry's Grid over exact rationals, Core/GridQ.v) *)
From BS Require Import Core.GridQ.
Lemma run_from_ascending : forall sp p, Forall (fun s => (0 < s)%Q) sp -> ascending_q (run_from p sp).
Proof.
  induction sp as [|s r IH]; intros p F; simpl; [split; exact I|].
  inversion F as [|? ? Hs F']; subst. split; [|apply IH, F'].
  destruct r as [|s' r']; simpl; rewrite <- (Qplus_0_r p) at 1; apply Qplus_lt_r; exact Hs.
Qed.
Theorem positive_spacings_give_ascending_coordinates g :
  Forall (fun s => (0 < s)%Q) (xsp g) -> Forall (fun s => (0 < s)%Q) (ysp g) -> ascending_q (xpos g) /\ ascending_q (ypos g).
Proof.
  intros Fx Fy. unfold xpos, ypos, pos_of. split.
  - destruct (xin g) as [p|]; [apply run_from_ascending, Fx | exact I].
  - destruct (yin g) as [p|]; [apply run_from_ascending, Fy | exact I].
Qed.

(* the documented outcome of an index-based move, per call: the atom on zone[src_x[i], src_y[j]] ends on zone[dst_x[i], dst_y[j]] *)
Lemma nth_pick_coords ix cs i : i < length ix -> nth i (pick_coords ix cs) 0%Q = nth (nth i ix 0) cs 0%Q.
Proof.
  intros H. unfold pick_coords. rewrite (nth_indep _ 0%Q ((fun k => nth k cs 0%Q) 0) ) by (rewrite map_length; exact H).
  exact (map_nth (fun k => nth k cs 0%Q) ix 0 i).
Qed.

Theorem documented_transport_delivers T O ps zx zy sx sy dx dy :
  transport_ok T O ps = true -> documented_transport zx zy sx sy dx dy ps = true ->
  exists st', sim_paths (mkast T O [] [] []) ps = AOk st' /\ held st' = [] /\
    forall i j, i < length sx -> j < length sy ->
      occ_find (nth (nth i dx 0) zx 0%Q, nth (nth j dy 0) zy 0%Q) (occ st') =
      occ_find (nth (nth i sx 0) zx 0%Q, nth (nth j sy 0) zy 0%Q) O.
Proof.
  intros Ht Hd. unfold documented_transport in Hd.
  destruct (recognise_transport ps) as [[[[nx ny] w0] ws]|] eqn:R; [|discriminate].
  repeat match goal with
         | H : _ && _ = true |- _ => apply andb_true_iff in H; destruct H
         end.
  repeat match goal with
         | H : Nat.eqb _ _ = true |- _ => apply Nat.eqb_eq in H
         | H : wp_eqb _ _ = true |- _ => apply wp_eqb_eq in H
         end.
  destruct (recognised_transport_executable T O ps nx ny w0 ws R Ht) as [st' [E [_ [_ [_ [Hh [Hmove _]]]]]]].
  exists st'. split; [exact E|]. split; [exact Hh|].
  intros i j Hi Hj.
  match goal with
  | H0 : w0 = _, Hn : last (w0 :: ws) w0 = _ |- _ =>
      specialize (Hmove i j ltac:(lia) ltac:(lia)); rewrite Hn in Hmove; rewrite H0 in Hmove; simpl fst in Hmove; simpl snd in Hmove
  end.
  rewrite !nth_pick_coords in Hmove by lia. exact Hmove.
Qed.
