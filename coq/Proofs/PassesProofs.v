From Coq Require Import Arith Lia.
From BS Require Import Model.Passes.
Set Default Proof Using "Type".

Section PassesProofs.
  Variable Val Ev K : Type.
  Variable k_eqb : K -> K -> bool.
  Hypothesis k_eqb_eq : forall a b, k_eqb a b = true -> a = b.
  Variable pure : K -> bool.
  Variable sem : K -> list Val -> Val.
  Variable emit : K -> list Val -> option Ev.
  (* soundness of the trait table: a Pure statement emits nothing *)
  Hypothesis pure_sound : forall k vs, pure k = true -> emit k vs = None.

  Notation sstmt := (sstmt K).
  Notation run := (run Val Ev K sem emit).
  Notation dce := (dce K pure).
  Notation cse := (cse K k_eqb pure).
  Notation upd := (upd Val).
  Notation uses := (uses K).

  (* names a program reads before defining them *)
  Fixpoint free_uses (p : list sstmt) : list nat :=
    match p with
    | [] => []
    | s :: r => sops K s ++ filter (fun x => negb (Nat.eqb x (sid K s))) (free_uses r)
    end.

  Lemma free_uses_uses x p : In x (free_uses p) -> uses x p = true.
  Proof.
    induction p as [|s r IH]; simpl; [contradiction|].
    intros H. apply in_app_or in H as [H | H].
    - apply orb_true_iff. left. apply existsb_exists. exists x. split; [exact H | apply Nat.eqb_refl].
    - apply filter_In in H as [H _]. apply orb_true_iff. right. apply IH, H.
  Qed.

  Lemma map_agree (e1 e2 : nat -> Val) l : (forall x, In x l -> e1 x = e2 x) -> map e1 l = map e2 l.
  Proof. intros H. apply map_ext_in. exact H. Qed.

  Theorem dce_events_gen p : forall e1 e2,
    (forall x, In x (free_uses (dce p)) -> e1 x = e2 x) -> run e1 p = run e2 (dce p).
  Proof using pure_sound.
    induction p as [|s r IH]; intros e1 e2 H; [reflexivity|].
    cbn [Passes.dce] in *.
    destruct (pure (skind K s) && negb (uses (sid K s) (dce r))) eqn:E.
    - apply andb_true_iff in E as [Ep Eu]. apply negb_true_iff in Eu.
      cbn [Passes.run]. rewrite (pure_sound _ _ Ep). simpl. apply IH.
      intros x Hx. unfold Passes.upd.
      destruct (Nat.eqb x (sid K s)) eqn:Ex.
      + apply Nat.eqb_eq in Ex. subst. apply free_uses_uses in Hx. congruence.
      + apply H, Hx.
    - cbn [free_uses] in H. cbn [Passes.run].
      assert (Hops : map e1 (sops K s) = map e2 (sops K s)).
      { apply map_agree. intros x Hx. apply H. apply in_or_app. left. exact Hx. }
      rewrite Hops. f_equal. apply IH.
      intros x Hx. unfold Passes.upd. destruct (Nat.eqb x (sid K s)) eqn:Ex; [reflexivity|].
      apply H. apply in_or_app. right. apply filter_In. split; [exact Hx | rewrite Ex; reflexivity].
  Qed.

  (* dead-code elimination never changes the executed events *)
  Theorem dce_events p e : run e (dce p) = run e p.
  Proof using pure_sound. symmetry. apply dce_events_gen. reflexivity. Qed.

  (* ---- CSE ---- *)
  Lemma key_eqb_eq a b : key_eqb K k_eqb a b = true -> a = b.
  Proof using k_eqb_eq.
    destruct a as [ka la], b as [kb lb]. unfold key_eqb; simpl.
    rewrite !andb_true_iff. intros [[Hk Hl] Hf]. apply k_eqb_eq in Hk. subst. f_equal.
    apply Nat.eqb_eq in Hl. revert lb Hl Hf.
    induction la as [|x la IH]; destruct lb as [|y lb]; simpl; intros Hl Hf; try discriminate; [reflexivity|].
    apply andb_true_iff in Hf as [Hxy Hf]. apply Nat.eqb_eq in Hxy. subst. f_equal. apply IH; [lia | exact Hf].
  Qed.

  Lemma find_avail_In key av x : find_avail K k_eqb key av = Some x -> In (key, x) av.
  Proof using k_eqb_eq.
    induction av as [|[k y] r IH]; simpl; [discriminate|].
    destruct (key_eqb K k_eqb key k) eqn:E.
    - intros H; inversion H; subst. apply key_eqb_eq in E. subst. left; reflexivity.
    - intros H. right. apply IH, H.
  Qed.

  (* the invariant relating a run of the original program (environment e1, names [defined]) and a
     run of the rewritten one (environment e2) *)
  Definition cse_inv (defined : list nat) (av : list ((K * list nat) * nat)) (ren : nat -> nat) (e1 e2 : nat -> Val) : Prop :=
    (forall x, In x defined -> e2 (ren x) = e1 x /\ In (ren x) defined) /\
    (forall x, ~ In x defined -> ren x = x) /\
    (forall k ops x, In ((k, ops), x) av ->
        In x defined /\ (forall o, In o ops -> In o defined) /\ e2 x = sem k (map e2 ops)).

  Lemma upd_other (e : nat -> Val) x v y : y <> x -> upd e x v y = e y.
  Proof. intros H. unfold Passes.upd. destruct (Nat.eqb y x) eqn:E; [apply Nat.eqb_eq in E; contradiction | reflexivity]. Qed.
  Lemma upd_same (e : nat -> Val) x v : upd e x v x = v.
  Proof. unfold Passes.upd. rewrite Nat.eqb_refl. reflexivity. Qed.

  Lemma map_upd_fresh (e : nat -> Val) x v l : ~ In x l -> map (upd e x v) l = map e l.
  Proof. intros H. apply map_ext_in. intros y Hy. apply upd_other. intros ->. contradiction. Qed.

  (* shared by the two cases in which the statement is kept *)
  Lemma cse_keep_inv defined av ren e1 e2 (s : sstmt) :
    ~ In (sid K s) defined -> (forall x, In x (sops K s) -> In x defined) ->
    cse_inv defined av ren e1 e2 ->
    map e2 (map ren (sops K s)) = map e1 (sops K s) /\
    (forall av', (av' = av \/ av' = ((skind K s, map ren (sops K s)), sid K s) :: av) ->
       cse_inv (sid K s :: defined) av' ren
               (upd e1 (sid K s) (sem (skind K s) (map e1 (sops K s))))
               (upd e2 (sid K s) (sem (skind K s) (map e2 (map ren (sops K s)))))).
  Proof.
    intros Hfresh Hops (Hren & Hid & Hav).
    assert (Hargs : map e2 (map ren (sops K s)) = map e1 (sops K s)).
    { rewrite map_map. apply map_ext_in. intros x Hx. apply Hren, Hops, Hx. }
    assert (Hopsdef : forall o, In o (map ren (sops K s)) -> In o defined).
    { intros o Ho. apply in_map_iff in Ho as (x & <- & Hx). apply Hren, Hops, Hx. }
    split; [exact Hargs|]. intros av' Hav'. rewrite Hargs.
    assert (Hold : forall k ops x, In ((k, ops), x) av ->
              In x (sid K s :: defined) /\ (forall o, In o ops -> In o (sid K s :: defined)) /\
              upd e2 (sid K s) (sem (skind K s) (map e1 (sops K s))) x
              = sem k (map (upd e2 (sid K s) (sem (skind K s) (map e1 (sops K s)))) ops)).
    { intros k ops x Hin. destruct (Hav _ _ _ Hin) as (A & B & C).
      split; [right; exact A | split; [intros o Ho; right; apply B, Ho|]].
      rewrite upd_other by (intros ->; contradiction).
      rewrite map_upd_fresh by (intros Hc; apply Hfresh, B, Hc). exact C. }
    split; [|split].
    - intros y [<- | Hy].
      + rewrite (Hid _ Hfresh), !upd_same. split; [reflexivity | left; reflexivity].
      + destruct (Hren y Hy) as [A B].
        rewrite upd_other by (intros E; rewrite E in B; contradiction).
        rewrite upd_other by (intros ->; contradiction).
        split; [exact A | right; exact B].
    - intros x Hx. apply Hid. intros Hc. apply Hx. right; exact Hc.
    - destruct Hav' as [-> | ->]; [exact Hold|].
      intros k ops x [Heq | Hin]; [|apply Hold; exact Hin].
      inversion Heq; subst. split; [left; reflexivity|].
      split; [intros o Ho; right; apply Hopsdef, Ho|].
      rewrite upd_same.
      rewrite map_upd_fresh by (intros Hc; apply Hfresh, Hopsdef, Hc).
      rewrite Hargs. reflexivity.
  Qed.

  Theorem cse_events_gen p : forall defined av ren e1 e2,
    wf_ssa K defined p -> cse_inv defined av ren e1 e2 ->
    run e1 p = run e2 (cse av ren p).
  Proof using pure_sound k_eqb_eq.
    induction p as [|s r IH]; intros defined av ren e1 e2 Hwf Hinv; simpl; [reflexivity|].
    destruct Hwf as (Hfresh & Hops & Hwf).
    destruct (cse_keep_inv defined av ren e1 e2 s Hfresh Hops Hinv) as (Hargs & Hkeep).
    destruct (pure (skind K s)) eqn:Ep.
    - rewrite (pure_sound _ _ Ep). simpl.
      destruct (find_avail K k_eqb (skind K s, map ren (sops K s)) av) as [x|] eqn:Ef.
      + (* dropped: later users read the earlier result *)
        destruct Hinv as (Hren & Hid & Hav).
        apply find_avail_In in Ef. destruct (Hav _ _ _ Ef) as (Hx & _ & Hval).
        apply IH with (defined := sid K s :: defined); [exact Hwf|]. split; [|split].
        * intros y [<- | Hy].
          -- rewrite Nat.eqb_refl, upd_same. split; [|right; exact Hx]. rewrite Hval, Hargs. reflexivity.
          -- assert (Ny : Nat.eqb y (sid K s) = false) by (apply Nat.eqb_neq; intros ->; contradiction).
             rewrite Ny. destruct (Hren y Hy) as [A B].
             rewrite upd_other by (intros ->; contradiction).
             split; [exact A | right; exact B].
        * intros y Hy.
          assert (Ny : Nat.eqb y (sid K s) = false) by (apply Nat.eqb_neq; intros ->; apply Hy; left; reflexivity).
          rewrite Ny. apply Hid. intros Hc. apply Hy. right; exact Hc.
        * intros k ops z Hin. destruct (Hav _ _ _ Hin) as (A & B & C).
          split; [right; exact A | split; [intros o Ho; right; apply B, Ho | exact C]].
      + (* kept and recorded as available *)
        simpl. rewrite (pure_sound _ _ Ep). simpl.
        apply IH with (defined := sid K s :: defined); [exact Hwf|].
        apply Hkeep. right; reflexivity.
    - (* impure: kept, same event *)
      simpl.
      replace (emit (skind K s) (map e2 (map ren (sops K s)))) with (emit (skind K s) (map e1 (sops K s)))
        by (rewrite Hargs; reflexivity).
      f_equal.
      apply IH with (defined := sid K s :: defined); [exact Hwf|].
      apply Hkeep. left; reflexivity.
  Qed.

  (* common-subexpression elimination never changes the executed events *)
  Theorem cse_events p e : wf_ssa K [] p -> run e (cse [] (fun x => x) p) = run e p.
  Proof using pure_sound k_eqb_eq.
    intros Hwf. symmetry. apply cse_events_gen with (defined := []); [exact Hwf|].
    split; [intros x [] | split; [reflexivity | intros k ops x []]].
  Qed.

  (* and so does their composition, applied any number of times *)
  Theorem dce_cse_events p e : wf_ssa K [] p -> run e (dce (cse [] (fun x => x) p)) = run e p.
  Proof using pure_sound k_eqb_eq. intros H. rewrite dce_events. apply cse_events, H. Qed.
End PassesProofs.
