From Coq Require Import String.
From Coq Require Import ZArith List Bool Lia.
From BS Require Import Core.Base Model.Inject.
Import ListNotations.

Section InjectProofs.
  Variable handled : lk -> bool.
  Variable s : spec.
  Hypothesis handled_total : forall k, handled k = true.

  Notation inj := (inject handled s).

  (* values of the injected world: closures hold injected bodies *)
  Fixpoint inj_val (v : value) : value :=
    match v with
    | VTuple l => VTuple ((fix go (l : list value) := match l with [] => [] | x :: r => inj_val x :: go r end) l)
    | VClos env b =>
        VClos ((fix go (l : list (string * value)) :=
                  match l with [] => [] | (x, v) :: r => (x, inj_val v) :: go r end) env) (inj b)
    | _ => v
    end.
  Definition inj_env (env : venv) : venv := map (fun xv => (fst xv, inj_val (snd xv))) env.
  Definition inj_res (r : res value) : res value := match r with Ok v => Ok (inj_val v) | Err e => Err e end.

  Lemma inj_val_tuple l : inj_val (VTuple l) = VTuple (map inj_val l).
  Proof. first [reflexivity | simpl; f_equal; induction l; simpl; [reflexivity | f_equal; assumption]]. Qed.
  Lemma inj_val_clos env b : inj_val (VClos env b) = VClos (inj_env env) (inj b).
  Proof.
    simpl. f_equal. unfold inj_env. induction env as [|[x v] r IH]; [reflexivity|].
    cbn [map fst snd]. f_equal. exact IH.
  Qed.

  Lemma inj_tuple l : inj (ETuple l) = ETuple (map inj l).
  Proof. first [reflexivity | simpl; f_equal; induction l; simpl; [reflexivity | f_equal; assumption]]. Qed.
  Lemma inj_invoke m l : inj (EInvoke m l) = EInvoke m (map inj l).
  Proof. first [reflexivity | simpl; f_equal; induction l; simpl; [reflexivity | f_equal; assumption]]. Qed.

  Lemma assoc_inj_env x env : assoc x (inj_env env) = option_map inj_val (assoc x env).
  Proof.
    induction env as [|[y v] r IH]; simpl; [reflexivity|].
    destruct (String.eqb x y); [reflexivity | exact IH].
  Qed.

  Lemma assoc_inject_table m t :
    assoc m (inject_table handled s t) =
    option_map (fun mt => mkmethod (m_params mt) (inj (m_body mt))) (assoc m t).
  Proof.
    induction t as [|[y mt] r IH]; simpl; [reflexivity|].
    destruct (String.eqb m y); [reflexivity | exact IH].
  Qed.

  Lemma bind_args_inj ps vs :
    bind_args ps (map inj_val vs) = match bind_args ps vs with Ok e => Ok (inj_env e) | Err x => Err x end.
  Proof.
    revert vs; induction ps as [|p ps IH]; intros [|v vs]; simpl; try reflexivity.
    rewrite IH. destruct (bind_args ps vs); reflexivity.
  Qed.

  Lemma spec_lookup_ground k name v : spec_lookup s k name = Some v -> inj_val v = v /\ forall f md t env, eval (S f) md t env (const_of v) = Ok v.
  Proof.
    destruct k; simpl; intros H;
      match type of H with option_map _ ?o = _ => destruct o; simpl in H; [inversion H; subst; split; reflexivity | discriminate] end.
  Qed.

  Lemma int_op_inj f a b : int_op f (inj_res a) (inj_res b) = inj_res (int_op f a b).
  Proof.
    destruct a as [va|ea], b as [vb|eb]; simpl; try reflexivity;
      try (destruct va; reflexivity); destruct va, vb; reflexivity.
  Qed.

  (* the plain interpreter on the injected program = the spec interpreter on the original *)
  Theorem inject_preserves fuel : forall t env e,
    eval fuel Plain (inject_table handled s t) (inj_env env) (inj e) = inj_res (eval fuel (WithSpec s) t env e).
  Proof using handled_total.
    induction fuel as [|f IH]; intros t env e; [reflexivity|].
    assert (IHl : forall l env, eval_list (eval f Plain (inject_table handled s t)) (inj_env env) (map inj l)
                  = match eval_list (eval f (WithSpec s) t) env l with Ok vs => Ok (map inj_val vs) | Err x => Err x end).
    { intros l; induction l as [|x r IHr]; intros en; simpl; [reflexivity|].
      rewrite IH. destruct (eval f (WithSpec s) t en x) as [v|er]; simpl; [|reflexivity].
      rewrite IHr. destruct (eval_list (eval f (WithSpec s) t) en r); reflexivity. }
    destruct e as [k name | g | z | x | | x | l | a b | a b | c a b | x a b | m args | b | fx].
    - (* lookup *)
      cbn [inject]. rewrite handled_total.
      destruct (spec_lookup s k name) as [v|] eqn:E.
      + destruct (spec_lookup_ground _ _ _ E) as [Hv Hc]. rewrite Hc.
        cbn [eval]. rewrite E. simpl. rewrite Hv. reflexivity.
      + cbn [eval]. rewrite E. reflexivity.
    - reflexivity.
    - reflexivity.
    - reflexivity.
    - reflexivity.
    - cbn [inject eval]. rewrite assoc_inj_env. destruct (assoc x env); reflexivity.
    - rewrite inj_tuple. cbn [eval]. rewrite IHl.
      destruct (eval_list (eval f (WithSpec s) t) env l); cbn [inj_res]; [rewrite inj_val_tuple|]; reflexivity.
    - cbn [inject eval]. rewrite !IH. apply int_op_inj.
    - cbn [inject eval]. rewrite !IH. apply int_op_inj.
    - cbn [inject eval]. rewrite IH.
      destruct (eval f (WithSpec s) t env c) as [v|er]; simpl; [|reflexivity].
      destruct v; try reflexivity. cbn [inj_val]. destruct (Z.eqb z 0); apply IH.
    - cbn [inject eval]. rewrite IH.
      destruct (eval f (WithSpec s) t env a) as [v|er]; simpl; [|reflexivity].
      apply (IH t ((x, v) :: env)).
    - rewrite inj_invoke. cbn [eval]. rewrite assoc_inject_table.
      destruct (assoc m t) as [mt|]; simpl; [|reflexivity].
      rewrite IHl. destruct (eval_list (eval f (WithSpec s) t) env args) as [vs|er]; [|reflexivity].
      rewrite bind_args_inj. destruct (bind_args (m_params mt) vs) as [en|er]; [|reflexivity].
      apply IH.
    - cbn [inject eval inj_res]. rewrite inj_val_clos. reflexivity.
    - cbn [inject eval]. rewrite IH.
      destruct (eval f (WithSpec s) t env fx) as [v|er]; cbn [inj_res]; [|reflexivity].
      destruct v as [g|z|x| |l|cenv cb]; try reflexivity.
      rewrite inj_val_clos. apply IH.
  Qed.

  (* observable results (no closures inside) are literally equal *)
  Fixpoint ground (v : value) : bool :=
    match v with
    | VTuple l => (fix go (l : list value) := match l with [] => true | x :: r => ground x && go r end) l
    | VClos _ _ => false
    | _ => true
    end.

  Lemma ground_inj v : ground v = true -> inj_val v = v.
  Proof.
    revert v. fix IHv 1. intros v. destruct v as [g|z|x| |l|env b]; simpl; intros H.
    - reflexivity.
    - reflexivity.
    - reflexivity.
    - reflexivity.
    - f_equal. induction l as [|y r IHr]; [reflexivity|].
      apply andb_true_iff in H as [H1 H2]. rewrite (IHv _ H1), (IHr H2). reflexivity.
    - discriminate.
  Qed.

  Lemma inj_const_args args : map inj (map const_of args) = map const_of args.
  Proof.
    induction args as [|a r IHr]; [reflexivity|]. cbn [map]. rewrite IHr.
    destruct a; cbn [const_of inject]; reflexivity.
  Qed.

  Theorem inject_preserves_ground fuel t args root v :
    eval fuel (WithSpec s) t [] (EInvoke root (map const_of args)) = Ok v -> ground v = true ->
    eval fuel Plain (inject_table handled s t) [] (EInvoke root (map const_of args)) = Ok v.
  Proof using handled_total.
    intros H G. pose proof (inject_preserves fuel t [] (EInvoke root (map const_of args))) as P.
    rewrite H in P. simpl inj_res in P. rewrite (ground_inj _ G) in P.
    rewrite inj_invoke in P. simpl inj_env in P.
    rewrite inj_const_args in P. exact P.
  Qed.
End InjectProofs.

(* a lookup kind the rule does not handle is left in the program: the plain interpreter fails on
   it although the spec knows the name *)
Theorem unhandled_kind_breaks (handled : lk -> bool) s k name v fuel :
  handled k = false -> spec_lookup s k name = Some v ->
  eval (S fuel) Plain [] [] (inject handled s (ELookup k name)) = Err EInterp /\
  eval (S fuel) (WithSpec s) [] [] (ELookup k name) = Ok v.
Proof. intros H E. simpl. rewrite H, E. split; reflexivity. Qed.

(* names absent from the spec are never given a value: both routes fail *)
Theorem unknown_name_fails_both (handled : lk -> bool) s k name fuel t env :
  spec_lookup s k name = None ->
  eval (S fuel) Plain (inject_table handled s t) env (inject handled s (ELookup k name)) = Err EInterp /\
  eval (S fuel) (WithSpec s) t env (ELookup k name) = Err EInterp.
Proof. intros E. simpl. rewrite E. destruct (handled k); split; reflexivity. Qed.
