From Coq Require Import ZArith List String Bool Lia.
From BS Require Import Core.Show Core.Base Model.Tracer.
Import ListNotations.

(* ---------- basic facts about the opaque-grid equalities ---------- *)
Lemma shape_eqb_refl g : shape_eqb g g = true.
Proof. unfold shape_eqb; rewrite !Z.eqb_refl; reflexivity. Qed.

Lemma shape_eqb_sym a b : shape_eqb a b = shape_eqb b a.
Proof. unfold shape_eqb; rewrite (Z.eqb_sym (gnx a)), (Z.eqb_sym (gny a)); reflexivity. Qed.

Lemma shape_eqb_trans a b c : shape_eqb a b = true -> shape_eqb b c = true -> shape_eqb a c = true.
Proof.
  unfold shape_eqb; intros H1 H2.
  apply andb_true_iff in H1 as [A1 A2]; apply andb_true_iff in H2 as [B1 B2].
  apply Z.eqb_eq in A1, A2, B1, B2. rewrite A1, A2, B1, B2, !Z.eqb_refl. reflexivity.
Qed.

Lemma grid_eqb_refl g : grid_eqb g g = true.
Proof. unfold grid_eqb; rewrite !Z.eqb_refl; reflexivity. Qed.

Lemma grid_eqb_sym a b : grid_eqb a b = grid_eqb b a.
Proof.
  unfold grid_eqb; rewrite (Z.eqb_sym (gid a)), (Z.eqb_sym (gnx a)), (Z.eqb_sym (gny a)); reflexivity.
Qed.

Lemma grid_eqb_eq a b : grid_eqb a b = true <-> a = b.
Proof.
  split.
  - unfold grid_eqb; intros H. apply andb_true_iff in H as [H12 H3]. apply andb_true_iff in H12 as [H1 H2].
    apply Z.eqb_eq in H1, H2, H3. destruct a, b; simpl in *; subst; reflexivity.
  - intros ->; apply grid_eqb_refl.
Qed.

(* ---------- C01: the implementation model refines the reference ---------- *)
Definition R (r : rst) (s : ist) : Prop :=
  match r with
  | RIdle => s = init_ist
  | RActive d sg p => tr s = d ++ [AWay sg] /\ cur s = Some p
  end.

Lemma add_last_snoc d sg g : add_last (d ++ [AWay sg]) g = Some (d ++ [AWay (sg ++ [g])]).
Proof.
  induction d as [|a d IH]; simpl.
  - reflexivity.
  - rewrite IH. destruct (d ++ [AWay sg]) eqn:E.
    + destruct d; discriminate.
    + destruct a; reflexivity.
Qed.

Lemma step_sim r s o :
  R r s ->
  match rstep r o, istep s o with
  | Ok r', Ok s' => R r' s'
  | Err e, Err e' => e = e'
  | _, _ => False
  end.
Proof.
  intros HR. destruct r as [|d sg p]; simpl in HR.
  - subst s. destruct o; simpl; auto.
  - destruct HR as [Ht Hc]. destruct s as [t c]; simpl in *; subst.
    destruct o; simpl.
    + split; [rewrite <- app_assoc; reflexivity | reflexivity].
    + rewrite add_last_snoc. destruct (shape_eqb p g); simpl; auto.
    + split; [|reflexivity]. rewrite <- !app_assoc. reflexivity.
    + reflexivity.
Qed.

Lemma run_sim ops : forall r s, R r s ->
  match rrun r ops, irun s ops with
  | Ok r', Ok s' => R r' s'
  | Err e, Err e' => e = e'
  | _, _ => False
  end.
Proof.
  induction ops as [|o ops IH]; intros r s HR; simpl.
  - exact HR.
  - pose proof (step_sim r s o HR) as H.
    destruct (rstep r o) as [r'|e]; destruct (istep s o) as [s'|e']; simpl; try contradiction.
    + apply IH; exact H.
    + exact H.
Qed.

Lemma rfin_tr r s : R r s -> rfin r = tr s.
Proof. destruct r; simpl; [intros ->; reflexivity | intros [H _]; symmetry; exact H]. Qed.

Theorem itrace_refines_rtrace ops : itrace ops = rtrace ops.
Proof.
  unfold itrace, rtrace.
  pose proof (run_sim ops RIdle init_ist eq_refl) as H.
  destruct (rrun RIdle ops) as [r|e]; destruct (irun init_ist ops) as [s|e']; simpl; try contradiction.
  - f_equal. symmetry. apply rfin_tr; exact H.
  - subst; reflexivity.
Qed.

(* the isinstance assert in `move` can never fire *)
Theorem assert_unreachable ops : itrace ops <> Err EAssert.
Proof.
  rewrite itrace_refines_rtrace. unfold rtrace.
  assert (G : forall ops r, rrun r ops <> Err EAssert).
  { clear ops; induction ops as [|o ops IH]; intros r; simpl; [discriminate|].
    destruct (rstep r o) as [r'|e] eqn:E; simpl.
    - apply IH.
    - destruct r, o; simpl in E; try discriminate; try congruence.
      destruct (shape_eqb pos g); congruence. }
  specialize (G ops RIdle). destruct (rrun RIdle ops); simpl; congruence.
Qed.

(* ---------- exactly which op sequences are rejected ---------- *)
(* the position after a successful prefix *)
Definition rpos (s : rst) : option grid :=
  match s with RIdle => None | RActive _ _ p => Some p end.

Definition bad_step (s : rst) (o : op) : bool :=
  match rpos s, o with
  | _, OFail => true                                 (* the kernel raises by itself *)
  | None, OSet _ => false
  | None, _ => true                                  (* AOD used before any set_loc *)
  | Some p, OMove g => negb (shape_eqb p g)          (* move to a different shape *)
  | Some _, _ => false
  end.

Lemma rstep_err_iff s o : (exists e, rstep s o = Err e) <-> bad_step s o = true.
Proof.
  destruct s as [|d sg p], o as [g|g|k x y|]; unfold bad_step; simpl; try destruct (shape_eqb p g); simpl;
    split; intros H; try discriminate; try (destruct H as [e H]; discriminate);
    try reflexivity; try (eexists; reflexivity).
Qed.

Theorem rtrace_error_iff ops :
  (exists e, rtrace ops = Err e) <->
  (exists pre o post s, ops = pre ++ o :: post /\ rrun RIdle pre = Ok s /\ bad_step s o = true).
Proof.
  unfold rtrace.
  assert (G : forall ops r,
             (exists e, rrun r ops = Err e) <->
             (exists pre o post s, ops = pre ++ o :: post /\ rrun r pre = Ok s /\ bad_step s o = true)).
  { clear ops. induction ops as [|o ops IH]; intros r; simpl.
    - split; [intros [e H]; discriminate | intros (pre & o & post & s & H & _); destruct pre; discriminate].
    - destruct (rstep r o) as [r'|e] eqn:E; simpl.
      + rewrite IH. split.
        * intros (pre & o' & post & s & -> & Hr & Hb). exists (o :: pre), o', post, s.
          simpl. rewrite E. simpl. auto.
        * intros (pre & o' & post & s & Heq & Hr & Hb). destruct pre as [|o0 pre]; simpl in *.
          -- inversion Heq; subst. inversion Hr; subst.
             assert (X : exists e, rstep s o' = Err e) by (apply rstep_err_iff; exact Hb).
             destruct X as [e X]. congruence.
          -- inversion Heq; subst. rewrite E in Hr. simpl in Hr.
             exists pre, o', post, s. auto.
      + split.
        * intros _. exists [], o, ops, r. simpl. repeat split; auto.
          apply rstep_err_iff. eexists; exact E.
        * intros _. eexists; reflexivity. }
  specialize (G ops RIdle).
  split.
  - intros [e H]. apply G. destruct (rrun RIdle ops); simpl in H; [discriminate | eexists; reflexivity].
  - intros H. apply G in H as [e H]. rewrite H. eexists; reflexivity.
Qed.

(* ---------- C11: every traced path is well formed ---------- *)
Lemma seg_ok_snoc sg g p :
  seg_ok sg = true -> last_grid sg = Some p -> shape_eqb p g = true -> seg_ok (sg ++ [g]) = true.
Proof.
  destruct sg as [|h r]; simpl; [discriminate|].
  intros Hall Hl Hs.
  rewrite forallb_app. rewrite Hall. simpl. rewrite andb_true_r.
  assert (Hhp : shape_eqb h p = true).
  { clear Hs. revert h Hall Hl. induction r as [|a r IH]; intros h Hall Hl; simpl in *.
    - inversion Hl; subst; apply shape_eqb_refl.
    - apply andb_true_iff in Hall as [Ha Hr].
      destruct r as [|b r'].
      + inversion Hl; subst; exact Ha.
      + apply (IH h); [exact Hr | exact Hl]. }
  eapply shape_eqb_trans; eassumption.
Qed.

Lemma last_grid_snoc sg g : last_grid (sg ++ [g]) = Some g.
Proof.
  induction sg as [|a r IH]; simpl; [reflexivity|].
  destruct (r ++ [g]) eqn:E; [destruct r; discriminate | exact IH].
Qed.

Lemma hd_grid_snoc sg g : sg <> [] -> hd_grid (sg ++ [g]) = hd_grid sg.
Proof. destruct sg; [congruence | reflexivity]. Qed.

Definition prefix_ok (d : list action) (sg : list grid) : Prop :=
  forall sg' T, hd_grid sg' = hd_grid sg ->
                wfb (d ++ AWay sg' :: T) = seg_ok sg' && wf_after sg' T.

Definition WInv (s : rst) : Prop :=
  match s with
  | RIdle => True
  | RActive d sg p => seg_ok sg = true /\ last_grid sg = Some p /\ prefix_ok d sg
  end.

(* the same fact with any head, when the last done action is a segment *)
Lemma prefix_ok_any d sg :
  (forall sg' T, wfb (d ++ AWay sg' :: T) = seg_ok sg' && wf_after sg' T) -> prefix_ok d sg.
Proof. intros H sg' T _. apply H. Qed.

Lemma winv_step s o s' : WInv s -> rstep s o = Ok s' -> WInv s'.
Proof.
  destruct s as [|d sg p]; destruct o as [g|g|k x y|]; simpl; intros HI E; try discriminate.
  - inversion E; subst; simpl.
    split; [reflexivity | split; [reflexivity |]].
    intros sg' T _. reflexivity.
  - destruct HI as (Hs & Hl & Hp). inversion E; subst; simpl.
    split; [reflexivity | split; [reflexivity |]].
    intros sg' T _. rewrite <- app_assoc. simpl.
    rewrite (Hp sg (AWay sg' :: T) eq_refl), Hs. reflexivity.
  - destruct HI as (Hs & Hl & Hp). destruct (shape_eqb p g) eqn:Sh; [|discriminate].
    inversion E; subst; simpl.
    split; [eapply seg_ok_snoc; eassumption | split; [apply last_grid_snoc |]].
    intros sg' T Hh. apply Hp. rewrite Hh. apply hd_grid_snoc.
    destruct sg; [discriminate | congruence].
  - destruct HI as (Hs & Hl & Hp). inversion E; subst; simpl.
    split; [reflexivity | split; [reflexivity |]].
    intros sg' T Hh. rewrite <- app_assoc. simpl.
    rewrite (Hp sg _ eq_refl), Hs. simpl.
    rewrite Hl. simpl in Hh. rewrite Hh. simpl. rewrite grid_eqb_refl, andb_true_r. reflexivity.
Qed.

Lemma winv_run ops : forall s s', WInv s -> rrun s ops = Ok s' -> WInv s'.
Proof.
  induction ops as [|o ops IH]; simpl; intros s s' HI E.
  - inversion E; subst; exact HI.
  - destruct (rstep s o) as [s1|e] eqn:E1; simpl in E; [|discriminate].
    eapply IH; [eapply winv_step; eassumption | exact E].
Qed.

Theorem rtrace_wf ops p : rtrace ops = Ok p -> wfb p = true.
Proof.
  unfold rtrace. destruct (rrun RIdle ops) as [s|e] eqn:E; simpl; [|discriminate].
  intros H; inversion H; subst; clear H.
  pose proof (winv_run ops RIdle s I E) as HI.
  destruct s as [|d sg q]; simpl; [reflexivity|].
  destruct HI as (Hs & Hl & Hp).
  rewrite (Hp sg [] eq_refl), Hs. reflexivity.
Qed.

Theorem itrace_wf ops p : itrace ops = Ok p -> wfb p = true.
Proof. rewrite itrace_refines_rtrace. apply rtrace_wf. Qed.
