From Coq Require Import String.
From Coq Require Import ZArith QArith List Bool Arith Lia Permutation.
From BS Require Import Core.Base Model.Aod.
Import ListNotations.

Lemma occ_find_remove p o a :
  occ_find p o = Some a -> Permutation (map snd o) (a :: map snd (occ_remove p o)).
Proof.
  induction o as [|[q b] r IH]; simpl; [discriminate|].
  destruct (pos_eqb p q).
  - intros H; inversion H; subst. apply Permutation_refl.
  - intros H. simpl. eapply perm_trans; [apply perm_skip, IH, H | apply perm_swap].
Qed.

Lemma held_find_remove s h a :
  held_find s h = Some a -> Permutation (map snd h) (a :: map snd (held_remove s h)).
Proof.
  induction h as [|[t b] r IH]; simpl; [discriminate|].
  destruct (spot_eqb s t).
  - intros H; inversion H; subst. apply Permutation_refl.
  - intros H. simpl. eapply perm_trans; [apply perm_skip, IH, H | apply perm_swap].
Qed.

(* a step preserves the atoms and the trap sites *)
Definition keeps (st st' : ast) : Prop := Permutation (atoms st') (atoms st) /\ traps st' = traps st.

Lemma keeps_refl st : keeps st st.
Proof. split; [apply Permutation_refl | reflexivity]. Qed.
Lemma keeps_trans a b c : keeps a b -> keeps b c -> keeps a c.
Proof. intros [P1 T1] [P2 T2]. split; [eapply perm_trans; eassumption | congruence]. Qed.

Lemma pick1_keeps st sp st' : pick1 st sp = AOk st' -> keeps st st'.
Proof.
  unfold pick1. destruct (negb (is_trap st (snd sp))); [discriminate|].
  destruct (occ_find (snd sp) (occ st)) as [a|] eqn:E; intros H; inversion H; subst; [|apply keeps_refl].
  split; [|reflexivity]. unfold atoms; simpl.
  apply Permutation_sym. eapply perm_trans; [apply Permutation_app_tail, (occ_find_remove _ _ _ E)|].
  simpl. apply Permutation_middle.
Qed.

Lemma drop1_keeps st sp st' : drop1 st sp = AOk st' -> keeps st st'.
Proof.
  unfold drop1. destruct (held_find (fst sp) (held st)) as [a|] eqn:E; [|intros H; inversion H; apply keeps_refl].
  destruct (negb (is_trap st (snd sp))); [discriminate|].
  destruct (occ_find (snd sp) (occ st)); [discriminate|]. intros H; inversion H; subst.
  split; [|reflexivity]. unfold atoms; simpl.
  apply Permutation_sym. eapply perm_trans; [apply Permutation_app_head, (held_find_remove _ _ _ E)|].
  apply Permutation_sym, Permutation_middle.
Qed.

Lemma fold_a_keeps {B} (f : ast -> B -> ares ast) :
  (forall s b s', f s b = AOk s' -> keeps s s') ->
  forall l st st', fold_a f st l = AOk st' -> keeps st st'.
Proof.
  intros Hf l. induction l as [|b r IH]; intros st st' H; simpl in H.
  - inversion H; apply keeps_refl.
  - destruct (f st b) as [s1|e] eqn:E; [|discriminate].
    eapply keeps_trans; [apply (Hf _ _ _ E) | apply IH, H].
Qed.

Lemma with_tones_keeps st xs ys : keeps st (with_tones st xs ys).
Proof. split; [apply Permutation_refl | reflexivity]. Qed.

Lemma sim_switch_keeps st k x y nx ny cur st' : sim_switch st k x y nx ny cur = AOk st' -> keeps st st'.
Proof.
  unfold sim_switch. destruct (select x nx) as [sx|e]; [|discriminate].
  destruct (select y ny) as [sy|e]; [|discriminate].
  destruct k; intros H.
  - destruct (negb (tones_apart _)); [discriminate|].
    eapply keeps_trans; [apply with_tones_keeps | eapply (fold_a_keeps pick1 pick1_keeps); exact H].
  - eapply keeps_trans; [apply with_tones_keeps | eapply (fold_a_keeps drop1 drop1_keeps); exact H].
Qed.

Lemma sim_waypoint_keeps st first nx ny w st' : sim_waypoint st first nx ny w = AOk st' -> keeps st st'.
Proof.
  unfold sim_waypoint. destruct (negb _); [discriminate|]. destruct (_ && _ && _); [discriminate|].
  destruct (negb (tones_apart _)); [discriminate|].
  intros H; inversion H; subst. apply with_tones_keeps.
Qed.

Lemma sim_way_keeps ws : forall st first nx ny cur st' cur',
  sim_way st first nx ny ws cur = AOk (st', cur') -> keeps st st'.
Proof.
  induction ws as [|w r IH]; intros st first nx ny cur st' cur' H; simpl in H.
  - inversion H; apply keeps_refl.
  - destruct (sim_waypoint st first nx ny w) as [s1|e] eqn:E; [|discriminate].
    eapply keeps_trans; [apply (sim_waypoint_keeps _ _ _ _ _ _ E) | eapply IH; exact H].
Qed.

Lemma sim_actions_keeps p : forall st nx ny cur st', sim_actions st nx ny p cur = AOk st' -> keeps st st'.
Proof.
  induction p as [|a r IH]; intros st nx ny cur st' H; simpl in H.
  - inversion H; apply keeps_refl.
  - destruct a as [ws | k x y].
    + destruct (sim_way st true nx ny ws cur) as [[s1 c1]|e] eqn:E; [|discriminate].
      eapply keeps_trans; [eapply sim_way_keeps; exact E | eapply IH; exact H].
    + destruct cur as [c|]; [|discriminate].
      destruct (sim_switch st k x y nx ny c) as [s1|e] eqn:E; [|discriminate].
      eapply keeps_trans; [eapply sim_switch_keeps; exact E | eapply IH; exact H].
Qed.

(* no atom is lost or duplicated by anything the simulator accepts *)
Theorem sim_conserves st ps st' :
  sim_paths st ps = AOk st' -> Permutation (atoms st') (atoms st) /\ traps st' = traps st.
Proof.
  unfold sim_paths. intros H.
  apply (fold_a_keeps _ (fun s p s' => sim_actions_keeps (p_actions p) s (p_nx p) (p_ny p) None s') _ _ _ H).
Qed.

(* what acceptance of a release means: the site is a trap site of the layout and was vacant *)
Theorem accepted_release st sp st' a :
  drop1 st sp = AOk st' -> held_find (fst sp) (held st) = Some a ->
  is_trap st (snd sp) = true /\ occ_find (snd sp) (occ st) = None /\ occ_find (snd sp) (occ st') = Some a.
Proof.
  unfold drop1. intros H E. rewrite E in H.
  destruct (is_trap st (snd sp)) eqn:T; simpl in H; [|discriminate].
  destruct (occ_find (snd sp) (occ st)) eqn:O; [discriminate|]. inversion H; subst; simpl.
  repeat split.
  assert (R : pos_eqb (snd sp) (snd sp) = true).
  { unfold pos_eqb. rewrite !(proj2 (Qeq_bool_iff _ _) (Qeq_refl _)). reflexivity. }
  rewrite R. reflexivity.
Qed.

(* ... and of a spot lighting up: it sits on a trap site *)
Theorem accepted_pick st sp st' : pick1 st sp = AOk st' -> is_trap st (snd sp) = true.
Proof. unfold pick1. destruct (is_trap st (snd sp)); [reflexivity | discriminate]. Qed.

(* a segment that starts elsewhere while atoms are held is refused *)
Theorem jump_refused st nx ny w :
  held st <> [] -> length (fst w) = nx -> length (snd w) = ny ->
  same_place (xon st) (fst w) && same_place (yon st) (snd w) = false ->
  sim_waypoint st true nx ny w = AErr EJump.
Proof.
  intros Hh Lx Ly Hs. unfold sim_waypoint. rewrite Lx, Ly, !Nat.eqb_refl. simpl.
  destruct (held st); [contradiction|]. simpl. rewrite Hs. reflexivity.
Qed.

(* a waypoint whose shape differs from the tone lists is refused *)
Theorem wrong_dimensions_refused st first nx ny w :
  (length (fst w) <> nx \/ length (snd w) <> ny) -> sim_waypoint st first nx ny w = AErr EDims.
Proof.
  intros H. unfold sim_waypoint.
  assert (E : (length (fst w) =? nx) && (length (snd w) =? ny) = false).
  { apply andb_false_iff. destruct H as [H|H]; [left | right]; apply Nat.eqb_neq; exact H. }
  rewrite E. reflexivity.
Qed.

(* an accepted waypoint leaves the lit tones of each axis at pairwise different coordinates,
   so no two tweezers share a spot *)
Theorem accepted_waypoint_apart st first nx ny w st' :
  sim_waypoint st first nx ny w = AOk st' -> tones_apart st' = true.
Proof.
  unfold sim_waypoint. destruct (negb _); [discriminate|]. destruct (_ && _ && _); [discriminate|].
  destruct (tones_apart _) eqn:T; simpl; [|discriminate].
  intros H; inversion H; subst. exact T.
Qed.

Lemma distinct_q_spec l : distinct_q l = true ->
  forall i j : nat, (i < j)%nat -> (j < length l)%nat -> ~ Qeq (nth i l 0) (nth j l 0).
Proof.
  induction l as [|a r IH]; simpl; intros H i j Hij Hj; [inversion Hj|].
  apply andb_true_iff in H. destruct H as [Hn Hd].
  destruct j as [|j]; [inversion Hij|]. destruct i as [|i].
  - intros E. apply negb_true_iff in Hn.
    assert (X : existsb (Qeq_bool a) r = true).
    { apply existsb_exists. exists (nth j r 0). split; [apply nth_In; apply Nat.succ_lt_mono; exact Hj | apply Qeq_bool_iff; exact E]. }
    rewrite X in Hn. discriminate.
  - apply IH; [exact Hd | apply Nat.succ_lt_mono; exact Hij | apply Nat.succ_lt_mono; exact Hj].
Qed.

Theorem tweezers_never_coincide st first nx ny w st' :
  sim_waypoint st first nx ny w = AOk st' ->
  (forall i j : nat, (i < j)%nat -> (j < length (xon st'))%nat -> ~ Qeq (nth i (map snd (xon st')) 0) (nth j (map snd (xon st')) 0)) /\
  (forall i j : nat, (i < j)%nat -> (j < length (yon st'))%nat -> ~ Qeq (nth i (map snd (yon st')) 0) (nth j (map snd (yon st')) 0)).
Proof.
  intros H. apply accepted_waypoint_apart in H. unfold tones_apart in H. apply andb_true_iff in H.
  destruct H as [Hx Hy]. split; intros i j Hij Hj.
  - apply distinct_q_spec; [exact Hx | exact Hij | rewrite map_length; exact Hj].
  - apply distinct_q_spec; [exact Hy | exact Hij | rewrite map_length; exact Hj].
Qed.
