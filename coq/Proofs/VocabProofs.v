From Coq Require Import List Bool.
From BS Require Import Model.Vocab.
Import ListNotations.

Lemma cat_eqb_eq a b : cat_eqb a b = true <-> a = b.
Proof. destruct a, b; simpl; split; intros H; try reflexivity; try discriminate. Qed.

Lemma mem_In c l : mem c l = true <-> In c l.
Proof.
  unfold mem. rewrite existsb_exists. split.
  - intros (x & Hx & E). apply cat_eqb_eq in E. subst. exact Hx.
  - intros H. exists c. split; [exact H | apply cat_eqb_eq; reflexivity].
Qed.

(* if the finite check passes for the reflected tables then acceptance is the policy for every
   wrapper in the table and every kind *)
Theorem vocab_exact_sound group wrappers :
  vocab_exact group wrappers = true ->
  forall c k, In c wrappers -> accepts group k c = policy k c.
Proof.
  unfold vocab_exact. rewrite forallb_forall. intros H c k Hc.
  specialize (H c Hc). rewrite forallb_forall in H.
  assert (Hk : In k kinds) by (destruct k; simpl; auto).
  specialize (H k Hk). apply Bool.eqb_prop in H. exact H.
Qed.

(* the policy itself says what the property says *)
Theorem policy_tweezer : forall c, policy KTweezer c = true <-> In c [CAction; CSpec; CGrid; CFilled].
Proof. destruct c; simpl; split; intros H; try reflexivity; try discriminate; intuition discriminate. Qed.
Theorem policy_move : forall c, policy KMove c = true <-> In c [CSchedule; CGate; CInit; CMeasure; CSpec; CGrid; CFilled].
Proof. destruct c; simpl; split; intros H; try reflexivity; try discriminate; intuition discriminate. Qed.
Theorem policy_kernel : forall c, policy KKernel c = true <-> In c [CAtom; CGate; CSpec; CGrid; CFilled].
Proof. destruct c; simpl; split; intros H; try reflexivity; try discriminate; intuition discriminate. Qed.
