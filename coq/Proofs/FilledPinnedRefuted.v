From Coq Require Import List Bool Arith.
From BS Require Import Model.Filled Model.FilledPinned.
Import ListNotations.

(* view [0;0] x [0] of a grid whose site (0,0) is vacant shows that vacant site twice, but the
   pinned code marked only the second copy *)
Lemma pinned_view_reindexes_refuted :
  exists vac xi yi a b,
    a < length xi /\ b < length yi /\ In (nth a xi 0, nth b yi 0) vac /\ ~ In (a, b) (view_vac0 vac xi yi).
Proof.
  exists [(0, 0)], [0; 0], [0], 0, 0. simpl. repeat split; auto.
  intros [H | []]. discriminate.
Qed.
