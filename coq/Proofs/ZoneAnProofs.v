From Coq Require Import String.
From Coq Require Import ZArith QArith List Bool Arith Lia.
From BS Require Import Core.Base Core.GridQ Model.Lattice Model.ZoneAn Proofs.GridQProofs.
Import ListNotations.
Local Open Scope nat_scope.

(* ---------- the analysis tracks provenance soundly, for every straight-line program ---------- *)
Definition env_ok (aenv : list zone) (cenv : list cval) : Prop :=
  length aenv = length cenv /\ forall k, k < length cenv -> gamma (nth k aenv UnknownZone) (nth k cenv CFail) = true.

Lemma gamma_fail a : gamma a CFail = true.
Proof. reflexivity. Qed.

Lemma root_zone_invalid a : is_invalid a = true -> root_zone a = None.
Proof. destruct a; simpl; intros H; try discriminate; reflexivity. Qed.

(* a value in gamma of a non-invalid abstract value with a root zone is within that zone *)
Lemma gamma_within a v z :
  gamma a v = true -> failed v = false -> root_zone a = Some z -> within z v = true.
Proof.
  unfold gamma. intros H Hf Hr. rewrite Hf in H.
  destruct (is_invalid a) eqn:Ei; [discriminate|].
  destruct a; simpl in Hr, H; try discriminate.
  - inversion Hr; subst. destruct v; try discriminate. exact H.
  - rewrite Hr in H. exact H.
  - rewrite Hr in H. exact H.
Qed.

Lemma gamma_invalid_fails a v : gamma a v = true -> is_invalid a = true -> failed v = true.
Proof.
  unfold gamma. intros H Hi. destruct (failed v); [reflexivity|]. rewrite Hi in H. discriminate.
Qed.

Lemma view_sub_sound ax cx :
  gamma ax cx = true -> failed cx = false ->
  gamma (if is_invalid ax then InvalidZone else GetSubGridOfZone ax NotZone NotZone) (CView cx) = true.
Proof.
  intros G Hf. destruct (is_invalid ax) eqn:Ei.
  - rewrite (gamma_invalid_fails _ _ G Ei) in Hf. discriminate.
  - unfold gamma. simpl. destruct (root_zone ax) as [z|] eqn:Er; [|reflexivity].
    eapply gamma_within; eassumption.
Qed.

Lemma view_item_sound ax ai cx :
  gamma ax cx = true -> failed cx = false ->
  gamma (if is_invalid ax then InvalidZone else GetItemOfZone ax ai) (CView cx) = true.
Proof.
  intros G Hf. destruct (is_invalid ax) eqn:Ei.
  - rewrite (gamma_invalid_fails _ _ G Ei) in Hf. discriminate.
  - unfold gamma. simpl. destruct (root_zone ax) as [z|] eqn:Er; [|reflexivity].
    eapply gamma_within; eassumption.
Qed.

(* indexing a container never claims a zone: gamma of the container's abstract value held *)
Lemma item_of_nongrid_sound ax ai :
  gamma ax CNonGrid = true ->
  gamma (if is_invalid ax then InvalidZone else GetItemOfZone ax ai) CNonGrid = true.
Proof.
  intros G. destruct (is_invalid ax) eqn:Ei.
  - pose proof (gamma_invalid_fails _ _ G Ei). discriminate.
  - unfold gamma. simpl. destruct (root_zone ax) as [z|] eqn:Er; [|reflexivity].
    pose proof (gamma_within _ _ _ G eq_refl Er) as W. discriminate.
Qed.

Lemma step_sound statics aenv cenv s :
  env_ok aenv cenv -> gamma (astep statics aenv s) (cstep statics cenv s) = true.
Proof.
  intros [Hlen Hok].
  assert (G : forall k, gamma (nth k aenv UnknownZone) (nth k cenv CFail) = true).
  { intros k. destruct (Nat.lt_ge_cases k (length cenv)) as [Hk|Hk]; [apply Hok, Hk|].
    rewrite (nth_overflow cenv) by exact Hk. apply gamma_fail. }
  destruct s as [name | zo | pz | x | x i | ops | ops]; simpl.
  - destruct (existsb (String.eqb name) statics); [|reflexivity].
    unfold gamma; simpl. apply String.eqb_refl.
  - destruct zo as [z0|]; [unfold gamma; simpl; apply String.eqb_refl | reflexivity].
  - destruct pz as [z0|]; unfold gamma; simpl; [apply String.eqb_refl | reflexivity].
  - pose proof (G x) as Gx.
    destruct (nth x cenv CFail) eqn:Ev; try reflexivity; apply view_sub_sound; try exact Gx; reflexivity.
  - pose proof (G x) as Gx.
    destruct (nth x cenv CFail) eqn:Ev; try reflexivity;
      destruct (nth i cenv CFail) eqn:Ew; try reflexivity;
      try (apply view_item_sound; [exact Gx | reflexivity]);
      apply item_of_nongrid_sound; exact Gx.
  - destruct (existsb _ ops); reflexivity.
  - destruct (existsb _ ops); reflexivity.
Qed.

Lemma env_ok_snoc aenv cenv a v : env_ok aenv cenv -> gamma a v = true -> env_ok (aenv ++ [a]) (cenv ++ [v]).
Proof.
  intros [Hlen Hok] Hg. split; [rewrite !app_length, Hlen; reflexivity|].
  intros k Hk. rewrite app_length in Hk. simpl in Hk.
  destruct (Nat.lt_ge_cases k (length cenv)) as [Hlt|Hge].
  - rewrite (app_nth1 cenv) by lia. rewrite (app_nth1 aenv) by lia. apply Hok, Hlt.
  - assert (k = length cenv) by lia. subst.
    rewrite (app_nth2 cenv) by lia. rewrite (app_nth2 aenv) by lia.
    rewrite Hlen, Nat.sub_diag. exact Hg.
Qed.

Theorem analysis_sound statics p : forall aenv cenv,
  env_ok aenv cenv -> env_ok (arun statics aenv p) (crun statics cenv p).
Proof.
  induction p as [|s r IH]; intros aenv cenv H; simpl; [exact H|].
  apply IH. apply env_ok_snoc; [exact H | apply step_sound; exact H].
Qed.

(* consequences, in the property's words *)
Theorem attributed_value_is_in_zone statics p k z :
  let A := arun statics [] p in let C := crun statics [] p in
  k < length C -> failed (nth k C CFail) = false ->
  (nth k A UnknownZone = SpecZone z -> nth k C CFail = CZone z) /\
  (root_zone (nth k A UnknownZone) = Some z -> within z (nth k C CFail) = true).
Proof.
  intros A C Hk Hf.
  assert (H : env_ok A C) by (apply analysis_sound; split; [reflexivity | intros j Hj; simpl in Hj; lia]).
  destruct H as [_ Hok]. specialize (Hok k Hk). split.
  - intros E. rewrite E in Hok. unfold gamma in Hok. rewrite Hf in Hok. simpl in Hok.
    destruct (nth k C CFail); try discriminate. apply String.eqb_eq in Hok. subst. reflexivity.
  - intros E. eapply gamma_within; eassumption.
Qed.

Theorem invalid_is_never_computed statics p k :
  let A := arun statics [] p in let C := crun statics [] p in
  k < length C -> is_invalid (nth k A UnknownZone) = true -> nth k C CFail = CFail.
Proof.
  intros A C Hk Hi.
  assert (H : env_ok A C) by (apply analysis_sound; split; [reflexivity | intros j Hj; simpl in Hj; lia]).
  destruct H as [_ Hok]. specialize (Hok k Hk).
  pose proof (gamma_invalid_fails _ _ Hok Hi) as Hf. destruct (nth k C CFail); try discriminate. reflexivity.
Qed.

(* ---------- geometry: a view with ascending, in-range indices shows only positions of its parent ---------- *)
Local Open Scope Q_scope.

Definition in_q (x : Q) (l : list Q) : Prop := exists y, In y l /\ x == y.

Lemma qequiv_in a b x : qequiv a b -> in_q x a -> in_q x b.
Proof.
  intros H. induction H as [|p q a b E H IH]; intros (y & Hy & Ey); [contradiction|].
  destruct Hy as [<- | Hy].
  - exists q. split; [left; reflexivity | rewrite Ey; exact E].
  - destruct (IH (ex_intro _ y (conj Hy Ey))) as (w & Hw & Ew). exists w. split; [right; exact Hw | exact Ew].
Qed.

Lemma qequiv_sym a b : qequiv a b -> qequiv b a.
Proof. induction 1; constructor; [symmetry; assumption | assumption]. Qed.

Theorem view_x_positions_within_parent g xi yi i0 rest x0 x :
  xi = i0 :: rest -> ascending xi -> (forall i, In i xi -> (i <= length (xsp g))%nat) -> xin g = Some x0 ->
  in_q x (xpos (geom (GSub g xi yi))) -> in_q x (xpos g).
Proof.
  intros Hxi Ha Hr X Hin.
  apply (qequiv_in _ _ _ (view_positions_x g xi yi i0 rest Hxi Ha x0 X)) in Hin.
  destruct Hin as (y & Hy & Ey). apply in_map_iff in Hy as (i & <- & Hi).
  apply (qequiv_in _ _ _ (qequiv_sym _ _ (grid_positions_x g x0 X))).
  exists (pos_at x0 (xsp g) i). split; [|exact Ey].
  apply in_map_iff. exists i. split; [reflexivity|]. apply in_seq. specialize (Hr i Hi). lia.
Qed.

Theorem view_y_positions_within_parent g xi yi j0 rest y0 y :
  yi = j0 :: rest -> ascending yi -> (forall j, In j yi -> (j <= length (ysp g))%nat) -> yin g = Some y0 ->
  in_q y (ypos (geom (GSub g xi yi))) -> in_q y (ypos g).
Proof.
  intros Hyi Ha Hr Y Hin.
  apply (qequiv_in _ _ _ (view_positions_y g xi yi j0 rest Hyi Ha y0 Y)) in Hin.
  destruct Hin as (y' & Hy & Ey). apply in_map_iff in Hy as (j & <- & Hj).
  apply (qequiv_in _ _ _ (qequiv_sym _ _ (grid_positions_y g y0 Y))).
  exists (pos_at y0 (ysp g) j). split; [|exact Ey].
  apply in_map_iff. exists j. split; [reflexivity|]. apply in_seq. specialize (Hr j Hj). lia.
Qed.

(* ... but NOT for index lists that go down and up again: SubGrid adds only the forward gaps, so
   [2;0;1] over columns 0,2,4,6.5 yields a column at 6 (known finding, root cause in
   bloqade.geometry's SubGrid.__post_init__) *)
Theorem view_positions_nonmonotone_refuted :
  exists g xi yi x, In x (xpos (geom (GSub g xi yi))) /\ forall y, In y (xpos g) -> ~ x == y.
Proof.
  exists (from_positions [0; 2; 4; 13 # 2] [0]), [2; 0; 1]%nat, [0]%nat, 6.
  split.
  - vm_compute. right; right; left. reflexivity.
  - intros y Hy. vm_compute in Hy.
    destruct Hy as [<- | [<- | [<- | [<- | []]]]]; intros E; vm_compute in E; discriminate.
Qed.
