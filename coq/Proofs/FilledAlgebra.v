(* C12, algebra of the occupancy operations: order independence, idempotence, fill/vacate
   cancellation and commutation with the geometric transforms.  Corollaries of FilledProofs. *)
From Coq Require Import QArith List Bool Arith Lia.
From BS Require Import Core.Base Model.Filled Proofs.FilledProofs.
Import ListNotations.
Local Open Scope nat_scope.

Section FilledAlgebra.
  Variable G : Type.
  Variable g_shape : G -> nat * nat.
  Variable g_shift : G -> Q -> Q -> G.
  Variable g_scale : G -> Q -> Q -> G.

  Notation fval := (fval G).
  Notation fill := (fill G g_shape).
  Notation vacate := (@vacate G).
  Notation fshift := (fshift G g_shift).
  Notation fscale := (fscale G g_scale).
  Notation root := (@root G).
  Notation vacancies := (@vacancies G).

  Theorem vacate_comm v a b p :
    In p (vacancies (vacate (vacate v a) b)) <-> In p (vacancies (vacate (vacate v b) a)).
  Proof. clear g_shift g_scale. rewrite !vacate_vacancies. tauto. Qed.

  Theorem vacate_idem v a p :
    In p (vacancies (vacate (vacate v a) a)) <-> In p (vacancies (vacate v a)).
  Proof. clear g_shift g_scale. rewrite !vacate_vacancies. tauto. Qed.

  Theorem fill_comm v a b p :
    In p (vacancies (fill (fill v a) b)) <-> In p (vacancies (fill (fill v b) a)).
  Proof. clear g_shift g_scale. rewrite !(fill_fill G g_shape). destruct v as [g | r vac]; simpl;
    rewrite !filter_In, !negb_true_iff, !mem_idx_false, !in_app_iff; tauto. Qed.

  Theorem fill_idem v a p :
    In p (vacancies (fill (fill v a) a)) <-> In p (vacancies (fill v a)).
  Proof. clear g_shift g_scale. rewrite (fill_fill G g_shape). destruct v as [g | r vac]; simpl;
    rewrite !filter_In, !negb_true_iff, !mem_idx_false, !in_app_iff; tauto. Qed.

  (* filling exactly the sites just vacated: what was vacant before, minus those sites *)
  Theorem fill_after_vacate v l p :
    In p (vacancies (fill (vacate v l) l)) <-> In p (vacancies v) /\ ~ In p l.
  Proof. clear g_shift g_scale. destruct v as [g | r vac]; simpl;
    rewrite filter_In, negb_true_iff, mem_idx_false, ?in_app_iff; tauto. Qed.

  (* vacating exactly the sites just filled (on a filled grid): the old vacancies plus those sites *)
  Theorem vacate_after_fill r vac l p :
    In p (vacancies (vacate (fill (FFilled G r vac) l) l)) <-> In p vac \/ In p l.
  Proof. clear g_shift g_scale. simpl. rewrite in_app_iff, filter_In, negb_true_iff, mem_idx_false.
    destruct (mem_idx p l) eqn:E; [apply mem_idx_In in E | apply mem_idx_false in E]; tauto. Qed.

  (* the geometric transforms commute with the occupancy operations, as VALUES *)
  Theorem shift_vacate v l dx dy : fshift (vacate v l) dx dy = vacate (fshift v dx dy) l.
  Proof. destruct v; reflexivity. Qed.
  Theorem scale_vacate v l sx sy : fscale (vacate v l) sx sy = vacate (fscale v sx sy) l.
  Proof. destruct v; reflexivity. Qed.
  Theorem shift_fill_filled r vac l dx dy :
    fshift (fill (FFilled G r vac) l) dx dy = fill (fshift (FFilled G r vac) dx dy) l.
  Proof. reflexivity. Qed.
  Theorem scale_fill_filled r vac l sx sy :
    fscale (fill (FFilled G r vac) l) sx sy = fill (fscale (FFilled G r vac) sx sy) l.
  Proof. reflexivity. Qed.
  (* on a plain grid fill reads the shape, so the transform must keep it (bloqade.geometry's does) *)
  Theorem shift_fill_plain g l dx dy : g_shape (g_shift g dx dy) = g_shape g ->
    fshift (fill (FPlain G g) l) dx dy = fill (fshift (FPlain G g) dx dy) l.
  Proof. intros H. simpl. rewrite H. reflexivity. Qed.
  Theorem shift_shift_vac v dx dy ex ey :
    vacancies (fshift (fshift v dx dy) ex ey) = vacancies v /\
    root (fshift (fshift v dx dy) ex ey) = g_shift (g_shift (root v) dx dy) ex ey.
  Proof. destruct v; split; reflexivity. Qed.
End FilledAlgebra.
