From Coq Require Import String.
From Coq Require Import List Bool Arith Lia.
From BS Require Import Model.Runtime.
Import ListNotations.

Fixpoint rstmt_ind' (P : rstmt -> Prop)
    (Hd : P RDev)
    (Hi : forall t e, Forall P t -> Forall P e -> P (RIf t e))
    (Hf : forall b, Forall P b -> P (RFor b))
    (Hv : forall m, P (RInvoke m))
    (Hl : forall b, Forall P b -> P (RCallLam (Some b)))
    (Hn : P (RCallLam None)) (s : rstmt) : P s :=
  let go := fix go (l : list rstmt) : Forall P l :=
      match l with [] => Forall_nil P | x :: r => Forall_cons x (rstmt_ind' P Hd Hi Hf Hv Hl Hn x) (go r) end in
  match s with
  | RDev => Hd
  | RIf t e => Hi t e (go t) (go e)
  | RFor b => Hf b (go b)
  | RInvoke m => Hv m
  | RCallLam (Some b) => Hl b (go b)
  | RCallLam None => Hn
  end.

Lemma scan_stmt_if inv t e : scan_stmt inv (RIf t e) = seen_or (scan_list inv t) (scan_list inv e).
Proof.
  simpl. unfold scan_list.
  assert (H : forall l, (fix go (l : list rstmt) : seen := match l with [] => nothing | x :: r => seen_or (scan_stmt inv x) (go r) end) l
                        = fold_right (fun x acc => seen_or (scan_stmt inv x) acc) nothing l)
    by (induction l; simpl; [reflexivity | f_equal; assumption]).
  rewrite !H. reflexivity.
Qed.
Lemma scan_stmt_for inv b : scan_stmt inv (RFor b) = scan_list inv b.
Proof.
  simpl. unfold scan_list. induction b; simpl; [reflexivity | f_equal; assumption].
Qed.
Lemma scan_stmt_lam inv b : scan_stmt inv (RCallLam (Some b)) = scan_list inv b.
Proof.
  simpl. unfold scan_list. induction b; simpl; [reflexivity | f_equal; assumption].
Qed.
Lemma scan_list_cons inv x r : scan_list inv (x :: r) = seen_or (scan_stmt inv x) (scan_list inv r).
Proof. reflexivity. Qed.

(* the fixpoint is the one-step form iterated *)
Lemma scan_stmt_step inv s : scan_stmt inv s = step_model inv (scan_list inv) s.
Proof.
  destruct s as [|t e|b|m|[b|]]; cbn [step_model].
  - reflexivity.
  - apply scan_stmt_if.
  - apply scan_stmt_for.
  - reflexivity.
  - apply scan_stmt_lam.
  - reflexivity.
Qed.
Lemma seen_or_nothing a : seen_or a nothing = a.
Proof. destruct a as [x y]; unfold seen_or, nothing; cbn. rewrite !orb_false_r. reflexivity. Qed.
Lemma scan_higher inv c : scan_stmt inv (abs_higher c) = higher_model inv (scan_list inv) c.
Proof.
  unfold abs_higher. rewrite scan_stmt_for, scan_list_cons. cbn [scan_list fold_right]. rewrite seen_or_nothing.
  destruct c as [m|b|]; cbn [higher_model]; [reflexivity | apply scan_stmt_lam | reflexivity].
Qed.
Lemma analyze_answer_of d p body : analyze d p body = answer_of (scan_list (scan_depth d p) body).
Proof. reflexivity. Qed.

Definition silent (s : seen) : Prop := s_dev s = false /\ s_dyn s = false.
Lemma silent_or a b : silent (seen_or a b) <-> silent a /\ silent b.
Proof.
  unfold silent, seen_or; simpl. rewrite !orb_false_iff. tauto.
Qed.

(* soundness: whatever the depth limit, if the scan sees neither a device statement nor a dynamic
   call then no execution (within that depth, like the interpreters) acts *)
Theorem scan_sound p d l : acts p d l -> ~ silent (scan_list (scan_depth d p) l).
Proof.
  induction 1 as [d r | d s r H IH | d t e r H IH | d t e r H IH | d b r H IH | d m b r Hm H IH | d b r H IH | d r];
    rewrite scan_list_cons, silent_or; intros [Hs Hr].
  - destruct Hs as [Hs _]. discriminate.
  - apply IH, Hr.
  - rewrite scan_stmt_if, silent_or in Hs. apply IH, Hs.
  - rewrite scan_stmt_if, silent_or in Hs. apply IH, Hs.
  - rewrite scan_stmt_for in Hs. apply IH, Hs.
  - simpl in Hs. rewrite Hm in Hs. apply IH, Hs.
  - rewrite scan_stmt_lam in Hs. apply IH, Hs.
  - destruct Hs as [_ Hs]. discriminate.
Qed.

Theorem analyze_false_sound p d l : analyze d p l = AFalse -> ~ acts p d l.
Proof.
  unfold analyze. intros H Ha. apply (scan_sound _ _ _ Ha).
  destruct (s_dyn (scan_list (scan_depth d p) l)) eqn:E1; [discriminate|].
  destruct (s_dev (scan_list (scan_depth d p) l)) eqn:E2; [discriminate|].
  split; assumption.
Qed.

(* the query answers True or refuses whenever some execution acts *)
Corollary acts_true_or_refuse p d l : acts p d l -> analyze d p l = ATrue \/ analyze d p l = ARefuse.
Proof.
  intros Ha. destruct (analyze d p l) eqn:E; auto. exfalso. exact (analyze_false_sound _ _ _ E Ha).
Qed.

(* completeness on quiet call graphs: the answer is False (not an error) *)
Lemma quiet_stmt_scan inv s : (forall m, inv m = nothing) -> quiet_stmt s = true -> scan_stmt inv s = nothing.
Proof.
  intros Hinv. induction s as [| t e IHt IHe | b IHb | m | b IHb |] using rstmt_ind'; intros Hq.
  - discriminate.
  - rewrite scan_stmt_if.
    assert (Q : forall l, Forall (fun s => quiet_stmt s = true -> scan_stmt inv s = nothing) l ->
                          (fix go (l : list rstmt) : bool := match l with [] => true | x :: r => quiet_stmt x && go r end) l = true ->
                          scan_list inv l = nothing).
    { induction l as [|x r IHr]; intros HF Hl; [reflexivity|]. inversion HF as [|? ? Hx Hrest]; subst.
      apply andb_true_iff in Hl as [Q1 Q2]. rewrite scan_list_cons, (Hx Q1), (IHr Hrest Q2). reflexivity. }
    simpl in Hq. apply andb_true_iff in Hq as [Q1 Q2]. rewrite (Q t IHt Q1), (Q e IHe Q2). reflexivity.
  - rewrite scan_stmt_for. simpl in Hq.
    revert IHb Hq. induction b as [|x r IHr]; intros HF Hl; [reflexivity|]. inversion HF as [|? ? Hx Hrest]; subst.
    apply andb_true_iff in Hl as [Q1 Q2]. rewrite scan_list_cons, (Hx Q1), (IHr Hrest Q2). reflexivity.
  - simpl. apply Hinv.
  - rewrite scan_stmt_lam. simpl in Hq.
    revert IHb Hq. induction b as [|x r IHr]; intros HF Hl; [reflexivity|]. inversion HF as [|? ? Hx Hrest]; subst.
    apply andb_true_iff in Hl as [Q1 Q2]. rewrite scan_list_cons, (Hx Q1), (IHr Hrest Q2). reflexivity.
  - discriminate.
Qed.

Lemma quiet_list_scan inv l : (forall m, inv m = nothing) -> quiet_list l = true -> scan_list inv l = nothing.
Proof.
  intros Hinv. induction l as [|x r IH]; intros Hq; [reflexivity|].
  simpl in Hq. apply andb_true_iff in Hq as [H1 H2].
  rewrite scan_list_cons, (quiet_stmt_scan _ _ Hinv H1), (IH H2). reflexivity.
Qed.

Lemma rlookup_quiet p m b : quiet_prog p = true -> rlookup m p = Some b -> quiet_list b = true.
Proof.
  induction p as [|[n bb] r IH]; simpl; [discriminate|].
  intros Hq. apply andb_true_iff in Hq as [H1 H2].
  destruct (String.eqb m n); [intros E; inversion E; subst; exact H1 | apply IH, H2].
Qed.

Lemma quiet_depth p d : quiet_prog p = true -> forall m, scan_depth d p m = nothing.
Proof.
  intros Hq. induction d as [|d IH]; intros m; simpl; [reflexivity|].
  destruct (rlookup m p) as [b|] eqn:E; [|reflexivity].
  apply quiet_list_scan; [exact IH | eapply rlookup_quiet; eassumption].
Qed.

Theorem quiet_answers_false p d l : quiet_prog p = true -> quiet_list l = true -> analyze d p l = AFalse.
Proof.
  intros Hp Hl. unfold analyze. rewrite (quiet_list_scan _ _ (quiet_depth p d Hp) Hl). reflexivity.
Qed.

(* a dynamically resolved call anywhere the scan reaches makes the query refuse, never answer False *)
Theorem dynamic_call_refuses p d pre post :
  analyze d p (pre ++ RCallLam None :: post) = ARefuse.
Proof.
  unfold analyze.
  assert (H : s_dyn (scan_list (scan_depth d p) (pre ++ RCallLam None :: post)) = true).
  { induction pre as [|x r IH]; simpl.
    - reflexivity.
    - rewrite IH. apply orb_true_r. }
  rewrite H. reflexivity.
Qed.
