(* C08: the library kernels as modelled in Model/LibMoves.v, for ALL zones with ascending coordinates and ALL
   index lists:
   - cz_model (single_col_zone.cz_move / stdlib.moves.default_move_cz): whenever the model accepts a call, the
     played paths are a round trip over trap sites - so the call is executable and every atom returns
     (recognised_round_trip_executable); the documented preconditions are exactly what makes it accept.
   - rearrange_model (two_col_zone.rearrange): whenever the model accepts a call whose parking coordinates are
     pairwise different and whose destination sites are vacant or vacated by the move, the played path is a
     transport from zone[src] to zone[dst].  Acceptance alone is NOT enough: rearrange_accepts_coinciding_refuted. *)
From Coq Require Import String.
From Coq Require Import ZArith QArith List Bool Arith Lia.
From BS Require Import Core.Base Model.Aod Model.LibMoves Proofs.AodProofs Proofs.AodRoundTrip Proofs.AodSelect Proofs.AodPre.
Import ListNotations.
Local Open Scope nat_scope.

(* ---------- boolean guards ---------- *)
Lemma sorted_strictb_ascending l : sorted_strictb l = true -> ascending_nat l.
Proof.
  induction l as [|a r IH]; intros H; [exact I|].
  simpl in H. destruct r as [|b r'].
  - split; exact I.
  - apply andb_true_iff in H. destruct H as [H1 H2]. split; [apply Nat.ltb_lt, H1 | apply IH, H2].
Qed.
Lemma ascending_sorted_strictb l : ascending_nat l -> sorted_strictb l = true.
Proof.
  induction l as [|a r IH]; intros H; [reflexivity|].
  destruct H as [H1 H2]. simpl. destruct r as [|b r']; [reflexivity|].
  apply andb_true_iff. split; [apply Nat.ltb_lt, H1 | apply IH, H2].
Qed.
Lemma in_rangeb_spec n l : in_rangeb n l = true <-> (forall i, In i l -> i < n).
Proof.
  unfold in_rangeb. rewrite forallb_forall. split; intros H i I; [apply Nat.ltb_lt, H, I | apply Nat.ltb_lt, H, I].
Qed.

(* ---------- ascending coordinate lists ---------- *)
Lemma ascending_pick xs ix : ascending_q xs -> ascending_nat ix -> (forall i, In i ix -> i < length xs) -> ascending_q (pick_coords ix xs).
Proof.
  intros Ax. induction ix as [|a r IH]; intros Ai Hr; [exact I|].
  destruct Ai as [A1 A2]. simpl. split.
  - destruct r as [|b r']; simpl; [exact I|]. apply (ascending_q_nth xs Ax a b A1). apply Hr. right. left. reflexivity.
  - apply IH; [exact A2 | intros i Ii; apply Hr; right; exact Ii].
Qed.
Lemma ascending_shift d l : ascending_q l -> ascending_q (shift_q d l).
Proof.
  induction l as [|a r IH]; intros A; [exact I|]. destruct A as [A1 A2]. simpl. split; [|apply IH, A2].
  destruct r as [|b r']; simpl; [exact I|]. apply Qplus_lt_l. exact A1.
Qed.
Lemma ascending_distinct l : ascending_q l -> distinct_q l = true.
Proof.
  induction l as [|a r IH]; intros A; [reflexivity|]. simpl. apply andb_true_iff. split; [|apply IH; destruct A; assumption].
  apply negb_true_iff. apply not_true_is_false. intros X. apply existsb_exists in X. destruct X as [q [Iq E]].
  destruct (In_nth r q 0%Q Iq) as [j [Hj Ej]]. pose proof (ascending_q_head a r A j Hj) as Lt.
  rewrite Ej in Lt. apply Qeq_bool_iff in E. rewrite E in Lt. exact (Qlt_irrefl _ Lt).
Qed.
Lemma pick_length ix xs : length (pick_coords ix xs) = length ix.
Proof. unfold pick_coords. apply map_length. Qed.
Lemma shift_length d l : length (shift_q d l) = length l.
Proof. unfold shift_q. apply map_length. Qed.

(* ---------- reflexivity of the syntactic comparisons ---------- *)
Lemma Qsyn_eqb_refl a : Qsyn_eqb a a = true.
Proof. unfold Qsyn_eqb. rewrite Z.eqb_refl, Pos.eqb_refl. reflexivity. Qed.
Lemma qlist_eqb_refl l : qlist_eqb l l = true.
Proof. induction l as [|a r IH]; [reflexivity|]. simpl. rewrite Qsyn_eqb_refl, IH. reflexivity. Qed.
Lemma wp_eqb_refl w : wp_eqb w w = true.
Proof. unfold wp_eqb. rewrite !qlist_eqb_refl. reflexivity. Qed.
Lemma wps_eqb_refl l : wps_eqb l l = true.
Proof. induction l as [|a r IH]; [reflexivity|]. simpl. rewrite wp_eqb_refl, IH. reflexivity. Qed.

(* picked sites of a zone are sites of the zone *)
Lemma pick_in ix xs x : (forall i, In i ix -> i < length xs) -> In x (pick_coords ix xs) -> In x xs.
Proof.
  intros Hr I. unfold pick_coords in I. apply in_map_iff in I. destruct I as [i [<- Ii]]. apply nth_In. apply Hr, Ii.
Qed.
Lemma pos_eqb_refl p : pos_eqb p p = true.
Proof. unfold pos_eqb. apply andb_true_iff. split; apply Qeq_bool_iff; reflexivity. Qed.
Lemma picked_on_traps zx zy ix iy :
  (forall i, In i ix -> i < length zx) -> (forall j, In j iy -> j < length zy) ->
  on_traps (grid_sites (zx, zy)) (pick_coords ix zx, pick_coords iy zy) = true.
Proof.
  intros Hx Hy. unfold on_traps. apply forallb_forall. intros x Ix. apply forallb_forall. intros y Iy.
  apply existsb_exists. exists (x, y). split; [|apply pos_eqb_refl].
  apply in_grid_sites; simpl; [apply (pick_in ix zx x Hx Ix) | apply (pick_in iy zy y Hy Iy)].
Qed.
Lemma wp_okb_of_ascending nx ny w : length (fst w) = nx -> length (snd w) = ny -> ascending_q (fst w) -> ascending_q (snd w) -> wp_okb nx ny w = true.
Proof.
  intros Lx Ly Ax Ay. unfold wp_okb. rewrite Lx, Ly, !Nat.eqb_refl. rewrite (ascending_distinct _ Ax), (ascending_distinct _ Ay). reflexivity.
Qed.

(* ====================================================================================================
   the CZ move
   ==================================================================================================== *)
Definition cz_preconditions (zx zy : list Q) (cx cy qx qy : list nat) : Prop :=
  1 <= length cx /\ 1 <= length cy /\ length cx = length qx /\ length cy = length qy /\
  ascending_nat cx /\ ascending_nat cy /\ ascending_nat qx /\ ascending_nat qy /\
  (forall i, In i cx -> i < length zx) /\ (forall j, In j cy -> j < length zy) /\
  (forall i, In i qx -> i < length zx) /\ (forall j, In j qy -> j < length zy).

Definition cz_paths (zx zy : list Q) (cx cy qx qy : list nat) (sx sy : Q) : list spath :=
  let '(s, ws) := cz_waypoints zx zy cx cy qx qy sx sy in
  [mkspath (length cx) (length cy) [SWay [s]; SSwitch On SALL SALL; SWay (s :: ws)];
   mkspath (length cx) (length cy) [SWay (rev (s :: ws)); SSwitch Off SALL SALL; SWay [s]]].

(* the model accepts a call with a non-empty x selection exactly under the documented preconditions, and then plays cz_paths *)
Theorem cz_model_accepts_iff zx zy cx cy qx qy sx sy :
  1 <= length cx -> 1 <= length qx ->
  (cz_preconditions zx zy cx cy qx qy <-> cz_model zx zy cx cy qx qy sx sy = Some (cz_paths zx zy cx cy qx qy sx sy)) /\
  (cz_model zx zy cx cy qx qy sx sy = None \/ cz_model zx zy cx cy qx qy sx sy = Some (cz_paths zx zy cx cy qx qy sx sy)).
Proof.
  intros N1 N2. unfold cz_model.
  assert (E0 : (length cx <? 1) || (length qx <? 1) = false).
  { apply orb_false_iff. split; apply Nat.ltb_ge; assumption. }
  rewrite E0.
  destruct ((length cx =? length qx) && (length cy =? length qy)) eqn:EL; cbn [negb].
  2:{ split; [|left; reflexivity]. split; [|discriminate]. intros [_ [_ [L1 [L2 _]]]].
      rewrite L1, L2, !Nat.eqb_refl in EL. discriminate. }
  apply andb_true_iff in EL. destruct EL as [L1 L2]. apply Nat.eqb_eq in L1, L2.
  destruct (sorted_strictb cx && sorted_strictb cy && sorted_strictb qx && sorted_strictb qy) eqn:ES; cbn [negb].
  2:{ split; [|left; reflexivity]. split; [|discriminate]. intros [_ [_ [_ [_ [A1 [A2 [A3 [A4 _]]]]]]]].
      rewrite !ascending_sorted_strictb in ES by assumption. discriminate. }
  repeat (apply andb_true_iff in ES; destruct ES as [ES ?]).
  destruct (in_rangeb (length zx) cx && in_rangeb (length zy) cy && in_rangeb (length zx) qx && in_rangeb (length zy) qy) eqn:ER; cbn [negb].
  2:{ split; [|left; reflexivity]. split; [|discriminate]. intros [_ [_ [_ [_ [_ [_ [_ [_ [R1 [R2 [R3 R4]]]]]]]]]]].
      apply in_rangeb_spec in R1, R2, R3, R4. rewrite R1, R2, R3, R4 in ER. discriminate. }
  repeat (apply andb_true_iff in ER; destruct ER as [ER ?]).
  destruct ((length cy <? 1) || (length qy <? 1)) eqn:EE.
  - split; [|left; reflexivity]. split; [|discriminate]. intros [_ [C2 [_ [L2' _]]]].
    apply orb_true_iff in EE. destruct EE as [EE | EE]; apply Nat.ltb_lt in EE; lia.
  - apply orb_false_iff in EE. destruct EE as [E1 E2]. apply Nat.ltb_ge in E1, E2.
    unfold cz_paths. destruct (cz_waypoints zx zy cx cy qx qy sx sy) as [s ws]. split; [|right; reflexivity].
    split; [reflexivity|]. intros _. unfold cz_preconditions.
    repeat split; try assumption; try (apply sorted_strictb_ascending; assumption); apply in_rangeb_spec; assumption.
Qed.

(* under the preconditions the played paths are a round trip over trap sites of the zone *)
Theorem cz_paths_round_trip zx zy cx cy qx qy sx sy O :
  ascending_q zx -> ascending_q zy -> cz_preconditions zx zy cx cy qx qy -> occ_wfb O = true ->
  round_trip_ok (grid_sites (zx, zy)) O (cz_paths zx zy cx cy qx qy sx sy) = true.
Proof.
  intros Ax Ay [N1 [N2 [L1 [L2 [A1 [A2 [A3 [A4 [R1 [R2 [R3 R4]]]]]]]]]]] HO.
  unfold cz_paths, cz_waypoints. cbv zeta. unfold round_trip_ok, recognise_round_trip.
  cbn [fst snd]. rewrite !Nat.eqb_refl. unfold SALL. cbn [is_all andb].
  rewrite !wp_eqb_refl, wps_eqb_refl. cbn [andb].
  pose proof (ascending_pick zx cx Ax A1 R1) as Pcx. pose proof (ascending_pick zy cy Ay A2 R2) as Pcy.
  pose proof (ascending_pick zx qx Ax A3 R3) as Pqx. pose proof (ascending_pick zy qy Ay A4 R4) as Pqy.
  rewrite HO, andb_true_r.
  apply andb_true_iff. split; [apply andb_true_iff; split|].
  - apply wp_okb_of_ascending; cbn [fst snd]; try apply pick_length; assumption.
  - cbn [forallb]. rewrite andb_true_r. apply andb_true_iff; split; [|apply andb_true_iff; split].
    + apply wp_okb_of_ascending; cbn [fst snd]; rewrite ?shift_length, ?pick_length; try reflexivity; apply ascending_shift; assumption.
    + apply wp_okb_of_ascending; cbn [fst snd]; rewrite ?shift_length, ?pick_length; try (symmetry; assumption); try reflexivity; apply ascending_shift; assumption.
    + apply wp_okb_of_ascending; cbn [fst snd]; rewrite ?shift_length, ?pick_length; try (symmetry; assumption); apply ascending_shift; assumption.
  - apply picked_on_traps; assumption.
Qed.

(* end to end, for ALL inputs: whatever call the model accepts is executable and returns every atom to its site *)
Theorem cz_model_accepted_is_executable zx zy cx cy qx qy sx sy O ps :
  ascending_q zx -> ascending_q zy -> occ_wfb O = true ->
  cz_model zx zy cx cy qx qy sx sy = Some ps ->
  exists st', sim_paths (mkast (grid_sites (zx, zy)) O [] [] []) ps = AOk st' /\
    held st' = [] /\ forall p, occ_find p (occ st') = occ_find p O.
Proof.
  intros Ax Ay HO E.
  destruct (Nat.ltb_spec (length cx) 1) as [S1 | S1].
  { unfold cz_model in E. replace (length cx <? 1) with true in E by (symmetry; apply Nat.ltb_lt; exact S1). cbn [orb] in E.
    inversion E; subst ps. eexists. split; [reflexivity|]. split; [reflexivity | intros p; reflexivity]. }
  destruct (Nat.ltb_spec (length qx) 1) as [S2 | S2].
  { unfold cz_model in E. replace (length qx <? 1) with true in E by (symmetry; apply Nat.ltb_lt; exact S2). rewrite orb_true_r in E.
    inversion E; subst ps. eexists. split; [reflexivity|]. split; [reflexivity | intros p; reflexivity]. }
  destruct (cz_model_accepts_iff zx zy cx cy qx qy sx sy S1 S2) as [Hiff [HN | HS]]; [rewrite HN in E; discriminate|].
  rewrite HS in E. inversion E; subst ps.
  pose proof (proj2 Hiff HS) as Pre.
  destruct (recognised_round_trip_executable _ O _ (cz_paths_round_trip zx zy cx cy qx qy sx sy O Ax Ay Pre HO)) as [st' [Es [_ [_ [_ [Hh Ho]]]]]].
  exists st'. split; [exact Es|]. split; [exact Hh | exact Ho].
Qed.

(* ====================================================================================================
   rearrange
   ==================================================================================================== *)
Definition rearrange_path (zx zy : list Q) (sx sy dx dy : list nat) : list spath :=
  let '(w0, ws) := rearrange_waypoints zx zy sx sy dx dy in
  [mkspath (length sx) (length sy) [SWay [w0]; SSwitch On SALL SALL; SWay (w0 :: ws); SSwitch Off SALL SALL; SWay [last ws w0]]].

Lemma rearrange_model_shape zx zy sx sy dx dy ps :
  rearrange_model zx zy sx sy dx dy = Some ps -> ps <> [] ->
  ps = rearrange_path zx zy sx sy dx dy /\
  length sx = length dx /\ length sy = length dy /\ 1 <= length sy /\
  ascending_nat sx /\ ascending_nat sy /\ ascending_nat dx /\ ascending_nat dy /\
  (forall i, In i sx -> i < length zx) /\ (forall j, In j sy -> j < length zy) /\
  (forall i, In i dx -> i < length zx) /\ (forall j, In j dy -> j < length zy).
Proof.
  unfold rearrange_model. intros E NE.
  destruct ((length sx <? 1) || (length dx <? 1)); [inversion E; subst; contradiction|].
  destruct ((length sx =? length dx) && (length sy =? length dy)) eqn:EL; cbn [negb] in E; [|discriminate].
  destruct (sorted_strictb sx && sorted_strictb sy && sorted_strictb dx && sorted_strictb dy) eqn:ES; cbn [negb] in E; [|discriminate].
  destruct (in_rangeb (length zx) sx && in_rangeb (length zy) sy && in_rangeb (length zx) dx && in_rangeb (length zy) dy) eqn:ER; cbn [negb] in E; [|discriminate].
  destruct ((length sy <? 1) || (length dy <? 1)) eqn:EE; [discriminate|].
  unfold rearrange_path. destruct (rearrange_waypoints zx zy sx sy dx dy) as [w0 ws].
  destruct (forallb (fun w => nondecb (fst w) && nondecb (snd w)) ws); cbn [negb] in E; [|discriminate].
  inversion E; subst ps. split; [reflexivity|].
  apply andb_true_iff in EL. destruct EL as [L1 L2]. apply Nat.eqb_eq in L1, L2.
  repeat (apply andb_true_iff in ES; destruct ES as [ES ?]).
  repeat (apply andb_true_iff in ER; destruct ER as [ER ?]).
  apply orb_false_iff in EE. destruct EE as [E1 _]. apply Nat.ltb_ge in E1.
  repeat split; try assumption; try (apply sorted_strictb_ascending; assumption); apply in_rangeb_spec; assumption.
Qed.

(* an accepted call whose parking coordinates are pairwise different and whose destination is free (or freed by the move)
   is a transport from zone[src_x, src_y] to zone[dst_x, dst_y] *)
Theorem rearrange_model_is_transport zx zy sx sy dx dy ps O :
  ascending_q zx -> ascending_q zy -> occ_wfb O = true ->
  rearrange_model zx zy sx sy dx dy = Some ps -> ps <> [] ->
  rearrange_strict zx zy sx sy dx dy = true ->
  forallb (fun p => match occ_find p O with None => true | Some _ => existsb (pos_eqb p) (grid_sites (pick_coords sx zx, pick_coords sy zy)) end)
          (grid_sites (pick_coords dx zx, pick_coords dy zy)) = true ->
  transport_ok (grid_sites (zx, zy)) O ps = true /\ documented_transport zx zy sx sy dx dy ps = true.
Proof.
  intros Ax Ay HO E NE Hs Hd.
  destruct (rearrange_model_shape zx zy sx sy dx dy ps E NE) as [-> [L1 [L2 [N2 [A1 [A2 [A3 [A4 [R1 [R2 [R3 R4]]]]]]]]]]].
  unfold rearrange_strict in Hs. unfold rearrange_path. unfold rearrange_waypoints in *. cbv zeta in *.
  cbn [forallb fst snd] in Hs. rewrite andb_true_r in Hs. cbn [fst snd].
  repeat match goal with
         | H : _ && _ = true |- _ => apply andb_true_iff in H; destruct H
         end.
  set (ys := combine (pick_coords sy zy) (pick_coords dy zy)) in *.
  assert (Lys : length ys = length sy) by (unfold ys; rewrite combine_length, !pick_length; lia).
  pose proof (ascending_pick zx sx Ax A1 R1) as Psx. pose proof (ascending_pick zy sy Ay A2 R2) as Psy.
  pose proof (ascending_pick zx dx Ax A3 R3) as Pdx. pose proof (ascending_pick zy dy Ay A4 R4) as Pdy.
  assert (W0 : wp_okb (length sx) (length sy) (pick_coords sx zx, pick_coords sy zy) = true)
    by (apply wp_okb_of_ascending; cbn [fst snd]; try apply pick_length; assumption).
  assert (WS : forallb (wp_okb (length sx) (length sy))
                 [(map (parking_x zx) sx, map (fun p => parking_y_start (fst p) (snd p)) ys);
                  (map (parking_x zx) sx, map (fun p => parking_y_end (fst p) (snd p)) ys);
                  (map (parking_x zx) dx, map (fun p => parking_y_end (fst p) (snd p)) ys);
                  (pick_coords dx zx, pick_coords dy zy)] = true).
  { cbn [forallb]. rewrite andb_true_r. unfold wp_okb. cbn [fst snd]. rewrite !map_length, !pick_length, Lys, <- L1, <- L2, !Nat.eqb_refl.
    repeat match goal with H : distinct_q _ = true |- _ => rewrite H end. reflexivity. }
  split.
  - unfold transport_ok, recognise_transport. unfold SALL. cbn [is_all andb last]. rewrite !wp_eqb_refl. cbn [andb].
    rewrite W0, WS, HO. cbn [andb last].
    rewrite (picked_on_traps zx zy sx sy R1 R2), (picked_on_traps zx zy dx dy R3 R4). cbn [andb]. exact Hd.
  - unfold documented_transport, recognise_transport. unfold SALL. cbn [is_all andb last]. rewrite !wp_eqb_refl. cbn [andb last].
    rewrite !wp_eqb_refl, <- L1, <- L2, !Nat.eqb_refl. reflexivity.
Qed.

(* ... hence executable, nothing left in the tweezers, and the atom of zone[src_x[i], src_y[j]] ends on zone[dst_x[i], dst_y[j]] *)
Theorem rearrange_model_delivers zx zy sx sy dx dy ps O :
  ascending_q zx -> ascending_q zy -> occ_wfb O = true ->
  rearrange_model zx zy sx sy dx dy = Some ps -> ps <> [] ->
  rearrange_strict zx zy sx sy dx dy = true ->
  forallb (fun p => match occ_find p O with None => true | Some _ => existsb (pos_eqb p) (grid_sites (pick_coords sx zx, pick_coords sy zy)) end)
          (grid_sites (pick_coords dx zx, pick_coords dy zy)) = true ->
  exists st', sim_paths (mkast (grid_sites (zx, zy)) O [] [] []) ps = AOk st' /\ held st' = [] /\
    forall i j, i < length sx -> j < length sy ->
      occ_find (nth (nth i dx 0) zx 0%Q, nth (nth j dy 0) zy 0%Q) (occ st') =
      occ_find (nth (nth i sx 0) zx 0%Q, nth (nth j sy 0) zy 0%Q) O.
Proof.
  intros Ax Ay HO E NE Hs Hd.
  destruct (rearrange_model_is_transport zx zy sx sy dx dy ps O Ax Ay HO E NE Hs Hd) as [Ht Hdoc].
  exact (documented_transport_delivers _ O ps zx zy sx sy dx dy Ht Hdoc).
Qed.

(* ====================================================================================================
   rearrange: the documented preconditions, on a zone where parking is possible
   ==================================================================================================== *)
Lemma Qle_bool_false_lt a b : Qle_bool b a = false -> (a < b)%Q.
Proof. intros H. apply Qnot_le_lt. intros L. apply Qle_bool_iff in L. rewrite L in H. discriminate. Qed.

Lemma asc_qb_ascending l : asc_qb l = true -> ascending_q l.
Proof.
  induction l as [|a r IH]; intros H; [exact I|]. simpl in H. destruct r as [|b r'].
  - split; exact I.
  - apply andb_true_iff in H. destruct H as [H1 H2]. split; [|apply IH, H2].
    apply Qle_bool_false_lt. apply negb_true_iff. exact H1.
Qed.

Lemma ascending_nondecb l : ascending_q l -> nondecb l = true.
Proof.
  induction l as [|a r IH]; intros A; [reflexivity|]. destruct A as [A1 A2]. simpl. destruct r as [|b r']; [reflexivity|].
  apply andb_true_iff. split; [apply Qle_bool_iff, Qlt_le_weak, A1 | apply IH, A2].
Qed.

(* gaps of more than 6 between neighbours, hence between any two *)
Fixpoint gaps6_q (l : list Q) : Prop :=
  match l with
  | [] => True
  | a :: r => match r with [] => True | b :: _ => (a + 6 < b)%Q end /\ gaps6_q r
  end.
Lemma gaps6b_gaps6 l : gaps6b l = true -> gaps6_q l.
Proof.
  induction l as [|a r IH]; intros H; [exact I|]. simpl in H. destruct r as [|b r'].
  - split; exact I.
  - apply andb_true_iff in H. destruct H as [H1 H2]. split; [|apply IH, H2].
    apply Qle_bool_false_lt. apply negb_true_iff. exact H1.
Qed.
Lemma gaps6_head a r : gaps6_q (a :: r) -> forall j, j < length r -> (a + 6 < nth j r 0)%Q.
Proof.
  revert a. induction r as [|b r' IH]; intros a A j Hj; simpl in Hj; [lia|].
  destruct A as [A1 A2]. destruct j as [|j]; [exact A1|].
  simpl. apply Qlt_trans with (b + 6)%Q; [|apply (IH b A2 j); lia].
  apply Qlt_trans with b; [exact A1|]. rewrite <- (Qplus_0_r b) at 1. apply Qplus_lt_r. reflexivity.
Qed.
Lemma gaps6_nth l : gaps6_q l -> forall i j, i < j -> j < length l -> (nth i l 0 + 6 < nth j l 0)%Q.
Proof.
  induction l as [|a r IH]; simpl; intros A i j Hij Hj; [lia|].
  destruct j as [|j]; [lia|]. destruct i as [|i].
  - apply (gaps6_head a r A j). lia.
  - destruct A as [_ A2]. apply IH; [exact A2 | lia | lia].
Qed.
Lemma gaps6_pick xs ix : gaps6_q xs -> ascending_nat ix -> (forall i, In i ix -> i < length xs) -> gaps6_q (pick_coords ix xs).
Proof.
  intros Ax. induction ix as [|a r IH]; intros Ai Hr; [exact I|].
  destruct Ai as [A1 A2]. simpl. split.
  - destruct r as [|b r']; simpl; [exact I|]. apply (gaps6_nth xs Ax a b A1). apply Hr. right. left. reflexivity.
  - apply IH; [exact A2 | intros i Ii; apply Hr; right; exact Ii].
Qed.

(* parking along x: the zone-wide condition carries over to any ascending selection *)
Lemma nth_map_seq (f : nat -> Q) n i : i < n -> nth i (map f (seq 0 n)) 0%Q = f i.
Proof.
  intros H. rewrite (nth_indep _ 0%Q (f 0)) by (rewrite map_length, seq_length; exact H).
  rewrite (map_nth f (seq 0 n) 0 i). rewrite seq_nth by exact H. reflexivity.
Qed.
Lemma map_parking_as_pick zx ix : (forall i, In i ix -> i < length zx) ->
  map (parking_x zx) ix = pick_coords ix (map (parking_x zx) (seq 0 (length zx))).
Proof.
  intros Hr. unfold pick_coords. apply map_ext_in. intros i Ii. symmetry. apply nth_map_seq. apply Hr, Ii.
Qed.
Lemma parking_x_ascending zx ix :
  asc_qb (map (parking_x zx) (seq 0 (length zx))) = true -> ascending_nat ix -> (forall i, In i ix -> i < length zx) ->
  ascending_q (map (parking_x zx) ix).
Proof.
  intros H Ai Hr. rewrite (map_parking_as_pick zx ix Hr). apply ascending_pick; [apply asc_qb_ascending, H | exact Ai |].
  intros i Ii. rewrite map_length, seq_length. apply Hr, Ii.
Qed.

(* parking along y *)
Lemma parking_y_start_bounds s e : (s - 3 <= parking_y_start s e)%Q /\ (parking_y_start s e <= s + 3)%Q.
Proof.
  unfold parking_y_start. destruct (Qle_bool s e); split; try apply Qle_refl.
  - unfold Qminus. apply Qplus_le_r. discriminate.
  - unfold Qminus. apply Qplus_le_r. discriminate.
Qed.
Lemma parking_y_end_bounds s e : (e - 3 <= parking_y_end s e)%Q /\ (parking_y_end s e <= e + 3)%Q.
Proof.
  unfold parking_y_end. destruct (negb (Qle_bool e s)); split; try apply Qle_refl.
  - unfold Qminus. apply Qplus_le_r. discriminate.
  - unfold Qminus. apply Qplus_le_r. discriminate.
Qed.

Lemma within3_ascending (f : Q * Q -> Q) (key : Q * Q -> Q) :
  (forall p, (key p - 3 <= f p)%Q /\ (f p <= key p + 3)%Q) ->
  forall l, gaps6_q (map key l) -> ascending_q (map f l).
Proof.
  intros B. induction l as [|p r IH]; intros G; [exact I|].
  simpl in G. destruct G as [G1 G2]. simpl. split; [|apply IH, G2].
  destruct r as [|q r']; simpl; [exact I|]. simpl in G1.
  destruct (B p) as [_ Bp]. destruct (B q) as [Bq _].
  apply Qle_lt_trans with (key p + 3)%Q; [exact Bp|].
  apply Qlt_le_trans with (key q - 3)%Q; [|exact Bq].
  (* key p + 3 < key q - 3  from  key p + 6 < key q *)
  apply (Qplus_lt_l _ _ 3). unfold Qminus. rewrite <- !Qplus_assoc.
  setoid_replace (-(3) + 3)%Q with 0%Q by reflexivity. rewrite Qplus_0_r.
  setoid_replace (3 + 3)%Q with 6%Q by reflexivity. exact G1.
Qed.

Lemma map_fst_combine {A B} (l : list A) (m : list B) : length l = length m -> map fst (combine l m) = l.
Proof. revert m. induction l as [|a r IH]; intros m E; [reflexivity|]. destruct m as [|b m']; [discriminate|]. simpl. f_equal. apply IH. simpl in E. lia. Qed.
Lemma map_snd_combine {A B} (l : list A) (m : list B) : length l = length m -> map snd (combine l m) = m.
Proof. revert m. induction l as [|a r IH]; intros m E; destruct m as [|b m']; try discriminate; [reflexivity|]. simpl. f_equal. apply IH. simpl in E. lia. Qed.

(* the documented preconditions on a zone where parking is possible: the call is accepted, strict, and hence delivers *)
Theorem rearrange_documented_call_is_accepted_and_strict zx zy sx sy dx dy :
  ascending_q zx -> ascending_q zy -> parking_ok zx zy = true -> rearrange_preconditionsb zx zy sx sy dx dy = true ->
  exists ps, rearrange_model zx zy sx sy dx dy = Some ps /\ ps <> [] /\ rearrange_strict zx zy sx sy dx dy = true.
Proof.
  intros Ax Ay Hp Hpre. unfold rearrange_preconditionsb in Hpre.
  repeat match goal with H : _ && _ = true |- _ => apply andb_true_iff in H; destruct H end.
  unfold parking_ok in Hp. apply andb_true_iff in Hp. destruct Hp as [Px Py].
  repeat match goal with
         | H : (_ <=? _) = true |- _ => apply Nat.leb_le in H
         | H : (_ =? _) = true |- _ => apply Nat.eqb_eq in H
         end.
  match goal with
  | N1 : 1 <= length sx, N2 : 1 <= length sy, L1 : length sx = length dx, L2 : length sy = length dy,
    S1 : sorted_strictb sx = true, S2 : sorted_strictb sy = true, S3 : sorted_strictb dx = true, S4 : sorted_strictb dy = true,
    R1 : in_rangeb (length zx) sx = true, R2 : in_rangeb (length zy) sy = true, R3 : in_rangeb (length zx) dx = true, R4 : in_rangeb (length zy) dy = true |- _ =>
      pose proof (sorted_strictb_ascending _ S1) as A1; pose proof (sorted_strictb_ascending _ S2) as A2;
      pose proof (sorted_strictb_ascending _ S3) as A3; pose proof (sorted_strictb_ascending _ S4) as A4;
      pose proof (proj1 (in_rangeb_spec _ _) R1) as I1; pose proof (proj1 (in_rangeb_spec _ _) R2) as I2;
      pose proof (proj1 (in_rangeb_spec _ _) R3) as I3; pose proof (proj1 (in_rangeb_spec _ _) R4) as I4
  end.
  (* the four parking coordinate lists and the destination grid are ascending *)
  pose proof (parking_x_ascending zx sx Px A1 I1) as Xs. pose proof (parking_x_ascending zx dx Px A3 I3) as Xd.
  pose proof (gaps6b_gaps6 _ Py) as Gy.
  set (ys := combine (pick_coords sy zy) (pick_coords dy zy)).
  assert (Ly : length (pick_coords sy zy) = length (pick_coords dy zy)) by (rewrite !pick_length; assumption).
  assert (Ys : ascending_q (map (fun p => parking_y_start (fst p) (snd p)) ys)).
  { apply (within3_ascending (fun p => parking_y_start (fst p) (snd p)) fst); [intros p; apply parking_y_start_bounds|].
    unfold ys. rewrite (map_fst_combine _ _ Ly). apply gaps6_pick; assumption. }
  assert (Ye : ascending_q (map (fun p => parking_y_end (fst p) (snd p)) ys)).
  { apply (within3_ascending (fun p => parking_y_end (fst p) (snd p)) snd); [intros p; apply parking_y_end_bounds|].
    unfold ys. rewrite (map_snd_combine _ _ Ly). apply gaps6_pick; assumption. }
  pose proof (ascending_pick zx dx Ax A3 I3) as Pdx. pose proof (ascending_pick zy dy Ay A4 I4) as Pdy.
  eexists. split; [|split].
  - unfold rearrange_model.
    replace ((length sx <? 1) || (length dx <? 1)) with false
      by (symmetry; apply orb_false_iff; split; apply Nat.ltb_ge; lia).
    replace ((length sx =? length dx) && (length sy =? length dy)) with true
      by (symmetry; apply andb_true_iff; split; apply Nat.eqb_eq; assumption).
    cbn [negb].
    match goal with S1 : sorted_strictb sx = true, S2 : sorted_strictb sy = true, S3 : sorted_strictb dx = true, S4 : sorted_strictb dy = true |- _ => rewrite S1, S2, S3, S4 end.
    match goal with R1 : in_rangeb (length zx) sx = true, R2 : in_rangeb (length zy) sy = true, R3 : in_rangeb (length zx) dx = true, R4 : in_rangeb (length zy) dy = true |- _ => rewrite R1, R2, R3, R4 end.
    cbn [andb negb].
    replace ((length sy <? 1) || (length dy <? 1)) with false
      by (symmetry; apply orb_false_iff; split; apply Nat.ltb_ge; lia).
    unfold rearrange_waypoints. cbv zeta. cbn [forallb fst snd]. fold ys.
    rewrite (ascending_nondecb _ Xs), (ascending_nondecb _ Xd), (ascending_nondecb _ Ys), (ascending_nondecb _ Ye),
            (ascending_nondecb _ Pdx), (ascending_nondecb _ Pdy). cbn [andb negb]. reflexivity.
  - discriminate.
  - unfold rearrange_strict, rearrange_waypoints. cbv zeta. cbn [forallb fst snd]. fold ys.
    rewrite (ascending_distinct _ Xs), (ascending_distinct _ Xd), (ascending_distinct _ Ys), (ascending_distinct _ Ye),
            (ascending_distinct _ Pdx), (ascending_distinct _ Pdy). reflexivity.
Qed.

(* acceptance alone does not make a rearrange call executable: on a two-pair zone with pair pitch 6 the right column of the
   first pair and the left column of the second park on the same coordinate, and Grid() only asserts spacing >= 0 *)
Theorem rearrange_accepts_coinciding_refuted :
  exists zx zy sx sy dx dy ps,
    rearrange_model zx zy sx sy dx dy = Some ps /\
    sim_paths (mkast (grid_sites (zx, zy)) [((2#1, 0)%Q, 1); ((8#1, 0)%Q, 2)] [] [] []) ps = AErr ECollide.
Proof.
  exists [0; 2#1; 8#1; 10#1]%Q, [0; 6#1]%Q, [1; 2], [0], [0; 3], [0]. eexists. split; vm_compute; reflexivity.
Qed.
