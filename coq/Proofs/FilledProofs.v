From Coq Require Import QArith List Bool Arith Lia.
From BS Require Import Core.Base Model.Filled.
Import ListNotations.
Local Open Scope nat_scope.

Lemma idx_eqb_eq a b : idx_eqb a b = true <-> a = b.
Proof.
  destruct a as [a1 a2], b as [b1 b2]; unfold idx_eqb; simpl.
  rewrite andb_true_iff, !Nat.eqb_eq. split; [intros [-> ->]; reflexivity | intros H; inversion H; auto].
Qed.

Lemma mem_idx_In p l : mem_idx p l = true <-> In p l.
Proof.
  unfold mem_idx. rewrite existsb_exists. split.
  - intros (x & Hx & E). apply idx_eqb_eq in E. subst. exact Hx.
  - intros H. exists p. split; [exact H | apply idx_eqb_eq; reflexivity].
Qed.

Lemma mem_idx_false p l : mem_idx p l = false <-> ~ In p l.
Proof. rewrite <- mem_idx_In. destruct (mem_idx p l); split; congruence. Qed.

Lemma subset_idx_spec a b : subset_idx a b = true <-> (forall p, In p a -> In p b).
Proof.
  unfold subset_idx. rewrite forallb_forall. split; intros H p Hp.
  - apply mem_idx_In, H, Hp.
  - apply mem_idx_In, H, Hp.
Qed.

Lemma seteq_idx_spec a b : seteq_idx a b = true <-> (forall p, In p a <-> In p b).
Proof.
  unfold seteq_idx. rewrite andb_true_iff, !subset_idx_spec. split.
  - intros [H1 H2] p; split; auto.
  - intros H; split; intros p; apply H.
Qed.

Lemma all_idx_In sh i j : In (i, j) (all_idx sh) <-> i < fst sh /\ j < snd sh.
Proof.
  unfold all_idx. rewrite in_flat_map. split.
  - intros (a & Ha & Hb). apply in_map_iff in Hb as (b & E & Hb). inversion E; subst.
    apply in_seq in Ha, Hb. lia.
  - intros [Hi Hj]. exists i. split; [apply in_seq; lia|].
    apply in_map_iff. exists j. split; [reflexivity | apply in_seq; lia].
Qed.

Lemma and_not_or_iff (A B C : Prop) : ((A /\ ~ B) /\ ~ C) <-> (A /\ ~ (B \/ C)).
Proof. tauto. Qed.
Lemma false_or_iff (A : Prop) : A <-> (False \/ A).
Proof. tauto. Qed.

Set Default Proof Using "Type".
Section FilledProofs.
  Variable G : Type.
  Variable g_shape : G -> nat * nat.
  Variable g_view : G -> list nat -> list nat -> res G.
  Variable g_shift : G -> Q -> Q -> G.
  Variable g_scale : G -> Q -> Q -> G.
  Variable g_repeat : G -> nat -> nat -> Q -> Q -> res G.
  Variable g_eqb : G -> G -> bool.
  Variable g_xpos : G -> list Q.
  Variable g_ypos : G -> list Q.

  Notation fval := (fval G).
  Notation fill := (fill G g_shape).
  Notation vacate := (@vacate G).
  Notation fview := (fview G g_view).
  Notation fshift := (fshift G g_shift).
  Notation fscale := (fscale G g_scale).
  Notation frepeat := (frepeat G g_shape g_repeat).
  Notation feq := (feq G g_eqb).
  Notation root := (@root G).
  Notation vacancies := (@vacancies G).

  (* ---- fill / vacate are cumulative and never touch the underlying grid ---- *)
  Theorem fill_root v l : root (fill v l) = root v.
  Proof. destruct v; reflexivity. Qed.

  Theorem fill_plain g l p :
    In p (vacancies (fill (FPlain G g) l)) <-> In p (all_idx (g_shape g)) /\ ~ In p l.
  Proof. simpl. rewrite filter_In, negb_true_iff, mem_idx_false. reflexivity. Qed.

  Theorem fill_filled r vac l p :
    In p (vacancies (fill (FFilled G r vac) l)) <-> In p vac /\ ~ In p l.
  Proof. simpl. rewrite filter_In, negb_true_iff, mem_idx_false. reflexivity. Qed.

  Theorem vacate_root v l : root (vacate v l) = root v.
  Proof. destruct v; reflexivity. Qed.

  Theorem vacate_vacancies v l p :
    In p (vacancies (vacate v l)) <-> In p (vacancies v) \/ In p l.
  Proof. destruct v; simpl; [apply false_or_iff | apply in_app_iff]. Qed.

  Theorem vacate_vacate v a b p :
    In p (vacancies (vacate (vacate v a) b)) <-> In p (vacancies (vacate v (a ++ b))).
  Proof. rewrite !vacate_vacancies, in_app_iff. apply or_assoc. Qed.

  Theorem vacate_vacate_root v a b : root (vacate (vacate v a) b) = root (vacate v (a ++ b)).
  Proof. rewrite !vacate_root. reflexivity. Qed.

  Theorem fill_fill v a b p :
    In p (vacancies (fill (fill v a) b)) <-> In p (vacancies (fill v (a ++ b))).
  Proof.
    destruct v as [g | r vac]; simpl; rewrite !filter_In, !negb_true_iff, !mem_idx_false, in_app_iff;
      apply and_not_or_iff.
  Qed.

  (* ---- shift / scale transform the underlying grid and keep the vacancy set ---- *)
  Theorem shift_commutes v dx dy :
    root (fshift v dx dy) = g_shift (root v) dx dy /\ vacancies (fshift v dx dy) = vacancies v.
  Proof. destruct v; split; reflexivity. Qed.

  Theorem scale_commutes v sx sy :
    root (fscale v sx sy) = g_scale (root v) sx sy /\ vacancies (fscale v sx sy) = vacancies v.
  Proof. destruct v; split; reflexivity. Qed.

  (* ---- views re-index the vacancy pattern ---- *)
  Lemma view_vac_In vac xi yi a b :
    In (a, b) (view_vac vac xi yi) <->
    a < length xi /\ b < length yi /\ In (nth a xi O, nth b yi O) vac.
  Proof.
    unfold view_vac. rewrite in_flat_map. split.
    - intros (a' & Ha & H). apply in_flat_map in H as (b' & Hb & H).
      destruct (mem_idx (nth a' xi 0, nth b' yi 0) vac) eqn:E; [|contradiction].
      destruct H as [H|[]]. inversion H; subst. apply in_seq in Ha, Hb.
      apply mem_idx_In in E. repeat split; try lia. exact E.
    - intros (Ha & Hb & H). exists a. split; [apply in_seq; lia|].
      apply in_flat_map. exists b. split; [apply in_seq; lia|].
      apply mem_idx_In in H. rewrite H. left; reflexivity.
  Qed.

  Theorem view_reindexes r vac xi yi v' :
    fview (FFilled G r vac) xi yi = Ok v' ->
    g_view r xi yi = Ok (root v') /\
    forall a b, In (a, b) (vacancies v') <->
                a < length xi /\ b < length yi /\ In (nth a xi O, nth b yi O) vac.
  Proof.
    simpl. destruct (g_view r xi yi) as [r'|e]; [|discriminate].
    intros H; inversion H; subst; simpl. split; [reflexivity|].
    intros a b. apply view_vac_In.
  Qed.

  Theorem view_fails_iff r vac xi yi :
    (exists e, fview (FFilled G r vac) xi yi = Err e) <-> (exists e, g_view r xi yi = Err e).
  Proof.
    simpl. destruct (g_view r xi yi) as [r'|e0]; split; intros [e H]; try discriminate; eexists; reflexivity.
  Qed.

  (* ---- repeat tiles the vacancy pattern ---- *)
  Lemma repeat_vac_In sh vac tx ty i j :
    In (i, j) (repeat_vac sh vac tx ty) <->
    exists x y a b, In (x, y) vac /\ a < tx /\ b < ty /\ i = x + fst sh * a /\ j = y + snd sh * b.
  Proof.
    unfold repeat_vac. rewrite in_flat_map. split.
    - intros (a & Ha & H). apply in_flat_map in H as (b & Hb & H).
      apply in_map_iff in H as ([x y] & E & Hp). simpl in E. inversion E; subst.
      apply in_seq in Ha, Hb. exists x, y, a, b. repeat split; try lia. exact Hp.
    - intros (x & y & a & b & Hp & Ha & Hb & -> & ->).
      exists a. split; [apply in_seq; lia|]. apply in_flat_map. exists b. split; [apply in_seq; lia|].
      apply in_map_iff. exists (x, y). split; [reflexivity | exact Hp].
  Qed.

  Theorem repeat_tiles r vac tx ty gx gy v' :
    frepeat (FFilled G r vac) tx ty gx gy = Ok v' ->
    g_repeat r tx ty gx gy = Ok (root v') /\
    forall i j, In (i, j) (vacancies v') <->
      exists x y a b, In (x, y) vac /\ a < tx /\ b < ty /\
                      i = x + fst (g_shape r) * a /\ j = y + snd (g_shape r) * b.
  Proof.
    simpl. destruct (g_repeat r tx ty gx gy) as [r'|e]; [|discriminate].
    intros H; inversion H; subst; simpl. split; [reflexivity|].
    intros i j. apply repeat_vac_In.
  Qed.

  (* the same in "pattern" form, for vacancies that lie inside the grid *)
  Theorem repeat_tiles_mod r vac tx ty gx gy v' :
    frepeat (FFilled G r vac) tx ty gx gy = Ok v' ->
    (forall x y, In (x, y) vac -> x < fst (g_shape r) /\ y < snd (g_shape r)) ->
    forall i j, In (i, j) (vacancies v') <->
      i < fst (g_shape r) * tx /\ j < snd (g_shape r) * ty /\
      In (i mod fst (g_shape r), j mod snd (g_shape r)) vac.
  Proof.
    intros H Hin i j. destruct (repeat_tiles _ _ _ _ _ _ _ H) as [_ Ht]. rewrite Ht. clear Ht H.
    set (nx := fst (g_shape r)) in *. set (ny := snd (g_shape r)) in *.
    split.
    - intros (x & y & a & b & Hp & Ha & Hb & -> & ->).
      destruct (Hin _ _ Hp) as [Hx Hy].
      assert (Ex : (x + nx * a) mod nx = x).
      { rewrite Nat.mul_comm, Nat.mod_add by lia. apply Nat.mod_small; exact Hx. }
      assert (Ey : (y + ny * b) mod ny = y).
      { rewrite Nat.mul_comm, Nat.mod_add by lia. apply Nat.mod_small; exact Hy. }
      rewrite Ex, Ey. repeat split; [nia | nia | exact Hp].
    - intros (Hi & Hj & Hp).
      destruct (Hin _ _ Hp) as [Hx Hy].
      assert (nx <> 0) by lia. assert (ny <> 0) by lia.
      exists (i mod nx), (j mod ny), (i / nx), (j / ny).
      repeat split.
      + exact Hp.
      + apply Nat.div_lt_upper_bound; lia.
      + apply Nat.div_lt_upper_bound; lia.
      + rewrite Nat.add_comm. apply Nat.div_mod; assumption.
      + rewrite Nat.add_comm. apply Nat.div_mod; assumption.
  Qed.

  (* ---- equality depends on exactly the underlying grid and the vacancy set ---- *)
  Theorem feq_filled r1 v1 r2 v2 :
    feq (FFilled G r1 v1) (FFilled G r2 v2) = true <->
    g_eqb r1 r2 = true /\ (forall p, In p v1 <-> In p v2).
  Proof. simpl. rewrite andb_true_iff, seteq_idx_spec. reflexivity. Qed.

  Theorem feq_mixed g r v : feq (FPlain G g) (FFilled G r v) = false /\ feq (FFilled G r v) (FPlain G g) = false.
  Proof. split; reflexivity. Qed.

  (* history independence: two values with the same underlying grid and the same vacancy set
     are equal however they were built *)
  Theorem feq_history_independent a b :
    g_eqb (root a) (root b) = true ->
    (forall p, In p (vacancies a) <-> In p (vacancies b)) ->
    (exists r v, a = FFilled G r v) -> (exists r v, b = FFilled G r v) ->
    feq a b = true.
  Proof.
    intros Hr Hv (r1 & v1 & ->) (r2 & v2 & ->). apply feq_filled. split; assumption.
  Qed.

  (* ---- denotation: the occupied sites are the sites of the underlying grid minus vacancies ---- *)
  Lemma flat_map_filter_map {A B} (f : A -> bool) (g : A -> B) (l : list A) :
    flat_map (fun a => if f a then [] else [g a]) l = map g (filter (fun a => negb (f a)) l).
  Proof. induction l as [|a l IH]; simpl; [reflexivity|]. destruct (f a); simpl; rewrite IH; reflexivity. Qed.

  Theorem positions_denotation v :
    fpositions G g_xpos g_ypos v = occupied G g_xpos g_ypos v.
  Proof.
    unfold fpositions, occupied, sites.
    generalize (combine (seq 0 (length (g_xpos (root v)))) (g_xpos (root v))) as X.
    generalize (combine (seq 0 (length (g_ypos (root v)))) (g_ypos (root v))) as Y.
    intros Y X.
    induction X as [|x X IH]; [reflexivity|].
    change (list_prod (x :: X) Y) with (map (fun y => (x, y)) Y ++ list_prod X Y).
    simpl flat_map. rewrite map_app, filter_app, map_app. f_equal; [|exact IH].
    clear IH. induction Y as [|y Y IHY]; [reflexivity|].
    simpl. destruct (mem_idx (fst x, fst y) (vacancies v)); simpl; rewrite IHY; reflexivity.
  Qed.
End FilledProofs.
