(* Facts about the exact-rational grid model used by several properties. *)
From Coq Require Import ZArith QArith List Bool Lia Lqa.
From BS Require Import Core.Base Core.GridQ.
Import ListNotations.

Lemma Qeq_bool_refl x : Qeq_bool x x = true.
Proof. apply Qeq_bool_iff. reflexivity. Qed.
Lemma Qeq_bool_sym x y : Qeq_bool x y = Qeq_bool y x.
Proof.
  destruct (Qeq_bool x y) eqn:E; symmetry.
  - apply Qeq_bool_iff. symmetry. apply Qeq_bool_iff. exact E.
  - destruct (Qeq_bool y x) eqn:E2; [|reflexivity].
    apply Qeq_bool_iff in E2. symmetry in E2. apply Qeq_bool_iff in E2. congruence.
Qed.
Lemma Qeq_bool_trans x y z : Qeq_bool x y = true -> Qeq_bool y z = true -> Qeq_bool x z = true.
Proof. rewrite !Qeq_bool_iff. intros A B. rewrite A. exact B. Qed.

Lemma qlist_eqb_refl l : qlist_eqb l l = true.
Proof. induction l; simpl; [reflexivity | rewrite Qeq_bool_refl, IHl; reflexivity]. Qed.
Lemma qlist_eqb_sym a : forall b, qlist_eqb a b = qlist_eqb b a.
Proof. induction a as [|x a IH]; destruct b; simpl; try reflexivity. rewrite Qeq_bool_sym, IH. reflexivity. Qed.
Lemma qlist_eqb_trans a : forall b c, qlist_eqb a b = true -> qlist_eqb b c = true -> qlist_eqb a c = true.
Proof.
  induction a as [|x a IH]; destruct b, c; simpl; try discriminate; auto.
  rewrite !andb_true_iff. intros [A1 A2] [B1 B2]. split; [eapply Qeq_bool_trans | eapply IH]; eassumption.
Qed.

Lemma qopt_eqb_refl o : qopt_eqb o o = true.
Proof. destruct o; simpl; [apply Qeq_bool_refl | reflexivity]. Qed.
Lemma qopt_eqb_sym a b : qopt_eqb a b = qopt_eqb b a.
Proof. destruct a, b; simpl; try reflexivity. apply Qeq_bool_sym. Qed.
Lemma qopt_eqb_trans a b c : qopt_eqb a b = true -> qopt_eqb b c = true -> qopt_eqb a c = true.
Proof. destruct a, b, c; simpl; try discriminate; auto. apply Qeq_bool_trans. Qed.

Lemma gridq_eqb_refl g : gridq_eqb g g = true.
Proof. unfold gridq_eqb. rewrite !qlist_eqb_refl, !qopt_eqb_refl. reflexivity. Qed.
Lemma gridq_eqb_sym a b : gridq_eqb a b = gridq_eqb b a.
Proof.
  unfold gridq_eqb. rewrite (qlist_eqb_sym (xsp a)), (qlist_eqb_sym (ysp a)), (qopt_eqb_sym (xin a)), (qopt_eqb_sym (yin a)).
  reflexivity.
Qed.
Lemma gridq_eqb_trans a b c : gridq_eqb a b = true -> gridq_eqb b c = true -> gridq_eqb a c = true.
Proof.
  unfold gridq_eqb. rewrite !andb_true_iff. intros [[[A1 A2] A3] A4] [[[B1 B2] B3] B4].
  repeat split; [eapply qlist_eqb_trans | eapply qlist_eqb_trans | eapply qopt_eqb_trans | eapply qopt_eqb_trans]; eassumption.
Qed.

Lemma gridv_eqb_refl g : gridv_eqb g g = true.
Proof. apply gridq_eqb_refl. Qed.
Lemma gridv_eqb_sym a b : gridv_eqb a b = gridv_eqb b a.
Proof. apply gridq_eqb_sym. Qed.
Lemma gridv_eqb_trans a b c : gridv_eqb a b = true -> gridv_eqb b c = true -> gridv_eqb a c = true.
Proof. apply gridq_eqb_trans. Qed.

(* ---------- sums and running positions ---------- *)
Local Open Scope Q_scope.

Lemma fold_plus_acc r : forall a, fold_left Qplus r a == a + fold_left Qplus r 0.
Proof.
  induction r as [|s r IH]; intros a; simpl.
  - ring.
  - rewrite (IH (a + s)), (IH (0 + s)). ring.
Qed.

Lemma qsum_nil : qsum [] == 0.
Proof. reflexivity. Qed.
Lemma qsum_cons s r : qsum (s :: r) == s + qsum r.
Proof. unfold qsum. simpl. rewrite fold_plus_acc. ring. Qed.

Lemma qsum_nonneg sp : Forall (fun s => 0 <= s) sp -> 0 <= qsum sp.
Proof.
  induction 1 as [|s r Hs Hr IH].
  - rewrite qsum_nil. apply Qle_refl.
  - rewrite qsum_cons. lra.
Qed.

(* positions along one axis lie between the initial position and initial + total spacing, and
   both ends are positions *)
Lemma run_from_bounds sp : forall p,
  Forall (fun s => 0 <= s) sp ->
  (forall q, In q (run_from p sp) -> p <= q /\ q <= p + qsum sp)
  /\ In p (run_from p sp)
  /\ (exists q, In q (run_from p sp) /\ q == p + qsum sp).
Proof.
  induction sp as [|s r IH]; intros p Hnn; simpl.
  - repeat split.
    + destruct H as [<- | []]. apply Qle_refl.
    + destruct H as [<- | []]. rewrite qsum_nil. lra.
    + left; reflexivity.
    + exists p. split; [left; reflexivity | rewrite qsum_nil; ring].
  - inversion Hnn as [|? ? Hs Hr]; subst.
    destruct (IH (p + s) Hr) as (Hb & Hin & q & Hq & Eq).
    pose proof (qsum_nonneg r Hr) as Hsum.
    repeat split.
    + destruct H as [<- | H]; [apply Qle_refl | destruct (Hb _ H); lra].
    + destruct H as [<- | H]; [rewrite qsum_cons; lra | destruct (Hb _ H); rewrite qsum_cons; lra].
    + left; reflexivity.
    + exists q. split; [right; exact Hq | rewrite Eq, qsum_cons; ring].
Qed.
