(* Facts about the exact-rational grid model used by several properties. *)
From Coq Require Import ZArith QArith List Bool Lia Lqa.
From BS Require Import Core.Base Core.GridQ.
Import ListNotations.

Lemma Qeq_bool_refl x : Qeq_bool x x = true.
Proof. apply Qeq_bool_iff. reflexivity. Qed.
Lemma Qeq_bool_sym x y : Qeq_bool x y = Qeq_bool y x.
Proof.
  destruct (Qeq_bool x y) eqn:E; symmetry.
  - apply Qeq_bool_iff. symmetry. apply Qeq_bool_iff. exact E.
  - destruct (Qeq_bool y x) eqn:E2; [|reflexivity].
    apply Qeq_bool_iff in E2. symmetry in E2. apply Qeq_bool_iff in E2. congruence.
Qed.
Lemma Qeq_bool_trans x y z : Qeq_bool x y = true -> Qeq_bool y z = true -> Qeq_bool x z = true.
Proof. rewrite !Qeq_bool_iff. intros A B. rewrite A. exact B. Qed.

Lemma qlist_eqb_refl l : qlist_eqb l l = true.
Proof. induction l; simpl; [reflexivity | rewrite Qeq_bool_refl, IHl; reflexivity]. Qed.
Lemma qlist_eqb_sym a : forall b, qlist_eqb a b = qlist_eqb b a.
Proof. induction a as [|x a IH]; destruct b; simpl; try reflexivity. rewrite Qeq_bool_sym, IH. reflexivity. Qed.
Lemma qlist_eqb_trans a : forall b c, qlist_eqb a b = true -> qlist_eqb b c = true -> qlist_eqb a c = true.
Proof.
  induction a as [|x a IH]; destruct b, c; simpl; try discriminate; auto.
  rewrite !andb_true_iff. intros [A1 A2] [B1 B2]. split; [eapply Qeq_bool_trans | eapply IH]; eassumption.
Qed.

Lemma qopt_eqb_refl o : qopt_eqb o o = true.
Proof. destruct o; simpl; [apply Qeq_bool_refl | reflexivity]. Qed.
Lemma qopt_eqb_sym a b : qopt_eqb a b = qopt_eqb b a.
Proof. destruct a, b; simpl; try reflexivity. apply Qeq_bool_sym. Qed.
Lemma qopt_eqb_trans a b c : qopt_eqb a b = true -> qopt_eqb b c = true -> qopt_eqb a c = true.
Proof. destruct a, b, c; simpl; try discriminate; auto. apply Qeq_bool_trans. Qed.

Lemma gridq_eqb_refl g : gridq_eqb g g = true.
Proof. unfold gridq_eqb. rewrite !qlist_eqb_refl, !qopt_eqb_refl. reflexivity. Qed.
Lemma gridq_eqb_sym a b : gridq_eqb a b = gridq_eqb b a.
Proof.
  unfold gridq_eqb. rewrite (qlist_eqb_sym (xsp a)), (qlist_eqb_sym (ysp a)), (qopt_eqb_sym (xin a)), (qopt_eqb_sym (yin a)).
  reflexivity.
Qed.
Lemma gridq_eqb_trans a b c : gridq_eqb a b = true -> gridq_eqb b c = true -> gridq_eqb a c = true.
Proof.
  unfold gridq_eqb. rewrite !andb_true_iff. intros [[[A1 A2] A3] A4] [[[B1 B2] B3] B4].
  repeat split; [eapply qlist_eqb_trans | eapply qlist_eqb_trans | eapply qopt_eqb_trans | eapply qopt_eqb_trans]; eassumption.
Qed.

Lemma gridv_eqb_refl g : gridv_eqb g g = true.
Proof. apply gridq_eqb_refl. Qed.
Lemma gridv_eqb_sym a b : gridv_eqb a b = gridv_eqb b a.
Proof. apply gridq_eqb_sym. Qed.
Lemma gridv_eqb_trans a b c : gridv_eqb a b = true -> gridv_eqb b c = true -> gridv_eqb a c = true.
Proof. apply gridq_eqb_trans. Qed.

(* ---------- sums and running positions ---------- *)
Local Open Scope Q_scope.

Lemma fold_plus_acc r : forall a, fold_left Qplus r a == a + fold_left Qplus r 0.
Proof.
  induction r as [|s r IH]; intros a; simpl.
  - ring.
  - rewrite (IH (a + s)), (IH (0 + s)). ring.
Qed.

Lemma qsum_nil : qsum [] == 0.
Proof. reflexivity. Qed.
Lemma qsum_cons s r : qsum (s :: r) == s + qsum r.
Proof. unfold qsum. simpl. rewrite fold_plus_acc. ring. Qed.

Lemma qsum_nonneg sp : Forall (fun s => 0 <= s) sp -> 0 <= qsum sp.
Proof.
  induction 1 as [|s r Hs Hr IH].
  - rewrite qsum_nil. apply Qle_refl.
  - rewrite qsum_cons. lra.
Qed.

(* positions along one axis lie between the initial position and initial + total spacing, and
   both ends are positions *)
Lemma run_from_bounds sp : forall p,
  Forall (fun s => 0 <= s) sp ->
  (forall q, In q (run_from p sp) -> p <= q /\ q <= p + qsum sp)
  /\ In p (run_from p sp)
  /\ (exists q, In q (run_from p sp) /\ q == p + qsum sp).
Proof.
  induction sp as [|s r IH]; intros p Hnn; simpl.
  - repeat split.
    + destruct H as [<- | []]. apply Qle_refl.
    + destruct H as [<- | []]. rewrite qsum_nil. lra.
    + left; reflexivity.
    + exists p. split; [left; reflexivity | rewrite qsum_nil; ring].
  - inversion Hnn as [|? ? Hs Hr]; subst.
    destruct (IH (p + s) Hr) as (Hb & Hin & q & Hq & Eq).
    pose proof (qsum_nonneg r Hr) as Hsum.
    repeat split.
    + destruct H as [<- | H]; [apply Qle_refl | destruct (Hb _ H); lra].
    + destruct H as [<- | H]; [rewrite qsum_cons; lra | destruct (Hb _ H); rewrite qsum_cons; lra].
    + left; reflexivity.
    + exists q. split; [right; exact Hq | rewrite Eq, qsum_cons; ring].
Qed.

(* ---------- positions as prefix sums; views with ascending indices ---------- *)
Definition qequiv := Forall2 Qeq.

Lemma qequiv_refl l : qequiv l l.
Proof. induction l; constructor; [reflexivity | assumption]. Qed.

Definition pos_at (p : Q) (sp : list Q) (k : nat) : Q := p + qsum (firstn k sp).

Lemma qsum_app a b : qsum (a ++ b) == qsum a + qsum b.
Proof.
  induction a as [|x a IH]; simpl.
  - rewrite qsum_nil. ring.
  - rewrite !qsum_cons, IH. ring.
Qed.

Lemma run_from_proper sp : forall p p', p == p' -> qequiv (run_from p sp) (run_from p' sp).
Proof.
  induction sp as [|s r IH]; intros p p' E; simpl.
  - constructor; [exact E | constructor].
  - constructor; [exact E | apply IH; rewrite E; reflexivity].
Qed.

Lemma qequiv_trans a b c : qequiv a b -> qequiv b c -> qequiv a c.
Proof.
  intros H; revert c; induction H as [|x y a b E H IH]; intros c Hc; inversion Hc; subst; constructor.
  - rewrite E; assumption.
  - apply IH; assumption.
Qed.

Lemma run_from_pos_at sp : forall p,
  qequiv (run_from p sp) (map (pos_at p sp) (seq 0 (S (length sp)))).
Proof.
  induction sp as [|s r IH]; intros p.
  - simpl. constructor; [unfold pos_at; simpl; rewrite qsum_nil; ring | constructor].
  - cbn [run_from length]. rewrite <- cons_seq. cbn [map].
    constructor; [unfold pos_at; simpl; rewrite qsum_nil; ring|].
    rewrite <- seq_shift, map_map.
    eapply qequiv_trans; [apply IH|].
    clear IH. induction (seq 0 (S (length r))) as [|k l IHl]; simpl; constructor; [|exact IHl].
    unfold pos_at. simpl. rewrite qsum_cons. ring.
Qed.

Lemma firstn_split a : forall b (sp : list Q), (a <= b)%nat -> firstn b sp = firstn a sp ++ firstn (b - a) (skipn a sp).
Proof.
  induction a as [|a IH]; intros b sp H; simpl.
  - rewrite Nat.sub_0_r. reflexivity.
  - destruct b as [|b]; [lia|]. destruct sp as [|x sp]; simpl; [rewrite firstn_nil; reflexivity|].
    f_equal. apply IH. lia.
Qed.

Lemma slice_sum p sp a b : (a <= b)%nat -> pos_at p sp a + qsum (slice sp a b) == pos_at p sp b.
Proof.
  intros H. unfold pos_at, slice. rewrite (firstn_split a b sp H), qsum_app. ring.
Qed.

Fixpoint ascending (l : list nat) : Prop :=
  match l with
  | a :: ((b :: _) as r) => (a <= b)%nat /\ ascending r
  | _ => True
  end.

(* a view with ascending indices shows exactly the selected positions of its parent *)
Lemma sub_positions p sp rest : forall i0,
  ascending (i0 :: rest) ->
  qequiv (run_from (pos_at p sp i0) (sub_spacing sp (i0 :: rest))) (map (pos_at p sp) (i0 :: rest)).
Proof.
  induction rest as [|i1 r IH]; intros i0 H.
  - simpl. constructor; [reflexivity | constructor].
  - destruct H as [H01 H]. cbn [sub_spacing run_from map].
    constructor; [reflexivity|].
    eapply qequiv_trans; [apply run_from_proper, (slice_sum p sp i0 i1 H01) | apply IH; exact H].
Qed.

Theorem view_positions_x g xi yi i0 rest :
  xi = i0 :: rest -> ascending xi -> forall x0, xin g = Some x0 ->
  qequiv (xpos (geom (GSub g xi yi))) (map (pos_at x0 (xsp g)) xi).
Proof.
  intros -> Ha x0 X. unfold xpos, pos_of. simpl. rewrite X. simpl.
  apply (sub_positions x0 (xsp g) rest i0 Ha).
Qed.

Theorem view_positions_y g xi yi j0 rest :
  yi = j0 :: rest -> ascending yi -> forall y0, yin g = Some y0 ->
  qequiv (ypos (geom (GSub g xi yi))) (map (pos_at y0 (ysp g)) yi).
Proof.
  intros -> Ha y0 Y. unfold ypos, pos_of. simpl. rewrite Y. simpl.
  apply (sub_positions y0 (ysp g) rest j0 Ha).
Qed.

Lemma grid_positions_x g x0 : xin g = Some x0 ->
  qequiv (xpos g) (map (pos_at x0 (xsp g)) (seq 0 (S (length (xsp g))))).
Proof. intros X. unfold xpos, pos_of. rewrite X. apply run_from_pos_at. Qed.
Lemma grid_positions_y g y0 : yin g = Some y0 ->
  qequiv (ypos g) (map (pos_at y0 (ysp g)) (seq 0 (S (length (ysp g))))).
Proof. intros Y. unfold ypos, pos_of. rewrite Y. apply run_from_pos_at. Qed.
