(* C08: stdlib.waypoints.move_by_waypoints as modelled in Model/LibMoves.v: with pick and drop its path is a transport; a move split
   over two calls glues into the path of one call with pick and drop over the concatenated waypoints. *)
From Coq Require Import String.
From Coq Require Import ZArith QArith List Bool Arith Lia.
From BS Require Import Core.Base Model.Aod Model.LibMoves Proofs.AodProofs Proofs.AodRoundTrip Proofs.AodLegs Proofs.LibMovesProofs.
Import ListNotations.
Local Open Scope nat_scope.

(* ====================================================================================================
   move_by_waypoints
   ==================================================================================================== *)
(* with pick and drop the played path has the transport shape *)
Theorem waypoints_pick_drop_is_a_transport w0 rest ps :
  waypoints_model (w0 :: rest) true true = Some ps ->
  recognise_transport ps = Some (length (fst w0), length (snd w0), w0, rest).
Proof.
  unfold waypoints_model. destruct (negb (forallb (same_shape w0) rest)); [discriminate|].
  intros E. inversion E; subst ps. cbn [app]. unfold recognise_transport, SALL. cbn [is_all andb].
  rewrite !wp_eqb_refl. cbn [andb].
  replace (wp_eqb (last rest w0) (last (w0 :: rest) w0)) with true; [reflexivity|].
  symmetry. destruct rest as [|v r]; [apply wp_eqb_refl|].
  change (last (w0 :: v :: r) w0) with (last (v :: r) w0). apply wp_eqb_refl.
Qed.

Lemma last_app_cons {A} (r1 : list A) v r2 d : last (r1 ++ v :: r2) d = last (v :: r2) d.
Proof. induction r1 as [|a r1 IH]; [reflexivity|]. cbn [app]. destruct (r1 ++ v :: r2) as [|a0 l] eqn:E; [destruct r1; discriminate|]. change (last (a :: a0 :: l) d) with (last (a0 :: l) d). exact IH. Qed.

(* a move split over two calls - pick on the first, drop on the second, the second starting where the first ended - glues into the
   path of ONE call with pick and drop over the concatenated waypoints *)
Theorem waypoints_two_legs_glue w0 r1 u r2 p1 p2 :
  waypoints_model (w0 :: r1) true false = Some [p1] -> waypoints_model (u :: r2) false true = Some [p2] ->
  same_shape w0 u = true -> wp_eqb (last (w0 :: r1) w0) u = true ->
  exists m, merge_legs p1 [p2] = Some m /\ waypoints_model (w0 :: r1 ++ r2) true true = Some [m].
Proof.
  unfold waypoints_model.
  destruct (forallb (same_shape w0) r1) eqn:F1; cbn [negb]; [|discriminate].
  destruct (forallb (same_shape u) r2) eqn:F2; cbn [negb]; [|discriminate].
  intros E1 E2 Hs Hu. inversion E1; subst p1. inversion E2; subst p2. clear E1 E2.
  apply andb_true_iff in Hs. destruct Hs as [Hx Hy]. apply Nat.eqb_eq in Hx, Hy.
  assert (F12 : forallb (same_shape w0) (r1 ++ r2) = true).
  { rewrite forallb_app, F1. cbn [andb]. apply forallb_forall. intros w I.
    pose proof (proj1 (forallb_forall _ _) F2 w I) as Hw. unfold same_shape in *. rewrite Hx, Hy. exact Hw. }
  rewrite F12. cbn [negb app].
  cbn [merge_legs merge2 p_actions p_nx p_ny split_last_way].
  rewrite Hx, Hy, !Nat.eqb_refl. cbn [andb]. rewrite Hu.
  eexists. split; [reflexivity|].
  apply wp_eqb_eq in Hu. f_equal. f_equal. rewrite <- Hx, <- Hy. f_equal. cbn [app].
  f_equal. f_equal. f_equal. f_equal. f_equal.
  (* last r2 u = last (r1 ++ r2) w0 *)
  destruct r2 as [|v r2']; [rewrite app_nil_r; cbn [last]; rewrite <- Hu; destruct r1 as [|a r1']; [reflexivity | reflexivity]|].
  rewrite (last_default_irrelevant v r2' u w0). rewrite last_app_cons. reflexivity.
Qed.
