From Coq Require Import ZArith List Bool Lia.
From BS Require Import Core.Show Core.Base Model.Tracer Model.Reverse Proofs.TracerProofs.
Import ListNotations.

Lemma flip_onoff_involutive k : flip_onoff (flip_onoff k) = k.
Proof. destruct k; reflexivity. Qed.

Lemma inv_involutive a : inv (inv a) = a.
Proof. destruct a; simpl; [rewrite rev_involutive | rewrite flip_onoff_involutive]; reflexivity. Qed.

Lemma reverse_path_cons a p : reverse_path (a :: p) = reverse_path p ++ [inv a].
Proof. unfold reverse_path; simpl. rewrite map_app. reflexivity. Qed.

Lemma reverse_path_app p q : reverse_path (p ++ q) = reverse_path q ++ reverse_path p.
Proof. unfold reverse_path. rewrite rev_app_distr, map_app. reflexivity. Qed.

Theorem reverse_involutive p : reverse_path (reverse_path p) = p.
Proof.
  unfold reverse_path. rewrite <- map_rev, rev_involutive, map_map.
  rewrite <- (map_id p) at 2. apply map_ext. apply inv_involutive.
Qed.

Theorem reverse_length p : length (reverse_path p) = length p.
Proof. unfold reverse_path. rewrite map_length, rev_length. reflexivity. Qed.

Theorem reverse_waypoints p : flat_waypoints (reverse_path p) = rev (flat_waypoints p).
Proof.
  induction p as [|a p IH]; [reflexivity|].
  rewrite reverse_path_cons. unfold flat_waypoints in *.
  rewrite flat_map_app, IH. simpl. rewrite app_nil_r.
  destruct a; simpl; [rewrite rev_app_distr | rewrite app_nil_r]; reflexivity.
Qed.

Theorem reverse_switches p : switches (reverse_path p) = rev (map flip_switch (switches p)).
Proof.
  induction p as [|a p IH]; [reflexivity|].
  rewrite reverse_path_cons. unfold switches in *.
  rewrite flat_map_app, IH. simpl. rewrite app_nil_r.
  destruct a; simpl; [rewrite app_nil_r; reflexivity | reflexivity].
Qed.

(* position-wise statement: the i-th action of the reversed path is the inverse of the
   i-th action from the end *)
Theorem reverse_nth p i :
  i < length p -> nth_error (reverse_path p) i = option_map inv (nth_error p (length p - 1 - i)).
Proof.
  intros Hi. unfold reverse_path. rewrite nth_error_map.
  assert (H : nth_error (rev p) i = nth_error p (length p - 1 - i)).
  { destruct (nth_error p (length p - 1 - i)) eqn:E.
    - apply nth_error_nth with (d := a) in E.
      rewrite <- E. rewrite nth_error_nth' with (d := a) by (rewrite rev_length; lia).
      f_equal. rewrite rev_nth by lia. f_equal. lia.
    - apply nth_error_None in E. lia. }
  rewrite H. reflexivity.
Qed.

(* schedule level *)
Theorem sched_reverse_involutive {D} (v : dev D) : sched_reverse (sched_reverse v) = v.
Proof. destruct v; reflexivity. Qed.

Theorem gen_reverse {D} (trace : D -> res (list action)) (v : dev D) :
  gen_path trace (sched_reverse v)
  = bind (gen_path trace v) (fun p => Ok (reverse_path p)).
Proof.
  destruct v as [d|d]; simpl.
  - reflexivity.
  - destruct (trace d) as [p|e]; simpl; [rewrite reverse_involutive|]; reflexivity.
Qed.

Theorem gen_reverse_reverse {D} (trace : D -> res (list action)) (v : dev D) :
  gen_path trace (sched_reverse (sched_reverse v)) = gen_path trace v.
Proof. rewrite sched_reverse_involutive. reflexivity. Qed.

(* ---------- reversal preserves well-formedness (C11) ---------- *)
Lemma last_grid_rev ws : last_grid (rev ws) = hd_grid ws.
Proof. destruct ws as [|g r]; [reflexivity|]. simpl. apply last_grid_snoc. Qed.

Lemma hd_grid_rev ws : hd_grid (rev ws) = last_grid ws.
Proof.
  rewrite <- (rev_involutive ws) at 2. rewrite last_grid_rev. reflexivity.
Qed.

Lemma seg_ok_all ws :
  seg_ok ws = true <-> ws <> [] /\ forall a b, In a ws -> In b ws -> shape_eqb a b = true.
Proof.
  destruct ws as [|g r]; simpl.
  - split; [discriminate | intros [H _]; congruence].
  - rewrite forallb_forall. split.
    + intros H. split; [discriminate|].
      assert (Hg : forall a, g = a \/ In a r -> shape_eqb g a = true).
      { intros a [<- | Ha]; [apply shape_eqb_refl | apply H; exact Ha]. }
      intros a b Ha Hb. eapply shape_eqb_trans; [rewrite shape_eqb_sym; apply Hg; exact Ha | apply Hg; exact Hb].
    + intros [_ H] x Hx. apply H; [left; reflexivity | right; exact Hx].
Qed.

Lemma seg_ok_rev ws : seg_ok ws = true -> seg_ok (rev ws) = true.
Proof.
  rewrite !seg_ok_all. intros [Hn H]. split.
  - intros E. apply Hn. rewrite <- (rev_involutive ws), E. reflexivity.
  - intros a b Ha Hb. apply H; apply in_rev; assumption.
Qed.

Lemma opt_grid_eqb_sym a b : opt_grid_eqb a b = opt_grid_eqb b a.
Proof. destruct a, b; simpl; try reflexivity. apply grid_eqb_sym. Qed.

Lemma rev_wf_gen n : forall rest prev T,
  length rest <= n ->
  seg_ok prev = true -> wf_after prev rest = true -> wf_after (rev prev) T = true ->
  wfb (reverse_path rest ++ AWay (rev prev) :: T) = true.
Proof.
  induction n as [|n IH]; intros rest prev T Hn Hs Hw HT.
  - destruct rest; [|simpl in Hn; lia]. simpl. rewrite (seg_ok_rev _ Hs), HT. reflexivity.
  - destruct rest as [|a rest].
    + simpl. rewrite (seg_ok_rev _ Hs), HT. reflexivity.
    + destruct a as [ws | k fx fy x y].
      * simpl in Hw. apply andb_true_iff in Hw as [Hws Hw].
        rewrite reverse_path_cons, <- app_assoc. simpl.
        apply IH; [simpl in Hn; lia | exact Hws | exact Hw |].
        simpl. rewrite (seg_ok_rev _ Hs), HT. reflexivity.
      * simpl in Hw. destruct rest as [|b rest']; [discriminate|].
        destruct b as [ws | ? ? ? ? ?]; [|discriminate].
        apply andb_true_iff in Hw as [Hw1 Hw]. apply andb_true_iff in Hw1 as [Hws Hmeet].
        rewrite reverse_path_cons, reverse_path_cons, <- !app_assoc. simpl.
        apply IH; [simpl in Hn; lia | exact Hws | exact Hw |].
        simpl. rewrite (seg_ok_rev _ Hs), HT, last_grid_rev, hd_grid_rev, opt_grid_eqb_sym, Hmeet.
        reflexivity.
Qed.

Theorem reverse_wf p : wfb p = true -> wfb (reverse_path p) = true.
Proof.
  destruct p as [|a rest]; [reflexivity|].
  destruct a as [ws|]; simpl; [|discriminate].
  intros H. apply andb_true_iff in H as [Hs Hw].
  rewrite reverse_path_cons. simpl.
  apply (rev_wf_gen (length rest)); auto.
Qed.
