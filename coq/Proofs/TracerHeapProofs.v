From Coq Require Import ZArith List Bool Lia.
From BS Require Import Core.Base Model.Tracer Model.TracerHeap Proofs.TracerProofs.
Import ListNotations.

(* the heap-level state that corresponds to the pure state [p] of a run that started when the
   heap was [h0]: the cells allocated by the run are exactly the segments of the trace, in
   order, and the trace refers to them by consecutive addresses *)
Definition segs (t : list action) : list (list grid) :=
  flat_map (fun a => match a with AWay ws => [ws] | _ => [] end) t.

Fixpoint label (n : nat) (t : list action) : list aref :=
  match t with
  | [] => []
  | AWay _ :: r => RSeg n :: label (S n) r
  | ASwitch k fx fy x y :: r => RSwitch k fx fy x y :: label n r
  end.

Definition embed (h0 : list (list grid)) (p : ist) : hst :=
  mkhst (h0 ++ segs (tr p)) (label (length h0) (tr p)) (cur p).

Lemma segs_app a b : segs (a ++ b) = segs a ++ segs b.
Proof. unfold segs. apply flat_map_app. Qed.

Lemma label_app t1 : forall n t2, label n (t1 ++ t2) = label n t1 ++ label (n + length (segs t1)) t2.
Proof.
  induction t1 as [|a t1 IH]; intros n t2; simpl.
  - rewrite Nat.add_0_r. reflexivity.
  - destruct a as [ws|k fx fy x y]; simpl; rewrite IH.
    + replace (n + S (length (segs t1))) with (S n + length (segs t1)) by lia. reflexivity.
    + reflexivity.
Qed.

Lemma last_ref_snoc l r : last_ref (l ++ [r]) = Some r.
Proof.
  induction l as [|a l IH]; simpl; [reflexivity|].
  destruct (l ++ [r]) eqn:E; [destruct l; discriminate | exact IH].
Qed.

Lemma add_last_switch d k fx fy x y g : add_last (d ++ [ASwitch k fx fy x y]) g = None.
Proof.
  induction d as [|a d IH]; simpl; [reflexivity|].
  rewrite IH. destruct (d ++ [ASwitch k fx fy x y]) eqn:E; [destruct d; discriminate|].
  destruct a; reflexivity.
Qed.

Lemma upd_snoc l c g : upd (l ++ [c]) (length l) g = l ++ [c ++ [g]].
Proof. induction l as [|a l IH]; simpl; [reflexivity | rewrite IH; reflexivity]. Qed.

Lemma upd_last h0 cells c g :
  upd (h0 ++ cells ++ [c]) (length h0 + length cells) g = h0 ++ cells ++ [c ++ [g]].
Proof. rewrite !app_assoc, <- app_length. apply upd_snoc. Qed.

Lemma exists_last_or_nil {A} (l : list A) : l = [] \/ exists d a, l = d ++ [a].
Proof.
  destruct l as [|x l]; [left; reflexivity | right].
  destruct (@exists_last A (x :: l)) as (d & a & E); [discriminate|]. exists d, a. exact E.
Qed.

(* one statement: heap level and pure level move together *)
Lemma hstep_sim h0 p o :
  match istep p o with
  | Ok p' => hstep (embed h0 p) o = (embed h0 p', None)
  | Err e => exists s', hstep (embed h0 p) o = (s', Some e) /\ exists new, heap s' = h0 ++ new
  end.
Proof.
  destruct p as [t c]. destruct o as [g|g|k x y|].
  - simpl. unfold embed; simpl. rewrite segs_app, label_app, app_assoc, app_length. simpl.
    rewrite ?app_nil_r; reflexivity.
  - destruct c as [c|].
    + destruct (exists_last_or_nil t) as [-> | (d & a & ->)].
      * simpl. eexists; split; [reflexivity | exists []; simpl; rewrite app_nil_r; reflexivity].
      * destruct a as [ws | k fx fy x y].
        -- cbn [istep cur tr]. rewrite add_last_snoc.
           assert (E : hstep (embed h0 {| tr := d ++ [AWay ws]; cur := Some c |}) (OMove g)
                       = (if shape_eqb c g
                          then (embed h0 {| tr := d ++ [AWay (ws ++ [g])]; cur := Some g |}, None)
                          else (mkhst (h0 ++ segs (d ++ [AWay (ws ++ [g])]))
                                      (label (length h0) (d ++ [AWay ws])) (Some c), Some EInterp))).
           { unfold embed, hstep; simpl. rewrite label_app; simpl. rewrite last_ref_snoc.
             rewrite !segs_app; simpl. rewrite upd_last.
             destruct (shape_eqb c g); [|reflexivity].
             rewrite label_app; simpl. reflexivity. }
           rewrite E. destruct (shape_eqb c g); [reflexivity|].
           eexists; split; [reflexivity|]. simpl. eexists; reflexivity.
        -- cbn [istep cur tr]. rewrite add_last_switch.
           assert (E : hstep (embed h0 {| tr := d ++ [ASwitch k fx fy x y]; cur := Some c |}) (OMove g)
                       = (embed h0 {| tr := d ++ [ASwitch k fx fy x y]; cur := Some c |}, Some EAssert)).
           { unfold embed, hstep; simpl. rewrite label_app; simpl. rewrite last_ref_snoc. reflexivity. }
           rewrite E. eexists; split; [reflexivity|]. simpl. eexists; reflexivity.
    + simpl. eexists; split; [reflexivity|]. simpl. eexists; reflexivity.
  - destruct c as [c|]; simpl.
    + unfold embed; simpl. rewrite segs_app, label_app, app_assoc, app_length. simpl.
      rewrite ?app_nil_r; reflexivity.
    + eexists; split; [reflexivity|]. simpl. eexists; reflexivity.
  - simpl. eexists; split; [reflexivity|]. simpl. eexists; reflexivity.
Qed.

Lemma hrun_sim h0 ops : forall p,
  match irun p ops with
  | Ok p' => hrun (embed h0 p) ops = (embed h0 p', None)
  | Err e => exists s', hrun (embed h0 p) ops = (s', Some e) /\ exists new, heap s' = h0 ++ new
  end.
Proof.
  induction ops as [|o ops IH]; intros p; simpl.
  - reflexivity.
  - pose proof (hstep_sim h0 p o) as H.
    destruct (istep p o) as [p1|e]; simpl.
    + rewrite H. apply IH.
    + destruct H as (s' & -> & Hn). exists s'. split; [reflexivity | exact Hn].
Qed.

Lemma embed_init h : embed h init_ist = mkhst h [] None.
Proof. unfold embed; simpl. rewrite app_nil_r. reflexivity. Qed.

(* one call: what it returns, and what it does to the heap *)
Lemma hcall_spec s ops :
  match itrace ops with
  | Ok t => exists s', hcall s ops = (s', Some (label (length (heap s)) t))
                       /\ heap s' = heap s ++ segs t
  | Err _ => exists s', hcall s ops = (s', None) /\ exists new, heap s' = heap s ++ new
  end.
Proof.
  unfold hcall, itrace. rewrite <- embed_init.
  pose proof (hrun_sim (heap s) ops init_ist) as H.
  destruct (irun init_ist ops) as [p|e]; simpl.
  - rewrite H. eexists; split; reflexivity.
  - destruct H as (s' & -> & Hn). exists s'. split; [reflexivity | exact Hn].
Qed.

Lemma hcall_extends s ops : exists new, heap (fst (hcall s ops)) = heap s ++ new.
Proof.
  pose proof (hcall_spec s ops) as H. destruct (itrace ops).
  - destruct H as (s' & E & Hh). rewrite E. simpl. rewrite Hh. eexists; reflexivity.
  - destruct H as (s' & E & Hn). rewrite E. simpl. exact Hn.
Qed.

Lemma run_history_extends calls : forall s,
  exists new, heap (snd (run_history s calls)) = heap s ++ new.
Proof.
  induction calls as [|ops rest IH]; intros s; simpl.
  - exists []. rewrite app_nil_r. reflexivity.
  - destruct (hcall s ops) as [s1 r] eqn:E1.
    destruct (hcall_extends s ops) as [n1 H1]. rewrite E1 in H1; simpl in H1.
    destruct (IH s1) as [n2 H2].
    destruct (run_history s1 rest) as [rs sf]; simpl in *.
    exists (n1 ++ n2). rewrite H2, H1, app_assoc. reflexivity.
Qed.

(* a result keeps denoting the same path however the heap grows afterwards *)
Lemma deref_label t : forall h0 more, deref (h0 ++ segs t ++ more) (label (length h0) t) = t.
Proof.
  induction t as [|a t IH]; intros h0 more; simpl; [reflexivity|].
  destruct a as [ws | k fx fy x y]; simpl.
  - f_equal.
    + rewrite app_nth2 by lia. rewrite Nat.sub_diag. reflexivity.
    + replace (h0 ++ ws :: segs t ++ more) with ((h0 ++ [ws]) ++ segs t ++ more)
        by (rewrite <- app_assoc; reflexivity).
      replace (S (length h0)) with (length (h0 ++ [ws])) by (rewrite app_length; simpl; lia).
      apply IH.
  - f_equal. apply IH.
Qed.

Theorem history_results_are_fresh_results calls : forall s,
  let (rs, sf) := run_history s calls in
  map (observe (heap sf)) rs = map fresh_result calls.
Proof.
  induction calls as [|ops rest IH]; intros s; simpl; [reflexivity|].
  destruct (hcall s ops) as [s1 r] eqn:E1.
  pose proof (IH s1) as IH1. pose proof (run_history_extends rest s1) as Hext.
  destruct (run_history s1 rest) as [rs sf]; simpl in *.
  f_equal; [|exact IH1].
  destruct Hext as [more Hm].
  pose proof (hcall_spec s ops) as H. unfold fresh_result.
  destruct (itrace ops) as [t|e].
  - destruct H as (s' & E & Hh). rewrite E1 in E. inversion E; subst s' r. simpl.
    f_equal. rewrite Hm, Hh, <- app_assoc. apply deref_label.
  - destruct H as (s' & E & _). rewrite E1 in E. inversion E; subst. reflexivity.
Qed.

(* the same statement for every intermediate moment: any prefix of a history is a history *)
Corollary earlier_results_never_change calls1 calls2 s :
  let (rs1, s1) := run_history s calls1 in
  let (_, s2) := run_history s1 calls2 in
  map (observe (heap s2)) rs1 = map (observe (heap s1)) rs1.
Proof.
  pose proof (history_results_are_fresh_results calls1 s) as H1.
  pose proof (history_results_are_fresh_results (calls1 ++ calls2) s) as H2.
  assert (Happ : forall c1 c2 s0, run_history s0 (c1 ++ c2) =
            let (r1, sa) := run_history s0 c1 in let (r2, sb) := run_history sa c2 in (r1 ++ r2, sb)).
  { clear. induction c1 as [|o c1 IH]; intros c2 s0; simpl.
    - destruct (run_history s0 c2); reflexivity.
    - destruct (hcall s0 o) as [sx r]. rewrite IH.
      destruct (run_history sx c1) as [r1 sa]. destruct (run_history sa c2); reflexivity. }
  rewrite Happ in H2.
  destruct (run_history s calls1) as [rs1 s1].
  destruct (run_history s1 calls2) as [rs2 s2].
  rewrite map_app, map_app in H2. rewrite H1.
  apply (f_equal (firstn (length (map (observe (heap s2)) rs1)))) in H2.
  rewrite firstn_app, firstn_all, Nat.sub_diag in H2. simpl in H2. rewrite app_nil_r in H2.
  rewrite H2.
  assert (L : length (map (observe (heap s2)) rs1) = length (map fresh_result calls1)).
  { rewrite !map_length. apply (f_equal (@length _)) in H1. rewrite !map_length in H1. exact H1. }
  rewrite L, firstn_app, firstn_all, Nat.sub_diag. simpl. rewrite app_nil_r. reflexivity.
Qed.

(* results of different calls share no mutable cell *)
Lemma addrs_label t : forall n, addrs (label n t) = seq n (length (segs t)).
Proof.
  induction t as [|a t IH]; intros n; simpl; [reflexivity|].
  destruct a; simpl; [rewrite IH; reflexivity | apply IH].
Qed.

Theorem call_result_cells_are_new s ops s' l :
  hcall s ops = (s', Some l) -> forall a, In a (addrs l) -> length (heap s) <= a < length (heap s').
Proof.
  intros E a Ha. pose proof (hcall_spec s ops) as H.
  destruct (itrace ops) as [t|e].
  - destruct H as (s1 & E1 & Hh). rewrite E in E1. inversion E1; subst.
    rewrite addrs_label in Ha. apply in_seq in Ha. rewrite Hh, app_length. lia.
  - destruct H as (s1 & E1 & _). rewrite E in E1. inversion E1.
Qed.
