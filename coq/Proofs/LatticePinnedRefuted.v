(* What was false of the lattice on the pinned commit (finding D11, repaired by the
   "fix:" commit for C18).  Witnesses by computation. *)
From Coq Require Import String Bool.
From BS Require Import Model.Lattice Model.LatticePinned.
Open Scope string_scope.

Lemma pinned_top_greatest_refuted : exists a, zleb0 a UnknownZone = false.
Proof. exists (SpecZone "a"). reflexivity. Qed.

Lemma pinned_join_comm_refuted : exists a b, join0 a b <> join0 b a.
Proof. exists (InvalidSpecId "a"), (SpecZone "b"). vm_compute. discriminate. Qed.

Lemma pinned_join_upper_refuted : exists a b, zleb0 b (join0 a b) = false.
Proof. exists (InvalidSpecId "a"), (SpecZone "b"). reflexivity. Qed.
