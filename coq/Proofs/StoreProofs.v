From Coq Require Import List Bool Arith Lia.
From BS Require Import Model.Store.
Import ListNotations.

Lemma update_length st i m : length (update st i m) = length st.
Proof. revert i; induction st as [|x r IH]; intros [|i]; simpl; auto. Qed.

Lemma update_nth_other st i j m : i <> j -> nth j (update st i m) dflt = nth j st dflt.
Proof.
  revert i j; induction st as [|x r IH]; intros [|i] [|j] H; simpl; try reflexivity; try lia.
  apply IH. lia.
Qed.

Lemma update_nth_same st i m : i < length st -> nth i (update st i m) dflt = m.
Proof.
  revert i; induction st as [|x r IH]; intros [|i] H; simpl in *; try lia; [reflexivity | apply IH; lia].
Qed.

Lemma compile_length st r s : length (compile st r s) = 2 * length st.
Proof. unfold compile. rewrite app_length, update_length, map_length, seq_length. lia. Qed.

(* frame: every method that existed before, other than the root, is untouched *)
Theorem compile_frame st r s i : i < length st -> i <> r -> nth i (compile st r s) dflt = nth i st dflt.
Proof.
  intros Hi Hr. unfold compile. rewrite app_nth1 by (rewrite update_length; exact Hi).
  apply update_nth_other. lia.
Qed.

Lemma compile_root st r s : r < length st -> nth r (compile st r s) dflt = specialise st r s r.
Proof.
  intros Hr. unfold compile. rewrite app_nth1 by (rewrite update_length; exact Hr).
  apply update_nth_same, Hr.
Qed.

Lemma compile_clone st r s x : x < length st -> nth (length st + x) (compile st r s) dflt = specialise st r s x.
Proof.
  intros Hx. unfold compile. rewrite app_nth2 by (rewrite update_length; lia).
  rewrite update_length. replace (length st + x - length st) with x by lia.
  rewrite nth_indep with (d' := specialise st r s 0) by (rewrite map_length, seq_length; exact Hx).
  rewrite map_nth, seq_nth by exact Hx. reflexivity.
Qed.

(* everything reachable from the compiled root is the root itself or a fresh clone, and carries the
   root's spec: a specialised kernel observes only its own spec *)
Theorem compiled_root_sees_only_its_spec st r s i :
  wf_store st -> r < length st ->
  reaches (compile st r s) r i ->
  (i = r \/ exists x, x < length st /\ i = length st + x) /\ tag (nth i (compile st r s) dflt) = Some s.
Proof.
  intros Hwf Hr H.
  induction H as [ | j k Hreach IH Hin].
  - split; [left; reflexivity | rewrite compile_root by exact Hr; reflexivity].
  - destruct IH as [Hj _].
    assert (Hcalls : exists x, x < length st /\ calls (nth j (compile st r s) dflt) = map (ren (length st) r) (calls (nth x st dflt))).
    { destruct Hj as [-> | (x & Hx & ->)].
      - exists r. split; [exact Hr | rewrite compile_root by exact Hr; reflexivity].
      - exists x. split; [exact Hx | rewrite compile_clone by exact Hx; reflexivity]. }
    destruct Hcalls as (x & Hx & Hc). rewrite Hc in Hin. apply in_map_iff in Hin as (c & <- & Hcin).
    pose proof (Hwf x Hx c Hcin) as Hclt.
    unfold ren. destruct (Nat.eqb c r) eqn:E.
    + split; [left; reflexivity | rewrite compile_root by exact Hr; reflexivity].
    + split; [right; exists c; split; [exact Hclt | reflexivity] | rewrite compile_clone by exact Hclt; reflexivity].
Qed.

(* compiling another kernel afterwards does not change anything an earlier compiled kernel can see *)
Theorem later_compilation_preserves_earlier_view st r1 s1 r2 s2 i :
  wf_store st -> r1 < length st -> r2 < length st -> r1 <> r2 ->
  reaches (compile st r1 s1) r1 i ->
  nth i (compile (compile st r1 s1) r2 s2) dflt = nth i (compile st r1 s1) dflt.
Proof.
  intros Hwf H1 H2 Hne Hreach.
  destruct (compiled_root_sees_only_its_spec st r1 s1 i Hwf H1 Hreach) as [[-> | (x & Hx & ->)] _].
  - apply compile_frame; [rewrite compile_length; lia | exact Hne].
  - apply compile_frame; [rewrite compile_length; lia | lia].
Qed.

(* the store stays well formed, so the statements above apply to every later step of a history *)
Theorem compile_wf st r s : wf_store st -> r < length st -> wf_store (compile st r s).
Proof.
  intros Hwf Hr i Hi c Hc. rewrite compile_length in *.
  assert (Hren : forall x y, x < length st -> In y (map (ren (length st) r) (calls (nth x st dflt))) -> y < 2 * length st).
  { intros x y Hx Hy. apply in_map_iff in Hy as (c0 & <- & Hc0). pose proof (Hwf x Hx c0 Hc0).
    unfold ren. destruct (Nat.eqb c0 r); lia. }
  destruct (Nat.lt_ge_cases i (length st)) as [Hlt | Hge].
  - destruct (Nat.eq_dec i r) as [-> | Hne].
    + rewrite compile_root in Hc by exact Hr. simpl in Hc. eapply Hren; eassumption.
    + rewrite compile_frame in Hc by assumption. pose proof (Hwf i Hlt c Hc). lia.
  - replace i with (length st + (i - length st)) in Hc by lia.
    rewrite compile_clone in Hc by lia. simpl in Hc. eapply (Hren (i - length st)); [lia | exact Hc].
Qed.
