From Coq Require Import String.
From Coq Require Import List Bool.
From BS Require Import Model.Sched2Path Model.Sched2PathPinned.
Import ListNotations.

(* parallel { parallel { auto { f() } } } : the pinned rule empties the auto block and makes f a
   direct member of the parallel group *)
Lemma pinned_grouping_refuted :
  exists k body, impl_block0 k body <> spec_block k body.
Proof.
  exists KPar, [SBlock KPar [SBlock KAuto [SCall (mkcall "f"%string [] [] [])]]].
  vm_compute. discriminate.
Qed.
