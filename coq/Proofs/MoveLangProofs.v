From Coq Require Import String.
From Coq Require Import ZArith List Bool Lia.
From BS Require Import Core.Base Model.MoveLang.
Import ListNotations.

(* more fuel never changes a result that was already obtained *)
Definition ex_le (ex1 ex2 : env -> stmt -> result) : Prop :=
  forall e s r, ex1 e s = Ok r -> ex2 e s = Ok r.

Lemma exec_list_mono ex1 ex2 : ex_le ex1 ex2 ->
  forall l e r, exec_list ex1 e l = Ok r -> exec_list ex2 e l = Ok r.
Proof.
  intros H l. induction l as [|x l IH]; intros e r; simpl; [auto|].
  destruct (ex1 e x) as [[ev fl]|er] eqn:E1; [|discriminate].
  rewrite (H _ _ _ E1). destruct fl; [|auto].
  destruct (exec_list ex1 e l) as [[ev' fl']|er] eqn:E2; [|discriminate].
  rewrite (IH _ _ E2). auto.
Qed.

Lemma exec_loop_mono (b1 b2 : Z -> result) :
  (forall i r, b1 i = Ok r -> b2 i = Ok r) ->
  forall k i r, exec_loop b1 k i = Ok r -> exec_loop b2 k i = Ok r.
Proof.
  intros H k. induction k as [|k IH]; intros i r; simpl; [auto|].
  destruct (b1 i) as [[ev fl]|er] eqn:E1; [|discriminate].
  rewrite (H _ _ E1). destruct fl; [|auto].
  destruct (exec_loop b1 k (i + 1)%Z) as [[ev' fl']|er] eqn:E2; [|discriminate].
  rewrite (IH _ _ E2). auto.
Qed.

Theorem exec_fuel_step p f : ex_le (exec f p) (exec (S f) p).
Proof.
  induction f as [|f IH]; intros e s r H; [discriminate|].
  assert (HL := exec_list_mono _ _ IH).
  destruct s as [d pos kw | body | t | x count body | c t el | name args |]; cbn [exec] in *; try exact H.
  - destruct (ieval e count) as [n|er]; [|discriminate].
    eapply exec_loop_mono; [|exact H]. intros i r' Hr. apply HL. exact Hr.
  - destruct (ieval e c) as [z|er]; [|discriminate]. apply HL. exact H.
  - destruct (lookup_s name (subs p)) as [sb|]; [|discriminate].
    destruct (bind_params e (sub_params sb) args) as [en|er]; [|discriminate].
    destruct (exec_list (exec f p) en (sub_body sb)) as [[ev fl]|er] eqn:E; [|discriminate].
    rewrite (HL _ _ _ E). exact H.
Qed.

Theorem exec_fuel_mono p f k e s r : exec f p e s = Ok r -> exec (f + k) p e s = Ok r.
Proof.
  induction k as [|k IH]; intros H.
  - rewrite Nat.add_0_r. exact H.
  - rewrite Nat.add_succ_r. apply exec_fuel_step, IH, H.
Qed.

Theorem run_prog_fuel_mono f k p args evs : run_prog f p args = Ok evs -> run_prog (f + k) p args = Ok evs.
Proof.
  unfold run_prog. destruct (negb (length args =? length (main_params p))%nat); [discriminate|].
  destruct (exec f p (combine (main_params p) args) (SIf (ILit 1) (main_body p) [])) as [[ev fl]|er] eqn:E; [|discriminate].
  rewrite (exec_fuel_mono _ _ k _ _ _ E). auto.
Qed.

(* the source semantics is a function: two evaluations that both finish agree, whatever fuel *)
Theorem run_prog_deterministic f1 f2 p args a b :
  run_prog f1 p args = Ok a -> run_prog f2 p args = Ok b -> a = b.
Proof.
  intros H1 H2.
  apply (run_prog_fuel_mono f1 f2) in H1. apply (run_prog_fuel_mono f2 f1) in H2.
  rewrite Nat.add_comm in H2. congruence.
Qed.

(* a statement list stops at the first return: nothing after it is executed *)
Theorem return_stops_list ex e l1 l2 ev :
  exec_list ex e l1 = Ok (ev, Returned) -> exec_list ex e (l1 ++ l2) = Ok (ev, Returned).
Proof.
  revert ev. induction l1 as [|x l1 IH]; intros ev; simpl; [discriminate|].
  destruct (ex e x) as [[ev1 fl]|er]; [|discriminate]. destruct fl; [|auto].
  destruct (exec_list ex e l1) as [[ev' fl']|er] eqn:E; [|discriminate].
  intros H. inversion H; subst. rewrite (IH _ eq_refl). reflexivity.
Qed.
