(* C08: a move played in several legs (move_by_waypoints with pick on the first call, drop on the last, any number of
   calls in between) simulates EXACTLY like the single path obtained by gluing the legs together at the waypoints where one
   leg ends and the next begins - for every state, whether the simulation succeeds or fails.  So the transport theorem
   applies to multi-leg moves through the recogniser [legs_transport_ok]. *)
From Coq Require Import String.
From Coq Require Import ZArith QArith List Bool Arith Lia.
From BS Require Import Core.Base Model.Aod Proofs.AodProofs Proofs.AodRoundTrip.
Import ListNotations.
Local Open Scope nat_scope.

Notation wp := (list Q * list Q)%type (only parsing).

(* sim_actions, also returning the current waypoint *)
Fixpoint sim_actions_c (st : ast) (nx ny : nat) (p : list saction) (cur : option wp) : ares (ast * option wp) :=
  match p with
  | [] => AOk (st, cur)
  | SWay ws :: r => match sim_way st true nx ny ws cur with
                    | AOk (st', cur') => sim_actions_c st' nx ny r cur'
                    | AErr e => AErr e
                    end
  | SSwitch k x y :: r =>
      match cur with
      | None => AErr EIllFormed
      | Some c => match sim_switch st k x y nx ny c with
                  | AOk st' => sim_actions_c st' nx ny r cur
                  | AErr e => AErr e
                  end
      end
  end.

Definition drop_cur (r : ares (ast * option wp)) : ares ast :=
  match r with AOk (s, _) => AOk s | AErr e => AErr e end.

Lemma sim_actions_of_c : forall p st nx ny cur, sim_actions st nx ny p cur = drop_cur (sim_actions_c st nx ny p cur).
Proof.
  induction p as [|a r IH]; intros st nx ny cur; [reflexivity|].
  destruct a as [ws | k x y]; cbn [sim_actions sim_actions_c].
  - destruct (sim_way st true nx ny ws cur) as [[st' cur']|e]; [apply IH | reflexivity].
  - destruct cur as [c|]; [|reflexivity]. destruct (sim_switch st k x y nx ny c) as [st'|e]; [apply IH | reflexivity].
Qed.

Lemma sim_actions_c_app : forall a b st nx ny cur,
  sim_actions_c st nx ny (a ++ b) cur =
  match sim_actions_c st nx ny a cur with AOk (s, c) => sim_actions_c s nx ny b c | AErr e => AErr e end.
Proof.
  induction a as [|x r IH]; intros b st nx ny cur; [reflexivity|].
  destruct x as [ws | k x y]; cbn [app sim_actions_c].
  - destruct (sim_way st true nx ny ws cur) as [[st' cur']|e]; [apply IH | reflexivity].
  - destruct cur as [c|]; [|reflexivity]. destruct (sim_switch st k x y nx ny c) as [st'|e]; [apply IH | reflexivity].
Qed.

(* ---------- waypoints ---------- *)
Lemma same_place_move_tones on_ coords : same_place (move_tones on_ coords) coords = true.
Proof.
  unfold same_place, move_tones. apply forallb_forall. intros t I. apply in_map_iff in I. destruct I as [t0 [<- _]].
  cbn [fst snd]. apply Qeq_bool_iff. reflexivity.
Qed.
Lemma move_tones_idem on_ coords : move_tones (move_tones on_ coords) coords = move_tones on_ coords.
Proof. unfold move_tones. rewrite map_map. apply map_ext. intros t. reflexivity. Qed.

(* standing on a waypoint, "going" to it again - even as the first waypoint of a new path, while holding atoms - changes nothing *)
Lemma replay_waypoint st f nx ny u s : sim_waypoint st f nx ny u = AOk s -> sim_waypoint s true nx ny u = AOk s.
Proof.
  unfold sim_waypoint. destruct (negb ((length (fst u) =? nx) && (length (snd u) =? ny))) eqn:D; [discriminate|].
  destruct (f && negb match held st with [] => true | _ :: _ => false end && negb (same_place (xon st) (fst u) && same_place (yon st) (snd u))); [discriminate|].
  destruct (negb (tones_apart (with_tones st (move_tones (xon st) (fst u)) (move_tones (yon st) (snd u))))) eqn:A; [discriminate|].
  intros E. inversion E; subst s. unfold with_tones. cbn [traps occ xon yon held].
  rewrite !same_place_move_tones. cbn [andb negb]. rewrite andb_false_r. rewrite !move_tones_idem.
  unfold with_tones in A. cbn [traps occ xon yon held] in A. rewrite A. reflexivity.
Qed.

Lemma sim_way_app : forall l1 l2 st f nx ny cur, l1 <> [] ->
  sim_way st f nx ny (l1 ++ l2) cur =
  match sim_way st f nx ny l1 cur with AOk (s, c) => sim_way s false nx ny l2 c | AErr e => AErr e end.
Proof.
  induction l1 as [|w r IH]; intros l2 st f nx ny cur NE; [contradiction|].
  cbn [app sim_way]. destruct (sim_waypoint st f nx ny w) as [st'|e]; [|reflexivity].
  destruct r as [|w' r']; [reflexivity|]. apply IH. discriminate.
Qed.

Lemma sim_way_last : forall l v st f nx ny cur s c,
  sim_way st f nx ny (v :: l) cur = AOk (s, c) ->
  c = Some (last (v :: l) v) /\ sim_waypoint s true nx ny (last (v :: l) v) = AOk s.
Proof.
  induction l as [|w r IH]; intros v st f nx ny cur s c E.
  - cbn [sim_way] in E. destruct (sim_waypoint st f nx ny v) as [st'|e] eqn:W; [|discriminate].
    inversion E; subst. split; [reflexivity|]. apply (replay_waypoint st f nx ny v s W).
  - cbn [sim_way] in E. destruct (sim_waypoint st f nx ny v) as [st'|e] eqn:W; [|discriminate].
    change (sim_way st' false nx ny (w :: r) (Some v) = AOk (s, c)) in E.
    destruct (IH w st' false nx ny (Some v) s c E) as [Ec Es].
    change (last (v :: w :: r) v) with (last (w :: r) v). rewrite (last_default_irrelevant w r v w). split; assumption.
Qed.

(* ---------- the last waypoint segment of a path ---------- *)
Lemma split_last_way_spec : forall acts pre l, split_last_way acts = Some (pre, l) -> acts = pre ++ [SWay l].
Proof.
  induction acts as [|a r IH]; intros pre l E; [discriminate|].
  cbn [split_last_way] in E. destruct r as [|b r'].
  - destruct a as [ws|]; [|discriminate]. inversion E; subst. reflexivity.
  - destruct (split_last_way (b :: r')) as [[pre' l']|] eqn:S; [|discriminate]. inversion E; subst.
    rewrite (IH pre' l eq_refl). reflexivity.
Qed.

(* ---------- two consecutive paths glued at the waypoint they share ---------- *)
Theorem merge2_sound p q m : merge2 p q = Some m ->
  forall st rest, sim_paths st (p :: q :: rest) = sim_paths st (m :: rest).
Proof.
  unfold merge2. destruct (split_last_way (p_actions p)) as [[pre l1]|] eqn:S; [|discriminate].
  destruct l1 as [|v l1]; [discriminate|].
  destruct (p_actions q) as [|a post] eqn:Q; [discriminate|]. destruct a as [ws|]; [|discriminate].
  destruct ws as [|u l2]; [discriminate|].
  destruct ((p_nx p =? p_nx q) && (p_ny p =? p_ny q) && wp_eqb (last (v :: l1) v) u) eqn:C; [|discriminate].
  intros E. inversion E; subst m. clear E.
  apply andb_true_iff in C. destruct C as [C Eu]. apply andb_true_iff in C. destruct C as [Ex Ey].
  apply Nat.eqb_eq in Ex, Ey. apply wp_eqb_eq in Eu.
  pose proof (split_last_way_spec _ _ _ S) as Ep.
  intros st rest. unfold sim_paths. cbn [fold_a p_nx p_ny p_actions].
  rewrite Ep, Q, <- Ex, <- Ey. rewrite !sim_actions_of_c.
  generalize (p_nx p) (p_ny p). intros nx ny.
  rewrite (sim_actions_c_app pre [SWay (v :: l1)]). rewrite (sim_actions_c_app pre (SWay ((v :: l1) ++ l2) :: post)).
  destruct (sim_actions_c st nx ny pre None) as [[s0 c0]|e]; [|reflexivity].
  cbn [sim_actions_c].
  rewrite (sim_way_app (v :: l1) l2 s0 true nx ny c0 ltac:(discriminate)).
  destruct (sim_way s0 true nx ny (v :: l1) c0) as [[s1 c1]|e] eqn:W1; [|reflexivity].
  destruct (sim_way_last l1 v s0 true nx ny c0 s1 c1 W1) as [Ec Es]. rewrite Eu in Ec, Es. subst c1.
  cbn [drop_cur]. rewrite sim_actions_of_c. cbn [sim_actions_c sim_way]. rewrite Es.
  reflexivity.
Qed.

Theorem merge_legs_sound : forall qs p m, merge_legs p qs = Some m ->
  forall st, sim_paths st (p :: qs) = sim_paths st [m].
Proof.
  induction qs as [|q r IH]; intros p m E st.
  - inversion E; subst. reflexivity.
  - cbn [merge_legs] in E. destruct (merge2 p q) as [m'|] eqn:M; [|discriminate].
    rewrite (merge2_sound p q m' M st r). apply IH. exact E.
Qed.

(* a recognised multi-leg move is executable, leaves nothing in the tweezers, and the atom under tone (i, j) ends on the
   (i, j) site of the last grid *)
Theorem recognised_legs_executable T O ps : legs_transport_ok T O ps = true ->
  exists m nx ny w0 ws st',
    recognise_transport [m] = Some (nx, ny, w0, ws) /\
    sim_paths (mkast T O [] [] []) ps = AOk st' /\ held st' = [] /\ xon st' = [] /\ yon st' = [] /\
    let wn := last (w0 :: ws) w0 in
    forall i j, i < nx -> j < ny ->
      occ_find (nth i (fst wn) 0%Q, nth j (snd wn) 0%Q) (occ st') = occ_find (nth i (fst w0) 0%Q, nth j (snd w0) 0%Q) O.
Proof.
  unfold legs_transport_ok. destruct ps as [|p qs]; [discriminate|].
  destruct (merge_legs p qs) as [m|] eqn:M; [|discriminate]. intros H.
  assert (R : exists nx ny w0 ws, recognise_transport [m] = Some (nx, ny, w0, ws)).
  { unfold transport_ok in H. destruct (recognise_transport [m]) as [[[[nx ny] w0] ws]|]; [|discriminate]. exists nx, ny, w0, ws. reflexivity. }
  destruct R as [nx [ny [w0 [ws R]]]].
  destruct (recognised_transport_executable T O [m] nx ny w0 ws R H) as [st' [E [_ [Hx [Hy [Hh [Hm _]]]]]]].
  exists m, nx, ny, w0, ws, st'. split; [exact R|]. split; [rewrite (merge_legs_sound qs p m M); exact E|].
  split; [exact Hh|]. split; [exact Hx|]. split; [exact Hy|]. exact Hm.
Qed.
