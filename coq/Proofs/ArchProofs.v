From Coq Require Import String.
From Coq Require Import ZArith QArith List Bool Lia.
From BS Require Import Core.Base Core.GridQ Model.Arch Proofs.GridQProofs.
Import ListNotations.

(* ---------- dictionaries and name sets compared as Python compares them ---------- *)
Section Dict.
  Variable V : Type.
  Variable veq : V -> V -> bool.
  Hypothesis veq_refl : forall v, veq v v = true.
  Hypothesis veq_sym : forall a b, veq a b = veq b a.
  Hypothesis veq_trans : forall a b c, veq a b = true -> veq b c = true -> veq a c = true.

  Definition kv_match (kv kv' : string * V) : bool := String.eqb (fst kv) (fst kv') && veq (snd kv) (snd kv').

  Lemma dict_sub_spec a b :
    dict_sub veq a b = true <-> forall kv, In kv a -> exists kv', In kv' b /\ kv_match kv kv' = true.
  Proof.
    unfold dict_sub. rewrite forallb_forall. split; intros H kv Hk.
    - apply H in Hk. apply existsb_exists in Hk. exact Hk.
    - apply existsb_exists. apply H. exact Hk.
  Qed.

  Lemma kv_match_refl kv : kv_match kv kv = true.
  Proof. unfold kv_match. rewrite String.eqb_refl, veq_refl. reflexivity. Qed.
  Lemma kv_match_trans a b c : kv_match a b = true -> kv_match b c = true -> kv_match a c = true.
  Proof.
    unfold kv_match. rewrite !andb_true_iff. intros [A1 A2] [B1 B2].
    apply String.eqb_eq in A1, B1. split; [apply String.eqb_eq; congruence | eapply veq_trans; eassumption].
  Qed.

  Lemma dict_sub_refl a : dict_sub veq a a = true.
  Proof. apply dict_sub_spec. intros kv H. exists kv. split; [exact H | apply kv_match_refl]. Qed.
  Lemma dict_sub_trans a b c : dict_sub veq a b = true -> dict_sub veq b c = true -> dict_sub veq a c = true.
  Proof.
    rewrite !dict_sub_spec. intros H1 H2 kv Hk.
    destruct (H1 kv Hk) as (kv1 & Hk1 & M1). destruct (H2 kv1 Hk1) as (kv2 & Hk2 & M2).
    exists kv2. split; [exact Hk2 | eapply kv_match_trans; eassumption].
  Qed.

  Lemma dict_eqb_refl a : dict_eqb veq a a = true.
  Proof. unfold dict_eqb. rewrite dict_sub_refl. reflexivity. Qed.
  Lemma dict_eqb_sym a b : dict_eqb veq a b = dict_eqb veq b a.
  Proof. unfold dict_eqb. apply andb_comm. Qed.
  Lemma dict_eqb_trans a b c : dict_eqb veq a b = true -> dict_eqb veq b c = true -> dict_eqb veq a c = true.
  Proof.
    unfold dict_eqb. rewrite !andb_true_iff. intros [A1 A2] [B1 B2].
    split; eapply dict_sub_trans; eassumption.
  Qed.
End Dict.

Lemma set_sub_spec a b : set_sub a b = true <-> forall x, In x a -> In x b.
Proof.
  unfold set_sub. rewrite forallb_forall. split; intros H x Hx.
  - apply H in Hx. apply existsb_exists in Hx as (y & Hy & E). apply String.eqb_eq in E. subst. exact Hy.
  - apply existsb_exists. exists x. split; [apply H; exact Hx | apply String.eqb_refl].
Qed.
Lemma set_eqb_refl a : set_eqb a a = true.
Proof. unfold set_eqb. assert (H : set_sub a a = true) by (apply set_sub_spec; auto). rewrite H. reflexivity. Qed.
Lemma set_eqb_sym a b : set_eqb a b = set_eqb b a.
Proof. unfold set_eqb. apply andb_comm. Qed.
Lemma set_eqb_trans a b c : set_eqb a b = true -> set_eqb b c = true -> set_eqb a c = true.
Proof.
  unfold set_eqb. rewrite !andb_true_iff, !set_sub_spec. intros [A1 A2] [B1 B2]. split; auto.
Qed.

(* ---------- Layout equality over the list of fields it reads ---------- *)
Lemma lfield_equiv_refl f a : lfield_equiv f a a = true.
Proof.
  destruct f; simpl; try apply set_eqb_refl; apply dict_eqb_refl; apply gridv_eqb_refl.
Qed.
Lemma lfield_equiv_sym f a b : lfield_equiv f a b = lfield_equiv f b a.
Proof. destruct f; simpl; try apply set_eqb_sym; apply dict_eqb_sym. Qed.
Lemma lfield_equiv_trans f a b c : lfield_equiv f a b = true -> lfield_equiv f b c = true -> lfield_equiv f a c = true.
Proof.
  destruct f; simpl; try apply set_eqb_trans; apply dict_eqb_trans; apply gridv_eqb_trans.
Qed.

Theorem layout_eqb_on_refl fs a : layout_eqb_on fs a a = true.
Proof. unfold layout_eqb_on. apply forallb_forall. intros f _. apply lfield_equiv_refl. Qed.
Theorem layout_eqb_on_sym fs a b : layout_eqb_on fs a b = layout_eqb_on fs b a.
Proof.
  unfold layout_eqb_on. induction fs as [|f fs IH]; simpl; [reflexivity|].
  rewrite lfield_equiv_sym, IH. reflexivity.
Qed.
Theorem layout_eqb_on_trans fs a b c :
  layout_eqb_on fs a b = true -> layout_eqb_on fs b c = true -> layout_eqb_on fs a c = true.
Proof.
  unfold layout_eqb_on. rewrite !forallb_forall. intros H1 H2 f Hf.
  eapply lfield_equiv_trans; [apply H1 | apply H2]; exact Hf.
Qed.

(* differing in any field that == reads makes the layouts unequal *)
Theorem layout_eqb_on_distinguishes fs f a b :
  In f fs -> lfield_equiv f a b = false -> layout_eqb_on fs a b = false.
Proof.
  intros Hf Hd. destruct (layout_eqb_on fs a b) eqn:E; [|reflexivity].
  unfold layout_eqb_on in E. rewrite forallb_forall in E. rewrite (E f Hf) in Hd. discriminate.
Qed.

(* equal layouts agree on every field the hash reads, provided hash reads only what == reads *)
Theorem layout_eq_hash fs hs a b :
  incl hs fs -> layout_eqb_on fs a b = true -> forall f, In f hs -> lfield_equiv f a b = true.
Proof.
  intros Hi E f Hf. unfold layout_eqb_on in E. rewrite forallb_forall in E. apply E, Hi, Hf.
Qed.

Theorem arch_eqb_refl a : arch_eqb a a = true.
Proof.
  unfold arch_eqb, layout_eqb, Qeq_dict, Zeq_dict.
  rewrite layout_eqb_on_refl, !dict_eqb_refl; auto using Qeq_bool_refl, Z.eqb_refl.
Qed.
Theorem arch_eqb_sym a b : arch_eqb a b = arch_eqb b a.
Proof.
  unfold arch_eqb, layout_eqb, Qeq_dict, Zeq_dict.
  rewrite layout_eqb_on_sym, (dict_eqb_sym _ Qeq_bool), (dict_eqb_sym _ Z.eqb). reflexivity.
Qed.
Theorem arch_eqb_trans a b c : arch_eqb a b = true -> arch_eqb b c = true -> arch_eqb a c = true.
Proof.
  unfold arch_eqb, layout_eqb, Qeq_dict, Zeq_dict. rewrite !andb_true_iff.
  intros [[A1 A2] A3] [[B1 B2] B3]. repeat split.
  - eapply layout_eqb_on_trans; eassumption.
  - eapply dict_eqb_trans; [apply Qeq_bool_trans | eassumption | eassumption].
  - eapply dict_eqb_trans; [| eassumption | eassumption].
    intros x y z H1 H2. apply Z.eqb_eq in H1, H2. apply Z.eqb_eq. congruence.
Qed.

(* ---------- the zone index ---------- *)
Definition index_of_entries (es : list (string * gridv)) : index := map (fun e => (snd e, fst e)) es.

(* no two entries share a grid *)
Fixpoint distinct_grids (es : list (string * gridv)) : Prop :=
  match es with
  | [] => True
  | (n, g) :: r => (forall n' g', In (n', g') r -> gridv_eqb g' g = false) /\ distinct_grids r
  end.

Lemma index_find_none ix g :
  index_find ix g = None <-> forall h n, In (h, n) ix -> gridv_eqb h g = false.
Proof.
  induction ix as [|[h n] ix IH]; simpl.
  - split; [intros _ h n [] | reflexivity].
  - destruct (gridv_eqb h g) eqn:E.
    + split; [discriminate|]. intros H. specialize (H h n (or_introl eq_refl)). congruence.
    + rewrite IH. split.
      * intros H h' n' [Heq | Hin]; [inversion Heq; subst; exact E | eapply H; exact Hin].
      * intros H h' n' Hin. eapply H. right. exact Hin.
Qed.

Lemma index_find_some ix g n :
  index_find ix g = Some n -> exists h, In (h, n) ix /\ gridv_eqb h g = true.
Proof.
  induction ix as [|[h m] ix IH]; simpl; [discriminate|].
  destruct (gridv_eqb h g) eqn:E.
  - intros H; inversion H; subst. exists h. split; [left; reflexivity | exact E].
  - intros H. destruct (IH H) as (h' & Hin & E'). exists h'. split; [right; exact Hin | exact E'].
Qed.

Lemma index_find_app_l ix ix' g n : index_find ix g = Some n -> index_find (ix ++ ix') g = Some n.
Proof.
  induction ix as [|[h m] ix IH]; simpl; [discriminate|].
  destruct (gridv_eqb h g); [auto | exact IH].
Qed.

Lemma build_from_spec es : forall done ix,
  build_index_from (index_of_entries done) es = Ok ix ->
  ix = index_of_entries (done ++ es) /\
  (forall n g, In (n, g) es -> (forall n' g', In (n', g') done -> gridv_eqb g' g = false)) /\
  distinct_grids es.
Proof.
  induction es as [|[n g] es IH]; intros done ix; simpl.
  - intros H; inversion H; subst. rewrite app_nil_r. repeat split; intros; contradiction.
  - destruct (index_find (index_of_entries done) g) eqn:E; [discriminate|].
    intros H.
    replace (index_of_entries done ++ [(g, n)]) with (index_of_entries (done ++ [(n, g)])) in H
      by (unfold index_of_entries; rewrite map_app; reflexivity).
    destruct (IH _ _ H) as (Hix & Hold & Hd).
    rewrite <- app_assoc in Hix. simpl in Hix.
    assert (Hg : forall n' g', In (n', g') done -> gridv_eqb g' g = false).
    { intros n' g' Hin. apply (proj1 (index_find_none _ _) E g' n').
      unfold index_of_entries. apply in_map_iff. exists (n', g'). split; [reflexivity | exact Hin]. }
    repeat split.
    + exact Hix.
    + intros n0 g0 [Heq | Hin] n' g' Hd'.
      * inversion Heq; subst. eapply Hg; exact Hd'.
      * eapply Hold; [exact Hin | apply in_or_app; left; exact Hd'].
    + intros n' g' Hin. rewrite gridv_eqb_sym.
      eapply Hold; [exact Hin | apply in_or_app; right; left; reflexivity].
    + exact Hd.
Qed.

(* the constructor accepts a layout iff no two names denote the same grid *)
Lemma build_from_complete es : forall done,
  (forall n g, In (n, g) es -> (forall n' g', In (n', g') done -> gridv_eqb g' g = false)) ->
  distinct_grids es ->
  exists ix, build_index_from (index_of_entries done) es = Ok ix.
Proof.
  induction es as [|[n g] es IH]; intros done Hold Hd; simpl.
  - eexists; reflexivity.
  - assert (E : index_find (index_of_entries done) g = None).
    { apply index_find_none. intros h m Hin. unfold index_of_entries in Hin.
      apply in_map_iff in Hin as ([n' g'] & Heq & Hin). inversion Heq; subst.
      eapply Hold; [left; reflexivity | exact Hin]. }
    rewrite E.
    replace (index_of_entries done ++ [(g, n)]) with (index_of_entries (done ++ [(n, g)]))
      by (unfold index_of_entries; rewrite map_app; reflexivity).
    destruct Hd as [Hg Hd].
    apply IH; [|exact Hd].
    intros n0 g0 Hin n' g' Hd'. apply in_app_or in Hd' as [Hd' | [Heq | []]].
    + eapply Hold; [right; exact Hin | exact Hd'].
    + inversion Heq; subst. rewrite gridv_eqb_sym. eapply Hg; exact Hin.
Qed.

Theorem build_index_accepts_iff l :
  (exists ix, build_index l = Ok ix) <-> distinct_grids (entries l).
Proof.
  unfold build_index. split.
  - intros [ix H]. change (@nil (gridv * string)) with (index_of_entries []) in H.
    apply build_from_spec in H. apply H.
  - intros Hd. change (@nil (gridv * string)) with (index_of_entries []).
    apply build_from_complete; [intros; contradiction | exact Hd].
Qed.

Lemma distinct_find es : forall n g,
  distinct_grids es -> In (n, g) es ->
  exists m, index_find (index_of_entries es) g = Some m /\ exists g', In (m, g') es /\ gridv_eqb g' g = true.
Proof.
  induction es as [|[n0 g0] es IH]; intros n g Hd Hin; simpl in *; [contradiction|].
  destruct Hd as [Hg Hd].
  destruct (gridv_eqb g0 g) eqn:E.
  - exists n0. split; [reflexivity|]. exists g0. split; [left; reflexivity | exact E].
  - destruct Hin as [Heq | Hin]; [inversion Heq; subst; rewrite gridv_eqb_refl in E; discriminate|].
    destruct (IH n g Hd Hin) as (m & Hf & g' & Hin' & E').
    exists m. split; [exact Hf|]. exists g'. split; [right; exact Hin' | exact E'].
Qed.

(* looking up a zone's grid returns a name that maps to that grid; every table entry is found *)
Theorem index_coherent l ix :
  build_index l = Ok ix ->
  (forall n g, In (n, g) (entries l) ->
     exists m, get_zone_id ix g = Some m /\ exists g', In (m, g') (entries l) /\ gridv_eqb g' g = true)
  /\ (forall g m, get_zone_id ix g = Some m -> exists g', In (m, g') (entries l) /\ gridv_eqb g' g = true).
Proof.
  unfold build_index, get_zone_id. intros H.
  change (@nil (gridv * string)) with (index_of_entries []) in H.
  apply build_from_spec in H as (Hix & _ & Hd). simpl in Hix. subst ix. split.
  - intros n g Hin. apply (distinct_find _ n g Hd Hin).
  - intros g m Hf. apply index_find_some in Hf as (h & Hin & E).
    unfold index_of_entries in Hin. apply in_map_iff in Hin as ([n' g'] & Heq & Hin). inversion Heq; subst.
    exists h. split; [exact Hin | exact E].
Qed.

(* ---------- bounding box ---------- *)
Local Open Scope Q_scope.
From Coq Require Import Lqa.

Lemma qmin_spec a b : (qmin a b = a /\ a <= b) \/ (qmin a b = b /\ b <= a).
Proof.
  unfold qmin. destruct (Qle_bool a b) eqn:E.
  - left. split; [reflexivity | apply Qle_bool_iff; exact E].
  - right. split; [reflexivity|].
    destruct (Qlt_le_dec b a) as [H | H]; [apply Qlt_le_weak; exact H|].
    apply Qle_bool_iff in H. congruence.
Qed.
Lemma qmax_spec a b : (qmax a b = b /\ a <= b) \/ (qmax a b = a /\ b <= a).
Proof.
  unfold qmax. destruct (Qle_bool a b) eqn:E.
  - left. split; [reflexivity | apply Qle_bool_iff; exact E].
  - right. split; [reflexivity|].
    destruct (Qlt_le_dec b a) as [H | H]; [apply Qlt_le_weak; exact H|].
    apply Qle_bool_iff in H. congruence.
Qed.

(* folding min / max over a list of values *)
Lemma fold_omin_spec vs : forall o m,
  fold_left omin vs o = Some m ->
  (forall v, In v vs -> m <= v) /\ (forall a, o = Some a -> m <= a) /\
  ((exists v, In v vs /\ v = m) \/ o = Some m).
Proof.
  induction vs as [|v vs IH]; intros o m H; simpl in H.
  - subst o. repeat split; [intros v [] | intros a E; inversion E; apply Qle_refl | right; reflexivity].
  - destruct (IH _ _ H) as (Hall & Hacc & Hatt).
    assert (Hv : m <= v /\ (forall a, o = Some a -> m <= a) /\ (omin o v = Some m -> (v = m \/ o = Some m))).
    { destruct o as [a|]; simpl in *.
      - specialize (Hacc _ eq_refl).
        destruct (qmin_spec a v) as [[E L] | [E L]]; rewrite E in *.
        + repeat split; [lra | intros a' Ea; inversion Ea; subst; exact Hacc | intros Em; right; exact Em].
        + repeat split; [exact Hacc | intros a' Ea; inversion Ea; subst; lra | intros Em; inversion Em; left; reflexivity].
      - specialize (Hacc _ eq_refl).
        repeat split; [exact Hacc | discriminate | intros Em; inversion Em; left; reflexivity]. }
    destruct Hv as (Hv1 & Hv2 & Hv3).
    repeat split.
    + intros w [<- | Hw]; [exact Hv1 | apply Hall; exact Hw].
    + exact Hv2.
    + destruct Hatt as [(w & Hw & Ew) | Ho].
      * left. exists w. split; [right; exact Hw | exact Ew].
      * destruct (Hv3 Ho) as [E | E]; [left; exists v; split; [left; reflexivity | exact E] | right; exact E].
Qed.

Lemma fold_omax_spec vs : forall o m,
  fold_left omax vs o = Some m ->
  (forall v, In v vs -> v <= m) /\ (forall a, o = Some a -> a <= m) /\
  ((exists v, In v vs /\ v = m) \/ o = Some m).
Proof.
  induction vs as [|v vs IH]; intros o m H; simpl in H.
  - subst o. repeat split; [intros v [] | intros a E; inversion E; apply Qle_refl | right; reflexivity].
  - destruct (IH _ _ H) as (Hall & Hacc & Hatt).
    assert (Hv : v <= m /\ (forall a, o = Some a -> a <= m) /\ (omax o v = Some m -> (v = m \/ o = Some m))).
    { destruct o as [a|]; simpl in *.
      - specialize (Hacc _ eq_refl).
        destruct (qmax_spec a v) as [[E L] | [E L]]; rewrite E in *.
        + repeat split; [exact Hacc | intros a' Ea; inversion Ea; subst; lra | intros Em; inversion Em; left; reflexivity].
        + repeat split; [lra | intros a' Ea; inversion Ea; subst; exact Hacc | intros Em; right; exact Em].
      - specialize (Hacc _ eq_refl).
        repeat split; [exact Hacc | discriminate | intros Em; inversion Em; left; reflexivity]. }
    destruct Hv as (Hv1 & Hv2 & Hv3).
    repeat split.
    + intros w [<- | Hw]; [exact Hv1 | apply Hall; exact Hw].
    + exact Hv2.
    + destruct Hatt as [(w & Hw & Ew) | Ho].
      * left. exists w. split; [right; exact Hw | exact Ew].
      * destruct (Hv3 Ho) as [E | E]; [left; exists v; split; [left; reflexivity | exact E] | right; exact E].
Qed.

(* the four accumulators of the fold are independent folds over the extents of the zones that
   have sites (both axes non-empty) *)
Definition ext (f : gridq -> Q -> Q -> Q) (gs : list gridq) : list Q :=
  flat_map (fun g => match xin g, yin g with Some x, Some y => [f g x y] | _, _ => [] end) gs.
Definition x_lo := ext (fun _ x _ => x).
Definition x_hi := ext (fun g x _ => x + width g).
Definition y_lo := ext (fun _ _ y => y).
Definition y_hi := ext (fun g _ y => y + height g).

Lemma bbox_fold gs : forall acc,
  let r := fold_left bbox_step gs acc in
  bxmin r = fold_left omin (x_lo gs) (bxmin acc) /\ bxmax r = fold_left omax (x_hi gs) (bxmax acc) /\
  bymin r = fold_left omin (y_lo gs) (bymin acc) /\ bymax r = fold_left omax (y_hi gs) (bymax acc).
Proof.
  induction gs as [|g gs IH]; intros acc; simpl.
  - repeat split.
  - specialize (IH (bbox_step acc g)). simpl in IH. destruct IH as (I1 & I2 & I3 & I4).
    unfold x_lo, x_hi, y_lo, y_hi, ext. simpl. rewrite I1, I2, I3, I4.
    unfold bbox_step. destruct (xin g) as [x|], (yin g) as [y|]; simpl; repeat split.
Qed.

Definition nonneg_grid (g : gridq) : Prop :=
  Forall (fun s => 0 <= s) (xsp g) /\ Forall (fun s => 0 <= s) (ysp g).

Lemma in_positions g x y : In (x, y) (positions g) <-> In x (xpos g) /\ In y (ypos g).
Proof.
  unfold positions. rewrite in_flat_map. split.
  - intros (x' & Hx & H). apply in_map_iff in H as (y' & E & Hy). inversion E; subst. auto.
  - intros [Hx Hy]. exists x. split; [exact Hx | apply in_map_iff; exists y; auto].
Qed.

Lemma in_ext f gs v :
  In v (ext f gs) <-> exists g x y, In g gs /\ xin g = Some x /\ yin g = Some y /\ v = f g x y.
Proof.
  unfold ext. rewrite in_flat_map. split.
  - intros (g & Hg & H). destruct (xin g) as [x|] eqn:X, (yin g) as [y|] eqn:Y; try contradiction.
    destruct H as [<- | []]. exists g, x, y. auto.
  - intros (g & x & y & Hg & X & Y & ->). exists g. split; [exact Hg|]. rewrite X, Y. left; reflexivity.
Qed.

(* The box contains every site of every zone and each side is attained by a site. *)
Theorem bbox_tight l a b c d :
  bounding_box l = Ok (a, b, c, d) ->
  (forall e, In e (entries l) -> nonneg_grid (geom (snd e))) ->
  (forall e x y, In e (entries l) -> In (x, y) (positions (geom (snd e))) ->
      a <= x /\ x <= b /\ c <= y /\ y <= d) /\
  (exists e x y, In e (entries l) /\ In (x, y) (positions (geom (snd e))) /\ x == a) /\
  (exists e x y, In e (entries l) /\ In (x, y) (positions (geom (snd e))) /\ x == b) /\
  (exists e x y, In e (entries l) /\ In (x, y) (positions (geom (snd e))) /\ y == c) /\
  (exists e x y, In e (entries l) /\ In (x, y) (positions (geom (snd e))) /\ y == d).
Proof.
  unfold bounding_box. set (gs := map (fun e => geom (snd e)) (entries l)).
  destruct (bbox_fold gs (mkAcc None None None None)) as (E1 & E2 & E3 & E4). simpl in E1, E2, E3, E4.
  destruct (bxmin (fold_left bbox_step gs (mkAcc None None None None))) as [a'|] eqn:A; [|discriminate].
  destruct (bxmax (fold_left bbox_step gs (mkAcc None None None None))) as [b'|] eqn:B; [|discriminate].
  destruct (bymin (fold_left bbox_step gs (mkAcc None None None None))) as [c'|] eqn:C; [|discriminate].
  destruct (bymax (fold_left bbox_step gs (mkAcc None None None None))) as [d'|] eqn:D; [|discriminate].
  intros H Hnn. inversion H; subst a' b' c' d'. clear H.
  symmetry in E1, E2, E3, E4.
  apply fold_omin_spec in E1 as (L1 & _ & T1). apply fold_omax_spec in E2 as (L2 & _ & T2).
  apply fold_omin_spec in E3 as (L3 & _ & T3). apply fold_omax_spec in E4 as (L4 & _ & T4).
  assert (Hgs : forall e, In e (entries l) -> In (geom (snd e)) gs)
    by (intros e He; unfold gs; apply in_map_iff; exists e; auto).
  assert (Hback : forall g, In g gs -> exists e, In e (entries l) /\ geom (snd e) = g)
    by (intros g Hg; unfold gs in Hg; apply in_map_iff in Hg as (e & E & He); exists e; auto).
  (* facts about one zone that has sites *)
  assert (Hzone : forall e x0 y0, In e (entries l) -> xin (geom (snd e)) = Some x0 -> yin (geom (snd e)) = Some y0 ->
            (forall x, In x (xpos (geom (snd e))) -> x0 <= x /\ x <= x0 + width (geom (snd e))) /\
            (forall y, In y (ypos (geom (snd e))) -> y0 <= y /\ y <= y0 + height (geom (snd e))) /\
            In x0 (xpos (geom (snd e))) /\ In y0 (ypos (geom (snd e))) /\
            (exists q, In q (xpos (geom (snd e))) /\ q == x0 + width (geom (snd e))) /\
            (exists q, In q (ypos (geom (snd e))) /\ q == y0 + height (geom (snd e)))).
  { intros e x0 y0 He X Y. unfold xpos, ypos, pos_of, width, height. rewrite X, Y.
    destruct (run_from_bounds (xsp (geom (snd e))) x0 (proj1 (Hnn e He))) as (Hbx & Hix & Hlx).
    destruct (run_from_bounds (ysp (geom (snd e))) y0 (proj2 (Hnn e He))) as (Hby & Hiy & Hly).
    repeat split; auto; try (apply Hbx; assumption); try (apply Hby; assumption). }
  split.
  - intros e x y He Hp. apply in_positions in Hp as [Hx Hy].
    destruct (xin (geom (snd e))) as [x0|] eqn:X; [|unfold xpos, pos_of in Hx; rewrite X in Hx; contradiction].
    destruct (yin (geom (snd e))) as [y0|] eqn:Y; [|unfold ypos, pos_of in Hy; rewrite Y in Hy; contradiction].
    destruct (Hzone e x0 y0 He X Y) as (Bx & By & _).
    destruct (Bx x Hx) as [Bx1 Bx2]. destruct (By y Hy) as [By1 By2].
    assert (a <= x0) by (apply L1, in_ext; exists (geom (snd e)), x0, y0; auto).
    assert (x0 + width (geom (snd e)) <= b) by (apply L2, in_ext; exists (geom (snd e)), x0, y0; auto).
    assert (c <= y0) by (apply L3, in_ext; exists (geom (snd e)), x0, y0; auto).
    assert (y0 + height (geom (snd e)) <= d) by (apply L4, in_ext; exists (geom (snd e)), x0, y0; auto).
    repeat split; lra.
  - repeat split.
    + destruct T1 as [(v & Hv & <-) | ?]; [|discriminate].
      apply in_ext in Hv as (g & x0 & y0 & Hg & X & Y & ->). destruct (Hback g Hg) as (e & He & <-).
      destruct (Hzone e x0 y0 He X Y) as (_ & _ & Ix & Iy & _).
      exists e, x0, y0. split; [exact He | split; [apply in_positions; auto | reflexivity]].
    + destruct T2 as [(v & Hv & <-) | ?]; [|discriminate].
      apply in_ext in Hv as (g & x0 & y0 & Hg & X & Y & ->). destruct (Hback g Hg) as (e & He & <-).
      destruct (Hzone e x0 y0 He X Y) as (_ & _ & Ix & Iy & (q & Hq & Eq) & _).
      exists e, q, y0. split; [exact He | split; [apply in_positions; auto | exact Eq]].
    + destruct T3 as [(v & Hv & <-) | ?]; [|discriminate].
      apply in_ext in Hv as (g & x0 & y0 & Hg & X & Y & ->). destruct (Hback g Hg) as (e & He & <-).
      destruct (Hzone e x0 y0 He X Y) as (_ & _ & Ix & Iy & _).
      exists e, x0, y0. split; [exact He | split; [apply in_positions; auto | reflexivity]].
    + destruct T4 as [(v & Hv & <-) | ?]; [|discriminate].
      apply in_ext in Hv as (g & x0 & y0 & Hg & X & Y & ->). destruct (Hback g Hg) as (e & He & <-).
      destruct (Hzone e x0 y0 He X Y) as (_ & _ & Ix & Iy & _ & (q & Hq & Eq)).
      exists e, x0, q. split; [exact He | split; [apply in_positions; auto | exact Eq]].
Qed.
