(* C08 x C14: the layouts two_col_zone.get_spec builds (Model/Builders.v, tied to the real builder by C14's correspondence) are
   zones where rearrange can park whenever the pitch exceeds 6 and the gate spacing is positive - for every number of pairs and
   rows.  With Proofs/LibMovesProofs.v: on every such layout every documented rearrange call is accepted and delivers. *)
From Coq Require Import String.
From Coq Require Import ZArith QArith List Bool Arith Lia.
From BS Require Import Core.Base Core.GridQ Model.Arch Model.Builders Model.Aod Model.LibMoves Proofs.AodPre Proofs.LibMovesProofs.
Import ListNotations.
Local Open Scope nat_scope.

(* parking offsets along a coordinate list whose first element has index i *)
Fixpoint parkl (l : list Q) (i : nat) : list Q :=
  match l with
  | [] => []
  | a :: r => (a + 3 * (2 * (inject_Z (Z.of_nat (i mod 2))) - 1))%Q :: parkl r (S i)
  end.

Lemma parking_as_parkl : forall l pre,
  map (parking_x (pre ++ l)) (seq (length pre) (length l)) = parkl l (length pre).
Proof.
  induction l as [|a r IH]; intros pre; [reflexivity|].
  cbn [length seq map parkl]. f_equal.
  - unfold parking_x. rewrite app_nth2 by lia. rewrite Nat.sub_diag. reflexivity.
  - replace (pre ++ a :: r) with ((pre ++ [a]) ++ r) by (rewrite <- app_assoc; reflexivity).
    replace (S (length pre)) with (length (pre ++ [a])) by (rewrite app_length; simpl; lia). apply IH.
Qed.
Lemma parking_whole zx : map (parking_x zx) (seq 0 (length zx)) = parkl zx 0.
Proof. exact (parking_as_parkl zx []). Qed.

Lemma asc_qb_cons2 a b r : asc_qb (a :: b :: r) = negb (Qle_bool b a) && asc_qb (b :: r).
Proof. reflexivity. Qed.

Lemma lt_not_le_bool a b : (a < b)%Q -> negb (Qle_bool b a) = true.
Proof. intros H. apply negb_true_iff. apply not_true_is_false. intros L. apply Qle_bool_iff in L. exact (Qlt_not_le _ _ H L). Qed.

Lemma mod2_SS i : (S (S i)) mod 2 = i mod 2.
Proof. replace (S (S i)) with (i + 1 * 2) by lia. apply Nat.mod_add. discriminate. Qed.

(* the two-column spacing pattern gs, s, gs, s, ..., gs from an even index: the parked columns stay in order when s > 6 *)
Lemma park_two_col gs s : (0 < gs)%Q -> (6 < s)%Q -> forall k p i, i mod 2 = 0 ->
  asc_qb (parkl (run_from p (pair_spacing gs s k ++ [gs])) i) = true.
Proof.
  intros Hg Hs. induction k as [|k IH]; intros p i Hi.
  - cbn [pair_spacing app run_from parkl]. rewrite asc_qb_cons2. cbn [asc_qb]. rewrite andb_true_r.
    assert (Hi1 : (S i) mod 2 = 1) by (replace (S i) with (1 + i) by lia; rewrite Nat.add_mod by discriminate; rewrite Hi; reflexivity).
    rewrite Hi, Hi1. apply lt_not_le_bool.
    setoid_replace (3 * (2 * inject_Z (Z.of_nat 0) - 1))%Q with (-(3))%Q by reflexivity.
    setoid_replace (3 * (2 * inject_Z (Z.of_nat 1) - 1))%Q with 3%Q by reflexivity.
    apply Qlt_trans with p; [rewrite <- (Qplus_0_r p) at 2; apply Qplus_lt_r; reflexivity|].
    rewrite <- (Qplus_0_r p) at 1. rewrite <- Qplus_assoc. apply Qplus_lt_r.
    apply Qlt_trans with gs; [exact Hg|]. rewrite <- (Qplus_0_r gs) at 1. apply Qplus_lt_r. reflexivity.
  - cbn [pair_spacing app run_from parkl].
    assert (Hi1 : (S i) mod 2 = 1) by (replace (S i) with (1 + i) by lia; rewrite Nat.add_mod by discriminate; rewrite Hi; reflexivity).
    assert (Hi2 : (S (S i)) mod 2 = 0) by (rewrite mod2_SS; exact Hi).
    specialize (IH (p + gs + s)%Q (S (S i)) Hi2).
    destruct (run_from (p + gs + s) (pair_spacing gs s k ++ [gs])) as [|c rest] eqn:R.
    { destruct (pair_spacing gs s k ++ [gs]); discriminate R. }
    assert (Hc : c = (p + gs + s)%Q) by (destruct (pair_spacing gs s k ++ [gs]); simpl in R; inversion R; reflexivity).
    cbn [parkl] in IH |- *. rewrite !asc_qb_cons2. rewrite IH, andb_true_r.
    rewrite Hi, Hi1, Hi2. subst c. apply andb_true_iff. split; apply lt_not_le_bool.
    + setoid_replace (3 * (2 * inject_Z (Z.of_nat 0) - 1))%Q with (-(3))%Q by reflexivity.
      setoid_replace (3 * (2 * inject_Z (Z.of_nat 1) - 1))%Q with 3%Q by reflexivity.
      apply Qlt_trans with p; [rewrite <- (Qplus_0_r p) at 2; apply Qplus_lt_r; reflexivity|].
      rewrite <- (Qplus_0_r p) at 1. rewrite <- Qplus_assoc. apply Qplus_lt_r.
      apply Qlt_trans with gs; [exact Hg|]. rewrite <- (Qplus_0_r gs) at 1. apply Qplus_lt_r. reflexivity.
    + setoid_replace (3 * (2 * inject_Z (Z.of_nat 0) - 1))%Q with (-(3))%Q by reflexivity.
      setoid_replace (3 * (2 * inject_Z (Z.of_nat 1) - 1))%Q with 3%Q by reflexivity.
      (* p + gs + 3 < p + gs + s - 3 *)
      rewrite <- !Qplus_assoc. apply Qplus_lt_r. apply Qplus_lt_r.
      apply (Qplus_lt_l _ _ 3). rewrite <- !Qplus_assoc.
      setoid_replace (-(3) + 3)%Q with 0%Q by reflexivity. rewrite Qplus_0_r.
      setoid_replace (3 + 3)%Q with 6%Q by reflexivity. exact Hs.
Qed.

Lemma gaps6b_run_from : forall sp p, Forall (fun d => (6 < d)%Q) sp -> gaps6b (run_from p sp) = true.
Proof.
  induction sp as [|d r IH]; intros p F; [reflexivity|].
  inversion F as [|? ? Hd F']; subst. specialize (IH (p + d)%Q F').
  destruct r as [|d' r'].
  - cbn [run_from gaps6b]. rewrite andb_true_r. apply lt_not_le_bool. apply Qplus_lt_r. exact Hd.
  - cbn [run_from] in IH |- *. cbn [gaps6b] in IH |- *. rewrite IH, andb_true_r.
    apply lt_not_le_bool. apply Qplus_lt_r. exact Hd.
Qed.

Lemma Forall_repeat {A} (P : A -> Prop) a n : P a -> Forall P (List.repeat a n).
Proof. intros H. induction n; simpl; constructor; assumption. Qed.
Lemma Forall_pair_spacing (P : Q -> Prop) gs s k : P gs -> P s -> Forall P (pair_spacing gs s k ++ [gs]).
Proof. intros Hg Hs. induction k; simpl; repeat constructor; assumption. Qed.

(* every layout two_col_zone.get_spec builds with a pitch above 6 and a positive gate spacing is a zone where rearrange can park *)
Theorem two_col_layouts_allow_parking nx ny s gs : (0 < gs)%Q -> (6 < s)%Q ->
  let g := two_col_traps nx ny s gs in
  ascending_q (xpos g) /\ ascending_q (ypos g) /\ parking_ok (xpos g) (ypos g) = true.
Proof.
  intros Hg Hs g.
  assert (Hs0 : (0 < s)%Q) by (apply Qlt_trans with 6%Q; [reflexivity | exact Hs]).
  destruct (positive_spacings_give_ascending_coordinates g) as [Ax Ay].
  { unfold g, two_col_traps, two_col_xsp. cbn [xsp]. apply Forall_pair_spacing; assumption. }
  { unfold g, two_col_traps, rep. cbn [ysp]. apply Forall_repeat. exact Hs0. }
  split; [exact Ax|]. split; [exact Ay|].
  unfold parking_ok. apply andb_true_iff. split.
  - rewrite parking_whole. unfold g, two_col_traps, xpos, pos_of, two_col_xsp. cbn [xin xsp].
    apply park_two_col; [exact Hg | exact Hs | reflexivity].
  - unfold g, two_col_traps, ypos, pos_of, rep. cbn [yin ysp]. apply gaps6b_run_from. apply Forall_repeat. exact Hs.
Qed.

(* the single-zone layouts: any spacing > 0 gives ascending coordinates, which is all the CZ-move theorems ask of the zone *)
Definition single_col_traps (nx ny : nat) (s : Q) : gridq := mkGQ (rep s nx) (rep s ny) (Some 0%Q) (Some 0%Q).
Lemma single_col_spec_zone nx ny s :
  single_col_spec nx ny s = mkArch (mkLayout [("traps"%string, GPlain (single_col_traps nx ny s))] ["traps"%string] ["traps"%string] ["traps"%string] []) [] [].
Proof. reflexivity. Qed.
Theorem single_col_layouts_are_ascending nx ny s : (0 < s)%Q ->
  ascending_q (xpos (single_col_traps nx ny s)) /\ ascending_q (ypos (single_col_traps nx ny s)).
Proof.
  intros Hs. apply positive_spacings_give_ascending_coordinates; unfold single_col_traps, rep; cbn [xsp ysp]; apply Forall_repeat; exact Hs.
Qed.
