From Coq Require Import String.
From Coq Require Import ZArith QArith List Bool Lia Lqa.
From BS Require Import Core.Base Core.GridQ Model.Arch Model.Builders Proofs.GridQProofs.
Import ListNotations.
Local Open Scope Q_scope.

Definition qn (i : nat) : Q := inject_Z (Z.of_nat i).

Lemma qn_0 : qn 0 == 0.
Proof. reflexivity. Qed.
Lemma qn_S i : qn (S i) == qn i + 1.
Proof. unfold qn. rewrite Nat2Z.inj_succ, <- Z.add_1_r, inject_Z_plus. reflexivity. Qed.

Lemma qequiv_map {A} (f g : A -> Q) (l : list A) :
  (forall a, In a l -> f a == g a) -> qequiv (map f l) (map g l).
Proof.
  induction l as [|a l IH]; intros H; simpl; constructor.
  - apply H. left; reflexivity.
  - apply IH. intros b Hb. apply H. right; exact Hb.
Qed.

Lemma qsum_repeat s i : qsum (List.repeat s i) == qn i * s.
Proof.
  induction i as [|i IH]; simpl.
  - rewrite qsum_nil, qn_0. ring.
  - rewrite qsum_cons, IH, qn_S. ring.
Qed.

Lemma firstn_repeat_le {A} (s : A) i k : (i <= k)%nat -> firstn i (List.repeat s k) = List.repeat s i.
Proof.
  revert k; induction i as [|i IH]; intros k H; simpl; [reflexivity|].
  destruct k as [|k]; [lia|]. simpl. f_equal. apply IH. lia.
Qed.

(* ---------- single zone ---------- *)
Lemma uniform_positions s k p0 :
  qequiv (run_from p0 (List.repeat s k)) (map (fun i => p0 + qn i * s) (seq 0 (S k))).
Proof.
  eapply qequiv_trans; [apply run_from_pos_at|].
  rewrite repeat_length. apply qequiv_map. intros i Hi. apply in_seq in Hi.
  unfold pos_at. rewrite firstn_repeat_le by lia. rewrite qsum_repeat. reflexivity.
Qed.

Definition zone (a : archspec) (n : string) : option gridv := lookup n (static_traps (lay a)).

Theorem single_sites nx ny s :
  (1 <= nx)%nat -> (1 <= ny)%nat ->
  exists g, zone (single_col_spec nx ny s) "traps" = Some (GPlain g) /\
    gshape g = (nx, ny) /\
    qequiv (xpos g) (map (fun i => qn i * s) (seq 0 nx)) /\
    qequiv (ypos g) (map (fun j => qn j * s) (seq 0 ny)).
Proof.
  intros Hx Hy. eexists. split; [reflexivity|]. unfold rep. repeat split.
  - unfold gshape; simpl. rewrite !repeat_length. f_equal; lia.
  - unfold xpos, pos_of; simpl.
    replace nx with (S (nx - 1)) at 2 by lia.
    eapply qequiv_trans; [apply uniform_positions|]. apply qequiv_map. intros; ring.
  - unfold ypos, pos_of; simpl.
    replace ny with (S (ny - 1)) at 2 by lia.
    eapply qequiv_trans; [apply uniform_positions|]. apply qequiv_map. intros; ring.
Qed.

Theorem deprecated_equal nx ny s : deprecated_single_zone_spec nx ny s = single_col_spec nx ny s.
Proof. reflexivity. Qed.

(* ---------- two-column zone ---------- *)
Lemma pair_prefix_even gs s i : forall k t, (i <= k)%nat ->
  qsum (firstn (2 * i) (pair_spacing gs s k ++ t)) == qn i * (gs + s).
Proof.
  induction i as [|i IH]; intros k t H.
  - simpl. rewrite qsum_nil, qn_0. ring.
  - destruct k as [|k]; [lia|].
    replace (2 * S i)%nat with (S (S (2 * i))) by lia. cbn [pair_spacing app firstn].
    rewrite !qsum_cons, IH by lia. rewrite qn_S. ring.
Qed.

Lemma pair_prefix_odd gs s i : forall k, (i <= k)%nat ->
  qsum (firstn (2 * i + 1) (pair_spacing gs s k ++ [gs])) == qn i * (gs + s) + gs.
Proof.
  induction i as [|i IH]; intros k H.
  - destruct k; simpl; rewrite qsum_cons, qsum_nil, qn_0; ring.
  - destruct k as [|k]; [lia|].
    replace (2 * S i + 1)%nat with (S (S (2 * i + 1))) by lia. cbn [pair_spacing app firstn].
    rewrite !qsum_cons, IH by lia. rewrite qn_S. ring.
Qed.

Lemma pair_spacing_length gs s k : length (pair_spacing gs s k) = (2 * k)%nat.
Proof. induction k; simpl; lia. Qed.

Lemma evens_from_map a n : evens_from a n = map (fun j => (a + 2 * j)%nat) (seq 0 n).
Proof.
  revert a; induction n as [|n IH]; intros a; simpl; [reflexivity|].
  f_equal; [lia|]. rewrite IH, <- seq_shift, map_map. apply map_ext. intros j. lia.
Qed.

Lemma evens_ascending a n : ascending (evens_from a n).
Proof.
  revert a; induction n as [|n IH]; intros a; simpl; [exact I|].
  destruct n as [|n]; simpl; [exact I|]. split; [lia | apply (IH (S (S a)))].
Qed.

Lemma seq_ascending a n : ascending (seq a n).
Proof.
  revert a; induction n as [|n IH]; intros a; simpl; [exact I|].
  destruct n as [|n]; simpl; [exact I|]. split; [lia | apply (IH (S a))].
Qed.

Theorem two_col_geometry nx ny s gs :
  (1 <= nx)%nat -> (1 <= ny)%nat ->
  let a := two_col_spec nx ny s gs in
  let all := two_col_traps nx ny s gs in
  zone a "traps" = Some (GPlain all) /\
  zone a "left_traps" = Some (GSub all (evens_from 0 nx) (seq 0 ny)) /\
  zone a "right_traps" = Some (GSub all (evens_from 1 nx) (seq 0 ny)) /\
  gshape all = ((2 * nx)%nat, ny) /\
  (* left column i sits at i*(gate+spacing), right column i is gate spacing further *)
  qequiv (xpos (geom (GSub all (evens_from 0 nx) (seq 0 ny)))) (map (fun i => qn i * (gs + s)) (seq 0 nx)) /\
  qequiv (xpos (geom (GSub all (evens_from 1 nx) (seq 0 ny)))) (map (fun i => qn i * (gs + s) + gs) (seq 0 nx)) /\
  (* same rows in all three zones *)
  qequiv (ypos all) (map (fun j => qn j * s) (seq 0 ny)) /\
  qequiv (ypos (geom (GSub all (evens_from 0 nx) (seq 0 ny)))) (map (fun j => qn j * s) (seq 0 ny)) /\
  qequiv (ypos (geom (GSub all (evens_from 1 nx) (seq 0 ny)))) (map (fun j => qn j * s) (seq 0 ny)) /\
  (* the columns of the zone are exactly left_0, right_0, left_1, right_1, ... *)
  qequiv (xpos all) (map (fun c => qn (c / 2) * (gs + s) + (if Nat.even c then 0 else gs)) (seq 0 (2 * nx))).
Proof.
  intros Hx Hy a all.
  assert (Hlen : length (two_col_xsp nx s gs) = (2 * nx - 1)%nat).
  { unfold two_col_xsp. rewrite app_length, pair_spacing_length. simpl. lia. }
  assert (Hyall : qequiv (ypos all) (map (fun j => qn j * s) (seq 0 ny))).
  { unfold ypos, pos_of, all, two_col_traps, rep; simpl.
    replace ny with (S (ny - 1)) at 2 by lia.
    eapply qequiv_trans; [apply uniform_positions|]. apply qequiv_map. intros; ring. }
  assert (Hysub : forall xi, qequiv (ypos (geom (GSub all xi (seq 0 ny)))) (map (fun j => qn j * s) (seq 0 ny))).
  { intros xi. destruct ny as [|ny']; [lia|].
    eapply qequiv_trans.
    - apply (view_positions_y all xi (seq 0 (S ny')) 0%nat (seq 1 ny') eq_refl (seq_ascending 0 (S ny')) 0 eq_refl).
    - apply qequiv_map. intros j Hj. apply in_seq in Hj.
      unfold pos_at, all, two_col_traps, rep; simpl ysp.
      rewrite firstn_repeat_le by lia. rewrite qsum_repeat. ring. }
  repeat split; try reflexivity.
  - unfold gshape, all, two_col_traps, rep; simpl. rewrite Hlen, repeat_length. f_equal; lia.
  - destruct nx as [|nx']; [lia|].
    eapply qequiv_trans.
    + apply (view_positions_x all (evens_from 0 (S nx')) (seq 0 ny) 0%nat (evens_from 2 nx') eq_refl (evens_ascending 0 (S nx')) 0 eq_refl).
    + rewrite evens_from_map, map_map. apply qequiv_map. intros i Hi. apply in_seq in Hi.
      unfold pos_at, all, two_col_traps, two_col_xsp; simpl xsp.
      replace (0 + 2 * i)%nat with (2 * i)%nat by lia.
      rewrite pair_prefix_even by lia. ring.
  - destruct nx as [|nx']; [lia|].
    eapply qequiv_trans.
    + apply (view_positions_x all (evens_from 1 (S nx')) (seq 0 ny) 1%nat (evens_from 3 nx') eq_refl (evens_ascending 1 (S nx')) 0 eq_refl).
    + rewrite evens_from_map, map_map. apply qequiv_map. intros i Hi. apply in_seq in Hi.
      unfold pos_at, all, two_col_traps, two_col_xsp; simpl xsp.
      replace (1 + 2 * i)%nat with (2 * i + 1)%nat by lia.
      rewrite pair_prefix_odd by lia. ring.
  - exact Hyall.
  - apply Hysub.
  - apply Hysub.
  - eapply qequiv_trans; [apply (grid_positions_x all 0 eq_refl)|].
    unfold all, two_col_traps; simpl xsp. rewrite Hlen.
    replace (S (2 * nx - 1)) with (2 * nx)%nat by lia.
    apply qequiv_map. intros c Hc. apply in_seq in Hc.
    unfold pos_at, two_col_xsp.
    destruct (Nat.even c) eqn:E.
    + apply Nat.even_spec in E. destruct E as [i ->].
      replace (2 * i / 2)%nat with i by (rewrite Nat.mul_comm, Nat.div_mul; lia).
      rewrite pair_prefix_even by lia. ring.
    + assert (O : Nat.odd c = true) by (rewrite <- Nat.negb_even, E; reflexivity).
      apply Nat.odd_spec in O. destruct O as [i ->].
      replace ((2 * i + 1) / 2)%nat with i
        by (rewrite Nat.add_comm, Nat.mul_comm, Nat.div_add by lia; simpl; lia).
      rewrite pair_prefix_odd by lia. ring.
Qed.

(* capability sets only name existing zones (all builders) *)
Definition caps_name_zones (a : archspec) : bool :=
  let names := map fst (entries (lay a)) in
  forallb (fun n => existsb (String.eqb n) names) (fillable (lay a) ++ has_cz (lay a) ++ has_local (lay a)).

Theorem caps_single nx ny s : caps_name_zones (single_col_spec nx ny s) = true.
Proof. reflexivity. Qed.
Theorem caps_two_col nx ny s gs : caps_name_zones (two_col_spec nx ny s gs) = true.
Proof. reflexivity. Qed.

(* ---------- Gemini: closed terms, decided by computation ---------- *)
Definition nat_list_eqb (a b : list nat) : bool :=
  (length a =? length b)%nat && forallb (fun p => Nat.eqb (fst p) (snd p)) (combine a b).

Definition is_view_of (a : archspec) (name parent : string) (xi yi : list nat) : bool :=
  match zone a name, zone a parent with
  | Some (GSub p x y), Some (GPlain q) => gridq_eqb p q && nat_list_eqb x xi && nat_list_eqb y yi
  | _, _ => false
  end.

Definition rng (a b step : nat) : list nat :=
  map (fun k => (a + step * k)%nat) (seq 0 ((b - a + step - 1) / step)).

(* the documented block table: name, parent zone, x index range, y index range *)
Definition gemini_doc : list (string * string * list nat * list nat) :=
  [("left_gate_zone_sites", "gate_zone", rng 0 34 2, rng 0 5 1);
   ("right_gate_zone_sites", "gate_zone", rng 1 34 2, rng 0 5 1);
   ("GL_blocks", "gate_zone", rng 4 32 2, rng 0 5 1); ("GR_blocks", "gate_zone", rng 5 33 2, rng 0 5 1);
   ("GL0_block", "gate_zone", rng 4 18 2, rng 0 5 1); ("GL1_block", "gate_zone", rng 18 32 2, rng 0 5 1);
   ("GR0_block", "gate_zone", rng 5 19 2, rng 0 5 1); ("GR1_block", "gate_zone", rng 19 33 2, rng 0 5 1);
   ("SL0_block", "top_reservoir", rng 4 18 2, rng 8 18 2); ("SR0_block", "top_reservoir", rng 5 19 2, rng 8 18 2);
   ("SL1_block", "top_reservoir", rng 18 32 2, rng 8 18 2); ("SR1_block", "top_reservoir", rng 19 33 2, rng 8 18 2);
   ("ML0_block", "bottom_reservoir", rng 4 18 2, rng 2 12 2); ("MR0_block", "bottom_reservoir", rng 5 19 2, rng 2 12 2);
   ("ML1_block", "bottom_reservoir", rng 18 32 2, rng 2 12 2); ("MR1_block", "bottom_reservoir", rng 19 33 2, rng 2 12 2)]%string.

Definition block_names : list string :=
  ["GL0_block"; "GL1_block"; "GR0_block"; "GR1_block"; "SL0_block"; "SR0_block"; "SL1_block"; "SR1_block";
   "ML0_block"; "MR0_block"; "ML1_block"; "MR1_block"]%string.

Theorem gemini_blocks_documented :
  forallb (fun e => match e with (n, p, xi, yi) => is_view_of gemini_logical_spec n p xi yi end) gemini_doc = true.
Proof. vm_compute. reflexivity. Qed.

Theorem gemini_block_sizes :
  forallb (fun n => match zone gemini_logical_spec n with
                    | Some v => let sh := gshape (geom v) in Nat.eqb (fst sh) 7 && Nat.eqb (snd sh) 5
                    | None => false end) block_names = true.
Proof. vm_compute. reflexivity. Qed.

(* documented coordinates of the base zones *)
Theorem gemini_gate_zone_documented :
  qlist_eqb (xpos gemini_gate_zone)
            (flat_map (fun i => [-81 + 10 * qn i; -81 + 10 * qn i + 2]) (seq 0 17)) = true
  /\ qlist_eqb (ypos gemini_gate_zone) (map (fun j => -20 + 10 * qn j) (seq 0 5)) = true.
Proof. split; vm_compute; reflexivity. Qed.

Theorem gemini_reservoirs_documented :
  qlist_eqb (xpos gemini_top_reservoir) (flat_map (fun i => [-87 + 10 * qn i; -87 + 10 * qn i + 6]) (seq 0 17)) = true
  /\ qlist_eqb (ypos gemini_top_reservoir) (map (fun j => 30 + 4 * qn j) (seq 0 19)) = true
  /\ qlist_eqb (xpos gemini_bottom_reservoir) (xpos gemini_top_reservoir) = true
  /\ qlist_eqb (ypos gemini_bottom_reservoir) (map (fun j => -102 + 4 * qn j) (seq 0 19)) = true.
Proof. repeat split; vm_compute; reflexivity. Qed.

Theorem gemini_aom_documented :
  qlist_eqb (xpos gemini_aom_sites) (map (fun i => -83 + 10 * qn i) (seq 0 17)) = true
  /\ qlist_eqb (ypos gemini_aom_sites) (ypos gemini_gate_zone) = true.
Proof. split; vm_compute; reflexivity. Qed.

Theorem gemini_caps : caps_name_zones gemini_base_spec = true /\ caps_name_zones gemini_logical_spec = true.
Proof. split; vm_compute; reflexivity. Qed.

(* published constants agree with the geometry *)
Theorem gemini_constants_agree :
  let a := gemini_logical_spec in
  lookup "logical_rows"%string (int_constants a) = Some 5%Z /\
  lookup "code_size"%string (int_constants a) = Some 7%Z /\
  (match zone a "GL0_block"%string with Some v => gshape (geom v) | None => (O, O) end) = (7%nat, 5%nat) /\
  (match xsp gemini_gate_zone with g :: c :: _ => Qeq_bool g 2 && Qeq_bool c 8 | _ => false end) = true /\
  (match ysp gemini_gate_zone with r :: _ => Qeq_bool r 10 | _ => false end) = true /\
  lookup "gate_spacing"%string (float_constants a) = Some 2 /\
  lookup "col_separation"%string (float_constants a) = Some 8 /\
  lookup "row_separation"%string (float_constants a) = Some 10.
Proof. vm_compute. repeat split. Qed.

(* C13 for the builders: the base spec is accepted by the constructor; the logical spec, whose
   tables are extended after construction, would NOT be (two names per reservoir grid) *)
Theorem gemini_base_index_ok : is_ok (build_index (lay gemini_base_spec)) = true.
Proof. vm_compute. reflexivity. Qed.
Theorem gemini_logical_index_refuted : build_index (lay gemini_logical_spec) = Err EValue.
Proof. vm_compute. reflexivity. Qed.
Theorem single_index_ok nx ny s : is_ok (build_index (lay (single_col_spec nx ny s))) = true.
Proof. reflexivity. Qed.
