(* C08: the shape of the CZ move - pick everything up at a grid of trap sites, travel along ANY list of
   waypoints, travel back along the reversed list, release - is accepted by the simulator and leaves every
   site holding the atom it held before, for all grids, waypoint lists, trap sets and occupancies. *)
From Coq Require Import String.
From Coq Require Import ZArith QArith List Bool Arith Lia.
From BS Require Import Core.Base Model.Aod Proofs.AodProofs.
Import ListNotations.
Local Open Scope nat_scope.

(* ---------- equality of coordinates ---------- *)
Lemma Qeqb_refl q : Qeq_bool q q = true.
Proof. apply Qeq_bool_iff. apply Qeq_refl. Qed.
Lemma Qeqb_sym a b : Qeq_bool a b = Qeq_bool b a.
Proof.
  destruct (Qeq_bool a b) eqn:E1, (Qeq_bool b a) eqn:E2; try reflexivity.
  - apply Qeq_bool_iff in E1. apply Qeq_sym in E1. apply Qeq_bool_iff in E1. congruence.
  - apply Qeq_bool_iff in E2. apply Qeq_sym in E2. apply Qeq_bool_iff in E2. congruence.
Qed.
Lemma Qeqb_trans a b c : Qeq_bool a b = true -> Qeq_bool b c = true -> Qeq_bool a c = true.
Proof. intros H1 H2. apply Qeq_bool_iff in H1, H2. apply Qeq_bool_iff. eapply Qeq_trans; eassumption. Qed.

Lemma pos_eqb_refl p : pos_eqb p p = true.
Proof. unfold pos_eqb. rewrite !Qeqb_refl. reflexivity. Qed.
Lemma pos_eqb_sym p q : pos_eqb p q = pos_eqb q p.
Proof. unfold pos_eqb. rewrite (Qeqb_sym (fst p)), (Qeqb_sym (snd p)). reflexivity. Qed.
Lemma pos_eqb_trans p q r : pos_eqb p q = true -> pos_eqb q r = true -> pos_eqb p r = true.
Proof.
  unfold pos_eqb. intros H1 H2. apply andb_true_iff in H1, H2. destruct H1 as [A1 B1], H2 as [A2 B2].
  rewrite (Qeqb_trans _ _ _ A1 A2), (Qeqb_trans _ _ _ B1 B2). reflexivity.
Qed.
Lemma pos_eqb_congr p q r : pos_eqb p q = true -> pos_eqb p r = pos_eqb q r.
Proof.
  intros H. destruct (pos_eqb p r) eqn:E1, (pos_eqb q r) eqn:E2; try reflexivity.
  - rewrite pos_eqb_sym in H. rewrite (pos_eqb_trans _ _ _ H E1) in E2. discriminate.
  - rewrite (pos_eqb_trans _ _ _ H E2) in E1. discriminate.
Qed.

Lemma spot_eqb_eq a b : spot_eqb a b = true <-> a = b.
Proof.
  unfold spot_eqb. destruct a as [a1 a2], b as [b1 b2]; simpl. rewrite andb_true_iff, !Nat.eqb_eq.
  split; [intros [-> ->]; reflexivity | intros E; inversion E; auto].
Qed.
Lemma spot_eqb_refl a : spot_eqb a a = true.
Proof. apply spot_eqb_eq. reflexivity. Qed.

(* ---------- occupancy as a partial function of the site ---------- *)
Fixpoint occ_wf (o : list (pos * nat)) : bool :=
  match o with [] => true | (p, _) :: r => negb (existsb (fun e => pos_eqb p (fst e)) r) && occ_wf r end.

Lemma occ_find_none p o : existsb (fun e => pos_eqb p (fst e)) o = false -> occ_find p o = None.
Proof.
  induction o as [|[q a] r IH]; simpl; [reflexivity|]. intros H. apply orb_false_iff in H. destruct H as [H1 H2].
  rewrite H1. apply IH, H2.
Qed.
Lemma occ_find_some_exists p o a : occ_find p o = Some a -> existsb (fun e => pos_eqb p (fst e)) o = true.
Proof.
  induction o as [|[q b] r IH]; simpl; [discriminate|]. destruct (pos_eqb p q); [reflexivity|]. intros H. simpl. apply IH, H.
Qed.
Lemma existsb_pos_congr p q o : pos_eqb p q = true ->
  existsb (fun e => pos_eqb p (fst e)) o = existsb (fun e : pos * nat => pos_eqb q (fst e)) o.
Proof. intros H. induction o as [|e r IH]; simpl; [reflexivity|]. rewrite (pos_eqb_congr _ _ _ H), IH. reflexivity. Qed.
Lemma occ_find_congr p q o : pos_eqb p q = true -> occ_find p o = occ_find q o.
Proof. intros H. induction o as [|[x a] r IH]; simpl; [reflexivity|]. rewrite (pos_eqb_congr _ _ _ H), IH. reflexivity. Qed.

Lemma occ_find_remove p q o : occ_wf o = true ->
  occ_find q (occ_remove p o) = if pos_eqb q p then None else occ_find q o.
Proof.
  induction o as [|[x a] r IH]; simpl; intros W.
  - destruct (pos_eqb q p); reflexivity.
  - apply andb_true_iff in W. destruct W as [U W]. apply negb_true_iff in U.
    destruct (pos_eqb p x) eqn:Epx.
    + destruct (pos_eqb q p) eqn:Eqp.
      * apply occ_find_none. rewrite <- U. apply existsb_pos_congr. eapply pos_eqb_trans; eassumption.
      * destruct (pos_eqb q x) eqn:Eqx; [|reflexivity].
        rewrite pos_eqb_sym in Epx. rewrite (pos_eqb_trans _ _ _ Eqx Epx) in Eqp. discriminate.
    + simpl. destruct (pos_eqb q x) eqn:Eqx.
      * destruct (pos_eqb q p) eqn:Eqp; [|reflexivity].
        rewrite pos_eqb_sym in Eqp. rewrite (pos_eqb_trans _ _ _ Eqp Eqx) in Epx. discriminate.
      * apply IH, W.
Qed.

Lemma existsb_remove_false p q (o : list (pos * nat)) :
  existsb (fun e => pos_eqb q (fst e)) o = false -> existsb (fun e => pos_eqb q (fst e)) (occ_remove p o) = false.
Proof.
  induction o as [|[x a] r IH]; simpl; [auto|]. intros H. apply orb_false_iff in H. destruct H as [H1 H2].
  destruct (pos_eqb p x); [exact H2|]. simpl. rewrite H1. apply IH, H2.
Qed.
Lemma occ_wf_remove p o : occ_wf o = true -> occ_wf (occ_remove p o) = true.
Proof.
  induction o as [|[x a] r IH]; simpl; [auto|]. intros W. apply andb_true_iff in W. destruct W as [U W].
  destruct (pos_eqb p x); [exact W|]. simpl. apply andb_true_iff. split; [|apply IH, W].
  apply negb_true_iff. apply existsb_remove_false. apply negb_true_iff, U.
Qed.
Lemma occ_wf_cons p a o : occ_find p o = None -> occ_wf o = true -> occ_wf ((p, a) :: o) = true.
Proof.
  intros F W. simpl. rewrite W, andb_true_r. apply negb_true_iff.
  destruct (existsb (fun e => pos_eqb p (fst e)) o) eqn:E; [|reflexivity].
  exfalso. clear W. induction o as [|[x b] r IH]; simpl in *; [discriminate|].
  destruct (pos_eqb p x); [discriminate|]. simpl in E. apply IH; assumption.
Qed.

(* ---------- held atoms as a partial function of the spot ---------- *)
Lemma held_find_remove t s h : NoDup (map fst h) ->
  held_find t (held_remove s h) = if spot_eqb t s then None else held_find t h.
Proof.
  induction h as [|[x a] r IH]; simpl; intros N.
  - destruct (spot_eqb t s); reflexivity.
  - inversion N as [|? ? Hx N']; subst.
    destruct (spot_eqb s x) eqn:Esx.
    + apply spot_eqb_eq in Esx. subst x.
      destruct (spot_eqb t s) eqn:Ets.
      * apply spot_eqb_eq in Ets. subst t.
        clear IH N N'. induction r as [|[y b] r IH]; simpl; [reflexivity|].
        destruct (spot_eqb s y) eqn:E; [apply spot_eqb_eq in E; subst y; exfalso; apply Hx; left; reflexivity|].
        apply IH. intros I. apply Hx. right. exact I.
      * reflexivity.
    + simpl. destruct (spot_eqb t x) eqn:Etx.
      * destruct (spot_eqb t s) eqn:Ets; [|reflexivity].
        apply spot_eqb_eq in Etx, Ets. subst. rewrite spot_eqb_refl in Esx. discriminate.
      * apply IH, N'.
Qed.
Lemma held_remove_incl s h x : In x (map fst (held_remove s h)) -> In x (map fst h).
Proof.
  induction h as [|[y a] r IH]; simpl; [auto|]. destruct (spot_eqb s y); [intros I; right; exact I|].
  simpl. intros [E | I]; [left; exact E | right; apply IH, I].
Qed.
Lemma held_remove_nodup s h : NoDup (map fst h) -> NoDup (map fst (held_remove s h)).
Proof.
  induction h as [|[y a] r IH]; simpl; intros N; [constructor|]. inversion N as [|? ? Hy N']; subst.
  destruct (spot_eqb s y); [exact N'|]. simpl. constructor; [|apply IH, N'].
  intros I. apply Hy. eapply held_remove_incl, I.
Qed.
Lemma held_find_none_notin t h : held_find t h = None -> ~ In t (map fst h).
Proof.
  induction h as [|[y a] r IH]; simpl; [tauto|]. destruct (spot_eqb t y) eqn:E; [discriminate|].
  intros H [Ey | I]; [subst y; rewrite spot_eqb_refl in E; discriminate | exact (IH H I)].
Qed.
Lemma held_all_none h : (forall t, held_find t h = None) -> h = [].
Proof. destruct h as [|[y a] r]; [reflexivity|]. intros H. specialize (H y). simpl in H. rewrite spot_eqb_refl in H. discriminate. Qed.

(* ---------- one spot ---------- *)
Definition frame (st st' : ast) : Prop := traps st' = traps st /\ xon st' = xon st /\ yon st' = yon st.
Definition wfst (st : ast) : Prop := occ_wf (occ st) = true /\ NoDup (map fst (held st)).

Lemma pick1_spec st sp :
  is_trap st (snd sp) = true -> wfst st -> held_find (fst sp) (held st) = None ->
  exists st', pick1 st sp = AOk st' /\ frame st st' /\ wfst st' /\
    (forall q, occ_find q (occ st') = if pos_eqb q (snd sp) then None else occ_find q (occ st)) /\
    (forall t, held_find t (held st') = if spot_eqb t (fst sp) then occ_find (snd sp) (occ st) else held_find t (held st)).
Proof.
  intros T [W N] Hn. unfold pick1. rewrite T. simpl.
  destruct (occ_find (snd sp) (occ st)) as [a|] eqn:F.
  - eexists. split; [reflexivity|]. split; [unfold frame; simpl; auto|]. split; [|split].
    + split; [apply (occ_wf_remove (snd sp) (occ st) W) | simpl; constructor; [apply held_find_none_notin, Hn | exact N]].
    + intros q. simpl. apply occ_find_remove, W.
    + intros t. reflexivity.
  - exists st. split; [reflexivity|]. split; [unfold frame; auto|]. split; [split; assumption|]. split.
    + intros q. destruct (pos_eqb q (snd sp)) eqn:E; [|reflexivity]. rewrite (occ_find_congr _ _ _ E). exact F.
    + intros t. destruct (spot_eqb t (fst sp)) eqn:E; [|reflexivity]. apply spot_eqb_eq in E. subst t. exact Hn.
Qed.

Lemma drop1_spec st sp :
  is_trap st (snd sp) = true -> wfst st ->
  (forall a, held_find (fst sp) (held st) = Some a -> occ_find (snd sp) (occ st) = None) ->
  exists st', drop1 st sp = AOk st' /\ frame st st' /\ wfst st' /\
    (forall q, occ_find q (occ st') =
       if pos_eqb q (snd sp) then match held_find (fst sp) (held st) with Some a => Some a | None => occ_find q (occ st) end
       else occ_find q (occ st)) /\
    (forall t, held_find t (held st') = if spot_eqb t (fst sp) then None else held_find t (held st)).
Proof.
  intros T [W N] Hv. unfold drop1.
  destruct (held_find (fst sp) (held st)) as [a|] eqn:F.
  - rewrite T. simpl. rewrite (Hv a eq_refl). eexists. split; [reflexivity|]. split; [unfold frame; simpl; auto|]. split; [|split].
    + split; [apply (occ_wf_cons (snd sp) a (occ st) (Hv a eq_refl) W) | apply (held_remove_nodup (fst sp) (held st) N)].
    + intros q. reflexivity.
    + intros t. simpl. apply held_find_remove, N.
  - exists st. split; [reflexivity|]. split; [unfold frame; auto|]. split; [split; assumption|]. split.
    + intros q. destruct (pos_eqb q (snd sp)); reflexivity.
    + intros t. destruct (spot_eqb t (fst sp)) eqn:E; [|reflexivity]. apply spot_eqb_eq in E. subst t. exact F.
Qed.

(* ---------- a list of spots with pairwise different identities and pairwise different sites ---------- *)
Definition spot := ((nat * nat) * pos)%type.
Fixpoint spots_ok (L : list spot) : Prop :=
  match L with
  | [] => True
  | sp :: r => (forall sp', In sp' r -> fst sp' <> fst sp /\ pos_eqb (snd sp') (snd sp) = false) /\ spots_ok r
  end.

Definition find_id (t : nat * nat) (L : list spot) : option spot := find (fun sp => spot_eqb t (fst sp)) L.
Definition find_pos (q : pos) (L : list spot) : option spot := find (fun sp => pos_eqb q (snd sp)) L.
Definition has_pos (q : pos) (L : list spot) : bool := existsb (fun sp => pos_eqb q (snd sp)) L.
Definition has_id (t : nat * nat) (L : list spot) : bool := existsb (fun sp => spot_eqb t (fst sp)) L.

Lemma find_id_none t L : (forall sp, In sp L -> fst sp <> t) -> find_id t L = None.
Proof.
  induction L as [|sp r IH]; simpl; [reflexivity|]. intros H.
  destruct (spot_eqb t (fst sp)) eqn:E; [apply spot_eqb_eq in E; exfalso; apply (H sp); [left; reflexivity | symmetry; exact E]|].
  apply IH. intros sp' I. apply H. right. exact I.
Qed.

Lemma picks_spec : forall L st,
  spots_ok L -> (forall sp, In sp L -> is_trap st (snd sp) = true) -> wfst st ->
  (forall sp, In sp L -> held_find (fst sp) (held st) = None) ->
  exists st2, fold_a pick1 st L = AOk st2 /\ frame st st2 /\ wfst st2 /\
    (forall q, occ_find q (occ st2) = if has_pos q L then None else occ_find q (occ st)) /\
    (forall t, held_find t (held st2) = match find_id t L with Some sp => occ_find (snd sp) (occ st) | None => held_find t (held st) end).
Proof.
  induction L as [|sp r IH]; intros st Ok T W Hn.
  - exists st. simpl. split; [reflexivity|]. split; [unfold frame; auto|]. split; [exact W|]. split; intros; reflexivity.
  - destruct Ok as [Hd Ok].
    destruct (pick1_spec st sp (T sp (or_introl eq_refl)) W (Hn sp (or_introl eq_refl))) as [sa [E [[F1 [F2 F3]] [Wa [Oa Ha]]]]].
    destruct (IH sa Ok) as [s2 [E2 [[G1 [G2 G3]] [W2 [O2 H2]]]]].
    + intros sp' I. unfold is_trap. rewrite F1. apply (T sp' (or_intror I)).
    + exact Wa.
    + intros sp' I. rewrite Ha. destruct (spot_eqb (fst sp') (fst sp)) eqn:Es.
      * apply spot_eqb_eq in Es. destruct (Hd sp' I) as [Ne _]. contradiction.
      * apply Hn. right. exact I.
    + exists s2. simpl. rewrite E. split; [exact E2|]. split; [|split; [exact W2|split]].
      * unfold frame. rewrite G1, G2, G3, F1, F2, F3. auto.
      * intros q. rewrite O2, Oa. unfold has_pos. simpl. fold (has_pos q r).
        destruct (pos_eqb q (snd sp)); simpl; destruct (has_pos q r); reflexivity.
      * intros t. rewrite H2. unfold find_id. simpl. fold (find_id t r).
        destruct (spot_eqb t (fst sp)) eqn:Et.
        -- apply spot_eqb_eq in Et. subst t. rewrite find_id_none.
           ++ rewrite Ha, spot_eqb_refl. reflexivity.
           ++ intros sp' I. apply (Hd sp' I).
        -- destruct (find_id t r) as [sp'|] eqn:Fi.
           ++ rewrite Oa. assert (I : In sp' r) by (apply (find_some _ _ Fi)).
              destruct (Hd sp' I) as [_ Np]. rewrite Np. reflexivity.
           ++ rewrite Ha, Et. reflexivity.
Qed.

Lemma find_pos_none q L : has_pos q L = false -> find_pos q L = None.
Proof.
  unfold has_pos, find_pos. induction L as [|sp r IH]; simpl; [reflexivity|]. intros H. apply orb_false_iff in H.
  destruct H as [H1 H2]. rewrite H1. apply IH, H2.
Qed.

Lemma drops_spec : forall L st,
  spots_ok L -> (forall sp, In sp L -> is_trap st (snd sp) = true) -> wfst st ->
  (forall sp a, In sp L -> held_find (fst sp) (held st) = Some a -> occ_find (snd sp) (occ st) = None) ->
  exists st4, fold_a drop1 st L = AOk st4 /\ frame st st4 /\ wfst st4 /\
    (forall q, occ_find q (occ st4) =
       match find_pos q L with
       | Some sp => match held_find (fst sp) (held st) with Some a => Some a | None => occ_find q (occ st) end
       | None => occ_find q (occ st)
       end) /\
    (forall t, held_find t (held st4) = if has_id t L then None else held_find t (held st)).
Proof.
  induction L as [|sp r IH]; intros st Ok T W Hv.
  - exists st. simpl. split; [reflexivity|]. split; [unfold frame; auto|]. split; [exact W|]. split; intros; reflexivity.
  - destruct Ok as [Hd Ok].
    destruct (drop1_spec st sp (T sp (or_introl eq_refl)) W (fun a => Hv sp a (or_introl eq_refl))) as [sa [E [[F1 [F2 F3]] [Wa [Oa Ha]]]]].
    destruct (IH sa Ok) as [s4 [E4 [[G1 [G2 G3]] [W4 [O4 H4]]]]].
    + intros sp' I. unfold is_trap. rewrite F1. apply (T sp' (or_intror I)).
    + exact Wa.
    + intros sp' a I Hh. destruct (Hd sp' I) as [Ne Np]. rewrite Ha in Hh.
      destruct (spot_eqb (fst sp') (fst sp)) eqn:Es; [discriminate|].
      rewrite Oa, Np. apply (Hv sp' a (or_intror I) Hh).
    + exists s4. simpl. rewrite E. split; [exact E4|]. split; [|split; [exact W4|split]].
      * unfold frame. rewrite G1, G2, G3, F1, F2, F3. auto.
      * intros q. rewrite O4. unfold find_pos. simpl. fold (find_pos q r).
        destruct (pos_eqb q (snd sp)) eqn:Eq.
        -- (* q is the site of sp: no later spot shares it *)
           rewrite find_pos_none.
           ++ rewrite Oa, Eq. reflexivity.
           ++ unfold has_pos. apply not_true_is_false. intros X. apply existsb_exists in X. destruct X as [sp' [I X]].
              destruct (Hd sp' I) as [_ Np]. rewrite pos_eqb_sym in X.
              rewrite (pos_eqb_trans _ _ _ X Eq) in Np. discriminate.
        -- destruct (find_pos q r) as [sp'|] eqn:Fp.
           ++ assert (I : In sp' r) by (apply (find_some _ _ Fp)). destruct (Hd sp' I) as [Ne _].
              rewrite Ha. destruct (spot_eqb (fst sp') (fst sp)) eqn:Es; [apply spot_eqb_eq in Es; contradiction|].
              rewrite Oa, Eq. reflexivity.
           ++ rewrite Oa, Eq. reflexivity.
      * intros t. rewrite H4, Ha. unfold has_id. simpl. fold (has_id t r).
        destruct (spot_eqb t (fst sp)); simpl; destruct (has_id t r); reflexivity.
Qed.

(* ---------- canonical tone lists: tone i of n sits at the i-th coordinate ---------- *)
Definition canon (n : nat) (cs : list Q) : list (nat * Q) := map (fun i => (i, nth i cs 0%Q)) (seq 0 n).
Definition ALL : sel := SSlice None None None.
Definition wp_ok (nx ny : nat) (w : list Q * list Q) : Prop :=
  length (fst w) = nx /\ length (snd w) = ny /\ distinct_q (fst w) = true /\ distinct_q (snd w) = true.

Lemma tone_on_canon_ge n cs k : n <= k -> tone_on k (canon n cs) = false.
Proof.
  intros H. unfold tone_on, canon. apply not_true_is_false. intros X. apply existsb_exists in X.
  destruct X as [t [I E]]. apply in_map_iff in I. destruct I as [i [<- I]]. apply in_seq in I. simpl in E.
  apply Nat.eqb_eq in E. lia.
Qed.

Lemma add_tones_all n cs : add_tones [] (seq 0 n) cs = canon n cs.
Proof.
  unfold add_tones. induction n as [|n IH]; [reflexivity|].
  rewrite seq_S, fold_left_app, IH. simpl. rewrite (tone_on_canon_ge n cs n (le_n _)).
  unfold canon. rewrite seq_S, map_app. reflexivity.
Qed.

Lemma move_tones_canon n cs cs' : move_tones (canon n cs) cs' = canon n cs'.
Proof. unfold move_tones, canon. rewrite map_map. apply map_ext. intros i. reflexivity. Qed.

Lemma map_nth_seq (cs : list Q) : map (fun i => nth i cs 0%Q) (seq 0 (length cs)) = cs.
Proof.
  induction cs as [|c r IH]; [reflexivity|]. simpl length. rewrite <- cons_seq, <- seq_shift. simpl.
  rewrite map_map. simpl. rewrite IH. reflexivity.
Qed.
Lemma map_snd_canon cs : map snd (canon (length cs) cs) = cs.
Proof. unfold canon. rewrite map_map. simpl. apply map_nth_seq. Qed.

Lemma map_snd_canon' n cs : length cs = n -> map snd (canon n cs) = cs.
Proof. intros <-. apply map_snd_canon. Qed.

Lemma remove_tones_all n cs : remove_tones (canon n cs) (seq 0 n) = [].
Proof.
  unfold remove_tones, canon.
  assert (G : forall l, (forall i, In i l -> In i (seq 0 n)) ->
            filter (fun t : nat * Q => negb (existsb (Nat.eqb (fst t)) (seq 0 n))) (map (fun i => (i, nth i cs 0%Q)) l) = []).
  { induction l as [|i r IH]; intros H; [reflexivity|]. simpl.
    assert (X : existsb (Nat.eqb i) (seq 0 n) = true) by (apply existsb_exists; exists i; split; [apply H; left; reflexivity | apply Nat.eqb_refl]).
    rewrite X. simpl. apply IH. intros j I. apply H. right. exact I. }
  apply G. auto.
Qed.

Lemma same_place_canon n cs : same_place (canon n cs) cs = true.
Proof. unfold same_place, canon. apply forallb_forall. intros t I. apply in_map_iff in I. destruct I as [i [<- _]]. simpl. apply Qeqb_refl. Qed.

(* ---------- the spots of a canonical tone state are pairwise different ---------- *)
Definition spots_of (X Y : list (nat * Q)) : list spot :=
  flat_map (fun x => map (fun y => ((fst x, fst y), (snd x, snd y))) Y) X.

Fixpoint tones_ok (ts : list (nat * Q)) : Prop :=
  match ts with
  | [] => True
  | t :: r => (forall t', In t' r -> fst t' <> fst t /\ Qeq_bool (snd t') (snd t) = false) /\ tones_ok r
  end.

Lemma tones_ok_canon_from cs a m : distinct_q cs = true -> a + m <= length cs ->
  tones_ok (map (fun i => (i, nth i cs 0%Q)) (seq a m)).
Proof.
  intros D. revert a. induction m as [|m IH]; intros a H; simpl; [exact I|]. split; [|apply IH; lia].
  intros t' I. apply in_map_iff in I. destruct I as [k [<- I]]. apply in_seq in I. simpl. split; [lia|].
  apply not_true_is_false. intros E. apply Qeq_bool_iff in E.
  apply (distinct_q_spec cs D a k); [lia | lia | apply Qeq_sym; exact E].
Qed.
Lemma tones_ok_canon cs : distinct_q cs = true -> tones_ok (canon (length cs) cs).
Proof. intros D. apply (tones_ok_canon_from cs 0 (length cs) D). lia. Qed.

Lemma spots_ok_app l1 l2 :
  spots_ok l1 -> spots_ok l2 ->
  (forall a b, In a l1 -> In b l2 -> fst b <> fst a /\ pos_eqb (snd b) (snd a) = false) -> spots_ok (l1 ++ l2).
Proof.
  induction l1 as [|a r IH]; simpl; intros O1 O2 C; [exact O2|]. destruct O1 as [Ha O1]. split.
  - intros sp' I. apply in_app_or in I. destruct I as [I | I]; [apply Ha, I | apply (C a sp'); [left; reflexivity | exact I]].
  - apply IH; [exact O1 | exact O2 | intros x y Ix Iy; apply C; [right; exact Ix | exact Iy]].
Qed.

Lemma spots_ok_row x Y : tones_ok Y -> spots_ok (map (fun y : nat * Q => ((fst x, fst y), (snd x, snd y))) Y).
Proof.
  induction Y as [|y r IH]; simpl; intros O; [exact I|]. destruct O as [Hy O]. split; [|apply IH, O].
  intros sp' I. apply in_map_iff in I. destruct I as [y' [<- I]]. destruct (Hy y' I) as [N Q]. simpl. split.
  - intros E. inversion E. contradiction.
  - unfold pos_eqb. simpl. rewrite Q. apply andb_false_r.
Qed.

Lemma spots_ok_product X Y : tones_ok X -> tones_ok Y -> spots_ok (spots_of X Y).
Proof.
  unfold spots_of. induction X as [|x r IH]; simpl; intros OX OY; [exact I|]. destruct OX as [Hx OX].
  apply spots_ok_app; [apply spots_ok_row, OY | apply IH; assumption |].
  intros a b Ia Ib. apply in_map_iff in Ia. destruct Ia as [y [<- _]].
  apply in_flat_map in Ib. destruct Ib as [x' [Ix' Ib]]. apply in_map_iff in Ib. destruct Ib as [y' [<- _]].
  destruct (Hx x' Ix') as [N Q]. simpl. split.
  - intros E. inversion E. contradiction.
  - unfold pos_eqb. simpl. rewrite Q. reflexivity.
Qed.

Lemma in_spots_canon nx ny cx cy sp : In sp (spots_of (canon nx cx) (canon ny cy)) ->
  exists i j, i < nx /\ j < ny /\ sp = ((i, j), (nth i cx 0%Q, nth j cy 0%Q)).
Proof.
  unfold spots_of, canon. intros I. apply in_flat_map in I. destruct I as [x [Ix I]]. apply in_map_iff in I. destruct I as [y [<- Iy]].
  apply in_map_iff in Ix, Iy. destruct Ix as [i [<- Ii]], Iy as [j [<- Ij]]. apply in_seq in Ii, Ij.
  exists i, j. simpl. repeat split; lia.
Qed.

(* ---------- moving along waypoints ---------- *)
Definition cur_after (ws : list (list Q * list Q)) (cur : option (list Q * list Q)) : option (list Q * list Q) :=
  fold_left (fun _ w => Some w) ws cur.

Lemma way_off nx ny : forall ws T O H first cur, Forall (wp_ok nx ny) ws ->
  sim_way (mkast T O [] [] H) first nx ny ws cur = AOk (mkast T O [] [] H, cur_after ws cur).
Proof.
  induction ws as [|w r IH]; intros T O H first cur F; [reflexivity|].
  inversion F as [|? ? Hw F']; subst. destruct Hw as [Lx [Ly _]]. simpl. unfold sim_waypoint. rewrite Lx, Ly, !Nat.eqb_refl. simpl.
  rewrite andb_false_r. simpl. apply IH, F'.
Qed.

Lemma last_default_irrelevant {A} (a : A) l d d' : last (a :: l) d = last (a :: l) d'.
Proof. revert a. induction l as [|b r IH]; intros a; [reflexivity|]. change (last (b :: r) d = last (b :: r) d'). apply IH. Qed.

Lemma way_on nx ny : forall ws T O H cx cy first cur, Forall (wp_ok nx ny) ws ->
  (first = true -> match ws with w :: _ => w = (cx, cy) | [] => True end) ->
  sim_way (mkast T O (canon nx cx) (canon ny cy) H) first nx ny ws cur =
  AOk (mkast T O (canon nx (fst (last ws (cx, cy)))) (canon ny (snd (last ws (cx, cy)))) H, cur_after ws cur).
Proof.
  induction ws as [|w r IH]; intros T O H cx cy first cur F Hf; [reflexivity|].
  inversion F as [|? ? Hw F']; subst. destruct Hw as [Lx [Ly [Dx Dy]]].
  cbn [sim_way]. unfold sim_waypoint. rewrite Lx, Ly, !Nat.eqb_refl. cbn [negb andb].
  assert (J : first && negb match H with [] => true | _ :: _ => false end &&
              negb (same_place (canon nx cx) (fst w) && same_place (canon ny cy) (snd w)) = false).
  { destruct first; [|reflexivity]. specialize (Hf eq_refl). subst w. simpl fst. simpl snd.
    rewrite !same_place_canon. simpl. apply andb_false_r. }
  cbn [xon yon held]. rewrite J. unfold with_tones, tones_apart. cbn [traps occ xon yon held].
  rewrite !move_tones_canon.
  rewrite (map_snd_canon' nx (fst w) Lx), (map_snd_canon' ny (snd w) Ly), Dx, Dy. cbn [negb andb].
  rewrite (IH T O H (fst w) (snd w) false (Some w) F' (fun E => ltac:(discriminate))).
  destruct r as [|w' r']; [destruct w; reflexivity|].
  change (last (w :: w' :: r') (cx, cy)) with (last (w' :: r') (cx, cy)).
  rewrite (last_default_irrelevant w' r' (fst w, snd w) (cx, cy)). reflexivity.
Qed.

Lemma filter_all_true {A} (f : A -> bool) l : (forall a, In a l -> f a = true) -> filter f l = l.
Proof. induction l as [|a r IH]; simpl; intros H; [reflexivity|]. rewrite (H a (or_introl eq_refl)), IH; [reflexivity | intros b I; apply H; right; exact I]. Qed.

Lemma switch_on_all nx ny T O H cx cy : length cx = nx -> length cy = ny -> distinct_q cx = true -> distinct_q cy = true ->
  sim_switch (mkast T O [] [] H) On ALL ALL nx ny (cx, cy) =
  fold_a pick1 (mkast T O (canon nx cx) (canon ny cy) H) (spots_of (canon nx cx) (canon ny cy)).
Proof.
  intros Lx Ly Dx Dy. unfold sim_switch, ALL. cbn [select]. unfold with_tones, tones_apart. cbn [traps occ xon yon held fst snd].
  rewrite !add_tones_all. rewrite (map_snd_canon' nx cx Lx), (map_snd_canon' ny cy Ly), Dx, Dy. cbn [negb andb].
  f_equal. apply filter_all_true. intros a _. reflexivity.
Qed.

Lemma switch_off_all nx ny T O H cx cy c :
  sim_switch (mkast T O (canon nx cx) (canon ny cy) H) Off ALL ALL nx ny c =
  fold_a drop1 (mkast T O [] [] H) (spots_of (canon nx cx) (canon ny cy)).
Proof.
  unfold sim_switch, ALL. cbn [select]. unfold with_tones. cbn [traps occ xon yon held].
  rewrite !remove_tones_all. f_equal. apply filter_all_true. intros a _. reflexivity.
Qed.

(* ---------- small facts about find / existsb over spot lists ---------- *)
Lemma find_id_none_of_has t L : has_id t L = false -> find_id t L = None.
Proof.
  unfold has_id, find_id. induction L as [|sp r IH]; simpl; [reflexivity|]. intros H. apply orb_false_iff in H.
  destruct H as [H1 H2]. rewrite H1. apply IH, H2.
Qed.
Lemma find_pos_has q L : has_pos q L = match find_pos q L with Some _ => true | None => false end.
Proof.
  unfold has_pos, find_pos. induction L as [|sp r IH]; simpl; [reflexivity|]. destruct (pos_eqb q (snd sp)); [reflexivity | exact IH].
Qed.
Lemma spots_ok_unique_id L a b : spots_ok L -> In a L -> In b L -> fst a = fst b -> a = b.
Proof.
  induction L as [|x r IH]; simpl; intros O Ia Ib E; [contradiction|]. destruct O as [Hx O].
  destruct Ia as [<- | Ia], Ib as [<- | Ib].
  - reflexivity.
  - destruct (Hx b Ib) as [N _]. exfalso. apply N. symmetry. exact E.
  - destruct (Hx a Ia) as [N _]. exfalso. apply N. exact E.
  - apply IH; assumption.
Qed.
Lemma find_id_in L sp : spots_ok L -> In sp L -> find_id (fst sp) L = Some sp.
Proof.
  intros O I. unfold find_id. destruct (find (fun sp0 => spot_eqb (fst sp) (fst sp0)) L) as [sp'|] eqn:F.
  - destruct (find_some _ _ F) as [I' E]. apply spot_eqb_eq in E. f_equal. symmetry. apply (spots_ok_unique_id L sp sp' O I I' E).
  - exfalso. pose proof (find_none _ _ F sp I) as X. simpl in X. rewrite spot_eqb_refl in X. discriminate.
Qed.

Lemma rev_cons_last {A} (a : A) l d : rev (a :: l) = last (a :: l) d :: rev (removelast (a :: l)).
Proof.
  assert (N : a :: l <> []) by discriminate.
  rewrite (app_removelast_last d N) at 1. rewrite rev_app_distr. reflexivity.
Qed.

(* ---------- the round trip ---------- *)
Theorem cz_round_trip nx ny (T : list pos) (O : list (pos * nat)) (s : list Q * list Q) (ws : list (list Q * list Q)) :
  wp_ok nx ny s -> Forall (wp_ok nx ny) ws ->
  (forall x y, In x (fst s) -> In y (snd s) -> existsb (pos_eqb (x, y)) T = true) ->
  occ_wf O = true ->
  let fwd := mkspath nx ny [SWay [s]; SSwitch On ALL ALL; SWay (s :: ws)] in
  let bwd := mkspath nx ny [SWay (rev (s :: ws)); SSwitch Off ALL ALL; SWay [s]] in
  exists st', sim_paths (mkast T O [] [] []) [fwd; bwd] = AOk st' /\
    traps st' = T /\ xon st' = [] /\ yon st' = [] /\ held st' = [] /\
    forall p, occ_find p (occ st') = occ_find p O.
Proof.
  intros Hs Hws Htr Hocc fwd bwd. destruct s as [sx sy]. pose proof Hs as Hs0. destruct Hs as [Lx [Ly [Dx Dy]]].
  simpl fst in *. simpl snd in *.
  set (L := spots_of (canon nx sx) (canon ny sy)).
  assert (OkL : spots_ok L).
  { unfold L. apply spots_ok_product; [rewrite <- Lx | rewrite <- Ly]; apply tones_ok_canon; assumption. }
  assert (TrL : forall st, traps st = T -> forall sp, In sp L -> is_trap st (snd sp) = true).
  { intros st Et sp I. apply in_spots_canon in I. destruct I as [i [j [Hi [Hj ->]]]]. unfold is_trap. rewrite Et. simpl.
    apply Htr; apply nth_In; lia. }
  (* picking everything up *)
  destruct (picks_spec L (mkast T O (canon nx sx) (canon ny sy) []) OkL) as [st2 [E2 [[F1 [F2 F3]] [W2 [O2 H2]]]]].
  { apply TrL. reflexivity. }
  { split; [exact Hocc | constructor]. }
  { intros sp _. reflexivity. }
  destruct st2 as [T2 Oc2 X2 Y2 Hd2]. simpl in F1, F2, F3, O2, H2. subst T2 X2 Y2.
  (* releasing everything *)
  destruct (drops_spec L (mkast T Oc2 [] [] Hd2) OkL) as [st4 [E4 [[G1 [G2 G3]] [W4 [O4 H4]]]]].
  { apply TrL. reflexivity. }
  { exact W2. }
  { intros sp a I _. simpl. rewrite O2.
    replace (has_pos (snd sp) L) with true; [reflexivity|]. symmetry. unfold has_pos.
    apply existsb_exists. exists sp. split; [exact I | apply pos_eqb_refl]. }
  destruct st4 as [T4 Oc4 X4 Y4 Hd4]. simpl in G1, G2, G3, O4, H4. subst T4 X4 Y4.
  exists (mkast T Oc4 [] [] Hd4).
  split; [|split; [reflexivity | split; [reflexivity | split; [reflexivity | split]]]].
  - (* the run *)
    unfold sim_paths, fwd, bwd. cbn [fold_a p_nx p_ny p_actions sim_actions].
    rewrite (way_off nx ny [(sx, sy)] T O [] true None (Forall_cons _ Hs0 (Forall_nil _))). cbn [cur_after fold_left].
    rewrite (switch_on_all nx ny T O [] sx sy Lx Ly Dx Dy). fold L. rewrite E2.
    rewrite (way_on nx ny ((sx, sy) :: ws) T Oc2 Hd2 sx sy true (Some (sx, sy)) (Forall_cons _ Hs0 Hws) (fun _ => eq_refl)).
    set (l := last ((sx, sy) :: ws) (sx, sy)).
    assert (Hrev : Forall (wp_ok nx ny) (rev ((sx, sy) :: ws))) by (apply Forall_rev; constructor; assumption).
    rewrite (way_on nx ny (rev ((sx, sy) :: ws)) T Oc2 Hd2 (fst l) (snd l) true None Hrev).
    + assert (Elast : last (rev ((sx, sy) :: ws)) (fst l, snd l) = (sx, sy)) by (simpl rev; apply last_last).
      rewrite Elast. simpl fst. simpl snd.
      assert (Ecur : cur_after (rev ((sx, sy) :: ws)) None = Some (sx, sy)).
      { simpl rev. unfold cur_after. rewrite fold_left_app. reflexivity. }
      rewrite Ecur. rewrite (switch_off_all nx ny T Oc2 Hd2 sx sy (sx, sy)). fold L. rewrite E4.
      rewrite (way_off nx ny [(sx, sy)] T Oc4 Hd4 true (Some (sx, sy)) (Forall_cons _ Hs0 (Forall_nil _))). reflexivity.
    + intros _. rewrite (rev_cons_last (sx, sy) ws (sx, sy)). fold l. destruct l; reflexivity.
  - (* nothing is left in the tweezers *)
    simpl. apply held_all_none. intros t. rewrite H4. simpl. destruct (has_id t L) eqn:Hi; [reflexivity|].
    rewrite H2, (find_id_none_of_has t L Hi). reflexivity.
  - (* every site holds what it held before *)
    intros p. simpl. rewrite O4. simpl. destruct (find_pos p L) as [sp|] eqn:Fp.
    + destruct (find_some _ _ Fp) as [I Ep]. rewrite H2, (find_id_in L sp OkL I). simpl.
      rewrite <- (occ_find_congr _ _ O Ep).
      destruct (occ_find p O) as [a|] eqn:Fo; [reflexivity|].
      rewrite O2, (find_pos_has p L), Fp. reflexivity.
    + rewrite O2, (find_pos_has p L), Fp. reflexivity.
Qed.

(* ---------- from the boolean recogniser to the theorem ---------- *)
Lemma Qsyn_eqb_eq a b : Qsyn_eqb a b = true -> a = b.
Proof.
  unfold Qsyn_eqb. intros H. apply andb_true_iff in H. destruct H as [H1 H2]. apply Z.eqb_eq in H1. apply Pos.eqb_eq in H2.
  destruct a, b. simpl in *. subst. reflexivity.
Qed.
Lemma qlist_eqb_eq a : forall b, qlist_eqb a b = true -> a = b.
Proof.
  induction a as [|x r IH]; intros [|y r'] H; simpl in H; try discriminate; [reflexivity|].
  apply andb_true_iff in H. destruct H as [H1 H2]. rewrite (Qsyn_eqb_eq _ _ H1), (IH _ H2). reflexivity.
Qed.
Lemma wp_eqb_eq a b : wp_eqb a b = true -> a = b.
Proof.
  unfold wp_eqb. intros H. apply andb_true_iff in H. destruct H as [H1 H2]. destruct a, b. simpl in *.
  rewrite (qlist_eqb_eq _ _ H1), (qlist_eqb_eq _ _ H2). reflexivity.
Qed.
Lemma wps_eqb_eq a : forall b, wps_eqb a b = true -> a = b.
Proof.
  induction a as [|x r IH]; intros [|y r'] H; simpl in H; try discriminate; [reflexivity|].
  apply andb_true_iff in H. destruct H as [H1 H2]. rewrite (wp_eqb_eq _ _ H1), (IH _ H2). reflexivity.
Qed.
Lemma is_all_eq s : is_all s = true -> s = ALL.
Proof. destruct s as [l | [a|] [b|] [c|]]; simpl; try discriminate. reflexivity. Qed.
Lemma occ_wfb_wf o : occ_wfb o = occ_wf o.
Proof. induction o as [|[p a] r IH]; simpl; [reflexivity|]. rewrite IH. reflexivity. Qed.
Lemma wp_okb_ok nx ny w : wp_okb nx ny w = true -> wp_ok nx ny w.
Proof.
  unfold wp_okb, wp_ok. intros H. apply andb_true_iff in H. destruct H as [H D2]. apply andb_true_iff in H. destruct H as [H D1].
  apply andb_true_iff in H. destruct H as [L1 L2]. apply Nat.eqb_eq in L1, L2. auto.
Qed.

Lemma recognise_sound ps nx ny s ws : recognise_round_trip ps = Some (nx, ny, s, ws) ->
  ps = [mkspath nx ny [SWay [s]; SSwitch On ALL ALL; SWay (s :: ws)];
        mkspath nx ny [SWay (rev (s :: ws)); SSwitch Off ALL ALL; SWay [s]]].
Proof.
  unfold recognise_round_trip. intros H.
  repeat match goal with
         | H : match ?x with _ => _ end = Some _ |- _ => destruct x eqn:?; try discriminate
         end.
  inversion H; subst.
  repeat match goal with
         | H : _ && _ = true |- _ => apply andb_true_iff in H; destruct H
         end.
  repeat match goal with
         | H : Nat.eqb _ _ = true |- _ => apply Nat.eqb_eq in H
         | H : is_all _ = true |- _ => apply is_all_eq in H
         | H : wp_eqb _ _ = true |- _ => apply wp_eqb_eq in H
         | H : wps_eqb _ _ = true |- _ => apply wps_eqb_eq in H
         end.
  subst. reflexivity.
Qed.

(* a call whose played paths are recognised, with the grid on trap sites, is executable and returns every atom *)
Theorem recognised_round_trip_executable T O ps : round_trip_ok T O ps = true ->
  exists st', sim_paths (mkast T O [] [] []) ps = AOk st' /\
    traps st' = T /\ xon st' = [] /\ yon st' = [] /\ held st' = [] /\ forall p, occ_find p (occ st') = occ_find p O.
Proof.
  unfold round_trip_ok. destruct (recognise_round_trip ps) as [[[[nx ny] s] ws]|] eqn:R; [|discriminate].
  intros H. apply andb_true_iff in H. destruct H as [H Ho]. apply andb_true_iff in H. destruct H as [H Ht].
  apply andb_true_iff in H. destruct H as [Hs Hw]. rewrite (recognise_sound _ _ _ _ _ R).
  apply cz_round_trip.
  - apply wp_okb_ok, Hs.
  - apply Forall_forall. intros w I. apply wp_okb_ok. apply (proj1 (forallb_forall _ _) Hw w I).
  - intros x y Ix Iy. unfold on_traps in Ht.
    apply (proj1 (forallb_forall _ _) (proj1 (forallb_forall _ _) Ht x Ix) y Iy).
  - rewrite <- occ_wfb_wf. exact Ho.
Qed.

(* ====================================================================================================
   Transport: pick everything up on a grid w0 of trap sites, travel along any waypoints, release on the
   last grid wn (trap sites that are vacant, or vacated by this very move).  Shape of move_by_waypoints
   (pick and drop) and of two_col_zone.rearrange.
   ==================================================================================================== *)
Lemma spots_ok_unique_pos L a b : spots_ok L -> In a L -> In b L -> pos_eqb (snd a) (snd b) = true -> a = b.
Proof.
  induction L as [|x r IH]; simpl; intros O Ia Ib E; [contradiction|]. destruct O as [Hx O].
  destruct Ia as [<- | Ia], Ib as [<- | Ib].
  - reflexivity.
  - destruct (Hx b Ib) as [_ N]. rewrite pos_eqb_sym in E. rewrite E in N. discriminate.
  - destruct (Hx a Ia) as [_ N]. rewrite E in N. discriminate.
  - apply IH; assumption.
Qed.
Lemma find_pos_in L sp : spots_ok L -> In sp L -> find_pos (snd sp) L = Some sp.
Proof.
  intros O I. unfold find_pos. destruct (find (fun sp0 => pos_eqb (snd sp) (snd sp0)) L) as [sp'|] eqn:F.
  - destruct (find_some _ _ F) as [I' E]. f_equal. symmetry. apply (spots_ok_unique_pos L sp sp' O I I' E).
  - exfalso. pose proof (find_none _ _ F sp I) as X. simpl in X. rewrite pos_eqb_refl in X. discriminate.
Qed.
Lemma in_spots_canon_conv nx ny cx cy i j : i < nx -> j < ny ->
  In ((i, j), (nth i cx 0%Q, nth j cy 0%Q)) (spots_of (canon nx cx) (canon ny cy)).
Proof.
  intros Hi Hj. unfold spots_of, canon. apply in_flat_map. exists (i, nth i cx 0%Q). split.
  - apply in_map_iff. exists i. split; [reflexivity | apply in_seq; lia].
  - apply in_map_iff. exists (j, nth j cy 0%Q). split; [reflexivity|]. apply in_map_iff. exists j. split; [reflexivity | apply in_seq; lia].
Qed.
Lemma cur_after_cons w : forall ws cur, cur_after (w :: ws) cur = Some (last (w :: ws) w).
Proof.
  unfold cur_after. intros ws. revert w. induction ws as [|v r IH]; intros w cur; [reflexivity|].
  change (fold_left (fun _ x => Some x) (v :: r) (Some w) = Some (last (v :: r) w)).
  rewrite (IH v (Some w)). f_equal. apply last_default_irrelevant.
Qed.

Theorem transport nx ny (T : list pos) (O : list (pos * nat)) (w0 : list Q * list Q) (ws : list (list Q * list Q)) :
  let wn := last (w0 :: ws) w0 in
  let Lsrc := spots_of (canon nx (fst w0)) (canon ny (snd w0)) in
  wp_ok nx ny w0 -> Forall (wp_ok nx ny) ws ->
  (forall x y, In x (fst w0) -> In y (snd w0) -> existsb (pos_eqb (x, y)) T = true) ->
  (forall x y, In x (fst wn) -> In y (snd wn) -> existsb (pos_eqb (x, y)) T = true) ->
  (forall x y, In x (fst wn) -> In y (snd wn) -> occ_find (x, y) O = None \/ has_pos (x, y) Lsrc = true) ->
  occ_wf O = true ->
  exists st', sim_paths (mkast T O [] [] [])
                [mkspath nx ny [SWay [w0]; SSwitch On ALL ALL; SWay (w0 :: ws); SSwitch Off ALL ALL; SWay [wn]]] = AOk st' /\
    traps st' = T /\ xon st' = [] /\ yon st' = [] /\ held st' = [] /\
    (* the atom under tone (i, j) travels from the (i, j) site of w0 to the (i, j) site of wn *)
    (forall i j, i < nx -> j < ny ->
       occ_find (nth i (fst wn) 0%Q, nth j (snd wn) 0%Q) (occ st') = occ_find (nth i (fst w0) 0%Q, nth j (snd w0) 0%Q) O) /\
    (* every other site is unchanged, except that the sites of w0 are vacated *)
    (forall p, has_pos p (spots_of (canon nx (fst wn)) (canon ny (snd wn))) = false ->
       occ_find p (occ st') = if has_pos p Lsrc then None else occ_find p O).
Proof.
  intros wn Lsrc H0 Hws Ht0 Htn Hvac Hocc.
  assert (Hall : Forall (wp_ok nx ny) (w0 :: ws)) by (constructor; assumption).
  assert (Hn : wp_ok nx ny wn).
  { unfold wn. apply (proj1 (Forall_forall _ _) Hall). destruct ws as [|v r]; [left; reflexivity|].
    pose proof (@app_removelast_last _ (w0 :: v :: r) w0 ltac:(discriminate)) as E. rewrite E at 2. apply in_or_app. right. left. reflexivity. }
  destruct w0 as [sx sy]. destruct wn as [ex ey] eqn:Ewn. simpl fst in *. simpl snd in *.
  destruct H0 as [Lx [Ly [Dx Dy]]]. destruct Hn as [Mx [My [Ex Ey]]]. simpl fst in *. simpl snd in *.
  set (Ldst := spots_of (canon nx ex) (canon ny ey)).
  assert (OkS : spots_ok Lsrc) by (unfold Lsrc; apply spots_ok_product; [rewrite <- Lx | rewrite <- Ly]; apply tones_ok_canon; assumption).
  assert (OkD : spots_ok Ldst) by (unfold Ldst; apply spots_ok_product; [rewrite <- Mx | rewrite <- My]; apply tones_ok_canon; assumption).
  assert (TrS : forall st, traps st = T -> forall sp, In sp Lsrc -> is_trap st (snd sp) = true).
  { intros st Et sp I. apply in_spots_canon in I. destruct I as [i [j [Hi [Hj ->]]]]. unfold is_trap. rewrite Et. simpl. apply Ht0; apply nth_In; lia. }
  assert (TrD : forall st, traps st = T -> forall sp, In sp Ldst -> is_trap st (snd sp) = true).
  { intros st Et sp I. apply in_spots_canon in I. destruct I as [i [j [Hi [Hj ->]]]]. unfold is_trap. rewrite Et. simpl. apply Htn; apply nth_In; lia. }
  destruct (picks_spec Lsrc (mkast T O (canon nx sx) (canon ny sy) []) OkS) as [st2 [E2 [[F1 [F2 F3]] [W2 [O2 H2]]]]].
  { apply TrS. reflexivity. }
  { split; [exact Hocc | constructor]. }
  { intros sp _. reflexivity. }
  destruct st2 as [T2 Oc2 X2 Y2 Hd2]. simpl in F1, F2, F3, O2, H2. subst T2 X2 Y2.
  destruct (drops_spec Ldst (mkast T Oc2 [] [] Hd2) OkD) as [st4 [E4 [[G1 [G2 G3]] [W4 [O4 H4]]]]].
  { apply TrD. reflexivity. }
  { exact W2. }
  { intros sp a I _. simpl. rewrite O2. destruct (has_pos (snd sp) Lsrc) eqn:Hp; [reflexivity|].
    apply in_spots_canon in I. destruct I as [i [j [Hi [Hj ->]]]]. simpl snd in *.
    destruct (Hvac (nth i ex 0%Q) (nth j ey 0%Q)) as [V | V]; [apply nth_In; lia | apply nth_In; lia | exact V |].
    fold Lsrc in V. rewrite V in Hp. discriminate. }
  destruct st4 as [T4 Oc4 X4 Y4 Hd4]. simpl in G1, G2, G3, O4, H4. subst T4 X4 Y4.
  exists (mkast T Oc4 [] [] Hd4).
  split; [|split; [reflexivity | split; [reflexivity | split; [reflexivity | split; [|split]]]]].
  - unfold sim_paths. cbn [fold_a p_nx p_ny p_actions sim_actions].
    assert (W0 : wp_ok nx ny (sx, sy)) by (repeat split; assumption).
    rewrite (way_off nx ny [(sx, sy)] T O [] true None (Forall_cons _ W0 (Forall_nil _))). cbn [cur_after fold_left].
    rewrite (switch_on_all nx ny T O [] sx sy Lx Ly Dx Dy). fold Lsrc. rewrite E2.
    rewrite (way_on nx ny ((sx, sy) :: ws) T Oc2 Hd2 sx sy true (Some (sx, sy)) Hall (fun _ => eq_refl)).
    assert (Ewn' : last ((sx, sy) :: ws) (sx, sy) = (ex, ey)) by exact Ewn.
    rewrite Ewn'. simpl fst. simpl snd. rewrite cur_after_cons.
    rewrite (switch_off_all nx ny T Oc2 Hd2 ex ey (last ((sx, sy) :: ws) (sx, sy))). fold Ldst. rewrite E4.
    assert (Wn : wp_ok nx ny (ex, ey)) by (repeat split; assumption).
    rewrite (way_off nx ny [(ex, ey)] T Oc4 Hd4 true _ (Forall_cons _ Wn (Forall_nil _))). reflexivity.
  - simpl. apply held_all_none. intros t. rewrite H4. simpl. destruct (has_id t Ldst) eqn:Hi; [reflexivity|].
    rewrite H2. destruct (find_id t Lsrc) as [sp|] eqn:Fi; [|reflexivity].
    (* a spot of the source grid is a spot of the destination grid: same tone pair *)
    exfalso. destruct (find_some _ _ Fi) as [I E]. apply spot_eqb_eq in E. apply in_spots_canon in I.
    destruct I as [i [j [Hi' [Hj' ->]]]]. simpl in E. subst t.
    assert (X : has_id (i, j) Ldst = true).
    { unfold has_id. apply existsb_exists. eexists. split; [apply (in_spots_canon_conv nx ny ex ey i j Hi' Hj') | apply spot_eqb_refl]. }
    rewrite X in Hi. discriminate.
  - intros i j Hi Hj. simpl. rewrite O4. simpl.
    pose proof (find_pos_in Ldst ((i, j), (nth i ex 0%Q, nth j ey 0%Q)) OkD (in_spots_canon_conv nx ny ex ey i j Hi Hj)) as Fp.
    pose proof (find_id_in Lsrc ((i, j), (nth i sx 0%Q, nth j sy 0%Q)) OkS (in_spots_canon_conv nx ny sx sy i j Hi Hj)) as Fi.
    simpl snd in Fp. simpl fst in Fi. rewrite Fp. simpl fst. rewrite H2, Fi. simpl snd.
    destruct (occ_find (nth i sx 0%Q, nth j sy 0%Q) O) as [a|]; [reflexivity|].
    rewrite O2. destruct (has_pos (nth i ex 0%Q, nth j ey 0%Q) Lsrc) eqn:Hp; [reflexivity|].
    destruct (Hvac (nth i ex 0%Q) (nth j ey 0%Q)) as [V | V]; [apply nth_In; lia | apply nth_In; lia | exact V |].
    fold Lsrc in V. rewrite V in Hp. discriminate.
  - intros p Hp. simpl. rewrite O4. simpl. fold Ldst in Hp. rewrite (find_pos_none p Ldst Hp). apply O2.
Qed.

(* ---------- from the boolean transport recogniser to the theorem ---------- *)
Lemma recognise_transport_sound ps nx ny w0 ws : recognise_transport ps = Some (nx, ny, w0, ws) ->
  ps = [mkspath nx ny [SWay [w0]; SSwitch On ALL ALL; SWay (w0 :: ws); SSwitch Off ALL ALL; SWay [last (w0 :: ws) w0]]].
Proof.
  unfold recognise_transport. intros H.
  repeat match goal with
         | H : match ?x with _ => _ end = Some _ |- _ => destruct x eqn:?; try discriminate
         end.
  inversion H; subst.
  repeat match goal with
         | H : _ && _ = true |- _ => apply andb_true_iff in H; destruct H
         end.
  repeat match goal with
         | H : is_all _ = true |- _ => apply is_all_eq in H
         | H : wp_eqb _ _ = true |- _ => apply wp_eqb_eq in H
         end.
  subst. reflexivity.
Qed.

Lemma in_grid_sites w x y : In x (fst w) -> In y (snd w) -> In (x, y) (grid_sites w).
Proof.
  intros Ix Iy. unfold grid_sites. apply in_flat_map. exists x. split; [exact Ix|]. apply in_map_iff. exists y. split; [reflexivity | exact Iy].
Qed.
Lemma has_pos_of_grid_sites nx ny w p : length (fst w) = nx -> length (snd w) = ny ->
  existsb (pos_eqb p) (grid_sites w) = true -> has_pos p (spots_of (canon nx (fst w)) (canon ny (snd w))) = true.
Proof.
  intros Lx Ly H. apply existsb_exists in H. destruct H as [q [I E]]. unfold grid_sites in I.
  apply in_flat_map in I. destruct I as [x [Ix I]]. apply in_map_iff in I. destruct I as [y [<- Iy]].
  destruct (In_nth _ _ 0%Q Ix) as [i [Hi Ei]]. destruct (In_nth _ _ 0%Q Iy) as [j [Hj Ej]].
  unfold has_pos. apply existsb_exists. exists ((i, j), (nth i (fst w) 0%Q, nth j (snd w) 0%Q)). split.
  - apply in_spots_canon_conv; lia.
  - simpl. rewrite Ei, Ej. exact E.
Qed.

Theorem recognised_transport_executable T O ps nx ny w0 ws :
  recognise_transport ps = Some (nx, ny, w0, ws) -> transport_ok T O ps = true ->
  let wn := last (w0 :: ws) w0 in
  exists st', sim_paths (mkast T O [] [] []) ps = AOk st' /\
    traps st' = T /\ xon st' = [] /\ yon st' = [] /\ held st' = [] /\
    (forall i j, i < nx -> j < ny ->
       occ_find (nth i (fst wn) 0%Q, nth j (snd wn) 0%Q) (occ st') = occ_find (nth i (fst w0) 0%Q, nth j (snd w0) 0%Q) O) /\
    (forall p, has_pos p (spots_of (canon nx (fst wn)) (canon ny (snd wn))) = false ->
       occ_find p (occ st') = if has_pos p (spots_of (canon nx (fst w0)) (canon ny (snd w0))) then None else occ_find p O).
Proof.
  intros R H wn. unfold transport_ok in H. rewrite R in H.
  repeat match goal with
         | H : _ && _ = true |- _ => apply andb_true_iff in H; destruct H
         end.
  rewrite (recognise_transport_sound _ _ _ _ _ R).
  match goal with
  | H1 : wp_okb nx ny w0 = true, H2 : forallb (wp_okb nx ny) ws = true, H3 : on_traps T w0 = true,
    H4 : on_traps T _ = true, H5 : occ_wfb O = true, H6 : forallb _ (grid_sites _) = true |- _ =>
      pose proof (wp_okb_ok _ _ _ H1) as W0;
      apply (transport nx ny T O w0 ws W0)
  end.
  - apply Forall_forall. intros w I. apply wp_okb_ok. match goal with H2 : forallb (wp_okb nx ny) ws = true |- _ => apply (proj1 (forallb_forall _ _) H2 w I) end.
  - intros x y Ix Iy. match goal with H3 : on_traps T w0 = true |- _ => unfold on_traps in H3; apply (proj1 (forallb_forall _ _) (proj1 (forallb_forall _ _) H3 x Ix) y Iy) end.
  - intros x y Ix Iy. match goal with H4 : on_traps T (last (w0 :: ws) w0) = true |- _ => unfold on_traps in H4; apply (proj1 (forallb_forall _ _) (proj1 (forallb_forall _ _) H4 x Ix) y Iy) end.
  - intros x y Ix Iy.
    match goal with H6 : forallb _ (grid_sites _) = true |- _ => pose proof (proj1 (forallb_forall _ _) H6 (x, y) (in_grid_sites _ x y Ix Iy)) as V end.
    simpl in V. destruct (occ_find (x, y) O); [right | left; reflexivity].
    destruct W0 as [Lx [Ly _]]. apply (has_pos_of_grid_sites nx ny w0 (x, y) Lx Ly V).
  - match goal with H5 : occ_wfb O = true |- _ => rewrite <- occ_wfb_wf; exact H5 end.
Qed.
