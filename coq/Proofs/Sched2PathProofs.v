From Coq Require Import String.
From Coq Require Import List Bool Lia.
From BS Require Import Model.Sched2Path.
Import ListNotations.

(* induction over nested blocks *)
Fixpoint sched_ind' (P : sched -> Prop)
    (Hc : forall c, P (SCall c))
    (Hb : forall k body, Forall P body -> P (SBlock k body)) (s : sched) : P s :=
  match s with
  | SCall c => Hc c
  | SBlock k body =>
      Hb k body ((fix go (l : list sched) : Forall P l :=
                    match l with
                    | [] => Forall_nil P
                    | x :: r => Forall_cons x (sched_ind' P Hc Hb x) (go r)
                    end) body)
  end.

Fixpoint ptree_ind' (P : ptree -> Prop)
    (Hg : forall c, P (PGen c))
    (Hp : forall k ms, Forall P ms -> P (PGroup k ms)) (t : ptree) : P t :=
  match t with
  | PGen c => Hg c
  | PGroup k ms =>
      Hp k ms ((fix go (l : list ptree) : Forall P l :=
                  match l with
                  | [] => Forall_nil P
                  | x :: r => Forall_cons x (ptree_ind' P Hg Hp x) (go r)
                  end) ms)
  end.

Lemma kind_eqb_refl k : kind_eqb k k = true.
Proof. destruct k; reflexivity. Qed.
Lemma kind_eqb_eq a b : kind_eqb a b = true <-> a = b.
Proof. destruct a, b; simpl; split; intros H; try reflexivity; discriminate. Qed.

(* unfolding equations (the inner fixes are flat_map) *)
Lemma spec_members_block k k' body :
  spec_members k (SBlock k' body) =
  if kind_eqb k k' then flat_map (spec_members k') body else [PGroup k' (flat_map (spec_members k') body)].
Proof. reflexivity. Qed.

Lemma canon_node_block parent k body :
  canon_node parent (SBlock k body) =
  let body' := flat_map (canon_node (Some k)) body in
  match parent with
  | Some pk =>
      if kind_eqb pk k then
        filter (fun x => negb (is_kind k x)) body' ++
        (match filter (is_kind k) body' with [] => [] | rest => [SBlock k rest] end)
      else [SBlock k body']
  | None => [SBlock k body']
  end.
Proof. destruct parent as [pk|]; [|reflexivity]. simpl. destruct (kind_eqb pk k); [|reflexivity].
       destruct (filter (is_kind k) _); reflexivity. Qed.

Lemma to_rstmt_block k body : to_rstmt (SBlock k body) = [RRegion k (flat_map to_rstmt body)].
Proof. reflexivity. Qed.

Lemma lift_region k body :
  lift_stmt (RRegion k body) =
  mark_used (flat_map lift_stmt body) ++ [LFree (PGroup k (free_of (flat_map lift_stmt body)))].
Proof. reflexivity. Qed.

(* ---- Canonicalize: after the walk, a block never contains a block of its own kind ---- *)
Lemma canon_no_same_kind s : forall k, Forall (fun x => is_kind k x = false) (canon_node (Some k) s).
Proof.
  induction s as [c | k' body IH] using sched_ind'; intros k.
  - simpl. constructor; [reflexivity | constructor].
  - rewrite canon_node_block. cbv zeta.
    set (body' := flat_map (canon_node (Some k')) body).
    assert (Hb : Forall (fun x => is_kind k' x = false) body').
    { unfold body'. clear -IH. induction body as [|x r IHr]; simpl; [constructor|].
      inversion IH; subst. apply Forall_app. split; [apply H1 | apply IHr; assumption]. }
    destruct (kind_eqb k k') eqn:E.
    + apply kind_eqb_eq in E. subst k'.
      assert (Hrest : filter (is_kind k) body' = []).
      { clear -Hb. induction body' as [|x r IHr]; simpl; [reflexivity|].
        inversion Hb; subst. rewrite H1. apply IHr. assumption. }
      rewrite Hrest, app_nil_r.
      apply Forall_forall. intros x Hx. apply filter_In in Hx as [Hx _].
      rewrite Forall_forall in Hb. apply Hb, Hx.
    + constructor; [simpl; exact E | constructor].
Qed.

Lemma filter_all_false {A} (f : A -> bool) l : Forall (fun x => f x = false) l -> filter f l = [].
Proof. induction 1 as [|x r Hx _ IH]; simpl; [reflexivity | rewrite Hx; exact IH]. Qed.
Lemma filter_all_true {A} (f : A -> bool) l : Forall (fun x => f x = true) l -> filter f l = l.
Proof. induction 1 as [|x r Hx _ IH]; simpl; [reflexivity | rewrite Hx, IH; reflexivity]. Qed.

Lemma canon_body_no_same_kind k body :
  Forall (fun x => is_kind k x = false) (flat_map (canon_node (Some k)) body).
Proof.
  induction body as [|x r IH]; simpl; [constructor|].
  apply Forall_app. split; [apply canon_no_same_kind | exact IH].
Qed.

(* the literal rule therefore never has to leave a remainder behind the moved statements *)
Lemma canon_node_same k body :
  canon_node (Some k) (SBlock k body) = flat_map (canon_node (Some k)) body.
Proof.
  rewrite canon_node_block. cbv zeta. rewrite kind_eqb_refl.
  pose proof (canon_body_no_same_kind k body) as H.
  rewrite (filter_all_false _ _ H), app_nil_r.
  apply filter_all_true. eapply Forall_impl; [|exact H]. intros x Hx. simpl. rewrite Hx. reflexivity.
Qed.

(* ---- trees ---- *)
Fixpoint tp (s : sched) : ptree :=
  match s with
  | SCall c => PGen c
  | SBlock k body => PGroup k ((fix go (l : list sched) : list ptree :=
                                  match l with [] => [] | x :: r => tp x :: go r end) body)
  end.
Lemma tp_block k body : tp (SBlock k body) = PGroup k (map tp body).
Proof. reflexivity. Qed.

(* (A) canonicalised children, as trees, are the members the property asks for *)
Lemma canon_is_spec s : forall k, map tp (canon_node (Some k) s) = spec_members k s.
Proof.
  induction s as [c | k' body IH] using sched_ind'; intros k.
  - reflexivity.
  - rewrite spec_members_block.
    assert (Hm : map tp (flat_map (canon_node (Some k')) body) = flat_map (spec_members k') body).
    { clear -IH. induction body as [|x r IHr]; simpl; [reflexivity|].
      inversion IH; subst. rewrite map_app, H1, IHr; auto. }
    destruct (kind_eqb k k') eqn:E.
    + apply kind_eqb_eq in E. subst k'. rewrite canon_node_same. exact Hm.
    + rewrite canon_node_block. cbv zeta. rewrite E. cbn [map]. rewrite tp_block, Hm. reflexivity.
Qed.

(* (B) the use-count rule of RewriteScheduleRegion selects exactly the direct children *)
Lemma free_of_app a b : free_of (a ++ b) = free_of a ++ free_of b.
Proof. unfold free_of. apply flat_map_app. Qed.
Lemma free_of_mark_used l : free_of (mark_used l) = [].
Proof. induction l; simpl; auto. Qed.

Lemma members_by_uses s : free_of (flat_map lift_stmt (to_rstmt s)) = [tp s].
Proof.
  induction s as [c | k body IH] using sched_ind'.
  - reflexivity.
  - rewrite to_rstmt_block. cbn [flat_map]. rewrite app_nil_r, lift_region, free_of_app, free_of_mark_used.
    cbn [app free_of flat_map]. rewrite tp_block. do 2 f_equal.
    clear -IH. induction body as [|x r IHr]; simpl; [reflexivity|].
    inversion IH; subst. rewrite !flat_map_app, free_of_app, H1, IHr; auto.
Qed.

(* ---- the refinement ---- *)
Theorem impl_block_is_spec k body : impl_block k body = spec_block k body.
Proof.
  unfold impl_block, spec_block. rewrite canon_node_block. cbv zeta. cbv iota beta.
  rewrite members_by_uses, tp_block. f_equal.
  induction body as [|x r IH]; simpl; [reflexivity|].
  rewrite map_app, canon_is_spec, IH. reflexivity.
Qed.

Theorem compile_impl_is_spec p : compile_impl p = compile_spec p.
Proof.
  unfold compile_impl, compile_spec.
  assert (H : forall i, compile_impl_item i = compile_spec_item i).
  { fix IH 1. intros [c | k body | t | t e | b]; simpl.
    - reflexivity.
    - rewrite impl_block_is_spec. reflexivity.
    - reflexivity.
    - f_equal; [induction t as [|x r IHr] | induction e as [|x r IHr]]; simpl; try reflexivity; rewrite IH, IHr; reflexivity.
    - f_equal. induction b as [|x r IHr]; simpl; [reflexivity | rewrite IH, IHr; reflexivity]. }
  apply map_ext. exact H.
Qed.

(* ---- what the specification guarantees (the property's clauses) ---- *)
Lemma ptree_calls_group k ms : ptree_calls (PGroup k ms) = flat_map ptree_calls ms.
Proof. reflexivity. Qed.
Lemma sched_calls_block k body : sched_calls (SBlock k body) = flat_map sched_calls body.
Proof. reflexivity. Qed.

Lemma spec_members_calls s : forall k, flat_map ptree_calls (spec_members k s) = sched_calls s.
Proof.
  induction s as [c | k' body IH] using sched_ind'; intros k.
  - reflexivity.
  - rewrite spec_members_block, sched_calls_block.
    assert (H : flat_map ptree_calls (flat_map (spec_members k') body) = flat_map sched_calls body).
    { clear -IH. induction body as [|x r IHr]; simpl; [reflexivity|].
      inversion IH; subst. rewrite flat_map_app, H1, IHr; auto. }
    destruct (kind_eqb k k'); [exact H|]. simpl. rewrite app_nil_r. exact H.
Qed.

(* same calls, in source order, each exactly once, callee and arguments untouched *)
Theorem calls_preserved p : flat_map pitem_calls (compile_spec p) = flat_map item_calls p.
Proof.
  unfold compile_spec.
  assert (H : forall i, pitem_calls (compile_spec_item i) = item_calls i).
  { fix IH 1. intros [c | k body | t | t e | b].
    - reflexivity.
    - cbn [compile_spec_item pitem_calls item_calls]. unfold spec_block. rewrite ptree_calls_group.
      induction body as [|x r IHr]; [reflexivity|].
      cbn [flat_map]. rewrite flat_map_app, spec_members_calls, IHr. reflexivity.
    - reflexivity.
    - cbn [compile_spec_item pitem_calls item_calls].
      f_equal; [induction t as [|x r IHr] | induction e as [|x r IHr]]; cbn [map flat_map]; try reflexivity; rewrite IH, IHr; reflexivity.
    - cbn [compile_spec_item pitem_calls item_calls].
      induction b as [|x r IHr]; cbn [map flat_map]; [reflexivity | rewrite IH, IHr; reflexivity]. }
  induction p as [|i p IHp]; simpl; [reflexivity | rewrite H, IHp; reflexivity].
Qed.

(* exactly one item per source item: a call or block becomes one Play, everything else stays put *)
Theorem one_play_per_top_level p :
  length (compile_spec p) = length p /\
  forall n, match nth_error p n, nth_error (compile_spec p) n with
            | Some (ICall _), Some (PPlay (PGen _)) => True
            | Some (IBlock k _), Some (PPlay (PGroup k' _)) => k = k'
            | Some (IOther t), Some (POther t') => t = t'
            | Some (IIf _ _), Some (PIf _ _) => True
            | Some (IFor _), Some (PFor _) => True
            | None, None => True
            | _, _ => False
            end.
Proof.
  unfold compile_spec. split; [apply map_length|].
  intros n. rewrite nth_error_map. destruct (nth_error p n) as [[c | k body | t | t e | b]|]; simpl; auto.
Qed.

(* merged: no group directly contains a group of its own kind *)
Lemma nsk_group k ms :
  no_same_kind_child (PGroup k ms) =
  forallb (fun x => (match x with PGroup k' _ => negb (kind_eqb k k') | PGen _ => true end) && no_same_kind_child x) ms.
Proof. simpl. induction ms as [|x r IH]; [reflexivity|]. rewrite IH. simpl. reflexivity. Qed.

Lemma spec_members_merged s : forall k,
  forallb (fun x => (match x with PGroup k' _ => negb (kind_eqb k k') | PGen _ => true end) && no_same_kind_child x)
          (spec_members k s) = true.
Proof.
  induction s as [c | k' body IH] using sched_ind'; intros k.
  - reflexivity.
  - rewrite spec_members_block.
    assert (H : forall k0, (forall x, In x body -> forallb (fun x => (match x with PGroup k'' _ => negb (kind_eqb k0 k'') | PGen _ => true end) && no_same_kind_child x) (spec_members k0 x) = true) ->
              forallb (fun x => (match x with PGroup k'' _ => negb (kind_eqb k0 k'') | PGen _ => true end) && no_same_kind_child x) (flat_map (spec_members k0) body) = true).
    { intros k0 Hx. clear IH. induction body as [|x r IHr]; simpl; [reflexivity|].
      rewrite forallb_app, Hx by (left; reflexivity). simpl. apply IHr. intros y Hy. apply Hx. right; exact Hy. }
    rewrite Forall_forall in IH.
    destruct (kind_eqb k k') eqn:E.
    + apply kind_eqb_eq in E. subst k'. apply H. intros x Hx. apply IH. exact Hx.
    + cbn [forallb]. rewrite E. cbn [negb andb]. rewrite andb_true_r.
      rewrite nsk_group. apply H. intros x Hx. apply IH. exact Hx.
Qed.

Theorem spec_block_merged k body : no_same_kind_child (spec_block k body) = true.
Proof.
  unfold spec_block. rewrite nsk_group.
  induction body as [|x r IH]; simpl; [reflexivity|].
  rewrite forallb_app, spec_members_merged. exact IH.
Qed.
