(* arch.py's bounding_box is written with +-infinity sentinels and min / max; Model/Arch.v writes it with options.  This file
   states the sentinel form over a step that is a PARAMETER (what the translator of arch.py emits is an instance) and proves
   that, for the step the model uses, the two forms agree on every layout.  Proofs only. *)
From Coq Require Import String.
From Coq Require Import ZArith QArith List Bool.
From BS Require Import Core.Show Core.Base Core.GridQ Model.Arch.
Import ListNotations.

Inductive ext := NegInf | Fin (q : Q) | PosInf.

(* Python's min(acc, v) / max(acc, v) with a float('inf') / float('-inf') start (coordinates are finite) *)
Definition emin (a : ext) (v : Q) : ext :=
  match a with PosInf => Fin v | Fin x => Fin (qmin x v) | NegInf => NegInf end.
Definition emax (a : ext) (v : Q) : ext :=
  match a with NegInf => Fin v | Fin x => Fin (qmax x v) | PosInf => PosInf end.
Definition is_posinf (a : ext) : bool := match a with PosInf => true | _ => false end.
Definition is_neginf (a : ext) : bool := match a with NegInf => true | _ => false end.
Definition fin_of (a : ext) : Q := match a with Fin q => q | _ => 0 end.

Definition sacc := (ext * ext * ext * ext)%type.
Definition sstart : sacc := (PosInf, NegInf, PosInf, NegInf).

(* the loop body of the model, in sentinel form *)
Definition sstep (acc : sacc) (g : gridq) : sacc :=
  let '(a, b, c, d) := acc in
  match xin g, yin g with
  | Some x, Some y => (emin a x, emax b (x + width g), emin c y, emax d (y + height g))
  | _, _ => acc
  end.

Definition sfinish (acc : sacc) : res (Q * Q * Q * Q) :=
  let '(a, b, c, d) := acc in
  if is_posinf a || is_neginf b || is_posinf c || is_neginf d then Err EValue
  else Ok (fin_of a, fin_of b, fin_of c, fin_of d).

Definition bounding_box_sentinel (l : layout) : res (Q * Q * Q * Q) :=
  sfinish (fold_left sstep (map (fun e => geom (snd e)) (entries l)) sstart).

(* ---- the two forms agree ---- *)
Definition omin_of (a : ext) : option Q := match a with Fin q => Some q | _ => None end.
Definition rel (s : sacc) (o : bbox_acc) : Prop :=
  let '(a, b, c, d) := s in
  a <> NegInf /\ b <> PosInf /\ c <> NegInf /\ d <> PosInf /\
  bxmin o = omin_of a /\ bxmax o = omin_of b /\ bymin o = omin_of c /\ bymax o = omin_of d.

Lemma emin_omin a v : a <> NegInf -> omin_of (emin a v) = omin (omin_of a) v /\ emin a v <> NegInf.
Proof. destruct a; cbn; intros H; [contradiction | split; [reflexivity | discriminate] | split; [reflexivity | discriminate]]. Qed.
Lemma emax_omax a v : a <> PosInf -> omin_of (emax a v) = omax (omin_of a) v /\ emax a v <> PosInf.
Proof. destruct a; cbn; intros H; [split; [reflexivity | discriminate] | split; [reflexivity | discriminate] | contradiction]. Qed.

Lemma rel_step s o g : rel s o -> rel (sstep s g) (bbox_step o g).
Proof.
  destruct s as [[[a b] c] d]. intros (Ha & Hb & Hc & Hd & E1 & E2 & E3 & E4).
  unfold sstep, bbox_step. destruct (xin g) as [x|], (yin g) as [y|]; try (repeat split; assumption).
  destruct (emin_omin a x Ha) as [F1 N1], (emax_omax b (x + width g) Hb) as [F2 N2],
           (emin_omin c y Hc) as [F3 N3], (emax_omax d (y + height g) Hd) as [F4 N4].
  cbn [rel bxmin bxmax bymin bymax]. rewrite E1, E2, E3, E4, F1, F2, F3, F4. repeat split; assumption.
Qed.

Lemma rel_fold gs : forall s o, rel s o -> rel (fold_left sstep gs s) (fold_left bbox_step gs o).
Proof. induction gs as [|g gs IH]; intros s o H; cbn [fold_left]; [exact H | apply IH, rel_step, H]. Qed.

Lemma rel_start : rel sstart (mkAcc None None None None).
Proof. cbn. repeat split; discriminate. Qed.

Theorem bounding_box_sentinel_eq : forall l, bounding_box_sentinel l = bounding_box l.
Proof.
  intros l. unfold bounding_box_sentinel, bounding_box.
  pose proof (rel_fold (map (fun e => geom (snd e)) (entries l)) _ _ rel_start) as H.
  destruct (fold_left sstep _ sstart) as [[[a b] c] d].
  destruct H as (Ha & Hb & Hc & Hd & E1 & E2 & E3 & E4). rewrite E1, E2, E3, E4. unfold sfinish.
  destruct a, b, c, d; cbn; try reflexivity; contradiction.
Qed.

(* ---- __post_init__ as a loop with a step that is given: the model's is `refuse a grid already indexed, else record it last` ---- *)
Definition index_step (ix : index) (e : string * gridv) : res index :=
  match index_find ix (snd e) with Some _ => Err EValue | None => Ok (ix ++ [(snd e, fst e)]) end.
Fixpoint loop_index (step : index -> string * gridv -> res index) (ix : index) (es : list (string * gridv)) : res index :=
  match es with
  | [] => Ok ix
  | e :: r => match step ix e with Ok ix' => loop_index step ix' r | Err x => Err x end
  end.
Lemma loop_index_model : forall es ix, loop_index index_step ix es = build_index_from ix es.
Proof.
  induction es as [|[n g] r IH]; intros ix; cbn [loop_index build_index_from]; [reflexivity|].
  unfold index_step; cbn [fst snd]. destruct (index_find ix g); [reflexivity | apply IH].
Qed.
