(* C05 - A device call yields the same path on every evaluation route.  Model/Gen3.v, for an
   ARBITRARY tracer, value type, kernel type and spec type.  Statements only. *)
From Coq Require Import String.
From Coq Require Import List Bool Permutation.
From BS Require Import Core.Base Model.Reverse Model.Gen3 Proofs.Gen3Proofs.
Import ListNotations.

Section C05.
  Variable V K S T : Type.
  Variable trace : S -> K -> list V -> res (list action).
  Variable sig_of : K -> list string.

  (* plain interpreter with the recorded spec = spec-carrying interpreter with that spec *)
  Theorem C05_main_is_spec_route : forall s t vals kw,
    gen_main V K S T trace sig_of (Some s) t vals kw = gen_spec V K S T trace sig_of s t vals kw.
  Proof. exact (main_is_spec_route V K S T trace sig_of). Qed.

  (* whatever folding produces is what the run-time routes produce (tones, actions, waypoints) *)
  Theorem C05_folded_path_is_runtime_path : forall s t vals kw xt yt p,
    gen_constprop V K S T trace sig_of (Some s) (Some t) (Some vals) kw = OPath xt yt p ->
    gen_main V K S T trace sig_of (Some s) t vals kw = OPath xt yt p /\
    gen_spec V K S T trace sig_of s t vals kw = OPath xt yt p.
  Proof. exact (constprop_path_is_runtime_path V K S T trace sig_of). Qed.
  Theorem C05_folding_is_runtime_evaluation : forall s t vals kw, t <> TOther ->
    gen_constprop V K S T trace sig_of (Some s) (Some t) (Some vals) kw = gen_main V K S T trace sig_of (Some s) t vals kw.
  Proof. exact (constprop_folds_what_runtime_computes V K S T trace sig_of). Qed.

  (* no spec / not a device function / failing kernel: no route returns a path *)
  Theorem C05_no_spec_no_path : forall t vals kw tc ic,
    gen_main V K S T trace sig_of None t vals kw = ORaise /\
    gen_constprop V K S T trace sig_of None tc ic kw = OTop.
  Proof. exact (no_spec_no_path V K S T trace sig_of). Qed.
  Theorem C05_not_a_device_function_no_path : forall s stamped vals kw ic,
    gen_main V K S T trace sig_of stamped TOther vals kw = ORaise /\
    gen_spec V K S T trace sig_of s TOther vals kw = ORaise /\
    is_path T (gen_constprop V K S T trace sig_of stamped (Some TOther) ic kw) = false.
  Proof. exact (not_a_device_function_no_path V K S T trace sig_of). Qed.
  Theorem C05_kernel_fails_no_path : forall s t vals kw,
    (forall k args, trace s k args = Err EInterp) ->
    gen_main V K S T trace sig_of (Some s) t vals kw = ORaise /\
    gen_spec V K S T trace sig_of s t vals kw = ORaise /\
    is_path T (gen_constprop V K S T trace sig_of (Some s) (Some t) (Some vals) kw) = false.
  Proof. exact (kernel_fails_no_path V K S T trace sig_of). Qed.

  (* reversed wrapper: the reversed path of the forward wrapper, same tones *)
  Theorem C05_reversed_task : forall s k xt yt vals kw p,
    core V K S T trace sig_of s (TDev k xt yt) vals kw = OPath xt yt p ->
    core V K S T trace sig_of s (TRev k xt yt) vals kw = OPath xt yt (reverse_path p).
  Proof. exact (reversed_task_gives_reversed_path V K S T trace sig_of). Qed.

  (* keyword arguments: every order of the keyword pairs gives the same ordered argument list,
     which is positionals followed by the remaining parameters in signature order *)
  Theorem C05_keyword_order_irrelevant : forall sig pos kws kws',
    NoDup (map fst kws) -> Permutation kws kws' ->
    permute V sig (pos ++ map snd kws) (map fst kws) = permute V sig (pos ++ map snd kws') (map fst kws').
  Proof. exact (permute_kw_order_irrelevant V). Qed.
  Theorem C05_arguments_in_signature_order : forall sig pos kws args,
    kws <> [] -> permute V sig (pos ++ map snd kws) (map fst kws) = Ok args ->
    exists l, args = pos ++ l /\ Forall2 (fun n v => lookup_kw V n kws = Some v) (skipn (length pos) sig) l.
  Proof. exact (permute_is_signature_order V). Qed.
End C05.

Example C05_example :
  permute nat ["a"; "b"; "c"; "d"]%string [10; 40; 20; 30] ["d"; "b"; "c"]%string = Ok [10; 20; 30; 40]
  /\ permute nat ["a"; "b"]%string [10; 20] ["x"]%string = Err EKey.
Proof. split; reflexivity. Qed.

Print Assumptions C05_main_is_spec_route.
Print Assumptions C05_folded_path_is_runtime_path.
Print Assumptions C05_folding_is_runtime_evaluation.
Print Assumptions C05_no_spec_no_path.
Print Assumptions C05_not_a_device_function_no_path.
Print Assumptions C05_kernel_fails_no_path.
Print Assumptions C05_reversed_task.
Print Assumptions C05_keyword_order_irrelevant.
Print Assumptions C05_arguments_in_signature_order.
