(* C12 - A filled grid is its underlying grid minus its vacancies, under all operations.
   The model (Model/Filled.v) is parametric in the underlying grid type and its operations, so
   every statement holds whatever bloqade.geometry computes for shape / get_view / shift / scale /
   repeat / positions.  Statements only. *)
From Coq Require Import QArith List Bool Arith.
From BS Require Import Core.Base Model.Filled Proofs.FilledProofs Proofs.FilledAlgebra.
Import ListNotations.
Local Open Scope nat_scope.

Section C12.
  Variable G : Type.
  Variable g_shape : G -> nat * nat.
  Variable g_view : G -> list nat -> list nat -> res G.
  Variable g_shift g_scale : G -> Q -> Q -> G.
  Variable g_repeat : G -> nat -> nat -> Q -> Q -> res G.
  Variable g_eqb : G -> G -> bool.
  Variable g_xpos g_ypos : G -> list Q.

  (* denotation: occupied sites = sites of the underlying grid minus the vacancies *)
  Theorem C12_positions_denotation : forall v,
    fpositions G g_xpos g_ypos v = occupied G g_xpos g_ypos v.
  Proof. exact (positions_denotation G g_xpos g_ypos). Qed.

  (* fill removes, vacate adds, cumulatively; the underlying grid is untouched *)
  Theorem C12_fill_plain : forall g l p,
    In p (vacancies G (fill G g_shape (FPlain G g) l)) <-> In p (all_idx (g_shape g)) /\ ~ In p l.
  Proof. exact (fill_plain G g_shape). Qed.
  Theorem C12_fill_filled : forall r vac l p,
    In p (vacancies G (fill G g_shape (FFilled G r vac) l)) <-> In p vac /\ ~ In p l.
  Proof. exact (fill_filled G g_shape). Qed.
  Theorem C12_fill_root : forall v l, root G (fill G g_shape v l) = root G v.
  Proof. exact (fill_root G g_shape). Qed.
  Theorem C12_vacate_vacancies : forall v l p,
    In p (vacancies G (vacate G v l)) <-> In p (vacancies G v) \/ In p l.
  Proof. exact (vacate_vacancies G). Qed.
  Theorem C12_vacate_root : forall v l, root G (vacate G v l) = root G v.
  Proof. exact (vacate_root G). Qed.

  (* shift and scale transform the underlying grid and keep the vacancy set *)
  Theorem C12_shift_commutes : forall v dx dy,
    root G (fshift G g_shift v dx dy) = g_shift (root G v) dx dy /\
    vacancies G (fshift G g_shift v dx dy) = vacancies G v.
  Proof. exact (shift_commutes G g_shift). Qed.
  Theorem C12_scale_commutes : forall v sx sy,
    root G (fscale G g_scale v sx sy) = g_scale (root G v) sx sy /\
    vacancies G (fscale G g_scale v sx sy) = vacancies G v.
  Proof. exact (scale_commutes G g_scale). Qed.

  (* views (get_view, slicing) re-index the vacancy pattern, for ALL index selections *)
  Theorem C12_view_reindexes : forall r vac xi yi v',
    fview G g_view (FFilled G r vac) xi yi = Ok v' ->
    g_view r xi yi = Ok (root G v') /\
    forall a b, In (a, b) (vacancies G v') <->
                a < length xi /\ b < length yi /\ In (nth a xi O, nth b yi O) vac.
  Proof. exact (view_reindexes G g_view). Qed.

  (* repeat tiles the vacancy pattern with the period of the grid's shape (any shape) *)
  Theorem C12_repeat_tiles : forall r vac tx ty gx gy v',
    frepeat G g_shape g_repeat (FFilled G r vac) tx ty gx gy = Ok v' ->
    g_repeat r tx ty gx gy = Ok (root G v') /\
    forall i j, In (i, j) (vacancies G v') <->
      exists x y a b, In (x, y) vac /\ a < tx /\ b < ty /\
                      i = x + fst (g_shape r) * a /\ j = y + snd (g_shape r) * b.
  Proof. exact (repeat_tiles G g_shape g_repeat). Qed.
  Theorem C12_repeat_tiles_mod : forall r vac tx ty gx gy v',
    frepeat G g_shape g_repeat (FFilled G r vac) tx ty gx gy = Ok v' ->
    (forall x y, In (x, y) vac -> x < fst (g_shape r) /\ y < snd (g_shape r)) ->
    forall i j, In (i, j) (vacancies G v') <->
      i < fst (g_shape r) * tx /\ j < snd (g_shape r) * ty /\
      In (i mod fst (g_shape r), j mod snd (g_shape r)) vac.
  Proof. exact (repeat_tiles_mod G g_shape g_repeat). Qed.

  (* equality depends on exactly the underlying grid and the vacancy SET *)
  Theorem C12_eq_iff : forall r1 v1 r2 v2,
    feq G g_eqb (FFilled G r1 v1) (FFilled G r2 v2) = true <->
    g_eqb r1 r2 = true /\ (forall p, In p v1 <-> In p v2).
  Proof. exact (feq_filled G g_eqb). Qed.
  Theorem C12_vacate_in_steps_equals_vacate_at_once : forall v a b,
    root G (vacate G (vacate G v a) b) = root G (vacate G v (a ++ b)) /\
    forall p, In p (vacancies G (vacate G (vacate G v a) b)) <-> In p (vacancies G (vacate G v (a ++ b))).
  Proof. intros v a b. split; [exact (vacate_vacate_root G v a b) | exact (vacate_vacate G v a b)]. Qed.
  (* algebra of the occupancy operations (Proofs/FilledAlgebra.v): the order of vacate (fill) calls is
     irrelevant, repeating one changes nothing, fill and vacate of the same sites cancel as sets,
     and shift / scale commute with vacate and fill as values *)
  Theorem C12_vacate_order_irrelevant : forall v a b p,
    In p (vacancies G (vacate G (vacate G v a) b)) <-> In p (vacancies G (vacate G (vacate G v b) a)).
  Proof. exact (vacate_comm G). Qed.
  Theorem C12_vacate_idempotent : forall v a p,
    In p (vacancies G (vacate G (vacate G v a) a)) <-> In p (vacancies G (vacate G v a)).
  Proof. exact (vacate_idem G). Qed.
  Theorem C12_fill_order_irrelevant : forall v a b p,
    In p (vacancies G (fill G g_shape (fill G g_shape v a) b)) <->
    In p (vacancies G (fill G g_shape (fill G g_shape v b) a)).
  Proof. exact (fill_comm G g_shape). Qed.
  Theorem C12_fill_idempotent : forall v a p,
    In p (vacancies G (fill G g_shape (fill G g_shape v a) a)) <-> In p (vacancies G (fill G g_shape v a)).
  Proof. exact (fill_idem G g_shape). Qed.
  Theorem C12_fill_after_vacate : forall v l p,
    In p (vacancies G (fill G g_shape (vacate G v l) l)) <-> In p (vacancies G v) /\ ~ In p l.
  Proof. exact (fill_after_vacate G g_shape). Qed.
  Theorem C12_vacate_after_fill : forall r vac l p,
    In p (vacancies G (vacate G (fill G g_shape (FFilled G r vac) l) l)) <-> In p vac \/ In p l.
  Proof. exact (vacate_after_fill G g_shape). Qed.
  Theorem C12_shift_vacate_commute : forall v l dx dy,
    fshift G g_shift (vacate G v l) dx dy = vacate G (fshift G g_shift v dx dy) l.
  Proof. exact (shift_vacate G g_shift). Qed.
  Theorem C12_scale_vacate_commute : forall v l sx sy,
    fscale G g_scale (vacate G v l) sx sy = vacate G (fscale G g_scale v sx sy) l.
  Proof. exact (scale_vacate G g_scale). Qed.
  Theorem C12_shift_fill_commute : forall r vac l dx dy,
    fshift G g_shift (fill G g_shape (FFilled G r vac) l) dx dy =
    fill G g_shape (fshift G g_shift (FFilled G r vac) dx dy) l.
  Proof. exact (shift_fill_filled G g_shape g_shift). Qed.
  Theorem C12_shift_fill_plain_commute : forall g l dx dy, g_shape (g_shift g dx dy) = g_shape g ->
    fshift G g_shift (fill G g_shape (FPlain G g) l) dx dy =
    fill G g_shape (fshift G g_shift (FPlain G g) dx dy) l.
  Proof. exact (shift_fill_plain G g_shape g_shift). Qed.
End C12.

Example C12_example :
  let sh := fun _ : unit => (2, 3) in
  vacancies unit (fill unit sh (vacate unit (fill unit sh (FPlain unit tt) [(0,0); (1,2)]) [(0,0)]) [(1,1)])
  = [(0,1); (0,2); (1,0); (0,0)]
  /\ repeat_vac (2, 3) [(1, 2)] 2 2 = [(1,2); (1,5); (3,2); (3,5)]
  /\ view_vac [(0,0)] [0; 0] [0] = [(0,0); (1,0)].
Proof. repeat split. Qed.

Print Assumptions C12_positions_denotation.
Print Assumptions C12_fill_plain.
Print Assumptions C12_fill_filled.
Print Assumptions C12_fill_root.
Print Assumptions C12_vacate_vacancies.
Print Assumptions C12_vacate_root.
Print Assumptions C12_shift_commutes.
Print Assumptions C12_scale_commutes.
Print Assumptions C12_view_reindexes.
Print Assumptions C12_repeat_tiles.
Print Assumptions C12_repeat_tiles_mod.
Print Assumptions C12_eq_iff.
Print Assumptions C12_vacate_in_steps_equals_vacate_at_once.
Print Assumptions C12_vacate_order_irrelevant.
Print Assumptions C12_vacate_idempotent.
Print Assumptions C12_fill_order_irrelevant.
Print Assumptions C12_fill_idempotent.
Print Assumptions C12_fill_after_vacate.
Print Assumptions C12_vacate_after_fill.
Print Assumptions C12_shift_vacate_commute.
Print Assumptions C12_scale_vacate_commute.
Print Assumptions C12_shift_fill_commute.
Print Assumptions C12_shift_fill_plain_commute.
