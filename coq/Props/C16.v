(* C16 - The path visualizer replays a program's events faithfully and in order.
   Model/Visualizer.v; the theorems are thin (the visualizer is a homomorphism on the event log),
   the weight of this property is in the correspondence with the real PathVisualizer.
   Statements only. *)
From Coq Require Import String.
From Coq Require Import List Bool.
From BS Require Import Core.Base Model.Visualizer Proofs.VisualizerProofs.
Import ListNotations.

Theorem C16_visualizer_replays_events : forall traps evs,
  forallb flat_event evs = true -> vis traps evs = Ok (vis_init traps ++ flat_map calls_of evs).
Proof. exact vis_is_replay. Qed.
Theorem C16_traps_first_and_once : forall traps evs cs,
  vis traps evs = Ok cs ->
  firstn (length traps) cs = vis_init traps /\
  forallb (fun c => negb (is_traps c)) (skipn (length traps) cs) = true.
Proof. exact traps_first_once. Qed.
Theorem C16_one_call_per_gate_and_path : forall traps evs cs,
  forallb flat_event evs = true -> vis traps evs = Ok cs ->
  length cs = length traps + length (flat_map calls_of evs).
Proof. exact call_count. Qed.
Theorem C16_nested_group_refused : forall traps evs,
  forallb flat_event evs = false -> vis traps evs = Err EInterp.
Proof. exact nested_group_refused. Qed.

Example C16_example :
  vis [("traps", "g1")]%string
      [EFill ["g1"]; EPlay (PG [PV "p1"; PV "p2"]); ECz "g1" "2" "3"; EPlay (PV "p3"); EMeasure ["g1"]]%string
  = Ok [RTraps "g1" "traps"; RPath "p1"; RPath "p2"; RCz "g1" "2" "3"; RPath "p3"]%string.
Proof. reflexivity. Qed.

Print Assumptions C16_visualizer_replays_events.
Print Assumptions C16_traps_first_and_once.
Print Assumptions C16_one_call_per_gate_and_path.
Print Assumptions C16_nested_group_refused.
