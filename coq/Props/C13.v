(* C13 - Layout/ArchSpec identity is coherent and the zone index matches the tables.
   Model/Arch.v; [fs] / [hs] are the fields __eq__ / __hash__ read, reflected from the live code
   on every run (build/C13/Gen_C13.v proves fs = all five and hs within fs).  Statements only. *)
From Coq Require Import String.
From Coq Require Import ZArith QArith List Bool.
From BS Require Import Core.Base Core.GridQ Model.Arch Proofs.ArchProofs Model.Builders Proofs.BuildersProofs.
Import ListNotations.

Theorem C13_eq_reflexive : forall fs a, layout_eqb_on fs a a = true.
Proof. exact layout_eqb_on_refl. Qed.
Theorem C13_eq_symmetric : forall fs a b, layout_eqb_on fs a b = layout_eqb_on fs b a.
Proof. exact layout_eqb_on_sym. Qed.
Theorem C13_eq_transitive : forall fs a b c,
  layout_eqb_on fs a b = true -> layout_eqb_on fs b c = true -> layout_eqb_on fs a c = true.
Proof. exact layout_eqb_on_trans. Qed.
Theorem C13_eq_distinguishes : forall fs f a b,
  In f fs -> lfield_equiv f a b = false -> layout_eqb_on fs a b = false.
Proof. exact layout_eqb_on_distinguishes. Qed.
Theorem C13_eq_implies_same_hash_inputs : forall fs hs a b,
  incl hs fs -> layout_eqb_on fs a b = true -> forall f, In f hs -> lfield_equiv f a b = true.
Proof. exact layout_eq_hash. Qed.
Theorem C13_archspec_eq_reflexive : forall a, arch_eqb a a = true.
Proof. exact arch_eqb_refl. Qed.
Theorem C13_archspec_eq_symmetric : forall a b, arch_eqb a b = arch_eqb b a.
Proof. exact arch_eqb_sym. Qed.
Theorem C13_archspec_eq_transitive : forall a b c, arch_eqb a b = true -> arch_eqb b c = true -> arch_eqb a c = true.
Proof. exact arch_eqb_trans. Qed.

(* the constructor accepts a layout iff no two names denote the same grid *)
Theorem C13_constructor_accepts_iff : forall l,
  (exists ix, build_index l = Ok ix) <-> distinct_grids (entries l).
Proof. exact build_index_accepts_iff. Qed.
(* for an accepted layout: every table grid is found under a name that maps back to it, and
   whatever name a lookup returns maps to the looked-up grid *)
Theorem C13_index_coherent : forall l ix,
  build_index l = Ok ix ->
  (forall n g, In (n, g) (entries l) ->
     exists m, get_zone_id ix g = Some m /\ exists g', In (m, g') (entries l) /\ gridv_eqb g' g = true)
  /\ (forall g m, get_zone_id ix g = Some m -> exists g', In (m, g') (entries l) /\ gridv_eqb g' g = true).
Proof. exact index_coherent. Qed.

(* the bounding box contains every site of every zone and every side is attained by a site *)
Theorem C13_bounding_box_tight : forall l a b c d,
  bounding_box l = Ok (a, b, c, d) ->
  (forall e, In e (entries l) -> nonneg_grid (geom (snd e))) ->
  (forall e x y, In e (entries l) -> In (x, y) (positions (geom (snd e))) ->
      a <= x /\ x <= b /\ c <= y /\ y <= d) /\
  (exists e x y, In e (entries l) /\ In (x, y) (positions (geom (snd e))) /\ x == a) /\
  (exists e x y, In e (entries l) /\ In (x, y) (positions (geom (snd e))) /\ x == b) /\
  (exists e x y, In e (entries l) /\ In (x, y) (positions (geom (snd e))) /\ y == c) /\
  (exists e x y, In e (entries l) /\ In (x, y) (positions (geom (snd e))) /\ y == d).
Proof. exact bbox_tight. Qed.

(* the library builders (models of C14): accepted by the constructor, hence coherent by
   C13_index_coherent - except Gemini logical, whose tables are extended after construction and
   contain two names per reservoir grid (recorded known finding) *)
Theorem C13_single_zone_layout_accepted : forall nx ny s, is_ok (build_index (lay (single_col_spec nx ny s))) = true.
Proof. exact single_index_ok. Qed.
Theorem C13_gemini_base_layout_accepted : is_ok (build_index (lay gemini_base_spec)) = true.
Proof. exact gemini_base_index_ok. Qed.
Theorem C13_gemini_logical_layout_refuted : build_index (lay gemini_logical_spec) = Err EValue.
Proof. exact gemini_logical_index_refuted. Qed.

Example C13_example :
  let g0 := GPlain (from_positions [0; 2] [0; 3 # 2]) in
  let g1 := GSub (from_positions [0; 2] [0; 3 # 2]) [0%nat; 1%nat] [0%nat; 1%nat] in
  let l := mkLayout [("a"%string, g0)] [] [] [] [("s"%string, GPlain (from_positions [-3] [5; 6]))] in
  is_ok (build_index l) = true
  /\ is_ok (build_index (mkLayout [("a"%string, g0); ("b"%string, g1)] [] [] [] [])) = false
  /\ bounding_box l = Ok (-3, 2, 0, 6).
Proof. vm_compute. repeat split. Qed.

Print Assumptions C13_eq_reflexive.
Print Assumptions C13_eq_symmetric.
Print Assumptions C13_eq_transitive.
Print Assumptions C13_eq_distinguishes.
Print Assumptions C13_eq_implies_same_hash_inputs.
Print Assumptions C13_archspec_eq_reflexive.
Print Assumptions C13_archspec_eq_symmetric.
Print Assumptions C13_archspec_eq_transitive.
Print Assumptions C13_constructor_accepts_iff.
Print Assumptions C13_index_coherent.
Print Assumptions C13_bounding_box_tight.
Print Assumptions C13_single_zone_layout_accepted.
Print Assumptions C13_gemini_base_layout_accepted.
Print Assumptions C13_gemini_logical_layout_refuted.
