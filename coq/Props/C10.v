(* C10 - Zone analysis only attributes values to zones they really belong to.
   Model/ZoneAn.v splits the claim in two: (1) the analysis tracks PROVENANCE soundly - for every
   straight-line program, a value attributed to zone z IS z (SpecZone) or is a chain of views over
   z, and a value flagged invalid is never computed; (2) geometry - a view with ascending in-range
   indices shows only positions of its parent.  (2) is FALSE for index lists that go down and up
   again (bloqade.geometry's SubGrid arithmetic): recorded known finding.  Statements only. *)
From Coq Require Import String.
From Coq Require Import ZArith QArith List Bool Arith.
From BS Require Import Core.Base Core.GridQ Model.Lattice Model.ZoneAn Proofs.GridQProofs Proofs.ZoneAnProofs.
Import ListNotations.

Theorem C10_analysis_sound : forall statics p aenv cenv,
  env_ok aenv cenv -> env_ok (arun statics aenv p) (crun statics cenv p).
Proof. exact analysis_sound. Qed.

Theorem C10_attributed_value_is_in_zone : forall statics p k z,
  let A := arun statics [] p in let C := crun statics [] p in
  (k < length C)%nat -> failed (nth k C CFail) = false ->
  (nth k A UnknownZone = SpecZone z -> nth k C CFail = CZone z) /\
  (root_zone (nth k A UnknownZone) = Some z -> within z (nth k C CFail) = true).
Proof. exact attributed_value_is_in_zone. Qed.

Theorem C10_invalid_is_never_computed : forall statics p k,
  let A := arun statics [] p in let C := crun statics [] p in
  (k < length C)%nat -> is_invalid (nth k A UnknownZone) = true -> nth k C CFail = CFail.
Proof. exact invalid_is_never_computed. Qed.

Theorem C10_view_x_positions_within_parent : forall g xi yi i0 rest x0 x,
  xi = i0 :: rest -> ascending xi -> (forall i, In i xi -> (i <= length (xsp g))%nat) -> xin g = Some x0 ->
  in_q x (xpos (geom (GSub g xi yi))) -> in_q x (xpos g).
Proof. exact view_x_positions_within_parent. Qed.
Theorem C10_view_y_positions_within_parent : forall g xi yi j0 rest y0 y,
  yi = j0 :: rest -> ascending yi -> (forall j, In j yi -> (j <= length (ysp g))%nat) -> yin g = Some y0 ->
  in_q y (ypos (geom (GSub g xi yi))) -> in_q y (ypos g).
Proof. exact view_y_positions_within_parent. Qed.

(* the full geometric statement (all index lists) is false: *)
Theorem C10_view_positions_nonmonotone_refuted :
  exists g xi yi x, In x (xpos (geom (GSub g xi yi))) /\ forall y, In y (xpos g) -> ~ x == y.
Proof. exact view_positions_nonmonotone_refuted. Qed.

Local Open Scope string_scope.
Example C10_example :
  arun ["traps"] [] [ZStatic "traps"; ZStatic "nowhere"; ZSubGrid 0%nat; ZGetItem 2%nat 0%nat; ZOtherGrid [3%nat]; ZGetItem 1%nat 0%nat]
  = [SpecZone "traps"; InvalidSpecId "nowhere"; GetSubGridOfZone (SpecZone "traps") NotZone NotZone;
     GetItemOfZone (GetSubGridOfZone (SpecZone "traps") NotZone NotZone) (SpecZone "traps"); UnknownZone; InvalidZone]
  /\ crun ["traps"] [] [ZStatic "traps"; ZStatic "nowhere"; ZSubGrid 0%nat; ZGetItem 2%nat 0%nat; ZOtherGrid [3%nat]; ZGetItem 1%nat 0%nat]
  = [CZone "traps"; CFail; CView (CZone "traps"); CView (CView (CZone "traps")); COtherGrid; CFail].
Proof. split; reflexivity. Qed.

Print Assumptions C10_analysis_sound.
Print Assumptions C10_attributed_value_is_in_zone.
Print Assumptions C10_invalid_is_never_computed.
Print Assumptions C10_view_x_positions_within_parent.
Print Assumptions C10_view_y_positions_within_parent.
Print Assumptions C10_view_positions_nonmonotone_refuted.
