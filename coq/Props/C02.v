(* C02 - Reversal is exact time reversal and an involution.  Statements only. *)
From Coq Require Import ZArith List Bool.
From BS Require Import Core.Base Model.Tracer Model.Reverse Proofs.ReverseProofs.
Import ListNotations.

Theorem C02_inv_involutive : forall a, inv (inv a) = a.
Proof. exact inv_involutive. Qed.
Theorem C02_reverse_involutive : forall p, reverse_path (reverse_path p) = p.
Proof. exact reverse_involutive. Qed.
(* same waypoints, opposite order *)
Theorem C02_reverse_waypoints : forall p, flat_waypoints (reverse_path p) = rev (flat_waypoints p).
Proof. exact reverse_waypoints. Qed.
(* every switch flipped on<->off, same class forms, same tone fields, opposite order *)
Theorem C02_reverse_switches : forall p, switches (reverse_path p) = rev (map flip_switch (switches p)).
Proof. exact reverse_switches. Qed.
(* position-wise: nothing else changes *)
Theorem C02_reverse_nth : forall p i, i < length p ->
  nth_error (reverse_path p) i = option_map inv (nth_error p (length p - 1 - i)).
Proof. exact reverse_nth. Qed.
(* schedule level: reverse(reverse(f)) is f; f and reverse(f) yield mutually reversed paths,
   whatever the tracer computes for the underlying kernel *)
Theorem C02_sched_reverse_involutive : forall D (v : dev D), sched_reverse (sched_reverse v) = v.
Proof. exact @sched_reverse_involutive. Qed.
Theorem C02_gen_reverse : forall D (trace : D -> res (list action)) (v : dev D),
  gen_path trace (sched_reverse v) = bind (gen_path trace v) (fun p => Ok (reverse_path p)).
Proof. exact @gen_reverse. Qed.
Theorem C02_gen_reverse_reverse : forall D (trace : D -> res (list action)) (v : dev D),
  gen_path trace (sched_reverse (sched_reverse v)) = gen_path trace v.
Proof. exact @gen_reverse_reverse. Qed.

Example C02_example :
  let g1 := mkgrid 1 2 1 in let g2 := mkgrid 2 2 1 in
  reverse_path [AWay [g1]; ASwitch On FSlice FList (SSlice None None None) (SList [0%Z]); AWay [g1; g2]]
  = [AWay [g2; g1]; ASwitch Off FSlice FList (SSlice None None None) (SList [0%Z]); AWay [g1]].
Proof. reflexivity. Qed.

Print Assumptions C02_inv_involutive.
Print Assumptions C02_reverse_involutive.
Print Assumptions C02_reverse_waypoints.
Print Assumptions C02_reverse_switches.
Print Assumptions C02_reverse_nth.
Print Assumptions C02_sched_reverse_involutive.
Print Assumptions C02_gen_reverse.
Print Assumptions C02_gen_reverse_reverse.
