(* C17 - Each kernel kind accepts exactly its documented vocabulary.  The unbounded content is
   small: the policy matrix is the documented one, and a passing finite check over the tables
   reflected from the live code (compiled on every run in build/C17/Gen_C17.v) implies
   acceptance = policy for every wrapper and kind.  Statements only. *)
From Coq Require Import List Bool.
From BS Require Import Model.Vocab Proofs.VocabProofs.
Import ListNotations.

Theorem C17_check_sound : forall group wrappers,
  vocab_exact group wrappers = true ->
  forall c k, In c wrappers -> accepts group k c = policy k c.
Proof. exact vocab_exact_sound. Qed.
Theorem C17_policy_tweezer : forall c, policy KTweezer c = true <-> In c [CAction; CSpec; CGrid; CFilled].
Proof. exact policy_tweezer. Qed.
Theorem C17_policy_move : forall c, policy KMove c = true <-> In c [CSchedule; CGate; CInit; CMeasure; CSpec; CGrid; CFilled].
Proof. exact policy_move. Qed.
Theorem C17_policy_kernel : forall c, policy KKernel c = true <-> In c [CAtom; CGate; CSpec; CGrid; CFilled].
Proof. exact policy_kernel. Qed.

Print Assumptions C17_check_sound.
Print Assumptions C17_policy_tweezer.
Print Assumptions C17_policy_move.
Print Assumptions C17_policy_kernel.
