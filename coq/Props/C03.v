(* C03 - Schedule-to-path lowering preserves calls, grouping, order and arguments.
   Model/Sched2Path.v: [compile_spec] says what the property says; [compile_impl] follows the
   passes (Canonicalize in kirin's post-order walk, call rewriting, RewriteScheduleRegion with its
   use-count rule for group members).  Statements only. *)
From Coq Require Import String.
From Coq Require Import List Bool.
From BS Require Import Model.Sched2Path Proofs.Sched2PathProofs.
Import ListNotations.

(* for every nesting shape: the passes produce exactly the specified plays and groups *)
Theorem C03_lowering_refines_spec : forall p, compile_impl p = compile_spec p.
Proof. exact compile_impl_is_spec. Qed.
Theorem C03_block_refines_spec : forall k body, impl_block k body = spec_block k body.
Proof. exact impl_block_is_spec. Qed.

(* the use-count rule selects exactly the direct children of a block as its members *)
Theorem C03_members_by_uses : forall s, free_of (flat_map lift_stmt (to_rstmt s)) = [tp s].
Proof. exact members_by_uses. Qed.

(* the Canonicalize walk never leaves a block of its own kind inside a block *)
Theorem C03_canonicalize_flattens : forall s k, Forall (fun x => is_kind k x = false) (canon_node (Some k) s).
Proof. exact canon_no_same_kind. Qed.

(* the specification: same calls, same order, each once, callee/positional/keyword arguments untouched *)
Theorem C03_calls_preserved : forall p, flat_map pitem_calls (compile_spec p) = flat_map item_calls p.
Proof. exact calls_preserved. Qed.

(* one play per top-level call or block, everything else in place *)
Theorem C03_one_play_per_top_level : forall p,
  length (compile_spec p) = length p /\
  forall n, match nth_error p n, nth_error (compile_spec p) n with
            | Some (ICall _), Some (PPlay (PGen _)) => True
            | Some (IBlock k _), Some (PPlay (PGroup k' _)) => k = k'
            | Some (IOther t), Some (POther t') => t = t'
            | Some (IIf _ _), Some (PIf _ _) => True
            | Some (IFor _), Some (PFor _) => True
            | None, None => True
            | _, _ => False
            end.
Proof. exact one_play_per_top_level. Qed.

(* directly nested blocks of the same kind are merged: no group contains a group of its kind *)
Theorem C03_same_kind_merged : forall k body, no_same_kind_child (spec_block k body) = true.
Proof. exact spec_block_merged. Qed.

Local Open Scope string_scope.
Example C03_example :
  let f := fun n => SCall (mkcall "f" [n] [] []) in
  spec_block KPar [f "1"; SBlock KPar [f "2"; SBlock KAuto [f "3"; SBlock KAuto [f "4"]]; SBlock KPar [f "5"]]; f "6"]
  = PGroup KPar [PGen (mkcall "f" ["1"] [] []); PGen (mkcall "f" ["2"] [] []);
                 PGroup KAuto [PGen (mkcall "f" ["3"] [] []); PGen (mkcall "f" ["4"] [] [])];
                 PGen (mkcall "f" ["5"] [] []); PGen (mkcall "f" ["6"] [] [])].
Proof. reflexivity. Qed.

Print Assumptions C03_lowering_refines_spec.
Print Assumptions C03_block_refines_spec.
Print Assumptions C03_members_by_uses.
Print Assumptions C03_canonicalize_flattens.
Print Assumptions C03_calls_preserved.
Print Assumptions C03_one_play_per_top_level.
Print Assumptions C03_same_kind_merged.
