(* C18 - The zone lattice obeys the bounded-lattice laws.
   Statements only; every proof is `exact <lemma>`. *)
From Coq Require Import String Bool.
From BS Require Import Model.Lattice Proofs.LatticeProofs.

Theorem C18_order_reflexive : forall a, zleb a a = true.
Proof. exact zleb_refl. Qed.
Theorem C18_order_transitive : forall a b c, zleb a b = true -> zleb b c = true -> zleb a c = true.
Proof. exact zleb_trans. Qed.
Theorem C18_order_antisymmetric : forall a b, zleb a b = true -> zleb b a = true -> a = b.
Proof. exact zleb_antisym. Qed.
Theorem C18_bottom_least : forall b, zleb NotZone b = true.
Proof. exact zleb_bot. Qed.
Theorem C18_top_greatest : forall a, zleb a UnknownZone = true.
Proof. exact zleb_top. Qed.
Theorem C18_join_commutative : forall a b, join a b = join b a.
Proof. exact join_comm. Qed.
Theorem C18_join_idempotent : forall a, join a a = a.
Proof. exact join_idem. Qed.
Theorem C18_join_upper_bound : forall a b, zleb a (join a b) = true /\ zleb b (join a b) = true.
Proof. exact join_upper. Qed.
Theorem C18_join_consistent : forall a b, zleb a b = true <-> join a b = b.
Proof. intros a b; split; [exact (join_of_le a b) | exact (le_of_join a b)]. Qed.
Theorem C18_meet_commutative : forall a b, meet a b = meet b a.
Proof. exact meet_comm. Qed.
Theorem C18_meet_idempotent : forall a, meet a a = a.
Proof. exact meet_idem. Qed.
Theorem C18_meet_lower_bound : forall a b, zleb (meet a b) a = true /\ zleb (meet a b) b = true.
Proof. exact meet_lower. Qed.
Theorem C18_meet_consistent : forall a b, zleb a b = true <-> meet a b = a.
Proof. intros a b; split; [exact (meet_of_le a b) | exact (le_of_meet a b)]. Qed.

(* non-vacuity: a nested, non-trivial instance of each hypothesis *)
Example C18_example_nested :
  zleb (GetSubGridOfZone (SpecZone "a") NotZone NotZone)
      (GetSubGridOfZone (SpecZone "a") (InvalidSpecId "b") UnknownZone) = true
  /\ join (InvalidSpecId "a") (InvalidSpecId "b") = InvalidZone
  /\ meet (GetItemOfZone (SpecZone "a") NotZone) (GetItemOfZone (SpecZone "b") NotZone) = NotZone.
Proof. repeat split. Qed.

Print Assumptions C18_order_reflexive.
Print Assumptions C18_order_transitive.
Print Assumptions C18_order_antisymmetric.
Print Assumptions C18_bottom_least.
Print Assumptions C18_top_greatest.
Print Assumptions C18_join_commutative.
Print Assumptions C18_join_idempotent.
Print Assumptions C18_join_upper_bound.
Print Assumptions C18_join_consistent.
Print Assumptions C18_meet_commutative.
Print Assumptions C18_meet_idempotent.
Print Assumptions C18_meet_lower_bound.
Print Assumptions C18_meet_consistent.
