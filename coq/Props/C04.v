(* C04 - Executed events are independent of the compilation route.
   What is PROVED here: (1) the clean-up rewrites every route applies - dead-code elimination and
   common-subexpression elimination restricted to Pure statements - preserve the executed event
   list of any SSA program, for arbitrary values/events/statement kinds, PROVIDED the Pure trait
   table is sound (no Pure statement emits an event); the table of the live code is reflected on
   every run and that premise re-checked (build/C04/Gen_C04.v); (2) the source-level semantics
   (Model/MoveLang.v) is a function of program and arguments, independent of fuel, and a return
   ends only the enclosing subroutine body.  What is NOT proved: kirin's Default / Fold / Inline /
   UnrollScf passes and interpreter; those are exercised by the differential of this check against
   Model.MoveLang / the natively evaluated source.  Statements only. *)
From Coq Require Import String.
From Coq Require Import ZArith List Bool.
From BS Require Import Proofs.InlineProofs Core.Base Model.Passes Proofs.PassesProofs Model.MoveLang Proofs.MoveLangProofs.
Import ListNotations.

Theorem C04_dce_preserves_events :
  forall (Val Ev K : Type) (pure : K -> bool) (sem : K -> list Val -> Val) (emit : K -> list Val -> option Ev),
    (forall k vs, pure k = true -> emit k vs = None) ->
    forall p e, run Val Ev K sem emit e (dce K pure p) = run Val Ev K sem emit e p.
Proof. exact dce_events. Qed.

Theorem C04_cse_preserves_events :
  forall (Val Ev K : Type) (k_eqb : K -> K -> bool), (forall a b, k_eqb a b = true -> a = b) ->
  forall (pure : K -> bool) (sem : K -> list Val -> Val) (emit : K -> list Val -> option Ev),
    (forall k vs, pure k = true -> emit k vs = None) ->
    forall p e, wf_ssa K [] p ->
      run Val Ev K sem emit e (cse K k_eqb pure [] (fun x => x) p) = run Val Ev K sem emit e p.
Proof. exact cse_events. Qed.

Theorem C04_dce_after_cse_preserves_events :
  forall (Val Ev K : Type) (k_eqb : K -> K -> bool), (forall a b, k_eqb a b = true -> a = b) ->
  forall (pure : K -> bool) (sem : K -> list Val -> Val) (emit : K -> list Val -> option Ev),
    (forall k vs, pure k = true -> emit k vs = None) ->
    forall p e, wf_ssa K [] p ->
      run Val Ev K sem emit e (dce K pure (cse K k_eqb pure [] (fun x => x) p)) = run Val Ev K sem emit e p.
Proof. exact dce_cse_events. Qed.

Theorem C04_source_semantics_fuel_independent : forall f k p args evs,
  run_prog f p args = Ok evs -> run_prog (f + k) p args = Ok evs.
Proof. exact run_prog_fuel_mono. Qed.
Theorem C04_source_semantics_deterministic : forall f1 f2 p args a b,
  run_prog f1 p args = Ok a -> run_prog f2 p args = Ok b -> a = b.
Proof. exact run_prog_deterministic. Qed.
Theorem C04_return_stops_statement_list : forall ex e l1 l2 ev,
  exec_list ex e l1 = Ok (ev, Returned) -> exec_list ex e (l1 ++ l2) = Ok (ev, Returned).
Proof. exact return_stops_list. Qed.

(* inlining, the way kirin's Inline pastes callee bodies (a return nested in the callee's control flow becomes a return
   of the caller): with exactly the callees admitted by AggressiveUnroll.inline_heuristic inlined - those without a return
   nested in their control flow - every program executes what its source executes, for all programs, arguments, depths *)
Theorem C04_heuristic_inlining_preserves_events : forall f p e s, exec_h nested_ret_free f p e s = exec f p e s.
Proof. exact heuristic_inlining_preserves. Qed.
Theorem C04_heuristic_inlining_preserves_runs : forall f p args, run_prog_h nested_ret_free f p args = run_prog f p args.
Proof. exact heuristic_inlining_preserves_runs. Qed.
(* the heuristic is needed: inlining every callee (the pinned behaviour) drops what follows a call that returned early *)
Theorem C04_inlining_everything_refuted :
  run_prog 20 inl_example [1%Z] = Ok ["a"; "fill"; "b"]%string /\
  run_prog_h (fun _ => true) 20 inl_example [1%Z] = Ok ["a"; "fill"]%string.
Proof. exact inline_everything_refuted. Qed.

(* a subroutine with an early return called from a loop: the caller goes on after the call *)
Local Open Scope string_scope.
Example C04_example :
  let p := mkprog [("f0", ("k0", false))] [("k0", ["a"; "b"])]
                  [("sub0", mksub ["sn"] [SOther "cz"; SIf (IGt (IVar "sn") (ILit 0)) [SRet] []; SOther "fill"])]
                  ["n"]
                  [SFor "i" (IVar "n") [SSub "sub0" [IVar "i"]; SCall (DVar "f0") [AFloat "1.0"] [("b", AInt (IVar "i"))]]] in
  run_prog 50 p [2%Z] = Ok ["cz"; "fill"; "play fwd:k0(1.0,0)"; "cz"; "play fwd:k0(1.0,1)"].
Proof. vm_compute. reflexivity. Qed.

Print Assumptions C04_dce_preserves_events.
Print Assumptions C04_cse_preserves_events.
Print Assumptions C04_dce_after_cse_preserves_events.
Print Assumptions C04_source_semantics_fuel_independent.
Print Assumptions C04_source_semantics_deterministic.
Print Assumptions C04_return_stops_statement_list.
Print Assumptions C04_heuristic_inlining_preserves_events.
Print Assumptions C04_heuristic_inlining_preserves_runs.
Print Assumptions C04_inlining_everything_refuted.
