(* C01 - Tweezer tracing reproduces the reference AOD action semantics.
   [rtrace] (Model/Tracer.v) IS the reference AOD model of the property, written in its
   vocabulary (segments, switches recording kind / per-axis form / tones, fresh segment at the
   current position; errors for use before set_loc and for a shape-changing move).
   [itrace] follows taskgen.py statement by statement.  Statements only. *)
From Coq Require Import ZArith List Bool.
From BS Require Import Core.Base Model.Tracer Proofs.TracerProofs.
Import ListNotations.

(* every op sequence any terminating kernel can present: same path or both fail *)
Theorem C01_tracer_refines_reference : forall ops, itrace ops = rtrace ops.
Proof. exact itrace_refines_rtrace. Qed.

(* the isinstance assertion in `move` is unreachable *)
Theorem C01_assert_unreachable : forall ops, itrace ops <> Err EAssert.
Proof. exact assert_unreachable. Qed.

(* the reference rejects exactly: AOD use before any set_loc, or a move to another shape *)
Theorem C01_error_iff : forall ops,
  (exists e, rtrace ops = Err e) <->
  (exists pre o post s, ops = pre ++ o :: post /\ rrun RIdle pre = Ok s /\ bad_step s o = true).
Proof. exact rtrace_error_iff. Qed.

(* non-vacuity: a concrete kernel-like sequence, and both error kinds *)
Example C01_example :
  let g1 := mkgrid 1 2 1 in let g2 := mkgrid 2 2 1 in let g3 := mkgrid 3 1 1 in
  rtrace [OSet g1; OSwitch On (SSlice None None None) (SList [0%Z]); OMove g2; OSwitch Off (SList [0%Z;1%Z]) (SSlice None None None)]
  = Ok [AWay [g1]; ASwitch On FSlice FList (SSlice None None None) (SList [0%Z]); AWay [g1; g2];
        ASwitch Off FList FSlice (SList [0%Z;1%Z]) (SSlice None None None); AWay [g2]]
  /\ rtrace [OMove g1] = Err EInterp
  /\ rtrace [OSet g1; OMove g3] = Err EInterp.
Proof. repeat split. Qed.

Print Assumptions C01_tracer_refines_reference.
Print Assumptions C01_assert_unreachable.
Print Assumptions C01_error_iff.
