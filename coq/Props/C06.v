(* C06 - Spec injection is behaviour preserving and complete.  Model/Inject.v.
   [handled] = the lookup kinds InjectSpecRule has a case for; it is reflected from the live
   code on every run and build/C06/Gen_C06.v proves it total.  Statements only. *)
From Coq Require Import String.
From Coq Require Import ZArith List Bool.
From BS Require Import Core.Base Model.Inject Proofs.InjectProofs.
Import ListNotations.

(* if the rule handles every lookup kind: the plain interpreter on the injected program computes
   (the injected image of) what the spec interpreter computes on the original program - for every
   program, environment, expression and fuel, i.e. at any call depth, through recursion and
   through closures capturing looked-up values *)
Theorem C06_inject_preserves : forall handled s, (forall k, handled k = true) ->
  forall fuel t env e,
    eval fuel Plain (inject_table handled s t) (inj_env handled s env) (inject handled s e)
    = inj_res handled s (eval fuel (WithSpec s) t env e).
Proof. exact inject_preserves. Qed.

(* observable (closure-free) results of a kernel call are literally equal *)
Theorem C06_inject_preserves_results : forall handled s, (forall k, handled k = true) ->
  forall fuel t args root v,
    eval fuel (WithSpec s) t [] (EInvoke root (map const_of args)) = Ok v -> ground v = true ->
    eval fuel Plain (inject_table handled s t) [] (EInvoke root (map const_of args)) = Ok v.
Proof. exact inject_preserves_ground. Qed.

(* completeness matters: a kind without a case is left behind and fails under the plain interpreter *)
Theorem C06_unhandled_kind_breaks : forall handled s k name v fuel,
  handled k = false -> spec_lookup s k name = Some v ->
  eval (S fuel) Plain [] [] (inject handled s (ELookup k name)) = Err EInterp /\
  eval (S fuel) (WithSpec s) [] [] (ELookup k name) = Ok v.
Proof. exact unhandled_kind_breaks. Qed.

(* names absent from the spec are never given a value: both routes fail *)
Theorem C06_unknown_name_fails_both : forall handled s k name fuel t env,
  spec_lookup s k name = None ->
  eval (S fuel) Plain (inject_table handled s t) env (inject handled s (ELookup k name)) = Err EInterp /\
  eval (S fuel) (WithSpec s) t env (ELookup k name) = Err EInterp.
Proof. exact unknown_name_fails_both. Qed.

Local Open Scope string_scope.
Example C06_example :
  let s := mkspec [("traps", "G1")] [("park", "G2")] [("rows", 3%Z)] [("pitch", "2.5")] in
  let t := [("sub", mkmethod ["d"]
              (ELet "z" (ELookup LStatic "traps")
                 (EIf (EGe (EVar "d") (EInt 2))
                      (ELam (ETuple [EVar "z"; ELookup LSpecial "park"; EVar "d"]))
                      (EInvoke "sub" [EAdd (EVar "d") (EInt 1)]))));
            ("main", mkmethod [] (ECall (EInvoke "sub" [EInt 0])))] in
  eval 20 Plain (inject_table (fun _ => true) s t) [] (EInvoke "main" [])
  = Ok (VTuple [VGrid "G1"; VGrid "G2"; VInt 2])
  /\ eval 20 (WithSpec s) t [] (EInvoke "main" []) = Ok (VTuple [VGrid "G1"; VGrid "G2"; VInt 2])
  /\ eval 20 Plain t [] (EInvoke "main" []) = Err EInterp.
Proof. vm_compute. repeat split. Qed.

Print Assumptions C06_inject_preserves.
Print Assumptions C06_inject_preserves_results.
Print Assumptions C06_unhandled_kind_breaks.
Print Assumptions C06_unknown_name_fails_both.
