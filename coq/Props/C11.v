(* C11 - Every produced path is well formed.  [wfb] (Model/Tracer.v): a non-empty path starts
   and ends with a segment, every segment is non-empty and of one shape, every switch sits
   between two segments that meet at one position.  Statements only. *)
From Coq Require Import ZArith List Bool.
From BS Require Import Core.Base Model.Tracer Model.Reverse Proofs.TracerProofs Proofs.ReverseProofs Proofs.WfSpec.
Import ListNotations.

Theorem C11_traced_path_wf : forall ops p, itrace ops = Ok p -> wfb p = true.
Proof. exact itrace_wf. Qed.
Theorem C11_reference_path_wf : forall ops p, rtrace ops = Ok p -> wfb p = true.
Proof. exact rtrace_wf. Qed.
Theorem C11_reverse_wf : forall p, wfb p = true -> wfb (reverse_path p) = true.
Proof. exact reverse_wf. Qed.
Theorem C11_traced_then_reversed_wf : forall ops p, itrace ops = Ok p -> wfb (reverse_path p) = true.
Proof. intros ops p H. exact (reverse_wf p (itrace_wf ops p H)). Qed.

(* the boolean checker is the property's own wording (Proofs/WfSpec.v: WF speaks of positions in the path:
   first and last action are segments, every segment non-empty and of one shape, every switch between two
   segments that meet) *)
Theorem C11_checker_is_the_definition : forall p, wfb p = true <-> WF p.
Proof. exact wfb_iff_WF. Qed.
Theorem C11_traced_path_WF : forall ops p, itrace ops = Ok p -> WF p /\ WF (reverse_path p).
Proof.
  intros ops p H. split; apply wfb_iff_WF; [exact (itrace_wf ops p H) | exact (reverse_wf p (itrace_wf ops p H))].
Qed.

(* wfb is not trivially true: each clause can fail *)
Example C11_wfb_rejects :
  let g1 := mkgrid 1 2 1 in let g2 := mkgrid 2 2 1 in let g3 := mkgrid 3 1 1 in
  let sw := ASwitch On FList FList (SList []) (SList []) in
  wfb [sw] = false /\ wfb [AWay [g1]; sw] = false /\ wfb [AWay []] = false
  /\ wfb [AWay [g1; g3]] = false /\ wfb [AWay [g1]; sw; AWay [g2]] = false
  /\ wfb [AWay [g1; g2]; sw; AWay [g2]; AWay [g3]] = true.
Proof. repeat split. Qed.

Print Assumptions C11_traced_path_wf.
Print Assumptions C11_reference_path_wf.
Print Assumptions C11_reverse_wf.
Print Assumptions C11_traced_then_reversed_wf.
Print Assumptions C11_checker_is_the_definition.
Print Assumptions C11_traced_path_WF.
