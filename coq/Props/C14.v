(* C14 - Library architecture builders produce the documented geometry.  Model/Builders.v follows
   the Python builders with the GridQ operations; exact rationals.  Statements only. *)
From Coq Require Import String.
From Coq Require Import ZArith QArith List Bool.
From BS Require Import Core.Base Core.GridQ Model.Arch Model.Builders Proofs.GridQProofs Proofs.BuildersProofs.
Import ListNotations.
Local Open Scope Q_scope.

(* single zone: the requested number of columns and rows at the requested spacing, from the origin *)
Theorem C14_single_zone_sites : forall nx ny s, (1 <= nx)%nat -> (1 <= ny)%nat ->
  exists g, zone (single_col_spec nx ny s) "traps" = Some (GPlain g) /\
    gshape g = (nx, ny) /\
    qequiv (xpos g) (map (fun i => qn i * s) (seq 0 nx)) /\
    qequiv (ypos g) (map (fun j => qn j * s) (seq 0 ny)).
Proof. exact single_sites. Qed.

Theorem C14_deprecated_equals_replacement : forall nx ny s,
  deprecated_single_zone_spec nx ny s = single_col_spec nx ny s.
Proof. exact deprecated_equal. Qed.

(* two-column zone: left = even columns, right = odd columns (views of the zone, same rows);
   pair i sits at i*(gate+spacing) and i*(gate+spacing)+gate; the zone's columns are exactly the
   interleaving of the two *)
Theorem C14_two_col_geometry : forall nx ny s gs, (1 <= nx)%nat -> (1 <= ny)%nat ->
  let a := two_col_spec nx ny s gs in
  let all := two_col_traps nx ny s gs in
  zone a "traps" = Some (GPlain all) /\
  zone a "left_traps" = Some (GSub all (evens_from 0 nx) (seq 0 ny)) /\
  zone a "right_traps" = Some (GSub all (evens_from 1 nx) (seq 0 ny)) /\
  gshape all = ((2 * nx)%nat, ny) /\
  qequiv (xpos (geom (GSub all (evens_from 0 nx) (seq 0 ny)))) (map (fun i => qn i * (gs + s)) (seq 0 nx)) /\
  qequiv (xpos (geom (GSub all (evens_from 1 nx) (seq 0 ny)))) (map (fun i => qn i * (gs + s) + gs) (seq 0 nx)) /\
  qequiv (ypos all) (map (fun j => qn j * s) (seq 0 ny)) /\
  qequiv (ypos (geom (GSub all (evens_from 0 nx) (seq 0 ny)))) (map (fun j => qn j * s) (seq 0 ny)) /\
  qequiv (ypos (geom (GSub all (evens_from 1 nx) (seq 0 ny)))) (map (fun j => qn j * s) (seq 0 ny)) /\
  qequiv (xpos all) (map (fun c => qn (c / 2) * (gs + s) + (if Nat.even c then 0 else gs)) (seq 0 (2 * nx))).
Proof. exact two_col_geometry. Qed.

Theorem C14_caps_single : forall nx ny s, caps_name_zones (single_col_spec nx ny s) = true.
Proof. exact caps_single. Qed.
Theorem C14_caps_two_col : forall nx ny s gs, caps_name_zones (two_col_spec nx ny s gs) = true.
Proof. exact caps_two_col. Qed.

(* Gemini: nothing is quantified; decided by computation on the closed terms *)
Theorem C14_gemini_blocks_documented :
  forallb (fun e => match e with (n, p, xi, yi) => is_view_of gemini_logical_spec n p xi yi end) gemini_doc = true.
Proof. exact gemini_blocks_documented. Qed.
Theorem C14_gemini_block_sizes :
  forallb (fun n => match zone gemini_logical_spec n with
                    | Some v => let sh := gshape (geom v) in Nat.eqb (fst sh) 7 && Nat.eqb (snd sh) 5
                    | None => false end) block_names = true.
Proof. exact gemini_block_sizes. Qed.
Theorem C14_gemini_gate_zone_documented :
  qlist_eqb (xpos gemini_gate_zone)
            (flat_map (fun i => [-81 + 10 * qn i; -81 + 10 * qn i + 2]) (seq 0 17)) = true
  /\ qlist_eqb (ypos gemini_gate_zone) (map (fun j => -20 + 10 * qn j) (seq 0 5)) = true.
Proof. exact gemini_gate_zone_documented. Qed.
Theorem C14_gemini_reservoirs_documented :
  qlist_eqb (xpos gemini_top_reservoir) (flat_map (fun i => [-87 + 10 * qn i; -87 + 10 * qn i + 6]) (seq 0 17)) = true
  /\ qlist_eqb (ypos gemini_top_reservoir) (map (fun j => 30 + 4 * qn j) (seq 0 19)) = true
  /\ qlist_eqb (xpos gemini_bottom_reservoir) (xpos gemini_top_reservoir) = true
  /\ qlist_eqb (ypos gemini_bottom_reservoir) (map (fun j => -102 + 4 * qn j) (seq 0 19)) = true.
Proof. exact gemini_reservoirs_documented. Qed.
Theorem C14_gemini_aom_documented :
  qlist_eqb (xpos gemini_aom_sites) (map (fun i => -83 + 10 * qn i) (seq 0 17)) = true
  /\ qlist_eqb (ypos gemini_aom_sites) (ypos gemini_gate_zone) = true.
Proof. exact gemini_aom_documented. Qed.
Theorem C14_gemini_caps : caps_name_zones gemini_base_spec = true /\ caps_name_zones gemini_logical_spec = true.
Proof. exact gemini_caps. Qed.
Theorem C14_gemini_constants_agree :
  let a := gemini_logical_spec in
  lookup "logical_rows"%string (int_constants a) = Some 5%Z /\
  lookup "code_size"%string (int_constants a) = Some 7%Z /\
  (match zone a "GL0_block"%string with Some v => gshape (geom v) | None => (O, O) end) = (7%nat, 5%nat) /\
  (match xsp gemini_gate_zone with g :: c :: _ => Qeq_bool g 2 && Qeq_bool c 8 | _ => false end) = true /\
  (match ysp gemini_gate_zone with r :: _ => Qeq_bool r 10 | _ => false end) = true /\
  lookup "gate_spacing"%string (float_constants a) = Some 2 /\
  lookup "col_separation"%string (float_constants a) = Some 8 /\
  lookup "row_separation"%string (float_constants a) = Some 10.
Proof. exact gemini_constants_agree. Qed.

Print Assumptions C14_single_zone_sites.
Print Assumptions C14_deprecated_equals_replacement.
Print Assumptions C14_two_col_geometry.
Print Assumptions C14_caps_single.
Print Assumptions C14_caps_two_col.
Print Assumptions C14_gemini_blocks_documented.
Print Assumptions C14_gemini_block_sizes.
Print Assumptions C14_gemini_gate_zone_documented.
Print Assumptions C14_gemini_reservoirs_documented.
Print Assumptions C14_gemini_aom_documented.
Print Assumptions C14_gemini_caps.
Print Assumptions C14_gemini_constants_agree.
