(* C15 - A tracer instance can be reused without cross-talk.
   Model/TracerHeap.v makes Python's aliasing explicit (mutable WayPointsAction cells, reference
   lists, shallow copy on return, dirty state after a failing call).  Statements only. *)
From Coq Require Import ZArith List Bool.
From BS Require Import Core.Base Model.Tracer Model.TracerHeap Proofs.TracerHeapProofs.
Import ListNotations.

(* For every history of successful and failing calls on one instance, started in ANY state:
   every returned value, looked at through the heap as it is at the END of the history, is what
   a fresh instance returns for that call (and a call fails iff it fails on a fresh instance). *)
Theorem C15_results_equal_fresh_results : forall calls s,
  let (rs, sf) := run_history s calls in
  map (observe (heap sf)) rs = map fresh_result calls.
Proof. exact history_results_are_fresh_results. Qed.

(* ... and at every intermediate moment: later calls never modify what was returned earlier *)
Theorem C15_earlier_results_never_change : forall calls1 calls2 s,
  let (rs1, s1) := run_history s calls1 in
  let (_, s2) := run_history s1 calls2 in
  map (observe (heap s2)) rs1 = map (observe (heap s1)) rs1.
Proof. exact earlier_results_never_change. Qed.

(* the mutable cells of a result are allocated by its own call: no sharing between results *)
Theorem C15_result_cells_are_new : forall s ops s' l,
  hcall s ops = (s', Some l) -> forall a, In a (addrs l) -> length (heap s) <= a < length (heap s').
Proof. exact call_result_cells_are_new. Qed.

Example C15_example :
  let g1 := mkgrid 1 2 1 in let g2 := mkgrid 2 2 1 in let g3 := mkgrid 3 1 1 in
  let calls := [[OSet g1; OMove g2]; [OSet g1; OMove g3]; [OMove g1]; [OSet g2; OFail]; [OSet g2; OMove g1]] in
  let (rs, sf) := run_history new_instance calls in
  map (observe (heap sf)) rs = [Some [AWay [g1; g2]]; None; None; None; Some [AWay [g2; g1]]]
  /\ length (heap sf) = 4.
Proof. vm_compute. split; reflexivity. Qed.

Print Assumptions C15_results_equal_fresh_results.
Print Assumptions C15_earlier_results_never_change.
Print Assumptions C15_result_cells_are_new.
