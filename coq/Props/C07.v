(* C07 - Specialising one kernel never affects another kernel or the spec.  Model/Store.v.
   Spec immutability has no Gallina content (values are immutable here by construction); it is
   checked on the Python side only.  Statements only. *)
From Coq Require Import List Bool Arith.
From BS Require Import Model.Store Proofs.StoreProofs.
Import ListNotations.

Theorem C07_other_kernels_untouched : forall st r s i,
  i < length st -> i <> r -> nth i (compile st r s) dflt = nth i st dflt.
Proof. exact compile_frame. Qed.

Theorem C07_kernel_sees_only_its_spec : forall st r s i,
  wf_store st -> r < length st -> reaches (compile st r s) r i ->
  (i = r \/ exists x, x < length st /\ i = length st + x) /\ tag (nth i (compile st r s) dflt) = Some s.
Proof. exact compiled_root_sees_only_its_spec. Qed.

Theorem C07_later_compilation_preserves_earlier_view : forall st r1 s1 r2 s2 i,
  wf_store st -> r1 < length st -> r2 < length st -> r1 <> r2 ->
  reaches (compile st r1 s1) r1 i ->
  nth i (compile (compile st r1 s1) r2 s2) dflt = nth i (compile st r1 s1) dflt.
Proof. exact later_compilation_preserves_earlier_view. Qed.

Theorem C07_store_stays_well_formed : forall st r s, wf_store st -> r < length st -> wf_store (compile st r s).
Proof. exact compile_wf. Qed.

Example C07_example :
  let st0 := [mkmeth 0 None []; mkmeth 1 None [0]; mkmeth 2 None [0; 1]; mkmeth 3 None [1]] in
  let st := compile (compile st0 2 7) 3 9 in
  shared_unchanged 2 st0 st = true /\ sees_only 10 st 2 7 = true /\ sees_only 10 st 3 9 = true
  /\ sees_only 10 st 3 7 = false.
Proof. vm_compute. repeat split. Qed.

Print Assumptions C07_other_kernels_untouched.
Print Assumptions C07_kernel_sees_only_its_spec.
Print Assumptions C07_later_compilation_preserves_earlier_view.
Print Assumptions C07_store_stays_well_formed.
