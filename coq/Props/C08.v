(* C08 - Library moves are physically executable and end where documented.
   Model/Aod.v is the simulator that defines "physically executable" (the four conditions of the
   property).  Proved here, for EVERY sequence of paths the simulator accepts, from ANY state:
   no atom is lost or duplicated; and what acceptance of each elementary event means.  Whether a
   particular library move produces accepted paths and ends where documented is decided by running
   the library on its layouts (all sizes / index lists / offsets of the stated bounds) and feeding
   the played paths to this simulator - evaluated both in Coq and by its Python twin.
   Statements only. *)
From Coq Require Import String.
From Coq Require Import ZArith QArith List Bool Arith Permutation.
From BS Require Import Core.Base Model.Aod Proofs.AodProofs.
Import ListNotations.

Theorem C08_no_atom_lost_or_duplicated : forall st ps st',
  sim_paths st ps = AOk st' -> Permutation (atoms st') (atoms st) /\ traps st' = traps st.
Proof. exact sim_conserves. Qed.

Theorem C08_release_only_onto_vacant_trap_sites : forall st sp st' a,
  drop1 st sp = AOk st' -> held_find (fst sp) (held st) = Some a ->
  is_trap st (snd sp) = true /\ occ_find (snd sp) (occ st) = None /\ occ_find (snd sp) (occ st') = Some a.
Proof. exact accepted_release. Qed.

Theorem C08_spots_light_up_only_on_trap_sites : forall st sp st', pick1 st sp = AOk st' -> is_trap st (snd sp) = true.
Proof. exact accepted_pick. Qed.

Theorem C08_jump_while_holding_is_refused : forall st nx ny w,
  held st <> [] -> length (fst w) = nx -> length (snd w) = ny ->
  same_place (xon st) (fst w) && same_place (yon st) (snd w) = false ->
  sim_waypoint st true nx ny w = AErr EJump.
Proof. exact jump_refused. Qed.

Theorem C08_wrong_dimensions_are_refused : forall st first nx ny w,
  (length (fst w) <> nx \/ length (snd w) <> ny) -> sim_waypoint st first nx ny w = AErr EDims.
Proof. exact wrong_dimensions_refused. Qed.

(* no two lit tweezers of an axis coincide after an accepted waypoint: the coordinates of the lit
   tones are pairwise different (a duplicated tone would claim one atom twice) *)
Theorem C08_tweezers_never_coincide : forall st first nx ny w st',
  sim_waypoint st first nx ny w = AOk st' ->
  (forall i j : nat, (i < j)%nat -> (j < length (xon st'))%nat -> ~ Qeq (nth i (map snd (xon st')) 0) (nth j (map snd (xon st')) 0)) /\
  (forall i j : nat, (i < j)%nat -> (j < length (yon st'))%nat -> ~ Qeq (nth i (map snd (yon st')) 0) (nth j (map snd (yon st')) 0)).
Proof. exact tweezers_never_coincide. Qed.

(* a CZ-move shaped program on a 2x1 selection: out along an L-shaped path, back along its reversal *)
Example C08_example :
  let ALL := SSlice None None None in
  let st0 := mkast [(0, 0); (10, 0); (20, 0); (30, 0)] [((0, 0), 1%nat); ((20, 0), 2%nat); ((10, 0), 3%nat)] [] [] [] in
  let fwd := mkspath 2 1 [SWay [([0; 20], [0])]; SSwitch On ALL ALL; SWay [([0; 20], [0]); ([2; 22], [2]); ([12; 32], [2])]] in
  let bwd := mkspath 2 1 [SWay [([12; 32], [2]); ([2; 22], [2]); ([0; 20], [0])]; SSwitch Off ALL ALL; SWay [([0; 20], [0])]] in
  let swapped := mkspath 2 1 [SWay [([10; 30], [0])]; SSwitch Off ALL ALL; SWay [([10; 30], [0])]] in
  show_sim (sim_paths st0 [fwd; bwd]) = "ok held=0 occ=[1@0/1,0/1,2@20/1,0/1,3@10/1,0/1]"%string
  /\ sim_paths st0 [fwd; swapped] = AErr EJump
  /\ sim_paths st0 [mkspath 2 1 [SWay [([0; 0], [0])]; SSwitch On ALL ALL]] = AErr ECollide.
Proof. vm_compute. repeat split; reflexivity. Qed.

Print Assumptions C08_no_atom_lost_or_duplicated.
Print Assumptions C08_release_only_onto_vacant_trap_sites.
Print Assumptions C08_spots_light_up_only_on_trap_sites.
Print Assumptions C08_jump_while_holding_is_refused.
Print Assumptions C08_wrong_dimensions_are_refused.
Print Assumptions C08_tweezers_never_coincide.
