(* C08 - Library moves are physically executable and end where documented.
   Model/Aod.v is the simulator that defines "physically executable" (the four conditions of the
   property).  Proved here, for EVERY sequence of paths the simulator accepts, from ANY state:
   no atom is lost or duplicated; and what acceptance of each elementary event means.  Whether a
   particular library move produces accepted paths and ends where documented is decided by running
   the library on its layouts (all sizes / index lists / offsets of the stated bounds) and feeding
   the played paths to this simulator - evaluated both in Coq and by its Python twin.
   For the CZ move the claim is carried by a theorem for ALL sizes: its two played paths have the
   round-trip shape (pick everything up on a grid of trap sites, travel along any waypoints, travel
   back along the reversed list, release), and every run of that shape is accepted and leaves each
   site holding the atom it held before (theorems C08_round_trip_... below).  That the library's CZ moves play paths
   of exactly this shape is decided per call by the recogniser [round_trip_ok], evaluated in Coq on
   every enumerated call.
   Statements only. *)
From Coq Require Import String.
From Coq Require Import ZArith QArith List Bool Arith Permutation Lia.
From BS Require Import Core.Base Core.GridQ Model.Aod Model.LibMoves Proofs.AodProofs Proofs.AodRoundTrip Proofs.AodSelect Proofs.AodPre Proofs.AodLegs Proofs.LibMovesProofs Model.Arch Model.Builders Proofs.BuilderMoves Proofs.WaypointMoves.
Import ListNotations.

Theorem C08_no_atom_lost_or_duplicated : forall st ps st',
  sim_paths st ps = AOk st' -> Permutation (atoms st') (atoms st) /\ traps st' = traps st.
Proof. exact sim_conserves. Qed.

Theorem C08_release_only_onto_vacant_trap_sites : forall st sp st' a,
  drop1 st sp = AOk st' -> held_find (fst sp) (held st) = Some a ->
  is_trap st (snd sp) = true /\ occ_find (snd sp) (occ st) = None /\ occ_find (snd sp) (occ st') = Some a.
Proof. exact accepted_release. Qed.

Theorem C08_spots_light_up_only_on_trap_sites : forall st sp st', pick1 st sp = AOk st' -> is_trap st (snd sp) = true.
Proof. exact accepted_pick. Qed.

Theorem C08_jump_while_holding_is_refused : forall st nx ny w,
  held st <> [] -> length (fst w) = nx -> length (snd w) = ny ->
  same_place (xon st) (fst w) && same_place (yon st) (snd w) = false ->
  sim_waypoint st true nx ny w = AErr EJump.
Proof. exact jump_refused. Qed.

Theorem C08_wrong_dimensions_are_refused : forall st first nx ny w,
  (length (fst w) <> nx \/ length (snd w) <> ny) -> sim_waypoint st first nx ny w = AErr EDims.
Proof. exact wrong_dimensions_refused. Qed.

(* no two lit tweezers of an axis coincide after an accepted waypoint: the coordinates of the lit
   tones are pairwise different (a duplicated tone would claim one atom twice) *)
Theorem C08_tweezers_never_coincide : forall st first nx ny w st',
  sim_waypoint st first nx ny w = AOk st' ->
  (forall i j : nat, (i < j)%nat -> (j < length (xon st'))%nat -> ~ Qeq (nth i (map snd (xon st')) 0) (nth j (map snd (xon st')) 0)) /\
  (forall i j : nat, (i < j)%nat -> (j < length (yon st'))%nat -> ~ Qeq (nth i (map snd (yon st')) 0) (nth j (map snd (yon st')) 0)).
Proof. exact tweezers_never_coincide. Qed.

(* the round trip of the CZ move, for all grid sizes, coordinates, waypoint lists, trap sets and occupancies:
   s is the grid where everything is picked up (pairwise different coordinates per axis, every spot on a trap
   site), ws any further waypoints of the same dimensions; no site may be listed twice in the occupancy *)
Theorem C08_round_trip_is_executable_and_returns_every_atom :
  forall nx ny (T : list pos) (O : list (pos * nat)) (s : list Q * list Q) (ws : list (list Q * list Q)),
  wp_ok nx ny s -> Forall (wp_ok nx ny) ws ->
  (forall x y, In x (fst s) -> In y (snd s) -> existsb (pos_eqb (x, y)) T = true) ->
  occ_wf O = true ->
  let fwd := mkspath nx ny [SWay [s]; SSwitch On ALL ALL; SWay (s :: ws)] in
  let bwd := mkspath nx ny [SWay (rev (s :: ws)); SSwitch Off ALL ALL; SWay [s]] in
  exists st', sim_paths (mkast T O [] [] []) [fwd; bwd] = AOk st' /\
    traps st' = T /\ xon st' = [] /\ yon st' = [] /\ held st' = [] /\
    forall p, occ_find p (occ st') = occ_find p O.
Proof. exact cz_round_trip. Qed.

(* what the per-call recogniser establishes *)
Theorem C08_recognised_call_is_executable_and_returns_every_atom : forall T O ps, round_trip_ok T O ps = true ->
  exists st', sim_paths (mkast T O [] [] []) ps = AOk st' /\
    traps st' = T /\ xon st' = [] /\ yon st' = [] /\ held st' = [] /\ forall p, occ_find p (occ st') = occ_find p O.
Proof. exact recognised_round_trip_executable. Qed.

(* transport (move_by_waypoints with pick and drop, two_col_zone.rearrange), for all sizes, coordinates, waypoint lists,
   trap sets and occupancies: everything is picked up on the grid w0 and released on the last grid wn; the atom under
   tone (i, j) ends on the (i, j) site of wn, the sites of w0 are vacated, every other site is unchanged *)
Theorem C08_transport_is_executable_and_delivers :
  forall nx ny (T : list pos) (O : list (pos * nat)) (w0 : list Q * list Q) (ws : list (list Q * list Q)),
  let wn := last (w0 :: ws) w0 in
  let Lsrc := spots_of (canon nx (fst w0)) (canon ny (snd w0)) in
  wp_ok nx ny w0 -> Forall (wp_ok nx ny) ws ->
  (forall x y, In x (fst w0) -> In y (snd w0) -> existsb (pos_eqb (x, y)) T = true) ->
  (forall x y, In x (fst wn) -> In y (snd wn) -> existsb (pos_eqb (x, y)) T = true) ->
  (forall x y, In x (fst wn) -> In y (snd wn) -> occ_find (x, y) O = None \/ has_pos (x, y) Lsrc = true) ->
  occ_wf O = true ->
  exists st', sim_paths (mkast T O [] [] [])
                [mkspath nx ny [SWay [w0]; SSwitch On ALL ALL; SWay (w0 :: ws); SSwitch Off ALL ALL; SWay [wn]]] = AOk st' /\
    traps st' = T /\ xon st' = [] /\ yon st' = [] /\ held st' = [] /\
    (forall i j, (i < nx)%nat -> (j < ny)%nat ->
       occ_find (nth i (fst wn) 0%Q, nth j (snd wn) 0%Q) (occ st') = occ_find (nth i (fst w0) 0%Q, nth j (snd w0) 0%Q) O) /\
    (forall p, has_pos p (spots_of (canon nx (fst wn)) (canon ny (snd wn))) = false ->
       occ_find p (occ st') = if has_pos p Lsrc then None else occ_find p O).
Proof. exact transport. Qed.

Theorem C08_recognised_transport_is_executable_and_delivers : forall T O ps nx ny w0 ws,
  recognise_transport ps = Some (nx, ny, w0, ws) -> transport_ok T O ps = true ->
  let wn := last (w0 :: ws) w0 in
  exists st', sim_paths (mkast T O [] [] []) ps = AOk st' /\
    traps st' = T /\ xon st' = [] /\ yon st' = [] /\ held st' = [] /\
    (forall i j, (i < nx)%nat -> (j < ny)%nat ->
       occ_find (nth i (fst wn) 0%Q, nth j (snd wn) 0%Q) (occ st') = occ_find (nth i (fst w0) 0%Q, nth j (snd w0) 0%Q) O) /\
    (forall p, has_pos p (spots_of (canon nx (fst wn)) (canon ny (snd wn))) = false ->
       occ_find p (occ st') = if has_pos p (spots_of (canon nx (fst w0)) (canon ny (snd w0))) then None else occ_find p O).
Proof. exact recognised_transport_executable. Qed.

(* the same transport with only the tones of two index lists lit (gemini.logical.move_by_shift, used by vertical_shift):
   lx / ly are the index lists written in the path, in range and without repetition *)
Theorem C08_selected_transport_is_executable_and_delivers :
  forall nx ny (T : list pos) (O : list (pos * nat)) lx ly (w0 : list Q * list Q) (ws : list (list Q * list Q)),
  let ix := map Z.to_nat lx in let iy := map Z.to_nat ly in
  let wn := last (w0 :: ws) w0 in
  let Lsrc := spots_of (sel_tones ix (fst w0)) (sel_tones iy (snd w0)) in
  in_range nx lx = true -> in_range ny ly = true -> NoDup ix -> NoDup iy ->
  wp_sel_ok nx ny ix iy w0 -> Forall (wp_sel_ok nx ny ix iy) ws ->
  (forall i j, In i ix -> In j iy -> existsb (pos_eqb (nth i (fst w0) 0%Q, nth j (snd w0) 0%Q)) T = true) ->
  (forall i j, In i ix -> In j iy -> existsb (pos_eqb (nth i (fst wn) 0%Q, nth j (snd wn) 0%Q)) T = true) ->
  (forall i j, In i ix -> In j iy ->
     occ_find (nth i (fst wn) 0%Q, nth j (snd wn) 0%Q) O = None \/ has_pos (nth i (fst wn) 0%Q, nth j (snd wn) 0%Q) Lsrc = true) ->
  occ_wf O = true ->
  exists st', sim_paths (mkast T O [] [] [])
                [mkspath nx ny [SWay [w0]; SSwitch On (SList lx) (SList ly); SWay (w0 :: ws); SSwitch Off (SList lx) (SList ly); SWay [wn]]] = AOk st' /\
    traps st' = T /\ xon st' = [] /\ yon st' = [] /\ held st' = [] /\
    (forall i j, In i ix -> In j iy ->
       occ_find (nth i (fst wn) 0%Q, nth j (snd wn) 0%Q) (occ st') = occ_find (nth i (fst w0) 0%Q, nth j (snd w0) 0%Q) O) /\
    (forall p, has_pos p (spots_of (sel_tones ix (fst wn)) (sel_tones iy (snd wn))) = false ->
       occ_find p (occ st') = if has_pos p Lsrc then None else occ_find p O).
Proof. exact transport_sel. Qed.

Theorem C08_recognised_selected_transport_is_executable_and_delivers : forall T O ps nx ny lx ly w0 ws,
  recognise_transport_sel ps = Some (nx, ny, lx, ly, w0, ws) -> transport_sel_ok T O ps = true ->
  let ix := map Z.to_nat lx in let iy := map Z.to_nat ly in
  let wn := last (w0 :: ws) w0 in
  exists st', sim_paths (mkast T O [] [] []) ps = AOk st' /\
    traps st' = T /\ xon st' = [] /\ yon st' = [] /\ held st' = [] /\
    (forall i j, In i ix -> In j iy ->
       occ_find (nth i (fst wn) 0%Q, nth j (snd wn) 0%Q) (occ st') = occ_find (nth i (fst w0) 0%Q, nth j (snd w0) 0%Q) O) /\
    (forall p, has_pos p (spots_of (sel_tones ix (fst wn)) (sel_tones iy (snd wn))) = false ->
       occ_find p (occ st') = if has_pos p (spots_of (sel_tones ix (fst w0)) (sel_tones iy (snd w0))) then None else occ_find p O).
Proof. exact recognised_transport_sel_executable. Qed.

(* the hypotheses of the transport theorems follow from the documented preconditions: a grid with positive spacings has
   strictly ascending coordinates, and strictly ascending in-range index lists then select pairwise different coordinates
   (and no index twice) *)
Theorem C08_positive_spacings_give_ascending_coordinates : forall g,
  Forall (fun s => (0 < s)%Q) (xsp g) -> Forall (fun s => (0 < s)%Q) (ysp g) -> ascending_q (xpos g) /\ ascending_q (ypos g).
Proof. exact positive_spacings_give_ascending_coordinates. Qed.
Theorem C08_documented_preconditions_meet_the_hypotheses : forall nx ny ix iy (w : list Q * list Q),
  length (fst w) = nx -> length (snd w) = ny -> ascending_q (fst w) -> ascending_q (snd w) ->
  ascending_nat ix -> ascending_nat iy -> (forall i, In i ix -> (i < nx)%nat) -> (forall j, In j iy -> (j < ny)%nat) ->
  wp_sel_ok nx ny ix iy w /\ NoDup ix /\ NoDup iy.
Proof. exact documented_preconditions_give_wp_sel_ok. Qed.

(* "ends where the documentation says", per call of an index-based move on a zone with coordinates zx x zy: when the played
   path is a transport from zone[src_x, src_y] to zone[dst_x, dst_y] (both decided by computation on the call), the atom on
   zone[src_x[i], src_y[j]] ends on zone[dst_x[i], dst_y[j]] and nothing stays in the tweezers *)
Theorem C08_documented_transport_delivers : forall T O ps zx zy sx sy dx dy,
  transport_ok T O ps = true -> documented_transport zx zy sx sy dx dy ps = true ->
  exists st', sim_paths (mkast T O [] [] []) ps = AOk st' /\ held st' = [] /\
    forall i j, (i < length sx)%nat -> (j < length sy)%nat ->
      occ_find (nth (nth i dx 0%nat) zx 0%Q, nth (nth j dy 0%nat) zy 0%Q) (occ st') =
      occ_find (nth (nth i sx 0%nat) zx 0%Q, nth (nth j sy 0%nat) zy 0%Q) O.
Proof. exact documented_transport_delivers. Qed.

(* a CZ-move shaped program on a 2x1 selection: out along an L-shaped path, back along its reversal *)
Example C08_example :
  let ALL := SSlice None None None in
  let st0 := mkast [(0, 0); (10, 0); (20, 0); (30, 0)] [((0, 0), 1%nat); ((20, 0), 2%nat); ((10, 0), 3%nat)] [] [] [] in
  let fwd := mkspath 2 1 [SWay [([0; 20], [0])]; SSwitch On ALL ALL; SWay [([0; 20], [0]); ([2; 22], [2]); ([12; 32], [2])]] in
  let bwd := mkspath 2 1 [SWay [([12; 32], [2]); ([2; 22], [2]); ([0; 20], [0])]; SSwitch Off ALL ALL; SWay [([0; 20], [0])]] in
  let swapped := mkspath 2 1 [SWay [([10; 30], [0])]; SSwitch Off ALL ALL; SWay [([10; 30], [0])]] in
  show_sim (sim_paths st0 [fwd; bwd]) = "ok held=0 occ=[1@0/1,0/1,2@20/1,0/1,3@10/1,0/1]"%string
  /\ sim_paths st0 [fwd; swapped] = AErr EJump
  /\ sim_paths st0 [mkspath 2 1 [SWay [([0; 0], [0])]; SSwitch On ALL ALL]] = AErr ECollide
  /\ round_trip_ok (traps st0) (occ st0) [fwd; bwd] = true /\ round_trip_ok (traps st0) (occ st0) [fwd; swapped] = false.
Proof. vm_compute. repeat split; reflexivity. Qed.

(* ---- moves played in several legs (move_by_waypoints: pick on the first call, drop on the last, any calls in between) ---- *)

(* consecutive paths glued at the waypoint where one ends and the next begins simulate EXACTLY like the sequence of legs,
   from every state, whether the simulation succeeds or fails *)
Theorem C08_legs_simulate_as_the_merged_path : forall qs p m, merge_legs p qs = Some m ->
  forall st, sim_paths st (p :: qs) = sim_paths st [m].
Proof. exact merge_legs_sound. Qed.

(* hence a recognised multi-leg move is executable, leaves nothing in the tweezers, and delivers tone (i, j)'s atom *)
Theorem C08_recognised_multi_leg_move_is_executable_and_delivers : forall T O ps, legs_transport_ok T O ps = true ->
  exists m nx ny w0 ws st',
    recognise_transport [m] = Some (nx, ny, w0, ws) /\
    sim_paths (mkast T O [] [] []) ps = AOk st' /\ held st' = [] /\ xon st' = [] /\ yon st' = [] /\
    let wn := last (w0 :: ws) w0 in
    forall i j, (i < nx)%nat -> (j < ny)%nat ->
      occ_find (nth i (fst wn) 0%Q, nth j (snd wn) 0%Q) (occ st') = occ_find (nth i (fst w0) 0%Q, nth j (snd w0) 0%Q) O.
Proof. exact recognised_legs_executable. Qed.

(* non-vacuity: a 2x1 selection carried over two legs via a hovering position *)
Example C08_two_legs_example :
  let T := [(0, 0); (10#1, 0); (20#1, 0); (30#1, 0)]%Q in
  let O := [((0, 0)%Q, 1%nat); ((10#1, 0)%Q, 2%nat)] in
  let leg1 := mkspath 2 1 [SWay [([0; 10#1], [0])]; SSwitch On ALL ALL; SWay [([0; 10#1], [0]); ([5#1; 15#1], [3#1])]]%Q in
  let leg2 := mkspath 2 1 [SWay [([5#1; 15#1], [3#1]); ([20#1; 30#1], [0])]; SSwitch Off ALL ALL; SWay [([20#1; 30#1], [0])]]%Q in
  legs_transport_ok T O [leg1; leg2] = true /\
  show_sim (sim_paths (mkast T O [] [] []) [leg1; leg2]) = "ok held=0 occ=[1@20/1,0/1,2@30/1,0/1]"%string.
Proof. vm_compute. split; reflexivity. Qed.

(* move_by_waypoints (Model/LibMoves.v waypoints_model, compared with the implementation on every enumerated call): with pick and drop
   the played path has the transport shape, whatever the waypoints ... *)
Theorem C08_waypoints_pick_drop_is_a_transport : forall w0 rest ps,
  waypoints_model (w0 :: rest) true true = Some ps ->
  recognise_transport ps = Some (length (fst w0), length (snd w0), w0, rest).
Proof. exact waypoints_pick_drop_is_a_transport. Qed.

(* ... and a move split over two calls (pick on the first, drop on the second, the second starting where the first ended) glues into
   the path of ONE call with pick and drop over the concatenated waypoints - to which the transport theorems apply *)
Theorem C08_waypoints_two_legs_glue : forall w0 r1 u r2 p1 p2,
  waypoints_model (w0 :: r1) true false = Some [p1] -> waypoints_model (u :: r2) false true = Some [p2] ->
  same_shape w0 u = true -> wp_eqb (last (w0 :: r1) w0) u = true ->
  exists m, merge_legs p1 [p2] = Some m /\ waypoints_model (w0 :: r1 ++ r2) true true = Some [m].
Proof. exact waypoints_two_legs_glue. Qed.

(* ---- the library kernels themselves (Model/LibMoves.v: the played paths as a function of the zone's coordinates and the call's
   index lists; compared with the implementation on every enumerated call, acceptance and paths) ---- *)

(* the CZ move accepts a call with a non-empty column selection EXACTLY under the documented preconditions (equal lengths, non-empty
   ascending lists inside the zone) and then plays the round-trip paths; otherwise it is rejected *)
Theorem C08_cz_move_accepts_exactly_the_documented_calls : forall zx zy cx cy qx qy sx sy,
  (1 <= length cx)%nat -> (1 <= length qx)%nat ->
  (cz_preconditions zx zy cx cy qx qy <-> cz_model zx zy cx cy qx qy sx sy = Some (cz_paths zx zy cx cy qx qy sx sy)) /\
  (cz_model zx zy cx cy qx qy sx sy = None \/ cz_model zx zy cx cy qx qy sx sy = Some (cz_paths zx zy cx cy qx qy sx sy)).
Proof. exact cz_model_accepts_iff. Qed.

(* ... and EVERY call the CZ move accepts - any zone with ascending coordinates, any index lists, any shifts, any occupancy - is
   physically executable and returns every atom to the site it came from ("rejected or executable", "ends where documented") *)
Theorem C08_cz_move_every_accepted_call_is_executable : forall zx zy cx cy qx qy sx sy O ps,
  ascending_q zx -> ascending_q zy -> occ_wfb O = true ->
  cz_model zx zy cx cy qx qy sx sy = Some ps ->
  exists st', sim_paths (mkast (grid_sites (zx, zy)) O [] [] []) ps = AOk st' /\
    held st' = [] /\ forall p, occ_find p (occ st') = occ_find p O.
Proof. exact cz_model_accepted_is_executable. Qed.

(* ... on EVERY layout single_col_zone.get_spec builds with a positive spacing: whatever CZ-move call is accepted is executable and
   returns every atom; and the accepted calls are exactly the documented ones (C08_cz_move_accepts_exactly_the_documented_calls) *)
Theorem C08_cz_move_on_every_single_zone_layout : forall nx ny s cx cy qx qy sx sy O ps,
  (0 < s)%Q ->
  let zx := xpos (single_col_traps nx ny s) in let zy := ypos (single_col_traps nx ny s) in
  occ_wfb O = true -> cz_model zx zy cx cy qx qy sx sy = Some ps ->
  exists st', sim_paths (mkast (grid_sites (zx, zy)) O [] [] []) ps = AOk st' /\
    held st' = [] /\ forall p, occ_find p (occ st') = occ_find p O.
Proof.
  intros nx ny s cx cy qx qy sx sy O ps Hs zx zy HO E.
  destruct (single_col_layouts_are_ascending nx ny s Hs) as [Ax Ay].
  exact (cz_model_accepted_is_executable zx zy cx cy qx qy sx sy O ps Ax Ay HO E).
Qed.

(* rearrange: an accepted call whose parking coordinates are pairwise different and whose destination sites are vacant (or vacated by
   the move) is executable, and the atom of zone[src_x[i], src_y[j]] ends on zone[dst_x[i], dst_y[j]] *)
Theorem C08_rearrange_accepted_strict_call_delivers : forall zx zy sx sy dx dy ps O,
  ascending_q zx -> ascending_q zy -> occ_wfb O = true ->
  rearrange_model zx zy sx sy dx dy = Some ps -> ps <> [] ->
  rearrange_strict zx zy sx sy dx dy = true ->
  forallb (fun p => match occ_find p O with None => true | Some _ => existsb (pos_eqb p) (grid_sites (pick_coords sx zx, pick_coords sy zy)) end)
          (grid_sites (pick_coords dx zx, pick_coords dy zy)) = true ->
  exists st', sim_paths (mkast (grid_sites (zx, zy)) O [] [] []) ps = AOk st' /\ held st' = [] /\
    forall i j, (i < length sx)%nat -> (j < length sy)%nat ->
      occ_find (nth (nth i dx 0%nat) zx 0%Q, nth (nth j dy 0%nat) zy 0%Q) (occ st') =
      occ_find (nth (nth i sx 0%nat) zx 0%Q, nth (nth j sy 0%nat) zy 0%Q) O.
Proof. exact rearrange_model_delivers. Qed.

(* rearrange, "valid inputs are not rejected and end where documented": on a zone where parking is possible (parking_ok: the +-3 parking
   columns stay in order along the zone and neighbouring rows are more than 6 apart - decided by computation for every enumerated
   layout), EVERY call meeting the documented preconditions is accepted with pairwise different parking coordinates ... *)
Theorem C08_rearrange_documented_call_is_accepted : forall zx zy sx sy dx dy,
  ascending_q zx -> ascending_q zy -> parking_ok zx zy = true -> rearrange_preconditionsb zx zy sx sy dx dy = true ->
  exists ps, rearrange_model zx zy sx sy dx dy = Some ps /\ ps <> [] /\ rearrange_strict zx zy sx sy dx dy = true.
Proof. exact rearrange_documented_call_is_accepted_and_strict. Qed.

(* ... and therefore (with C08_rearrange_accepted_strict_call_delivers) executable, delivering zone[src] to zone[dst] *)
Theorem C08_rearrange_documented_call_delivers : forall zx zy sx sy dx dy O,
  ascending_q zx -> ascending_q zy -> parking_ok zx zy = true -> rearrange_preconditionsb zx zy sx sy dx dy = true ->
  occ_wfb O = true ->
  forallb (fun p => match occ_find p O with None => true | Some _ => existsb (pos_eqb p) (grid_sites (pick_coords sx zx, pick_coords sy zy)) end)
          (grid_sites (pick_coords dx zx, pick_coords dy zy)) = true ->
  exists ps st', rearrange_model zx zy sx sy dx dy = Some ps /\
    sim_paths (mkast (grid_sites (zx, zy)) O [] [] []) ps = AOk st' /\ held st' = [] /\
    forall i j, (i < length sx)%nat -> (j < length sy)%nat ->
      occ_find (nth (nth i dx 0%nat) zx 0%Q, nth (nth j dy 0%nat) zy 0%Q) (occ st') =
      occ_find (nth (nth i sx 0%nat) zx 0%Q, nth (nth j sy 0%nat) zy 0%Q) O.
Proof.
  intros zx zy sx sy dx dy O Ax Ay Hp Hpre HO Hd.
  destruct (rearrange_documented_call_is_accepted_and_strict zx zy sx sy dx dy Ax Ay Hp Hpre) as [ps [E [NE Hs]]].
  destruct (rearrange_model_delivers zx zy sx sy dx dy ps O Ax Ay HO E NE Hs Hd) as [st' H].
  exists ps, st'. split; [exact E | exact H].
Qed.

(* ... on EVERY layout two_col_zone.get_spec builds with a pitch above 6 and a positive gate spacing (any number of pairs and rows):
   every rearrange call meeting the documented preconditions, with a free destination, is executed and delivers zone[src] to zone[dst] *)
Theorem C08_rearrange_on_every_two_column_layout : forall nx ny s gs sx sy dx dy O,
  (0 < gs)%Q -> (6 < s)%Q ->
  let zx := xpos (two_col_traps nx ny s gs) in let zy := ypos (two_col_traps nx ny s gs) in
  rearrange_preconditionsb zx zy sx sy dx dy = true -> occ_wfb O = true ->
  forallb (fun p => match occ_find p O with None => true | Some _ => existsb (pos_eqb p) (grid_sites (pick_coords sx zx, pick_coords sy zy)) end)
          (grid_sites (pick_coords dx zx, pick_coords dy zy)) = true ->
  exists ps st', rearrange_model zx zy sx sy dx dy = Some ps /\
    sim_paths (mkast (grid_sites (zx, zy)) O [] [] []) ps = AOk st' /\ held st' = [] /\
    forall i j, (i < length sx)%nat -> (j < length sy)%nat ->
      occ_find (nth (nth i dx 0%nat) zx 0%Q, nth (nth j dy 0%nat) zy 0%Q) (occ st') =
      occ_find (nth (nth i sx 0%nat) zx 0%Q, nth (nth j sy 0%nat) zy 0%Q) O.
Proof.
  intros nx ny s gs sx sy dx dy O Hg Hs zx zy Hpre HO Hd.
  destruct (two_col_layouts_allow_parking nx ny s gs Hg Hs) as [Ax [Ay Hp]].
  exact (C08_rearrange_documented_call_delivers zx zy sx sy dx dy O Ax Ay Hp Hpre HO Hd).
Qed.

(* the full statement "every accepted rearrange call is executable" is FALSE of the faithful model: the hard-coded +-3 parking offsets
   make two tweezers coincide on a zone with pair pitch 6 (known finding; the witness is the replay) *)
Theorem C08_rearrange_acceptance_alone_refuted :
  exists zx zy sx sy dx dy ps,
    rearrange_model zx zy sx sy dx dy = Some ps /\
    sim_paths (mkast (grid_sites (zx, zy)) [((2#1, 0)%Q, 1%nat); ((8#1, 0)%Q, 2%nat)] [] [] []) ps = AErr ECollide.
Proof. exact rearrange_accepts_coinciding_refuted. Qed.

(* the hypotheses are satisfiable: a 3x2 zone at pitch 10, control column 0, target column 1; a two-pair zone at pitch 10 *)
Example C08_library_kernel_hypotheses_hold_somewhere :
  cz_preconditions [0; 10#1; 20#1]%Q [0; 10#1]%Q [0%nat] [0%nat; 1%nat] [1%nat] [0%nat; 1%nat] /\
  (exists ps, cz_model [0; 10#1; 20#1]%Q [0; 10#1]%Q [0%nat] [0%nat; 1%nat] [1%nat] [0%nat; 1%nat] (2#1) (2#1) = Some ps /\ length ps = 2%nat) /\
  (exists ps, rearrange_model [0; 2#1; 12#1; 14#1]%Q [0; 10#1]%Q [1%nat; 2%nat] [0%nat] [0%nat; 3%nat] [1%nat] = Some ps /\ length ps = 1%nat) /\
  rearrange_strict [0; 2#1; 12#1; 14#1]%Q [0; 10#1]%Q [1%nat; 2%nat] [0%nat] [0%nat; 3%nat] [1%nat] = true /\
  parking_ok [0; 2#1; 12#1; 14#1]%Q [0; 10#1]%Q = true /\ parking_ok [0; 2#1; 8#1; 10#1]%Q [0; 6#1]%Q = false /\
  rearrange_preconditionsb [0; 2#1; 12#1; 14#1]%Q [0; 10#1]%Q [1%nat; 2%nat] [0%nat] [0%nat; 3%nat] [1%nat] = true.
Proof.
  split; [|split; [|split; [|split; [|split; [|split]]]]].
  - unfold cz_preconditions. simpl. repeat split; try lia; intros i [<- | [<- | []]] || intros i [<- | []]; lia.
  - eexists. split; [vm_compute; reflexivity | reflexivity].
  - eexists. split; [vm_compute; reflexivity | reflexivity].
  - vm_compute. reflexivity.
  - vm_compute. reflexivity.
  - vm_compute. reflexivity.
  - vm_compute. reflexivity.
Qed.

Print Assumptions C08_no_atom_lost_or_duplicated.
Print Assumptions C08_release_only_onto_vacant_trap_sites.
Print Assumptions C08_spots_light_up_only_on_trap_sites.
Print Assumptions C08_jump_while_holding_is_refused.
Print Assumptions C08_wrong_dimensions_are_refused.
Print Assumptions C08_tweezers_never_coincide.
Print Assumptions C08_round_trip_is_executable_and_returns_every_atom.
Print Assumptions C08_recognised_call_is_executable_and_returns_every_atom.
Print Assumptions C08_transport_is_executable_and_delivers.
Print Assumptions C08_recognised_transport_is_executable_and_delivers.
Print Assumptions C08_selected_transport_is_executable_and_delivers.
Print Assumptions C08_recognised_selected_transport_is_executable_and_delivers.
Print Assumptions C08_positive_spacings_give_ascending_coordinates.
Print Assumptions C08_documented_preconditions_meet_the_hypotheses.
Print Assumptions C08_documented_transport_delivers.
Print Assumptions C08_cz_move_accepts_exactly_the_documented_calls.
Print Assumptions C08_cz_move_every_accepted_call_is_executable.
Print Assumptions C08_rearrange_accepted_strict_call_delivers.
Print Assumptions C08_rearrange_acceptance_alone_refuted.
Print Assumptions C08_legs_simulate_as_the_merged_path.
Print Assumptions C08_recognised_multi_leg_move_is_executable_and_delivers.
Print Assumptions C08_rearrange_documented_call_is_accepted.
Print Assumptions C08_rearrange_documented_call_delivers.
Print Assumptions C08_rearrange_on_every_two_column_layout.
Print Assumptions C08_cz_move_on_every_single_zone_layout.
Print Assumptions C08_waypoints_pick_drop_is_a_transport.
Print Assumptions C08_waypoints_two_legs_glue.
