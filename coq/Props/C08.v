From BS Require Import Core.Base.
