(* C09 - The quantum-runtime query never answers False for a kernel that acts.
   Model/Runtime.v: [analyze d p body] models RuntimeAnalysis.has_quantum_runtime on the abstracted
   IR (d = the interpreters' max_depth), [acts p d body] says that SOME execution (any branch, any
   trip count, any dynamically resolved callee) performs a device-visible operation within that
   call depth - the same bound the concrete interpreter enforces.  Statements only. *)
From Coq Require Import String.
From Coq Require Import List Bool.
From BS Require Import Model.Runtime Proofs.RuntimeProofs.
Import ListNotations.

Theorem C09_false_is_sound : forall p d body, analyze d p body = AFalse -> ~ acts p d body.
Proof. exact analyze_false_sound. Qed.
Theorem C09_acting_kernel_gets_true_or_refusal : forall p d body,
  acts p d body -> analyze d p body = ATrue \/ analyze d p body = ARefuse.
Proof. exact acts_true_or_refuse. Qed.
Theorem C09_quiet_call_graph_gets_false : forall p d body,
  quiet_prog p = true -> quiet_list body = true -> analyze d p body = AFalse.
Proof. exact quiet_answers_false. Qed.
Theorem C09_dynamic_call_refuses : forall p d pre post,
  analyze d p (pre ++ RCallLam None :: post) = ARefuse.
Proof. exact dynamic_call_refuses. Qed.

Local Open Scope string_scope.
Example C09_example :
  let p := [("sub", [RFor [RFor [RIf [] [RDev]]]]); ("rec", [RIf [RInvoke "rec"] []])] in
  analyze 128 p [RFor [RInvoke "sub"]] = ATrue
  /\ analyze 128 p [RInvoke "rec"; RCallLam (Some [RFor []])] = AFalse
  /\ analyze 128 p [RCallLam None; RDev] = ARefuse
  /\ acts p 1 [RFor [RInvoke "sub"]].
Proof.
  repeat split; try (vm_compute; reflexivity).
  apply A_loop. eapply A_invoke; [reflexivity|]. apply A_loop, A_loop, A_else, A_dev.
Qed.

Print Assumptions C09_false_is_sound.
Print Assumptions C09_acting_kernel_gets_true_or_refusal.
Print Assumptions C09_quiet_call_graph_gets_false.
Print Assumptions C09_dynamic_call_refuses.
