(* Shared vocabulary: result type with an error enum, selectors, opaque grids. *)
From Coq Require Import ZArith List String Bool.
From BS Require Import Core.Show.
Import ListNotations.
Local Open Scope string_scope.

Inductive err := EInterp | EAssert | EValue | EKey | EIndex | EBuild | EFuel | EOther.

Inductive res (A : Type) := Ok (a : A) | Err (e : err).
Arguments Ok {A} a.
Arguments Err {A} e.

Definition bind {A B} (r : res A) (f : A -> res B) : res B :=
  match r with Ok a => f a | Err e => Err e end.

Definition is_ok {A} (r : res A) : bool := match r with Ok _ => true | Err _ => false end.

Definition show_res {A} (f : A -> string) (r : res A) : string :=
  match r with Ok a => f a | Err _ => "ERR" end.

(* An opaque grid: an identity and a shape.  Nothing else about a grid is used by the
   tracer, reversal, or the path well-formedness properties. *)
Record grid := mkgrid { gid : Z; gnx : Z; gny : Z }.

Definition grid_eqb (a b : grid) : bool :=
  Z.eqb (gid a) (gid b) && Z.eqb (gnx a) (gnx b) && Z.eqb (gny a) (gny b).

Definition shape_eqb (a b : grid) : bool :=
  Z.eqb (gnx a) (gnx b) && Z.eqb (gny a) (gny b).

Definition show_grid (g : grid) : string := "g" ++ show_Z (gid g).

(* tone selectors: an index list or a slice(start, stop, step) *)
Inductive sel := SList (l : list Z) | SSlice (a b c : option Z).
Inductive form := FList | FSlice.
Definition form_of (s : sel) : form :=
  match s with SList _ => FList | SSlice _ _ _ => FSlice end.

Definition show_optZ (o : option Z) : string :=
  match o with None => "N" | Some z => show_Z z end.
Definition show_sel (s : sel) : string :=
  match s with
  | SList l => show_list show_Z l
  | SSlice a b c => "sl(" ++ show_optZ a ++ "," ++ show_optZ b ++ "," ++ show_optZ c ++ ")"
  end.
Definition show_form (f : form) : string := match f with FList => "L" | FSlice => "S" end.

Inductive onoff := On | Off.
Definition show_onoff (k : onoff) : string := match k with On => "on" | Off => "off" end.
Definition flip_onoff (k : onoff) : onoff := match k with On => Off | Off => On end.

(* path actions: a waypoint segment, or a tone switch whose CLASS says (k, fx, fy)
   and whose FIELDS hold x and y *)
Inductive action :=
| AWay (ws : list grid)
| ASwitch (k : onoff) (fx fy : form) (x y : sel).

Definition show_action (a : action) : string :=
  match a with
  | AWay ws => "W" ++ show_list show_grid ws
  | ASwitch k fx fy x y =>
      "S(" ++ show_onoff k ++ "," ++ show_form fx ++ "," ++ show_form fy ++ ","
           ++ show_sel x ++ "," ++ show_sel y ++ ")"
  end.

Definition show_path (p : list action) : string :=
  match p with [] => "-" | _ => sep_by ";" (map show_action p) end.
