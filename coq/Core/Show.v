(* Canonical text rendering of model outputs, used only by the correspondence
   check: Coq renders what the model computes, the harness renders what the
   implementation computed in the same syntax, and the two texts are compared. *)
From Coq Require Import ZArith List String Ascii Bool QArith.
Import ListNotations.
Local Open Scope string_scope.

Definition nl : string := String (ascii_of_nat 10) EmptyString.

Fixpoint show_pos_aux (fuel : nat) (n : N) (acc : string) : string :=
  match fuel with
  | O => acc
  | S f =>
      let d := N.modulo n 10 in
      let acc' := String (ascii_of_N (48 + d)) acc in
      let q := N.div n 10 in
      if N.eqb q 0 then acc' else show_pos_aux f q acc'
  end.

Definition show_N (n : N) : string := show_pos_aux (S (N.to_nat (N.log2 n))) n "".

Definition show_Z (z : Z) : string :=
  match z with
  | Z0 => "0"
  | Zpos p => show_N (Npos p)
  | Zneg p => "-" ++ show_N (Npos p)
  end.

Definition show_nat (n : nat) : string := show_N (N.of_nat n).

Definition show_bool (b : bool) : string := if b then "T" else "F".

(* rationals are shown as reduced num/den *)
Definition show_Q (q : Q) : string :=
  let q' := Qred q in
  show_Z (Qnum q') ++ "/" ++ show_Z (Zpos (Qden q')).

Fixpoint sep_by (s : string) (l : list string) : string :=
  match l with
  | [] => ""
  | [x] => x
  | x :: r => x ++ s ++ sep_by s r
  end.

Definition show_list {A} (f : A -> string) (l : list A) : string :=
  "[" ++ sep_by "," (map f l) ++ "]".

Definition show_option {A} (f : A -> string) (o : option A) : string :=
  match o with None => "None" | Some a => "Some(" ++ f a ++ ")" end.

Definition show_pair {A B} (f : A -> string) (g : B -> string) (p : A * B) : string :=
  "(" ++ f (fst p) ++ "," ++ g (snd p) ++ ")".

Definition lines (l : list string) : string := sep_by nl l.
