(* Executable model of bloqade.geometry.dialects.grid.types (Grid and SubGrid) over exact
   rationals.  Python computes with binary64 floats; the two coincide on the dyadic inputs the
   correspondence generators use (DESIGN.md section 3).  Definitions only. *)
From Coq Require Import String.
From Coq Require Import ZArith QArith List Bool.
From BS Require Import Core.Show Core.Base.
Import ListNotations.
Local Open Scope Q_scope.

Record gridq := mkGQ { xsp : list Q; ysp : list Q; xin : option Q; yin : option Q }.

Definition qsum (l : list Q) : Q := fold_left Qplus l 0.

(* Grid.from_positions *)
Fixpoint diffs (l : list Q) : list Q :=
  match l with
  | a :: ((b :: _) as r) => (b - a) :: diffs r
  | _ => []
  end.
Definition from_positions (xs ys : list Q) : gridq :=
  mkGQ (diffs xs) (diffs ys) (hd_error xs) (hd_error ys).

(* x_positions / y_positions: running sums from the initial position *)
Fixpoint run_from (p : Q) (sp : list Q) : list Q :=
  match sp with [] => [p] | s :: r => p :: run_from (p + s) r end.
Definition pos_of (init : option Q) (sp : list Q) : list Q :=
  match init with None => [] | Some p => run_from p sp end.
Definition xpos (g : gridq) : list Q := pos_of (xin g) (xsp g).
Definition ypos (g : gridq) : list Q := pos_of (yin g) (ysp g).

Definition dim_of (init : option Q) (sp : list Q) : nat :=
  match init with None => O | Some _ => S (length sp) end.
Definition gshape (g : gridq) : nat * nat := (dim_of (xin g) (xsp g), dim_of (yin g) (ysp g)).

Definition width (g : gridq) : Q := qsum (xsp g).
Definition height (g : gridq) : Q := qsum (ysp g).

(* positions: lexicographic product, x major *)
Definition positions (g : gridq) : list (Q * Q) :=
  flat_map (fun x => map (fun y => (x, y)) (ypos g)) (xpos g).

Definition gshift (g : gridq) (dx dy : Q) : gridq :=
  mkGQ (xsp g) (ysp g) (option_map (fun x => x + dx) (xin g)) (option_map (fun y => y + dy) (yin g)).

Definition gscale (g : gridq) (sx sy : Q) : gridq :=
  mkGQ (map (fun s => s * sx) (xsp g)) (map (fun s => s * sy) (ysp g)) (xin g) (yin g).

(* sum((sp + (gap,) for _ in range(times-1)), ()) + sp *)
Fixpoint rep_spacing (sp : list Q) (gap : Q) (times_minus_1 : nat) : list Q :=
  match times_minus_1 with
  | O => sp
  | S k => sp ++ gap :: rep_spacing sp gap k
  end.
Definition grepeat (g : gridq) (tx ty : nat) (gx gy : Q) : res gridq :=
  match tx, ty with
  | S kx, S ky => Ok (mkGQ (rep_spacing (xsp g) gx kx) (rep_spacing (ysp g) gy ky) (xin g) (yin g))
  | _, _ => Err EValue
  end.

(* Python list slice l[s:e] for non-negative s, e *)
Definition slice (l : list Q) (s e : nat) : list Q := firstn (e - s) (skipn s l).

(* SubGrid.__post_init__: spacings are sums of parent spacings between consecutive indices *)
Fixpoint sub_spacing (sp : list Q) (idx : list nat) : list Q :=
  match idx with
  | a :: ((b :: _) as r) => qsum (slice sp a b) :: sub_spacing sp r
  | _ => []
  end.
Definition sub_init (init : option Q) (sp : list Q) (idx : list nat) : option Q :=
  match init, idx with
  | Some p, i :: _ => Some (p + qsum (firstn i sp))
  | _, _ => None
  end.

(* A grid value: a plain grid, or a view that remembers its parent and indices (SubGrid).
   Its geometry (what Grid.__eq__/__hash__ and all operations read) is [geom]. *)
Inductive gridv :=
| GPlain (g : gridq)
| GSub (parent : gridq) (xi yi : list nat).

Definition geom (v : gridv) : gridq :=
  match v with
  | GPlain g => g
  | GSub p xi yi =>
      mkGQ (sub_spacing (xsp p) xi) (sub_spacing (ysp p) yi) (sub_init (xin p) (xsp p) xi) (sub_init (yin p) (ysp p) yi)
  end.

(* Grid.get_view / SubGrid.get_view (views of views index the original parent) *)
Definition sel_idx (idx : list nat) (sel : list nat) : res (list nat) :=
  fold_right (fun s acc => match acc, nth_error idx s with
                           | Ok l, Some i => Ok (i :: l)
                           | Ok _, None => Err EIndex
                           | Err e, _ => Err e end) (Ok []) sel.

Definition gview (v : gridv) (xi yi : list nat) : res gridv :=
  match xi, yi with
  | [], _ | _, [] => Err EValue                       (* "Indices cannot be empty" *)
  | _, _ =>
      match v with
      | GPlain g => Ok (GSub g xi yi)
      | GSub p pxi pyi =>
          match sel_idx pxi xi, sel_idx pyi yi with
          | Ok xs, Ok ys => Ok (GSub p xs ys)
          | Err e, _ | _, Err e => Err e
          end
      end
  end.

(* the operations below return plain grids, as the Python methods do *)
Definition vshift (v : gridv) (dx dy : Q) : gridv := GPlain (gshift (geom v) dx dy).
Definition vscale (v : gridv) (sx sy : Q) : gridv := GPlain (gscale (geom v) sx sy).
Definition vrepeat (v : gridv) (tx ty : nat) (gx gy : Q) : res gridv :=
  match grepeat (geom v) tx ty gx gy with Ok g => Ok (GPlain g) | Err e => Err e end.

(* Grid.__eq__: spacing tuples and initial positions, by value *)
Fixpoint qlist_eqb (a b : list Q) : bool :=
  match a, b with
  | [], [] => true
  | x :: r, y :: s => Qeq_bool x y && qlist_eqb r s
  | _, _ => false
  end.
Definition qopt_eqb (a b : option Q) : bool :=
  match a, b with
  | None, None => true
  | Some x, Some y => Qeq_bool x y
  | _, _ => false
  end.
Definition gridq_eqb (a b : gridq) : bool :=
  qlist_eqb (xsp a) (xsp b) && qlist_eqb (ysp a) (ysp b) && qopt_eqb (xin a) (xin b) && qopt_eqb (yin a) (yin b).
Definition gridv_eqb (a b : gridv) : bool := gridq_eqb (geom a) (geom b).

(* rendering *)
Local Open Scope string_scope.
Definition show_gridq (g : gridq) : string :=
  "Grid(" ++ show_list show_Q (xsp g) ++ "," ++ show_list show_Q (ysp g) ++ ","
          ++ show_option show_Q (xin g) ++ "," ++ show_option show_Q (yin g) ++ ")".
Definition show_gridv (v : gridv) : string := show_gridq (geom v).
