"""Translator: /repo/src/bloqade/shuttle/analysis/zone/lattice.py  ->  Gallina (Gen_C18.v).

Fail-closed: every construct outside the small fragment below raises Untranslatable, and the check then
reports that the generated model could not be produced.  The fragment is what an `is_subseteq` / `join`
method of a dataclass lattice element is made of:

  statements   return E | if E: <stmts>  (followed by further statements = the else branch)
  expressions  True | False | E and E | E or E | not E
               isinstance(other, K) | type(other) is K
               self.f == other.f | self.f != other.f            (str fields)
               self.f.is_subseteq(other.f)                      (Zone fields)
  join only    return K() | return super().join(other)

`other.f` is resolved by partial evaluation: for every ordered pair (class of self, class of other) the body
is evaluated with `isinstance` / `type(...) is` decided by the class hierarchy read from the source and with
Python's short-circuit rules; reading a field `other` does not have is an AttributeError in Python and
Untranslatable here.  kirin's SimpleJoinMixin / SimpleMeetMixin (outside /repo) are written by hand in the
generated file, over the generated order.
"""
import ast


class Untranslatable(Exception):
    pass


ROOT = "Zone"


class Cls:
    def __init__(self, node):
        self.name = node.name
        self.bases = [b.id for b in node.bases if isinstance(b, ast.Name)]
        self.own_fields = [(s.target.id, ast.unparse(s.annotation)) for s in node.body if isinstance(s, ast.AnnAssign) and isinstance(s.target, ast.Name)]
        self.methods = {s.name: s for s in node.body if isinstance(s, ast.FunctionDef)}


def parse(path):
    tree = ast.parse(open(path).read())
    classes = {n.name: Cls(n) for n in tree.body if isinstance(n, ast.ClassDef)}
    if ROOT not in classes:
        raise Untranslatable("no class Zone")
    return classes


def mro(classes, name):
    """C3 linearisation restricted to the classes of this module (the others carry no fields or lattice methods we translate)"""
    def merge(seqs):
        out = []
        seqs = [list(s) for s in seqs if s]
        while seqs:
            for s in seqs:
                h = s[0]
                if not any(h in t[1:] for t in seqs):
                    break
            else:
                raise Untranslatable("inconsistent hierarchy")
            out.append(h)
            seqs = [[x for x in t if x != h] for t in seqs]
            seqs = [t for t in seqs if t]
        return out
    c = classes[name]
    bases = [b for b in c.bases if b in classes]
    return [name] + merge([mro(classes, b) for b in bases] + [bases])


def is_zone(classes, name):
    return ROOT in mro(classes, name)


def fields(classes, name):
    out = []
    for k in reversed(mro(classes, name)):
        for f, ann in classes[k].own_fields:
            if f not in [x for x, _ in out]:
                out.append((f, ann))
    return out


def find_method(classes, name, meth, after=None):
    """the class in name's MRO (after `after`, for super()) that defines meth, or None (= inherited from kirin)"""
    chain = mro(classes, name)
    if after is not None:
        chain = chain[chain.index(after) + 1:]
    for k in chain:
        if meth in classes[k].methods:
            return k
    return None


# ---- partial evaluation of a method body for a known (self class, other class) ----
class Sym:
    def __init__(self, text):
        self.text = text


def land(a, b_thunk):
    if a is False:
        return False
    if a is True:
        return b_thunk()
    b = b_thunk()
    if b is False:
        # Python would still evaluate a first; the value is False either way and a has no effects
        return False
    if b is True:
        return a
    return Sym(f"({a.text} && {b.text})")


def lor(a, b_thunk):
    if a is True:
        return True
    if a is False:
        return b_thunk()
    b = b_thunk()
    if b is True:
        return True
    if b is False:
        return a
    return Sym(f"({a.text} || {b.text})")


def lnot(a):
    if a is True:
        return False
    if a is False:
        return True
    return Sym(f"(negb {a.text})")


class PE:
    def __init__(self, classes, A, B, rec):
        self.classes, self.A, self.B, self.rec = classes, A, B, rec
        self.fa = dict(fields(classes, A))
        self.fb = dict(fields(classes, B))
        self.env = {}          # local names bound by `name = <expression>` earlier in the body

    def attr(self, node):
        """self.f / other.f -> (owner, field)"""
        if isinstance(node, ast.Attribute) and isinstance(node.value, ast.Name) and node.value.id in ("self", "other"):
            who, f = node.value.id, node.attr
            have = self.fa if who == "self" else self.fb
            if f not in have:
                raise Untranslatable(f"{who}.{f} read on a {self.A if who == 'self' else self.B} (AttributeError in Python)")
            return who, f, have[f]
        raise Untranslatable("unsupported operand " + ast.unparse(node))

    def var(self, who, f):
        return f"{f}_a" if who == "self" else f"{f}_b"

    def expr(self, e):
        if isinstance(e, ast.Constant) and e.value in (True, False):
            return e.value
        if isinstance(e, ast.Name) and e.id in self.env:
            return self.env[e.id]
        if isinstance(e, ast.BoolOp):
            vals = e.values
            if isinstance(e.op, ast.And):
                r = self.expr(vals[0])
                for v in vals[1:]:
                    r = land(r, lambda v=v: self.expr(v))
                return r
            r = self.expr(vals[0])
            for v in vals[1:]:
                r = lor(r, lambda v=v: self.expr(v))
            return r
        if isinstance(e, ast.UnaryOp) and isinstance(e.op, ast.Not):
            return lnot(self.expr(e.operand))
        if isinstance(e, ast.Call) and isinstance(e.func, ast.Name) and e.func.id == "isinstance" and len(e.args) == 2:
            tgt, k = e.args
            ks = list(k.elts) if isinstance(k, ast.Tuple) else [k]
            if not (isinstance(tgt, ast.Name) and tgt.id == "other" and ks and all(isinstance(x, ast.Name) and x.id in self.classes for x in ks)):
                raise Untranslatable("unsupported isinstance " + ast.unparse(e))
            return any(x.id in mro(self.classes, self.B) for x in ks)
        if isinstance(e, ast.Compare) and len(e.ops) == 1:
            l, op, r = e.left, e.ops[0], e.comparators[0]
            if (isinstance(op, (ast.Is, ast.IsNot)) and isinstance(l, ast.Call) and isinstance(l.func, ast.Name) and l.func.id == "type"
                    and len(l.args) == 1 and isinstance(l.args[0], ast.Name) and l.args[0].id == "other" and isinstance(r, ast.Name) and r.id in self.classes):
                v = (self.B == r.id)
                return v if isinstance(op, ast.Is) else (not v)
            if isinstance(op, (ast.Eq, ast.NotEq)):
                w1, f1, t1 = self.attr(l)
                w2, f2, t2 = self.attr(r)
                if t1 != "str" or t2 != "str":
                    raise Untranslatable("comparison of non-string fields " + ast.unparse(e))
                if (w1, w2) == ("other", "self"):
                    (w1, f1), (w2, f2) = (w2, f2), (w1, f1)      # == on str is symmetric: self's field first
                s = Sym(f"(String.eqb {self.var(w1, f1)} {self.var(w2, f2)})")
                return s if isinstance(op, ast.Eq) else lnot(s)
        if (isinstance(e, ast.Call) and isinstance(e.func, ast.Attribute) and e.func.attr == "is_subseteq" and len(e.args) == 1):
            w1, f1, t1 = self.attr(e.func.value)
            w2, f2, t2 = self.attr(e.args[0])
            if t1 != ROOT or t2 != ROOT or w1 != "self" or w2 != "other":
                raise Untranslatable("unsupported recursive call " + ast.unparse(e))
            return Sym(f"({self.rec} {self.var(w1, f1)} {self.var(w2, f2)})")
        raise Untranslatable("unsupported expression " + ast.unparse(e))

    def body_bool(self, stmts):
        """statement list returning a bool -> value"""
        if not stmts:
            raise Untranslatable("method falls off its end")
        s = stmts[0]
        if isinstance(s, ast.Expr) and isinstance(s.value, ast.Constant) and isinstance(s.value.value, str):
            return self.body_bool(stmts[1:])
        if isinstance(s, ast.Return):
            return self.expr(s.value)
        if isinstance(s, ast.Assign) and len(s.targets) == 1 and isinstance(s.targets[0], ast.Name) and s.targets[0].id not in ("self", "other"):
            # a local name for a boolean expression (evaluated eagerly, as Python does: an AttributeError here is an error there)
            self.env[s.targets[0].id] = self.expr(s.value)
            return self.body_bool(stmts[1:])
        if isinstance(s, ast.If):
            c = self.expr(s.test)
            rest = list(s.orelse) + stmts[1:] if s.orelse else stmts[1:]
            if c is True:
                return self.body_bool(list(s.body) + stmts[1:])
            if c is False:
                return self.body_bool(rest)
            t = self.body_bool(list(s.body) + stmts[1:])
            f = self.body_bool(rest)
            return Sym(f"(if {c.text} then {btext(t)} else {btext(f)})")
        raise Untranslatable("unsupported statement " + ast.unparse(s))

    def body_zone(self, stmts, owner):
        """statement list returning a Zone (join override) -> Coq term"""
        if not stmts:
            raise Untranslatable("method falls off its end")
        s = stmts[0]
        if isinstance(s, ast.Return):
            v = s.value
            if isinstance(v, ast.Call) and isinstance(v.func, ast.Name) and v.func.id in self.classes and not v.args and not v.keywords:
                if fields(self.classes, v.func.id):
                    raise Untranslatable("constructor with fields " + ast.unparse(v))
                return v.func.id
            if (isinstance(v, ast.Call) and isinstance(v.func, ast.Attribute) and v.func.attr == "join" and isinstance(v.func.value, ast.Call)
                    and isinstance(v.func.value.func, ast.Name) and v.func.value.func.id == "super" and len(v.args) == 1
                    and isinstance(v.args[0], ast.Name) and v.args[0].id == "other"):
                nxt = find_method(self.classes, self.A, "join", after=owner)
                if nxt is not None:
                    return self.body_zone(list(self.classes[nxt].methods["join"].body), nxt)
                return "(gen_simple_join a b)"
            raise Untranslatable("unsupported return " + ast.unparse(s))
        if isinstance(s, ast.If):
            c = self.expr(s.test)
            rest = list(s.orelse) + stmts[1:] if s.orelse else stmts[1:]
            if c is True:
                return self.body_zone(list(s.body) + stmts[1:], owner)
            if c is False:
                return self.body_zone(rest, owner)
            return f"(if {c.text} then {self.body_zone(list(s.body) + stmts[1:], owner)} else {self.body_zone(rest, owner)})"
        raise Untranslatable("unsupported statement " + ast.unparse(s))


def btext(v):
    return "true" if v is True else "false" if v is False else v.text


def pattern(classes, name, suffix):
    fs = fields(classes, name)
    return name if not fs else "(" + name + " " + " ".join(f + suffix for f, _ in fs) + ")"


def translate(path, expected_ctors):
    """-> Coq source text of the generated definitions.  expected_ctors: {constructor: [field kinds]} of Model.Lattice.zone"""
    classes = parse(path)
    zs = [n for n in classes if n != ROOT and is_zone(classes, n)]
    got = {}
    for n in zs:
        kinds = []
        for f, ann in fields(classes, n):
            if ann == "str":
                kinds.append("string")
            elif ann == ROOT:
                kinds.append("zone")
            else:
                raise Untranslatable(f"field {n}.{f} of unsupported type {ann}")
        got[n] = kinds
    if got != expected_ctors:
        raise Untranslatable(f"the lattice elements of the source {got} are not the constructors of Model.Lattice.zone {expected_ctors}")
    for n in zs:
        for m in classes[n].methods:
            # other methods (printing, helpers) carry no lattice behaviour unless a translated body calls them - and a call to
            # anything but is_subseteq / super().join inside a translated body is untranslatable
            if m in ("meet", "__eq__", "__hash__", "is_equal", "is_structurally_equal"):
                raise Untranslatable(f"{n}.{m} overrides behaviour the model takes from the dataclass / kirin mixins")
    out = ["(* GENERATED on every run from src/bloqade/shuttle/analysis/zone/lattice.py by harness/gen/lattice_translate.py *)",
           "From Coq Require Import String Bool List.", "From BS Require Import Model.Lattice.", "Local Open Scope string_scope.", ""]
    # order
    out.append("Fixpoint gen_zleb (a b : zone) {struct a} : bool :=\n  match a with")
    for A in zs:
        owner = find_method(classes, A, "is_subseteq")
        if owner is None:
            raise Untranslatable(f"{A} has no is_subseteq")
        out.append(f"  | {pattern(classes, A, '_a')} =>\n      match b with")
        for B in zs:
            v = PE(classes, A, B, "gen_zleb").body_bool(list(classes[owner].methods["is_subseteq"].body))
            out.append(f"      | {pattern(classes, B, '_b')} => {btext(v)}")
        out.append("      end")
    out.append("  end.\n")
    # bottom / top
    for nm in ("bottom", "top"):
        m = classes[ROOT].methods.get(nm)
        if m is None or len(m.body) != 1 or not isinstance(m.body[0], ast.Return):
            raise Untranslatable(f"Zone.{nm} is not a single return")
        v = m.body[0].value
        if not (isinstance(v, ast.Call) and isinstance(v.func, ast.Name) and v.func.id in zs and not v.args and not fields(classes, v.func.id)):
            raise Untranslatable(f"Zone.{nm} returns {ast.unparse(v)}")
        out.append(f"Definition gen_{nm} : zone := {v.func.id}.")
    # kirin's mixins over the generated order (hand-written: kirin is outside /repo)
    out.append("\nDefinition gen_simple_join (a b : zone) : zone := if gen_zleb a b then b else if gen_zleb b a then a else gen_top.")
    out.append("Definition gen_meet (a b : zone) : zone := if gen_zleb a b then a else if gen_zleb b a then b else gen_bottom.\n")
    out.append("Definition gen_join (a b : zone) : zone :=\n  match a with")
    for A in zs:
        owner = find_method(classes, A, "join")
        out.append(f"  | {pattern(classes, A, '_a')} =>\n      match b with")
        for B in zs:
            if owner is None:
                t = "gen_simple_join a b"
            else:
                t = PE(classes, A, B, "gen_zleb").body_zone(list(classes[owner].methods["join"].body), owner)
            out.append(f"      | {pattern(classes, B, '_b')} => {t}")
        out.append("      end")
    out.append("  end.\n")
    return "\n".join(out)


LEMMAS = r"""
(* the generated definitions are the hand-written model the theorems of Props/C18.v are about *)
(* a boolean equation over the atoms (String.eqb _ _) and (zleb _ _): decided by cases on the atoms, so the order of the operands of
   `and` / `or` in the source does not matter *)
Ltac bool_atoms :=
  repeat match goal with
         | |- context [String.eqb ?a ?b] => destruct (String.eqb a b)
         | |- context [zleb ?a ?b] => destruct (zleb a b)
         end; reflexivity.
Lemma gen_zleb_eq : forall a b, gen_zleb a b = zleb a b.
Proof.
  induction a as [| | | s | s | z IHz i IHi | z IHz x IHx y IHy]; intros b; destruct b; cbn [gen_zleb zleb is_top]; try reflexivity;
    rewrite ?IHz, ?IHi, ?IHx, ?IHy; first [reflexivity | bool_atoms].
Qed.
Lemma gen_top_eq : gen_top = UnknownZone.  Proof. reflexivity. Qed.
Lemma gen_bottom_eq : gen_bottom = NotZone.  Proof. reflexivity. Qed.
Lemma gen_simple_join_eq : forall a b, gen_simple_join a b = simple_join a b.
Proof. intros a b. unfold gen_simple_join, simple_join. rewrite !gen_zleb_eq. reflexivity. Qed.
Lemma gen_meet_eq : forall a b, gen_meet a b = meet a b.
Proof. intros a b. unfold gen_meet, meet. rewrite !gen_zleb_eq. reflexivity. Qed.
Lemma gen_join_eq : forall a b, gen_join a b = join a b.
Proof.
  intros a b. destruct a; destruct b; cbn [gen_join join]; rewrite ?gen_simple_join_eq; try reflexivity.
  all: try (destruct (String.eqb _ _) eqn:E; cbn [negb]; rewrite ?gen_simple_join_eq; reflexivity).
Qed.

(* hence the bounded-lattice laws hold of the code as translated, for elements of every depth *)
From BS Require Import Proofs.LatticeProofs.
Theorem gen_order_reflexive : forall a, gen_zleb a a = true.
Proof. intros a. rewrite gen_zleb_eq. apply zleb_refl. Qed.
Theorem gen_order_transitive : forall a b c, gen_zleb a b = true -> gen_zleb b c = true -> gen_zleb a c = true.
Proof. intros a b c. rewrite !gen_zleb_eq. apply zleb_trans. Qed.
Theorem gen_order_antisymmetric : forall a b, gen_zleb a b = true -> gen_zleb b a = true -> a = b.
Proof. intros a b. rewrite !gen_zleb_eq. apply zleb_antisym. Qed.
Theorem gen_bounds : forall a, gen_zleb gen_bottom a = true /\ gen_zleb a gen_top = true.
Proof. intros a. rewrite !gen_zleb_eq. split; [apply zleb_bot | apply zleb_top]. Qed.
Theorem gen_join_laws : forall a b, gen_join a b = gen_join b a /\ gen_join a a = a /\
  gen_zleb a (gen_join a b) = true /\ gen_zleb b (gen_join a b) = true /\ (gen_zleb a b = true <-> gen_join a b = b).
Proof.
  intros a b. rewrite !gen_join_eq, !gen_zleb_eq. split; [apply join_comm|]. split; [apply join_idem|].
  destruct (join_upper a b) as [U1 U2]. split; [exact U1|]. split; [exact U2|]. split; [apply join_of_le | apply le_of_join].
Qed.
Theorem gen_meet_laws : forall a b, gen_meet a b = gen_meet b a /\ gen_meet a a = a /\
  gen_zleb (gen_meet a b) a = true /\ gen_zleb (gen_meet a b) b = true /\ (gen_zleb a b = true <-> gen_meet a b = a).
Proof.
  intros a b. rewrite !gen_meet_eq, !gen_zleb_eq. split; [apply meet_comm|]. split; [apply meet_idem|].
  destruct (meet_lower a b) as [U1 U2]. split; [exact U1|]. split; [exact U2|]. split; [apply meet_of_le | apply le_of_meet].
Qed.
Print Assumptions gen_zleb_eq.
Print Assumptions gen_join_eq.
Print Assumptions gen_join_laws.
Print Assumptions gen_meet_laws.
"""

EXPECTED = {"NotZone": [], "UnknownZone": [], "InvalidZone": [], "InvalidSpecId": ["string"], "SpecZone": ["string"],
            "GetItemOfZone": ["zone", "zone"], "GetSubGridOfZone": ["zone", "zone", "zone"]}


def generate(path):
    return translate(path, EXPECTED) + LEMMAS
