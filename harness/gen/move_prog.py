"""Generator of @move programs as trees (rendered to Python source, to Coq terms, and evaluated
natively).  Used by C03 / C04 / C05 / C06 / C07 / C09 / C16."""
import itertools
from dataclasses import dataclass, field

# tweezer kernels used as device functions; their paths depend on every argument and are not
# palindromes, so a played path identifies the call, its arguments and the direction
TWEEZERS = {
    "k0": ("(a: float, b: float)", """
    g = grid.from_positions([a, a + 1.0], [b])
    action.set_loc(g)
    action.turn_on(action.ALL, [0])
    action.move(grid.shift(g, 0.5, 2.0))
    action.turn_off([0, 1], action.ALL)
""", ["a", "b"]),
    "k1": ("(a: float, b: float, n: int)", """
    z = spec.get_static_trap(zone_id="traps")
    s = z[0:2, 1]
    action.set_loc(grid.shift(s, a, b))
    action.turn_on([0, 1], [0])
    i = 0
    for i in range(n):
        action.move(grid.shift(s, a + 1.0, b))
    action.move(s)
""", ["a", "b", "n"]),
    # a path that never moves: pick up in place (one waypoint, the tones never leave it)
    "k2": ("(a: float, b: float)", """
    g = grid.from_positions([a], [b])
    action.set_loc(g)
    action.turn_on([0], [0])
""", ["a", "b"]),
}

TONES = {"k0": ("[0, 1]", "[0]"), "k1": ("[0, 1]", "[0]"), "k2": ("[0]", "[0]")}


@dataclass
class MProg:
    params: list                 # [(name, annotation)]
    devs: list                   # [(var, kernel, reversed?)]  device-function variables of main
    body: list                   # statement trees
    subs: list = field(default_factory=list)     # [(name, params, body)] move subroutines
    arg_tuples: list = field(default_factory=list)
    tags: set = field(default_factory=set)
    spec_consts: bool = False    # prologue also reads spec constants (cf, ci, c0) used as gate angles
    param_devs: tuple = ()       # device-function variables that are kernel parameters annotated schedule.DeviceFunction


NATIVE_MARKERS = [False]      # render(..., native_markers=True) marks early returns for the native evaluator


def lit(v):
    return ("lit", v)


def render_arg(a):
    return repr(a[1]) if a[0] == "lit" else a[1]


def render_call(st):
    _, callee, pos, kws = st
    parts = [render_arg(a) for a in pos] + [f"{k}={render_arg(v)}" for k, v in kws]
    return f"{callee}({', '.join(parts)})"


def render_stmts(stmts, ind, out):
    pad = "    " * ind
    if not stmts:
        out.append(pad + "pass")
    for st in stmts:
        k = st[0]
        if k == "call":
            out.append(pad + render_call(st))
        elif k == "block":
            out.append(pad + f"with schedule.{st[1]}():")
            if st[2]:
                render_stmts(st[2], ind + 1, out)
            else:
                out.append(pad + "    pass")
        elif k == "gate":
            out.append(pad + f"gate.{st[1]}({', '.join(str(a) for a in st[2])})")
        elif k == "fill":
            out.append(pad + f"init.fill([{', '.join(st[1])}])")
        elif k == "measure":
            out.append(pad + f"measure.measure(({st[1]},))")
        elif k == "if":
            out.append(pad + f"if {st[1]}:")
            render_stmts(st[2], ind + 1, out)
            if st[3]:
                out.append(pad + "else:")
                render_stmts(st[3], ind + 1, out)
        elif k == "for":
            out.append(pad + f"{st[1]} = 0")
            out.append(pad + f"for {st[1]} in range({st[2]}):")
            render_stmts(st[3], ind + 1, out)
        elif k == "sub":
            out.append(pad + f"{st[1]}({', '.join(render_arg(a) for a in st[2])})")
        elif k == "ret":
            if NATIVE_MARKERS[0]:
                out.append(pad + "__mark_early_return__()")
            out.append(pad + "return")
        elif k == "closure":
            out.append(pad + f"def {st[1]}({', '.join(p + ': ' + a for p, a in st[2])}):")
            render_stmts(st[3], ind + 1, out)
        elif k == "raw":
            out.append(pad + st[1])
        else:
            raise ValueError(k)


def prologue(prog, out):
    out.append("    z0 = spec.get_static_trap(zone_id=\"traps\")")
    out.append("    z1 = spec.get_static_trap(zone_id=\"aux\")")
    if prog.spec_consts:
        # "dup" is an int constant AND a different float constant; "origin"/"zero" are falsy values
        out.append("    cf = spec.get_float_constant(constant_id=\"dup\")")
        out.append("    ci = spec.get_int_constant(constant_id=\"dup\")")
        out.append("    c0 = spec.get_float_constant(constant_id=\"origin\")")
        out.append("    cz = spec.get_int_constant(constant_id=\"zero\")")
    for var, kern, rev in prog.devs:
        if var in getattr(prog, "param_devs", ()):
            continue            # a device function received as a kernel parameter
        xt, yt = TONES[kern]
        e = f"schedule.device_fn({kern}, {xt}, {yt})"
        out.append(f"    {var} = " + (f"schedule.reverse({e})" if rev else e))


def render(prog, decorator="@move", main="main", sub_decorator="@move", native_markers=False):
    NATIVE_MARKERS[0] = native_markers
    try:
        return _render(prog, decorator, main, sub_decorator)
    finally:
        NATIVE_MARKERS[0] = False


def _render(prog, decorator, main, sub_decorator):
    out = []
    for name, (sig, body, _) in TWEEZERS.items():
        out.append("@tweezer")
        out.append(f"def {name}{sig}:{body}")
    for name, params, body in prog.subs:
        out.append(sub_decorator)
        out.append(f"def {name}({', '.join(p + (': ' + a if a else '') for p, a in params)}):")
        prologue(prog, out)
        render_stmts(body, 1, out)
        out.append("")
    out.append(decorator)
    out.append(f"def {main}({', '.join(p + (': ' + a if a else '') for p, a in prog.params)}):")
    prologue(prog, out)
    render_stmts(prog.body, 1, out)
    return "\n".join(out) + "\n"


# ---------------- generation ----------------
class MG:
    def __init__(self, rng, *, blocks=True, autos=True, control=True, gates=True, subs=False, depth=3, width=3, const_control=True,
                 spec_consts=False, param_dev=False):
        self.rng = rng
        self.param_dev = param_dev
        self.o = dict(blocks=blocks, autos=autos, control=control, gates=gates, subs=subs, depth=depth, width=width, const_control=const_control,
                      spec_consts=spec_consts)
        self.ncall = 0
        self.tags = set()
        self.devs = [("f0", "k0", False), ("r0", "k0", True), ("f1", "k1", False), ("f2", "k2", False)]
        if param_dev:
            self.devs.append(("pf", "k0", False))
        self.loopvars = []

    def call(self, in_auto=False):
        rng = self.rng
        self.ncall += 1
        n = self.ncall
        if in_auto:
            kern = rng.choice(list(TWEEZERS))
            callee = kern
        else:
            var, kern, rev = rng.choice(self.devs)
            callee = var
            if rng.random() < 0.1:
                callee = f"schedule.reverse({var})"
                self.tags.add("inline-reverse")
        names = TWEEZERS[kern][2]
        vals = [float(n), float(rng.choice([0.5, 1.0, 2.0]))] + ([rng.randint(0, 2)] if len(names) == 3 else [])
        args = [lit(v) for v in vals]
        if self.loopvars and names[-1] == "n" and rng.random() < 0.3:
            args[-1] = ("var", rng.choice(self.loopvars))
        # split positional / keyword, keyword order permuted
        npos = rng.randint(0, len(names))
        kws = list(zip(names[npos:], args[npos:]))
        rng.shuffle(kws)
        if kws:
            self.tags.add("kwargs")
        return ("call", callee, args[:npos], kws)

    def block(self, depth, kind=None):
        rng = self.rng
        kind = kind or (rng.choice(["parallel", "parallel", "auto"]) if self.o["autos"] else "parallel")
        n = rng.randint(1, self.o["width"])
        body = []
        for _ in range(n):
            if depth < self.o["depth"] and rng.random() < 0.4:
                sub_kind = rng.choice(["parallel", "auto"]) if self.o["autos"] else "parallel"
                if kind == "auto" and sub_kind == "parallel" and rng.random() < 0.5:
                    sub_kind = "auto"
                body.append(self.block(depth + 1, sub_kind))
                self.tags.add("nested-" + ("same" if sub_kind == kind else "other"))
            else:
                body.append(self.call(in_auto=(kind == "auto")))
        calls = [b for b in body if b[0] == "call"]
        if calls and rng.random() < 0.25:
            # the same call written twice in one block (same callee, same arguments): still two members
            body.insert(rng.randint(0, len(body)), rng.choice(calls))
            self.tags.add("duplicate-call-in-block")
        self.tags.add(kind)
        return ("block", kind, body)

    def other(self):
        rng = self.rng
        if self.o["spec_consts"] and rng.random() < 0.3:
            self.tags.add("spec-constant-angle")
            # plain variables only: kirin's type inference leaves an arithmetic expression un-typed when it sits inside an `if`
            # that follows an early-returning `if` (the kernel is then rejected at definition - not a property of the routes)
            ang = rng.choice(["cf", "c0"])
            return rng.choice([("gate", "global_rz", [ang]), ("gate", "global_r", [0.5, ang]), ("gate", "local_rz", [ang, rng.choice(["z0", "z1"])])])
        r = rng.random()
        if r < 0.2:
            return ("gate", "top_hat_cz", [rng.choice(["z0", "z1"])] + rng.choice([[], [2.0], [1.5, 4.0]]))
        if r < 0.35:
            return ("gate", "local_r", [0.25, float(rng.randint(0, 3)), rng.choice(["z0", "z1"])])      # angle 0.0 included
        if r < 0.5:
            return ("gate", "local_rz", [float(rng.randint(0, 3)), rng.choice(["z0", "z1"])])
        if r < 0.65:
            return ("gate", "global_r", [rng.choice([0.5, 0.0]), float(rng.randint(0, 3))])
        if r < 0.8:
            return ("gate", "global_rz", [float(rng.randint(0, 3))])
        if r < 0.92:
            return ("fill", rng.choice([["z0"], ["z0", "z1"], ["z1"]]))
        return ("measure", rng.choice(["z0", "z1"]))

    def stmts(self, n, depth, params):
        rng = self.rng
        out = []
        for _ in range(n):
            r = rng.random()
            names = getattr(self, "subnames", [])
            if names and rng.random() < 0.2:
                nm = rng.choice(names)
                ints = [p for p, a in params if a == "int"] + self.loopvars
                a0 = ("var", rng.choice(ints)) if ints and rng.random() < 0.6 else lit(rng.randint(0, 2))
                if nm == "inner":
                    out.append(("sub", nm, [a0]))
                else:
                    bools = [p for p, a in params if a == "bool"]
                    a1 = ("var", rng.choice(bools)) if bools and rng.random() < 0.6 else lit(rng.random() < 0.5)
                    out.append(("sub", nm, [a0, a1]))
                self.tags.add("sub-call")
            elif r < 0.30:
                out.append(self.call())
                if rng.random() < 0.2:
                    # the same device function called again with the same VALUES bound to the other parameters by keyword
                    _, callee, pos, kws = out[-1]
                    kern = next((k for v, k, _ in self.devs if v == callee), None)
                    names = TWEEZERS[kern][2] if kern is not None else []
                    named = dict(zip(names, pos))
                    named.update(dict(kws))
                    vals = [named[nm] for nm in names] if len(named) == len(names) else []     # the values in SIGNATURE order
                    if kern is not None and len(vals) >= 2 and vals[0] != vals[1]:
                        first = [(names[0], vals[0]), (names[1], vals[1])] + list(zip(names[2:], vals[2:]))
                        twin = [(names[1], vals[0]), (names[0], vals[1])] + list(zip(names[2:], vals[2:]))
                        out[-1] = ("call", callee, [], first)
                        out.append(("call", callee, [], twin))
                        self.tags.add("same-values-other-keywords")
            elif r < 0.55 and self.o["blocks"]:
                out.append(self.block(1))
                if rng.random() < 0.2:
                    # the same block written twice (CSE may make both plays share one group value)
                    if rng.random() < 0.5:
                        out.append(self.other())
                    out.append(out[-1] if out[-1][0] == "block" else out[-2])
                    self.tags.add("repeated-block")
            elif r < 0.75 and self.o["gates"]:
                out.append(self.other())
            elif r < 0.87 and self.o["control"] and depth < 2:
                conds = [p for p, a in params if a == "bool"] + [f"{p} > 1" for p, a in params if a == "int"]
                conds += [f"{v} == 1" for v in self.loopvars]
                c = rng.choice(conds) if conds else "True"
                out.append(("if", c, self.stmts(rng.randint(1, 2), depth + 1, params),
                            self.stmts(rng.randint(0, 2), depth + 1, params) if rng.random() < 0.6 else []))
                self.tags.add("if")
            elif self.o["control"] and depth < 2:
                v = f"i{len(self.loopvars)}_{rng.randint(0, 99)}"
                cnt = rng.choice([p for p, a in params if a == "int"] + (["0", "1", "2", "3"] if self.o["const_control"] else []))
                if self.o["spec_consts"] and getattr(self, "in_main", False) and rng.random() < 0.35:
                    cnt = rng.choice(["ci", "ci", "cz"])      # trip count read from the spec (int constants)
                    self.tags.add("spec-constant-trip-count")
                self.loopvars.append(v)
                body = self.stmts(rng.randint(1, 2), depth + 1, params)
                self.loopvars.pop()
                out.append(("for", v, cnt, body))
                self.tags.add("for")
            else:
                out.append(self.call())
        return out


def gen_sub(g, name, rng, early_return):
    params = [("sn", "int"), ("sc", "bool")]
    saved = g.o["subs"]
    g.o["subs"] = False
    body = g.stmts(rng.randint(1, 2), 1, params)
    if early_return and rng.random() < 0.35:
        # an unconditional return written directly in a loop body (taken in the first iteration, if there is one)
        v = f"j{rng.randint(0, 99)}"
        body.append(("for", v, rng.choice(["sn", "sn", "2"]), [rng.choice([g.other(), g.call()]), ("ret",)]))
        g.tags.add("return-in-loop")
    elif early_return:
        body.append(("if", rng.choice(["sc", "sn > 1", "sn == 0"]), [rng.choice([g.other(), g.call()]), ("ret",)], []))
        g.tags.add("early-return")
    body += g.stmts(rng.randint(1, 2), 1, params)
    g.o["subs"] = saved
    return (name, params, body)


def gen_move_prog(rng, **opts):
    g = MG(rng, **opts)
    params = []
    if rng.random() < 0.8 or not opts.get("const_control", True):
        params.append(("n", "int"))
    if rng.random() < 0.7 or not opts.get("const_control", True):
        params.append(("c", "bool"))
    subs = []
    if g.o["subs"]:
        for i in range(rng.choice([1, 1, 2])):
            subs.append(gen_sub(g, f"sub{i}", rng, early_return=rng.random() < 0.6))
        g.subnames = [s_[0] for s_ in subs]
    body = []
    if g.o["subs"] and rng.random() < 0.4:
        cbody = g.stmts(rng.randint(1, 2), 1, [("cn", "int")])
        body.append(("closure", "inner", [("cn", "int")], cbody))
        g.subnames = getattr(g, "subnames", []) + ["inner"]
        g.tags.add("closure")
    g.in_main = True
    body += g.stmts(rng.randint(1, 6), 0, params)
    g.in_main = False
    args = []
    for t in range(3):
        a = []
        for p, ann in params:
            a.append(rng.choice([0, 1, 2, 3]) if ann == "int" else (rng.random() < 0.5))
        args.append(tuple(a))
    if g.param_dev:
        params.append(("pf", "schedule.DeviceFunction"))
    return MProg(params=params, devs=g.devs, body=body, subs=subs, arg_tuples=args, tags=g.tags, spec_consts=g.o["spec_consts"],
                 param_devs=("pf",) if g.param_dev else ())


def all_block_shapes(max_depth, max_width, max_calls):
    """every nesting shape of parallel/auto blocks up to the bounds (for C03's exhaustive scope)"""
    def shapes(depth, budget):
        # yields (tree, calls_used); tree = 'c' | (kind, [children])
        yield "c", 1
        if depth < max_depth:
            for kind in ("parallel", "auto"):
                for w in range(1, max_width + 1):
                    for combo in children(depth + 1, w, budget):
                        yield (kind, list(combo[0])), combo[1]

    def children(depth, w, budget):
        if w == 0:
            yield (), 0
            return
        for first, used in shapes(depth, budget):
            if used > budget:
                continue
            for rest, used2 in children(depth, w - 1, budget - used):
                yield (first,) + rest, used + used2
    for kind in ("parallel", "auto"):
        for w in range(1, max_width + 1):
            for combo, used in children(1, w, max_calls):
                yield (kind, list(combo))


def shape_to_block(shape, counter, in_auto=None):
    """turn a shape into a block statement tree with distinguishable calls"""
    kind, kids = shape
    body = []
    for k in kids:
        if k == "c":
            n = next(counter)
            if kind == "auto":
                body.append(("call", "k0", [lit(float(n))], [("b", lit(1.0))]))
            else:
                callee = ["f0", "r0", "f1"][n % 3]
                if callee == "f1":
                    body.append(("call", callee, [lit(float(n)), lit(0.5)], [("n", lit(n % 2))]))
                else:
                    body.append(("call", callee, [], [("b", lit(0.5)), ("a", lit(float(n)))]))
        else:
            body.append(shape_to_block(k, counter))
    return ("block", kind, body)
