"""Translator: class FilledGrid of /repo/src/bloqade/shuttle/dialects/filled/types.py  ->  Gallina (Gen_C12_src.v)

The methods fill, vacate (classmethods over a plain or a filled grid), get_view, shift, scale, repeat, positions, __eq__, __hash__ are
translated into functions over Model/Filled.v's value type `fval G` (a plain grid, or a root grid with a vacancy list read as a set) and
PROVED equal to the hand-written model: same root, vacancy lists equal as lists (views, tiles) or literally the same term.

Fragment (anything else raises Untranslatable - fail closed).  Methods are executed symbolically in two worlds (the grid argument is a
plain Grid / a FilledGrid) wherever `isinstance(x, FilledGrid)` is asked.

  sets of index pairs   self.vacancies | x.vacancies | frozenset() | frozenset(product(range(a), range(b))) | frozenset(<param>) | A - B
                        | A.union(B) | A | B | frozenset(<generator>)
  generators            ELT for TARGETS in product(IT, ..) | for TARGET in IT   [if (a, b) [not] in SET]
                        IT ::= range(n) | enumerate(<index list>) | enumerate(self.x_positions | self.y_positions) | SET
  numbers               names bound by `a, b = x.shape` / loop targets, +, *
  grids                 x.parent | self.parent.get_view(xi, yi) | .shift(dx, dy) | .scale(sx, sy) | .repeat(tx, ty, gx, gy)   (the underlying
                        grid's own operations are parameters of the model: g_view, g_shift, g_scale, g_repeat)
  results               cls(parent=.., vacancies=..) | FilledGrid(parent=.., vacancies=..) | FilledGrid.vacate(<plain grid>, SET)
                        | ilist.IList(<tuple of a generator>) for positions | the conjunction of __eq__ | hash((self.parent, self.vacancies))
"""
import ast


class Untranslatable(Exception):
    pass


def _u(e):
    return ast.unparse(e)


class Ctx:
    """one world of one method"""

    def __init__(self, name):
        self.name = name
        self.loc = {}          # python name -> (kind, gallina)   kinds: grid, fgrid(plain|filled with r, vac), set, nat, natlist, q, qlist
        self.n = 0

    def fresh(self, p):
        self.n += 1
        return f"{p}{self.n}"


class T:
    def __init__(self, fn):
        self.fn = fn
        self.name = fn.name

    # ---- numbers ----
    def nat(self, e, c):
        if isinstance(e, ast.Name) and c.loc.get(e.id, ("",))[0] == "nat":
            return c.loc[e.id][1]
        if isinstance(e, ast.BinOp) and isinstance(e.op, (ast.Add, ast.Mult)):
            return f"({self.nat(e.left, c)} {'+' if isinstance(e.op, ast.Add) else '*'} {self.nat(e.right, c)})%nat"
        raise Untranslatable(f"{self.name}: number {_u(e)}")

    # ---- values that are grids ----
    def gridval(self, e, c):
        """-> ('plain', g) | ('filled', r, vac) | ('res', term of type res G)  for the expression"""
        if isinstance(e, ast.Name) and c.loc.get(e.id, ("",))[0] in ("plain", "filled", "resgrid"):
            return c.loc[e.id]
        if isinstance(e, ast.Attribute) and e.attr == "parent":
            v = self.gridval(e.value, c)
            if v[0] != "filled":
                raise Untranslatable(f"{self.name}: .parent of a plain grid")
            return ("plain", v[1])
        if isinstance(e, ast.Call) and isinstance(e.func, ast.Attribute) and e.func.attr in ("shift", "scale", "get_view", "repeat"):
            base = self.gridval(e.func.value, c)
            if base[0] != "plain":
                raise Untranslatable(f"{self.name}: {e.func.attr} on something that is not the underlying grid")
            # positional or by the keywords of bloqade.geometry's Grid methods
            names = {"shift": ["x_shift", "y_shift"], "scale": ["x_scale", "y_scale"], "get_view": ["x_indices", "y_indices"],
                     "repeat": ["x_times", "y_times", "x_gap", "y_gap"]}[e.func.attr]
            a = list(e.args)
            kw = {k.arg: k.value for k in e.keywords}
            if None in kw or set(kw) - set(names[len(a):]):
                raise Untranslatable(f"{self.name}: grid {_u(e)}")
            for nm in names[len(a):]:
                if nm not in kw:
                    raise Untranslatable(f"{self.name}: grid {_u(e)}")
                a.append(kw[nm])
            if e.func.attr in ("shift", "scale") and len(a) == 2:
                return ("plain", f"(g_{e.func.attr} {base[1]} {self.q(a[0], c)} {self.q(a[1], c)})")
            if e.func.attr == "get_view" and len(a) == 2:
                return ("resgrid", f"(g_view {base[1]} {self.natlist(a[0], c)} {self.natlist(a[1], c)})")
            if e.func.attr == "repeat" and len(a) == 4:
                return ("resgrid", f"(g_repeat {base[1]} {self.nat(a[0], c)} {self.nat(a[1], c)} {self.q(a[2], c)} {self.q(a[3], c)})")
        raise Untranslatable(f"{self.name}: grid {_u(e)}")

    def q(self, e, c):
        if isinstance(e, ast.Name) and c.loc.get(e.id, ("",))[0] == "q":
            return c.loc[e.id][1]
        raise Untranslatable(f"{self.name}: length {_u(e)}")

    def natlist(self, e, c):
        if isinstance(e, ast.Name) and c.loc.get(e.id, ("",))[0] == "natlist":
            return c.loc[e.id][1]
        raise Untranslatable(f"{self.name}: index list {_u(e)}")

    # ---- sets ----
    def setexp(self, e, c):
        if isinstance(e, ast.Name) and c.loc.get(e.id, ("",))[0] == "set":
            return c.loc[e.id][1]
        if isinstance(e, ast.Attribute) and e.attr == "vacancies":
            v = self.gridval(e.value, c)
            if v[0] != "filled":
                raise Untranslatable(f"{self.name}: .vacancies of a plain grid")
            return v[2]
        if isinstance(e, ast.BinOp) and isinstance(e.op, ast.Sub):
            return f"(filter (fun p => negb (mem_idx p {self.setexp(e.right, c)})) {self.setexp(e.left, c)})"
        if isinstance(e, ast.BinOp) and isinstance(e.op, ast.BitOr):
            return f"({self.setexp(e.left, c)} ++ {self.setexp(e.right, c)})"
        if isinstance(e, ast.Call) and isinstance(e.func, ast.Attribute) and e.func.attr == "union" and len(e.args) == 1:
            return f"({self.setexp(e.func.value, c)} ++ {self.setexp(e.args[0], c)})"
        if isinstance(e, ast.Call) and _u(e.func) in ("frozenset", "set"):
            if not e.args:
                return "(@nil idx)"
            a = e.args[0]
            if isinstance(a, ast.GeneratorExp):
                return self.generator(a, c, "idx")
            if isinstance(a, ast.Call) and _u(a.func) == "product" and len(a.args) == 2 and all(isinstance(x, ast.Call) and _u(x.func) == "range" and len(x.args) == 1 for x in a.args):
                return f"(all_idx ({self.nat(a.args[0].args[0], c)}, {self.nat(a.args[1].args[0], c)}))"
            return self.setexp(a, c)
        raise Untranslatable(f"{self.name}: set {_u(e)}")

    def iterable(self, e, c):
        """-> (gallina list term, element kind)  kinds: nat | natpair(enumerate) | qpair(enumerate of positions) | idx"""
        if isinstance(e, ast.Call) and _u(e.func) == "range" and len(e.args) == 1:
            return f"(seq 0 {self.nat(e.args[0], c)})", "nat"
        if isinstance(e, ast.Call) and _u(e.func) == "enumerate" and len(e.args) == 1:
            a = e.args[0]
            if isinstance(a, ast.Attribute) and a.attr in ("x_positions", "y_positions") and isinstance(a.value, ast.Name) and a.value.id == "self":
                l = f"(g_{a.attr[0]}pos {c.loc['self'][1]})"
                return f"(combine (seq 0 (length {l})) {l})", "qpair"
            l = self.natlist(a, c)
            return f"(combine (seq 0 (length {l})) {l})", "natpair"
        return self.setexp(e, c), "idx"

    def bind_target(self, t, kind, c):
        """-> gallina pattern; binds the names"""
        if kind == "nat":
            if not isinstance(t, ast.Name):
                raise Untranslatable(f"{self.name}: target {_u(t)}")
            c.loc[t.id] = ("nat", t.id)
            return t.id
        if not (isinstance(t, ast.Tuple) and len(t.elts) == 2 and all(isinstance(x, ast.Name) for x in t.elts)):
            raise Untranslatable(f"{self.name}: target {_u(t)}")
        a, b = t.elts[0].id, t.elts[1].id
        c.loc[a] = ("nat", a)
        c.loc[b] = ("q", b) if kind == "qpair" else ("nat", b)
        return f"'({a}, {b})"

    def generator(self, g, c, want):
        if len(g.generators) != 1:
            raise Untranslatable(f"{self.name}: nested generators")
        gen = g.generators[0]
        if isinstance(gen.iter, ast.Call) and _u(gen.iter.func) == "product":
            its, tgts = list(gen.iter.args), (list(gen.target.elts) if isinstance(gen.target, ast.Tuple) else None)
            if tgts is None or len(tgts) != len(its):
                raise Untranslatable(f"{self.name}: product targets {_u(gen.target)}")
        else:
            its, tgts = [gen.iter], [gen.target]
        c2 = Ctx(c.name)
        c2.loc = dict(c.loc)
        layers = []
        for it, tg in zip(its, tgts):
            term, kind = self.iterable(it, c2)
            layers.append((term, self.bind_target(tg, kind, c2)))
        if want == "idx":
            if not (isinstance(g.elt, ast.Tuple) and len(g.elt.elts) == 2):
                raise Untranslatable(f"{self.name}: element {_u(g.elt)}")
            elt = f"({self.nat(g.elt.elts[0], c2)}, {self.nat(g.elt.elts[1], c2)})"
        else:
            if not (isinstance(g.elt, ast.Tuple) and len(g.elt.elts) == 2 and all(isinstance(x, ast.Name) and c2.loc.get(x.id, ("",))[0] == "q" for x in g.elt.elts)):
                raise Untranslatable(f"{self.name}: element {_u(g.elt)}")
            elt = f"({g.elt.elts[0].id}, {g.elt.elts[1].id})"
        body = f"[{elt}]"
        if gen.ifs:
            if len(gen.ifs) != 1:
                raise Untranslatable(f"{self.name}: several conditions")
            t = gen.ifs[0]
            if not (isinstance(t, ast.Compare) and len(t.ops) == 1 and isinstance(t.ops[0], (ast.In, ast.NotIn)) and isinstance(t.left, ast.Tuple) and len(t.left.elts) == 2):
                raise Untranslatable(f"{self.name}: condition {_u(t)}")
            m = f"mem_idx ({self.nat(t.left.elts[0], c2)}, {self.nat(t.left.elts[1], c2)}) {self.setexp(t.comparators[0], c2)}"
            body = f"(if {m} then {body} else [])" if isinstance(t.ops[0], ast.In) else f"(if {m} then [] else {body})"
        for term, pat in reversed(layers):
            body = f"(flat_map (fun {pat} => {body}) {term})"
        return body

    # ---- statements of fill / vacate / get_view / shift / scale / repeat ----
    def construct(self, e, c):
        """cls(parent=.., vacancies=..) | FilledGrid(parent=.., vacancies=..) | FilledGrid.vacate(G, SET) -> gallina term of type fval or res fval"""
        if isinstance(e, ast.Call) and _u(e.func) in ("cls", "FilledGrid") and not e.args and {k.arg for k in e.keywords} == {"parent", "vacancies"}:
            kw = {k.arg: k.value for k in e.keywords}
            g = self.gridval(kw["parent"], c)
            vac = self.setexp(kw["vacancies"], c)
            if g[0] == "plain":
                return "fval", f"FFilled G {g[1]} {vac}"
            if g[0] == "resgrid":
                return "res", f"match {g[1]} with Ok r' => Ok (FFilled G r' {vac}) | Err e => Err e end"
        if isinstance(e, ast.Call) and _u(e.func) in ("FilledGrid.vacate", "cls.vacate") and len(e.args) == 2:
            g = self.gridval(e.args[0], c)
            vac = self.setexp(e.args[1], c)
            # vacate of a PLAIN grid: the set itself (checked against the translation of vacate by the lemma src_vacate_plain)
            if g[0] == "plain":
                return "fval", f"FFilled G {g[1]} ((@nil idx) ++ {vac})"
            if g[0] == "resgrid":
                return "res", f"match {g[1]} with Ok r' => Ok (FFilled G r' ((@nil idx) ++ {vac})) | Err e => Err e end"
        raise Untranslatable(f"{self.name}: result {_u(e)[:80]}")

    def block(self, stmts, c):
        if not stmts:
            raise Untranslatable(f"{self.name}: no return")
        s, rest = stmts[0], stmts[1:]
        if isinstance(s, ast.Expr) and isinstance(s.value, ast.Constant):
            return self.block(rest, c)
        if isinstance(s, ast.Return):
            return self.construct(s.value, c)
        if isinstance(s, ast.If):
            t = s.test
            if isinstance(t, ast.Call) and _u(t.func) == "isinstance" and len(t.args) == 2 and _u(t.args[1]) == "FilledGrid":
                v = self.gridval(t.args[0], c)
                return self.block((list(s.body) if v[0] == "filled" else list(s.orelse)) + rest, c)
            raise Untranslatable(f"{self.name}: condition {_u(t)}")
        if isinstance(s, ast.Assign) and len(s.targets) == 1:
            tg, e = s.targets[0], s.value
            if isinstance(tg, ast.Tuple) and len(tg.elts) == 2 and isinstance(e, ast.Attribute) and e.attr == "shape":
                v = self.gridval(e.value, c) if not (isinstance(e.value, ast.Name) and e.value.id == "self") else c.loc["self"]
                g = v[1]
                c.loc[tg.elts[0].id] = ("nat", f"(fst (g_shape {g}))")
                c.loc[tg.elts[1].id] = ("nat", f"(snd (g_shape {g}))")
                return self.block(rest, c)
            if isinstance(tg, ast.Name):
                for f in (self.setexp, None):
                    try:
                        if f is None:
                            c.loc[tg.id] = self.gridval(e, c)
                        else:
                            c.loc[tg.id] = ("set", f(e, c))
                        return self.block(rest, c)
                    except Untranslatable:
                        continue
        raise Untranslatable(f"{self.name}: statement {_u(s)[:80]}")


def _method(cls, name):
    fn = next((f for f in cls.body if isinstance(f, ast.FunctionDef) and f.name == name), None)
    if fn is None:
        raise Untranslatable(f"no FilledGrid.{name}")
    return fn


def translate(path):
    tree = ast.parse(open(path).read())
    cls = next((n for n in tree.body if isinstance(n, ast.ClassDef) and n.name == "FilledGrid"), None)
    if cls is None:
        raise Untranslatable("no class FilledGrid")
    known = {"__post_init__", "__hash__", "__eq__", "is_equal", "positions", "fill", "vacate", "get_view", "shift", "scale", "repeat"}
    extra = {f.name for f in cls.body if isinstance(f, ast.FunctionDef)} - known
    if extra & {"__init__", "__new__", "__setattr__", "__getattribute__", "__ne__", "__lt__", "__le__", "__getitem__", "__iter__", "__len__", "__contains__", "shape", "x_positions", "y_positions"}:
        raise Untranslatable(f"FilledGrid defines {sorted(extra)}")
    out = []
    # classmethods over a plain / a filled grid
    for name, setparam in (("fill", "filled"), ("vacate", "vacancies")):
        fn = _method(cls, name)
        a = [x.arg for x in fn.args.args]
        if len(a) != 3 or a[0] != "cls" or not any(_u(d) == "classmethod" for d in fn.decorator_list):
            raise Untranslatable(f"{name}{tuple(a)} is not a classmethod (cls, grid, sites)")
        arms = []
        for world in ("plain", "filled"):
            c = Ctx(name)
            c.loc[a[1]] = ("plain", "g") if world == "plain" else ("filled", "r", "vac")
            c.loc[a[2]] = ("set", "l")
            kind, term = T(fn).block(list(fn.body), c)
            if kind != "fval":
                raise Untranslatable(f"{name}: may fail")
            arms.append(term)
        out.append(f"Definition src_{name} (v : fval) (l : list idx) : fval :=\n  match v with\n  | FPlain _ g => {arms[0]}\n  | FFilled _ r vac => {arms[1]}\n  end.\n")
    # instance methods of a filled grid
    sigs = {"get_view": ("(xi yi : list nat)", ["natlist", "natlist"], "res fval"), "shift": ("(dx dy : Q)", ["q", "q"], "fval"), "scale": ("(sx sy : Q)", ["q", "q"], "fval"),
            "repeat": ("(tx ty : nat) (gx gy : Q)", ["nat", "nat", "q", "q"], "res fval")}
    for name, (sig, kinds, rty) in sigs.items():
        fn = _method(cls, name)
        a = [x.arg for x in fn.args.args]
        if len(a) != 1 + len(kinds) or a[0] != "self":
            raise Untranslatable(f"{name}{tuple(a)}")
        c = Ctx(name)
        c.loc["self"] = ("filled", "r", "vac")
        gnames = sig.replace("(", "").replace(")", "").replace(": list nat", "").replace(": Q", "").replace(": nat", "").split()
        for p, k, g in zip(a[1:], kinds, gnames):
            c.loc[p] = (k, g)
        kind, term = T(fn).block(list(fn.body), c)
        if (kind == "res") != rty.startswith("res"):
            raise Untranslatable(f"{name}: result kind {kind}")
        out.append(f"Definition src_{name} (r : G) (vac : list idx) {sig} : {rty} :=\n  {term}.\n")
    # positions
    fn = _method(cls, "positions")
    body = [s for s in fn.body if not (isinstance(s, ast.Expr) and isinstance(s.value, ast.Constant))]
    gen = None
    if len(body) == 2 and isinstance(body[0], ast.Assign) and isinstance(body[1], ast.Return) and isinstance(body[0].value, ast.Call) and _u(body[0].value.func) == "tuple" \
            and isinstance(body[0].value.args[0], ast.GeneratorExp) and _u(body[1].value) in (f"ilist.IList({_u(body[0].targets[0])})",):
        gen = body[0].value.args[0]
    elif len(body) == 1 and isinstance(body[0], ast.Return) and isinstance(body[0].value, ast.Call) and _u(body[0].value.func) == "ilist.IList" \
            and isinstance(body[0].value.args[0], ast.Call) and _u(body[0].value.args[0].func) == "tuple" and isinstance(body[0].value.args[0].args[0], ast.GeneratorExp):
        gen = body[0].value.args[0].args[0]
    if gen is None:
        raise Untranslatable("positions is not ilist.IList(tuple(<generator>))")
    c = Ctx("positions")
    c.loc["self"] = ("filled", "r", "vac")
    out.append(f"Definition src_positions (r : G) (vac : list idx) : list (Q * Q) :=\n  {T(fn).generator(gen, c, 'qq')}.\n")
    # __eq__ / __hash__: which components they read
    fn = _method(cls, "__eq__")
    a = [x.arg for x in fn.args.args]
    body = [s for s in fn.body if not (isinstance(s, ast.Expr) and isinstance(s.value, ast.Constant))]
    if len(a) != 2 or len(body) != 1 or not isinstance(body[0], ast.Return) or not isinstance(body[0].value, ast.BoolOp) or not isinstance(body[0].value.op, ast.And):
        raise Untranslatable("__eq__ is not one conjunction")
    conj = sorted(_u(x) for x in body[0].value.values)
    o = a[1]
    want = sorted([f"isinstance({o}, FilledGrid)", f"self.parent == {o}.parent", f"self.vacancies == {o}.vacancies"])
    alt = sorted([f"isinstance({o}, FilledGrid)", f"{o}.parent == self.parent", f"{o}.vacancies == self.vacancies"])
    if conj not in (want, alt) or not _u(body[0].value.values[0]).startswith("isinstance"):
        raise Untranslatable(f"__eq__ compares {conj}")
    out.append("Definition src_eq (a b : fval) : bool :=\n  match a, b with\n  | FFilled _ r1 v1, FFilled _ r2 v2 => g_eqb r1 r2 && seteq_idx v1 v2\n  | FFilled _ _ _, FPlain _ _ => false\n"
               "  | FPlain _ x, FPlain _ y => g_eqb x y\n  | FPlain _ _, FFilled _ _ _ => false\n  end.\n")
    fn = _method(cls, "__hash__")
    body = [s for s in fn.body if not (isinstance(s, ast.Expr) and isinstance(s.value, ast.Constant))]
    if len(body) != 1 or not isinstance(body[0], ast.Return) or _u(body[0].value) not in ("hash((self.parent, self.vacancies))", "hash((self.vacancies, self.parent))"):
        raise Untranslatable(f"__hash__ is {_u(body[0]) if body else 'empty'}")
    pi = _method(cls, "__post_init__")
    assigned = sorted(_u(s.targets[0]) for s in pi.body if isinstance(s, ast.Assign))
    if [x for x in assigned if x in ("self.parent", "self.vacancies")]:
        raise Untranslatable("__post_init__ rebinds parent / vacancies")
    return "\n".join(out)


PROOFS = r"""
  (* ---- the translation equals the hand-written model ---- *)
  Lemma all_idx_eta sh : all_idx (fst sh, snd sh) = all_idx sh.
  Proof. destruct sh; reflexivity. Qed.

  Theorem src_fill_eq : forall v l, src_fill v l = fill G g_shape v l.
  Proof. intros [g | r vac] l; unfold src_fill, fill; rewrite ?all_idx_eta; reflexivity. Qed.
  Theorem src_vacate_eq : forall v l, src_vacate v l = vacate G v l.
  Proof. intros [g | r vac] l; unfold src_vacate, vacate; rewrite ?app_nil_l; reflexivity. Qed.

  Lemma flat_map_ext_in' {A B} (f g : A -> list B) l : (forall a, In a l -> f a = g a) -> flat_map f l = flat_map g l.
  Proof.
    induction l as [|x r IH]; intros H; [reflexivity|]. cbn [flat_map]. rewrite (H x (or_introl eq_refl)).
    rewrite IH; [reflexivity|]. intros a Ha. apply H. right. exact Ha.
  Qed.
  Lemma flat_map_enum {A B} (d : A) (f : nat * A -> list B) (l : list A) : forall s,
    flat_map f (combine (seq s (length l)) l) = flat_map (fun a => f (a, nth (a - s) l d)) (seq s (length l)).
  Proof.
    induction l as [|x r IH]; intros s; [reflexivity|].
    cbn [length seq combine flat_map]. rewrite Nat.sub_diag. cbn [nth]. f_equal.
    rewrite IH. apply flat_map_ext_in'. intros a Ha. apply in_seq in Ha.
    replace (a - s)%nat with (S (a - S s)) by lia. reflexivity.
  Qed.

  Theorem src_get_view_eq : forall r vac xi yi, src_get_view r vac xi yi = fview G g_view (FFilled G r vac) xi yi.
  Proof.
    intros r vac xi yi. unfold src_get_view, fview. destruct (g_view r xi yi) as [r'|e]; [|reflexivity].
    do 2 f_equal. unfold view_vac.
    rewrite (flat_map_enum O _ xi O). apply flat_map_ext_in'. intros a _. rewrite Nat.sub_0_r.
    rewrite (flat_map_enum O _ yi O). apply flat_map_ext_in'. intros b _. rewrite Nat.sub_0_r. reflexivity.
  Qed.
  Theorem src_shift_eq : forall r vac dx dy, src_shift r vac dx dy = fshift G g_shift (FFilled G r vac) dx dy.
  Proof. reflexivity. Qed.
  Theorem src_scale_eq : forall r vac sx sy, src_scale r vac sx sy = fscale G g_scale (FFilled G r vac) sx sy.
  Proof. reflexivity. Qed.

  Lemma flat_map_singleton {A B} (f : A -> B) l : flat_map (fun x => [f x]) l = map f l.
  Proof. induction l as [|x r IH]; [reflexivity|]. cbn [flat_map map app]. rewrite IH. reflexivity. Qed.
  Theorem src_repeat_eq : forall r vac tx ty gx gy, src_repeat r vac tx ty gx gy = frepeat G g_shape g_repeat (FFilled G r vac) tx ty gx gy.
  Proof.
    intros r vac tx ty gx gy. unfold src_repeat, frepeat. destruct (g_repeat r tx ty gx gy) as [r'|e]; [|reflexivity].
    do 2 f_equal. rewrite app_nil_l. unfold repeat_vac.
    apply flat_map_ext_in'. intros i _. apply flat_map_ext_in'. intros j _.
    rewrite <- flat_map_singleton. apply flat_map_ext_in'. intros [x y] _. reflexivity.
  Qed.

  Theorem src_positions_eq : forall r vac, src_positions r vac = fpositions G g_xpos g_ypos (FFilled G r vac).
  Proof.
    intros r vac. unfold src_positions, fpositions. cbn [vacancies root].
    apply flat_map_ext_in'. intros [ix x] _. apply flat_map_ext_in'. intros [iy y] _. reflexivity.
  Qed.
  Theorem src_eq_eq : forall a b, src_eq a b = feq G g_eqb a b.
  Proof. intros [x | r1 v1] [y | r2 v2]; reflexivity. Qed.
End Src.

Print Assumptions src_fill_eq.
Print Assumptions src_vacate_eq.
Print Assumptions src_get_view_eq.
Print Assumptions src_shift_eq.
Print Assumptions src_scale_eq.
Print Assumptions src_repeat_eq.
Print Assumptions src_positions_eq.
Print Assumptions src_eq_eq.
"""


def generate(repo):
    import os
    body = translate(os.path.join(repo, "src/bloqade/shuttle/dialects/filled/types.py"))
    hdr = ("(* GENERATED on every run from dialects/filled/types.py (class FilledGrid) by harness/gen/filled_translate.py *)\n"
           "From Coq Require Import QArith List Bool Arith Lia.\nFrom BS Require Import Core.Base Model.Filled.\nImport ListNotations.\n\n"
           "Section Src.\n  Variable G : Type.\n  Variable g_shape : G -> nat * nat.\n  Variable g_view : G -> list nat -> list nat -> res G.\n"
           "  Variable g_shift : G -> Q -> Q -> G.\n  Variable g_scale : G -> Q -> Q -> G.\n  Variable g_repeat : G -> nat -> nat -> Q -> Q -> res G.\n"
           "  Variable g_eqb : G -> G -> bool.\n  Variable g_xpos : G -> list Q.\n  Variable g_ypos : G -> list Q.\n"
           "  Notation fval := (fval G).\n\n")
    return hdr + "\n".join("  " + l if l else l for l in body.splitlines()) + "\n" + PROOFS
