"""Evaluating the source of a @move program directly: @move is the identity decorator, the DSL
modules are stand-ins that append to an event log, device calls are traced with the real tracer.
This is the reference 'evaluate the program's source' of C04/C16."""
import types as pytypes
from typing import Any

from gen import kernels, move_prog


class NativeError(Exception):
    pass


KERNEL_SOURCES = {}       # id(tweezer method) -> (source text defining it, its name): device calls of these are evaluated natively


def register_kernels(src, ns):
    """remember the source of the tweezer kernels of `ns` (name -> method) defined by `src`"""
    for name, m in ns.items():
        KERNEL_SOURCES[id(m)] = (src, name)


class Dev:
    def __init__(self, env, kernel, xt, yt, rev=False):
        self.env, self.kernel, self.xt, self.yt, self.rev = env, kernel, list(xt), list(yt), rev

    def __call__(self, *args, **kw):
        self.env.device_call(self, args, kw)


class Env:
    def __init__(self, arch_spec):
        from vcommon import events as ev
        ev._register()
        self.S = arch_spec
        self.events = []
        self.labels = []          # abstract labels, same length as events
        self.stack = []           # open blocks: (kind, members, member_labels)
        self.early_returns = []   # number of events emitted when a subroutine returned early
        self.Group = ev.Group

    # -- device calls --
    def device_call(self, dev, args, kw):
        from bloqade.shuttle.codegen.taskgen import TraceInterpreter, reverse_path
        from bloqade.shuttle.dialects.path import Path
        from kirin.dialects import ilist
        from gen import native_filled
        names = list(dev.kernel.arg_names[1:])
        args, kw = native_filled.real(tuple(args)), {k: native_filled.real(v) for k, v in kw.items()}
        ordered = list(args) + [kw[n] for n in names[len(args):]]
        if len(ordered) != len(names) or set(kw) - set(names[len(args):]):
            raise NativeError("bad arguments")
        src = KERNEL_SOURCES.get(id(dev.kernel))
        if src is not None:
            # the tweezer kernel's SOURCE evaluated natively and put through the reference AOD model (no tracer of the package involved)
            from props import tracer_common as tc
            nat = tc.run_native(src[0], src[1], tuple(ordered), self.S)
            ref = tc.ref_trace(nat[1]) if nat[0] == "ok" and tc.ops_in_domain(nat[1]) else None
            if ref is None:
                raise NativeError("the device kernel yields no path")
        else:
            from props import tracer_common as tc
            ref = tc.abstract_path(TraceInterpreter(self.S).run_trace(dev.kernel, tuple(ordered), {}))
        # the way back is the reference model's time reversal, not the package's inv() methods
        p = tc.concrete_path(tc.rev_abs(ref) if dev.rev else ref)
        pv = Path(ilist.IList(dev.xt), ilist.IList(dev.yt), p)
        label = f"{'rev' if dev.rev else 'fwd'}:{dev.kernel.sym_name}(" + ",".join(_num(v) for v in ordered) + ")"
        if self.stack:
            self.stack[-1][1].append(pv)
            self.stack[-1][2].append(label)
        else:
            self.events.append(("play", pv))
            self.labels.append("play " + label)

    # -- blocks --
    def block(self, kind):
        env = self

        class Ctx:
            def __enter__(s):
                env.stack.append((kind, [], []))

            def __exit__(s, et, ev, tb):
                k, members, labels = env.stack.pop()
                if et is not None:
                    return False
                if env.stack:
                    pk, pm, pl = env.stack[-1]
                    if pk == k:                      # directly nested, same kind: merged in place
                        pm.extend(members)
                        pl.extend(labels)
                    else:
                        pm.append(env.Group(k, tuple(members)))
                        pl.append(k + "{" + ";".join(labels) + "}")
                else:
                    env.events.append(("play", env.Group(k, tuple(members))))
                    env.labels.append("play " + k + "{" + ";".join(labels) + "}")
                return False
        return Ctx()

    def emit(self, ev, label):
        if self.stack:
            raise NativeError("only device calls are allowed inside a block")
        # a filled grid of the native evaluation becomes the library's class here, by its constructor alone
        from gen import native_filled
        ev = native_filled.real(tuple(ev))
        self.events.append(ev)
        self.labels.append(label)


def _num(v):
    if isinstance(v, bool):
        return repr(v)
    if isinstance(v, float):
        return repr(v)
    return str(v)


def _f(v):
    if not isinstance(v, float):
        raise NativeError("float expected")
    return v


def namespace(env, kernel_ns):
    from gen import native_filled as NF
    from bloqade.geometry.dialects import grid as real_grid
    from kirin.dialects import ilist
    S = env.S

    def lookup(t, k, what):
        v = t.get(k)
        if v is None:
            raise NativeError(f"{what} {k} not found")
        return NF.wrap(v)
    schedule = pytypes.SimpleNamespace(
        device_fn=lambda k, xt, yt: Dev(env, k, xt, yt),
        reverse=lambda d: Dev(env, d.kernel, d.xt, d.yt, not d.rev),
        parallel=lambda: env.block("parallel"), auto=lambda: env.block("auto"))
    gate = pytypes.SimpleNamespace(
        top_hat_cz=lambda zone, upper_buffer=3.0, lower_buffer=3.0: env.emit(("cz", zone, upper_buffer, lower_buffer), "cz"),
        # (parameter names as documented in dialects/gate/_interface.py, so that keyword calls evaluate natively)
        local_r=lambda axis_angle, rotation_angle, zone: env.emit(("local_r", _f(axis_angle), _f(rotation_angle), zone), "local_r"),
        local_rz=lambda rotation_angle, zone: env.emit(("local_rz", _f(rotation_angle), zone), "local_rz"),
        global_r=lambda axis_angle, rotation_angle: env.emit(("global_r", _f(axis_angle), _f(rotation_angle)), "global_r"),
        global_rz=lambda rotation_angle: env.emit(("global_rz", _f(rotation_angle)), "global_rz"))
    init = pytypes.SimpleNamespace(fill=lambda zs: env.emit(("fill", list(zs)), "fill"))
    measure = pytypes.SimpleNamespace(measure=lambda zs: env.emit(("measure", list(zs)), "measure") or tuple(object() for _ in zs))
    spec = pytypes.SimpleNamespace(
        get_static_trap=lambda *, zone_id: lookup(S.layout.static_traps, zone_id, "zone"),
        get_special_grid=lambda *, grid_id: lookup(S.layout.special_grid, grid_id, "special grid"),
        get_int_constant=lambda *, constant_id: lookup(S.int_constants, constant_id, "int"),
        get_float_constant=lambda *, constant_id: lookup(S.float_constants, constant_id, "float"))
    grid = pytypes.SimpleNamespace(
        Grid=real_grid.Grid,
        from_positions=lambda xs, ys: real_grid.Grid.from_positions(x_positions=xs, y_positions=ys),
        shift=lambda g, dx, dy: g.shift(_f(dx), _f(dy)), scale=lambda g, a, b: g.scale(_f(a), _f(b)),
        sub_grid=lambda g, xs, ys: g.get_view(xs, ys), shape=lambda g: g.shape,
        get_xpos=lambda g: ilist.IList(list(g.x_positions)), get_ypos=lambda g: ilist.IList(list(g.y_positions)),
        repeat=lambda g, a, b, c, d: g.repeat(a, b, _f(c), _f(d)))
    def _parent(g):
        if not isinstance(g, NF.NativeFilled):
            raise NativeError("filled grid expected")
        return g.parent
    filled = pytypes.SimpleNamespace(
        vacate=lambda g, l: NF.vacate(g, list(l)), fill=lambda g, l: NF.fill(g, list(l)), get_parent=_parent,
        shift=lambda g, dx, dy: g.shift(_f(dx), _f(dy)), scale=lambda g, a, b: g.scale(_f(a), _f(b)),
        repeat=lambda g, a, b, c, d: g.repeat(a, b, _f(c), _f(d)))
    from typing import Literal
    # the list constructors of kirin's ilist module that kernels use, evaluated natively
    ilist_ns = pytypes.SimpleNamespace(IList=ilist.IList, range=lambda *a: ilist.IList(list(range(*a))))
    ns = dict(schedule=schedule, gate=gate, init=init, measure=measure, spec=spec, grid=grid, filled=filled, Literal=Literal, ilist=ilist_ns, Any=Any,
              __mark_early_return__=lambda: env.early_returns.append(len(env.events)),
              move=lambda f=None, **kw: (f if f is not None else (lambda g: g)))
    ns.update(kernel_ns)
    return ns


def split_source(src):
    """(tweezer kernel definitions, move-level definitions)"""
    i = src.index("@move")
    return src[:i], src[i:]


def run_native(src, args, arch_spec, kernel_ns=None, main="main"):
    """-> ('ok', events, labels) | ('err', events, labels, exc)"""
    tw, mv = split_source(src)
    if kernel_ns is None:
        kernel_ns = {k: v for k, v in kernels.define(tw).items() if k in move_prog.TWEEZERS}
    env = Env(arch_spec)
    try:
        from gen import native_filled
        ns = kernels.define_native(mv, namespace(env, kernel_ns))
        ns[main](*native_filled.wrap(tuple(args)))
        return ("ok", env.events, env.labels, env.early_returns)
    except Exception as e:
        return ("err", env.events, env.labels, type(e).__name__ + ": " + str(e)[:120])
