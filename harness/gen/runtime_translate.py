"""Translator: how the quantum-runtime analysis propagates its flag  ->  Gallina (Gen_C09_src.v)

    analysis/runtime.py                    RuntimeFrame, RuntimeAnalysis.has_quantum_runtime, the "runtime" handlers of scf / func / ilist
    dialects/{gate,init,measure,path}/runtime.py   the handlers that mark a frame

Each handler is executed symbolically (one path per recognised case of the callee's const hint).  What is extracted is, per statement
kind and case, WHICH frames' flags are OR-ed into the frame of the enclosing body and on WHICH region / callee each of those frames was
run - or that the handler raises.  The emitted

    step_src inv go : rstmt -> seen        higher_src inv go : hcallee -> seen        answer_src : seen -> answer

are proved equal to Model.Runtime.step_model / higher_model / answer_of for every statement, every contribution of the nested bodies
(go) and of invoked kernels (inv); with Proofs.RuntimeProofs.scan_stmt_step this gives  scan_stmt = the code's propagation  for all
programs.  The statement classes whose handler marks the frame and the higher-order list statements are emitted as name lists and proved
equal to Model.Runtime.device_statements / higher_order_statements.

Fragment (fail closed):
  frames          with _interp.new_frame(..) as X:  [r =] _interp.run_ssacfg_region(X, <region>, ..)      X, r = _interp.run_method(<callee>, ..)
  regions         stmt.then_body  stmt.else_body  stmt.body  |  B  where  B = trait.get_callable_region(<hint>.code)
  callees         stmt.callee   <hint>.data
  hint            <hint> = stmt.callee.hints.get("const") | stmt.fn.hints.get("const")
  cases           if isinstance(<hint>, const.PartialLambda) and (trait := <hint>.code.get_trait(ir.CallableStmtInterface)) is not None: ..
                  [el]if isinstance(<hint>, const.Value) and isinstance(<hint>.data, ir.Method): ..          else: raise ..
  the flag        frame.is_quantum = frame.is_quantum or X.is_quantum [or Y.is_quantum ..]     |  frame.is_quantum = True
  anything else   is ignored only if it cannot touch the flag, create a frame, raise, or return before the flag has been written
"""
import ast
import os


class Untranslatable(Exception):
    pass


def _u(e):
    return ast.unparse(e)


FRAME_CALLS = ("new_frame", "run_method", "run_ssacfg_region", "run_callable", "run_analysis", "run_region")


def _touches(node):
    """could this subtree change the flag, create/run a frame, raise?"""
    for n in ast.walk(node):
        if isinstance(n, ast.Attribute) and n.attr in ("is_quantum",) + FRAME_CALLS:
            return True
        if isinstance(n, ast.Raise):
            return True
    return False


def _has_return(node):
    return any(isinstance(n, ast.Return) for n in ast.walk(node))


class Path:
    def __init__(self):
        self.frames = {}      # frame variable -> "then" | "else" | "body" | "lam" | "inv"
        self.alias = {}       # local -> "lam"
        self.hint = None      # the variable holding the const hint of the callee / function operand
        self.case = None      # None | "lambda" | "method" | "unknown"
        self.flag = None      # None (never written) | list of contributions | "dev"
        self.raises = False

    def copy(self):
        p = Path()
        p.frames, p.alias, p.hint, p.case, p.flag, p.raises = dict(self.frames), dict(self.alias), self.hint, self.case, self.flag, self.raises
        return p


def _region(p, e, interp):
    t = _u(e)
    if t in ("stmt.then_body", "stmt.else_body", "stmt.body"):
        return {"stmt.then_body": "then", "stmt.else_body": "else", "stmt.body": "body"}[t]
    if isinstance(e, ast.Name) and p.alias.get(e.id) == "lam":
        return "lam"
    raise Untranslatable(f"region {t}")


def _classify(p, test):
    t = _u(test).replace(" ", "")
    h = p.hint
    if h is None:
        return None
    if t == f"isinstance({h},const.PartialLambda)and(trait:={h}.code.get_trait(ir.CallableStmtInterface))isnotNone":
        return "lambda"
    if t in (f"isinstance({h},const.Value)andisinstance({h}.data,ir.Method)",):
        return "method"
    return None


def _exec(stmts, p, interp, out):
    """runs the statements on path p; finished paths are appended to out"""
    for k, s in enumerate(stmts):
        rest = stmts[k + 1:]
        if isinstance(s, ast.Expr) and isinstance(s.value, ast.Constant):
            continue
        if isinstance(s, ast.With):
            if len(s.items) != 1 or not isinstance(s.items[0].optional_vars, ast.Name):
                raise Untranslatable("with: " + _u(s.items[0]))
            call, x = s.items[0].context_expr, s.items[0].optional_vars.id
            if not (isinstance(call, ast.Call) and _u(call.func) == f"{interp}.new_frame"):
                raise Untranslatable("with: " + _u(call))
            body = [b for b in s.body if not (isinstance(b, ast.Expr) and isinstance(b.value, ast.Constant))]
            if len(body) != 1 or not isinstance(body[0], (ast.Expr, ast.Assign)):
                raise Untranslatable(f"the body of `with .. as {x}` is not one run_ssacfg_region call")
            run = body[0].value
            if not (isinstance(run, ast.Call) and _u(run.func) == f"{interp}.run_ssacfg_region" and len(run.args) >= 2 and _u(run.args[0]) == x):
                raise Untranslatable(f"the body of `with .. as {x}`: {_u(body[0])[:80]}")
            if x in p.frames:
                raise Untranslatable(f"frame {x} is created twice")
            p.frames[x] = _region(p, run.args[1], interp)
            continue
        if isinstance(s, ast.Assign) and len(s.targets) == 1:
            tgt, val = s.targets[0], s.value
            if _u(tgt) == "frame.is_quantum":
                if p.flag is not None:
                    raise Untranslatable("the flag is written twice on one path")
                if isinstance(val, ast.Constant) and val.value is True:
                    p.flag = "dev"
                elif isinstance(val, ast.BoolOp) and isinstance(val.op, ast.Or) and _u(val.values[0]) == "frame.is_quantum":
                    items = []
                    for v in val.values[1:]:
                        if not (isinstance(v, ast.Attribute) and v.attr == "is_quantum" and isinstance(v.value, ast.Name) and v.value.id in p.frames):
                            raise Untranslatable("flag operand " + _u(v))
                        items.append(p.frames[v.value.id])
                    p.flag = items
                else:
                    raise Untranslatable("flag assignment " + _u(val)[:80])
                continue
            if isinstance(val, ast.Call) and _u(val.func) == f"{interp}.run_method":
                if not (isinstance(tgt, ast.Tuple) and len(tgt.elts) == 2 and isinstance(tgt.elts[0], ast.Name)):
                    raise Untranslatable("run_method result " + _u(tgt))
                callee = _u(val.args[0]) if val.args else ""
                ok = callee == "stmt.callee" or (p.hint is not None and callee == f"{p.hint}.data" and p.case == "method")
                if not ok:
                    raise Untranslatable("run_method on " + callee)
                if tgt.elts[0].id in p.frames:
                    raise Untranslatable(f"frame {tgt.elts[0].id} is created twice")
                p.frames[tgt.elts[0].id] = "inv"
                continue
            if isinstance(tgt, ast.Name) and _u(val) in ('stmt.callee.hints.get("const")', "stmt.callee.hints.get('const')",
                                                          'stmt.fn.hints.get("const")', "stmt.fn.hints.get('const')"):
                p.hint = tgt.id
                continue
            if (isinstance(tgt, ast.Name) and isinstance(val, ast.Call) and _u(val.func) == "trait.get_callable_region"
                    and p.hint is not None and len(val.args) == 1 and _u(val.args[0]) == f"{p.hint}.code" and p.case == "lambda"):
                p.alias[tgt.id] = "lam"
                continue
            if _touches(s):
                raise Untranslatable("assignment " + _u(s)[:80])
            for n in ast.walk(tgt):
                if isinstance(n, ast.Name) and (n.id in p.frames or n.id in p.alias or n.id == p.hint):
                    raise Untranslatable("re-binds " + n.id)
            continue
        if isinstance(s, ast.If):
            case = _classify(p, s.test)
            if case is None:
                if _touches(s):
                    raise Untranslatable("if " + _u(s.test)[:80])
                if _has_return(s) and p.flag is None:
                    raise Untranslatable("a return before the flag is written: if " + _u(s.test)[:60])
                continue
            if p.case is not None:
                raise Untranslatable("nested case split")
            q = p.copy()
            q.case = case
            _exec(list(s.body) + list(rest), q, interp, out)
            r = p.copy()
            if len(s.orelse) == 1 and isinstance(s.orelse[0], ast.If) and _classify(p, s.orelse[0].test) is not None:
                _exec(list(s.orelse) + list(rest), r, interp, out)
            else:
                r.case = "unknown"
                _exec(list(s.orelse) + list(rest), r, interp, out)
            return
        if isinstance(s, ast.Raise):
            p.raises = True
            out.append(p)
            return
        if isinstance(s, ast.Return):
            if s.value is not None and _touches(s.value):
                raise Untranslatable("return " + _u(s.value)[:60])
            out.append(p)
            return
        if isinstance(s, ast.Match):
            if _touches(s):
                raise Untranslatable("match statement touches the flag / frames")
            if _has_return(s) and p.flag is None:
                raise Untranslatable("a return before the flag is written: match")
            continue
        if isinstance(s, (ast.Expr, ast.AugAssign, ast.AnnAssign, ast.Pass)):
            if _touches(s):
                raise Untranslatable("statement " + _u(s)[:80])
            continue
        raise Untranslatable("statement " + _u(s)[:80])
    out.append(p)


def _handlers(tree, key="runtime"):
    """-> [(class name of the statement, FunctionDef)] for every @interp.impl under a method table registered with key"""
    res = []
    for cls in tree.body:
        if not isinstance(cls, ast.ClassDef):
            continue
        regs = [_u(d).replace(" ", "") for d in cls.decorator_list]
        if not any(r.endswith(f"register(key='{key}')") or r.endswith(f'register(key="{key}")') for r in regs):
            continue
        for f in cls.body:
            if not isinstance(f, ast.FunctionDef):
                continue
            for d in f.decorator_list:
                if isinstance(d, ast.Call) and _u(d.func).endswith("impl") and len(d.args) == 1:
                    res.append((_u(d.args[0]), f))
    return res


def _paths(fn):
    args = [a.arg for a in fn.args.args]
    if len(args) != 4 or args[2] != "frame" or args[3] != "stmt":
        raise Untranslatable(f"{fn.name}: parameters {args}")
    out = []
    _exec(list(fn.body), Path(), args[1], out)
    return out


def _expr(p, avail, what):
    if p.raises:
        return "mkseen false true"
    if p.flag is None or p.flag == []:
        return "nothing"
    if p.flag == "dev":
        return "mkseen true false"
    items = []
    for it in p.flag:
        if it not in avail:
            raise Untranslatable(f"{what}: the flag of a frame run on `{it}`")
        items.append(avail[it])
    e = items[-1]
    for it in reversed(items[:-1]):
        e = f"seen_or ({it}) ({e})"
    return e


def _single(paths, what):
    if len(paths) != 1 or paths[0].case is not None:
        raise Untranslatable(f"{what}: case split on the const hint")
    return paths[0]


def _by_case(paths, what, want):
    d = {}
    for p in paths:
        c = p.case
        if c in d:
            raise Untranslatable(f"{what}: two paths for case {c}")
        d[c] = p
    if set(d) != set(want):
        raise Untranslatable(f"{what}: cases {sorted(map(str, d))}, expected {sorted(want)}")
    return d


def analysis_facts(repo):
    src = os.path.join(repo, "src/bloqade/shuttle/analysis/runtime.py")
    tree = ast.parse(open(src).read())
    hs = _handlers(tree)
    by = {}
    for name, f in hs:
        by.setdefault(f.name, (f, []))[1].append(name)
    kinds = {}
    for fname, (f, names) in by.items():
        names = sorted(names)
        if names == ["scf.IfElse"]:
            kinds["if"] = f
        elif names == ["scf.For"]:
            kinds["for"] = f
        elif names == ["func.Invoke"]:
            kinds["invoke"] = f
        elif names == ["func.Call"]:
            kinds["call"] = f
        elif all(n.startswith("ilist.") for n in names):
            if "higher" in kinds:
                raise Untranslatable("two handlers for ilist statements")
            kinds["higher"] = (f, [n.split(".")[1] for n in names])
        elif names in (["scf.Yield"], ["func.Return"]):
            if _touches(f):
                raise Untranslatable(f"{fname} touches the flag")
        else:
            raise Untranslatable(f"handler {fname} for {names}")
    missing = {"if", "for", "invoke", "call", "higher"} - set(kinds)
    if missing:
        raise Untranslatable(f"no handler for {sorted(missing)}")
    facts = {}
    facts["if"] = _expr(_single(_paths(kinds["if"]), "ifelse"), {"then": "go t", "else": "go e"}, "ifelse")
    facts["for"] = _expr(_single(_paths(kinds["for"]), "for_loop"), {"body": "go b"}, "for_loop")
    facts["invoke"] = _expr(_single(_paths(kinds["invoke"]), "invoke"), {"inv": "inv m"}, "invoke")
    call = _by_case(_paths(kinds["call"]), "call", ["lambda", "unknown"])
    facts["call_lambda"] = _expr(call["lambda"], {"lam": "go b"}, "call/lambda")
    facts["call_unknown"] = _expr(call["unknown"], {}, "call/unknown")
    hf, hnames = kinds["higher"]
    hi = _by_case(_paths(hf), "higher_order", ["method", "lambda", "unknown"])
    facts["h_method"] = _expr(hi["method"], {"inv": "inv m"}, "higher_order/method")
    facts["h_lambda"] = _expr(hi["lambda"], {"lam": "go b"}, "higher_order/lambda")
    facts["h_unknown"] = _expr(hi["unknown"], {}, "higher_order/unknown")
    facts["higher_names"] = sorted(hnames)
    # the frame starts unmarked; the query reads the flag of the frame run_analysis hands back and lets errors through
    rf = next((c for c in tree.body if isinstance(c, ast.ClassDef) and c.name == "RuntimeFrame"), None)
    init = [s for s in (rf.body if rf else []) if isinstance(s, ast.AnnAssign) and _u(s.target) == "is_quantum"]
    if len(init) != 1 or init[0].value is None or _u(init[0].value) != "False":
        raise Untranslatable("RuntimeFrame.is_quantum does not start as False")
    ra = next((c for c in tree.body if isinstance(c, ast.ClassDef) and c.name == "RuntimeAnalysis"), None)
    meth = {f.name: f for f in (ra.body if ra else []) if isinstance(f, ast.FunctionDef)}
    hq = meth.get("has_quantum_runtime")
    body = [_u(s) for s in (hq.body if hq else []) if not (isinstance(s, ast.Expr) and isinstance(s.value, ast.Constant))]
    if [b.replace("(frame, _)", "frame, _") for b in body] != ["frame, _ = self.run_analysis(method, no_raise=False)", "return frame.is_quantum"]:
        raise Untranslatable(f"has_quantum_runtime: {body}")
    for name, f in meth.items():
        if name != "has_quantum_runtime" and _touches_flag_only(f):
            raise Untranslatable(f"RuntimeAnalysis.{name} touches the flag")
    rm = meth.get("run_method")
    if rm is None or [_u(s) for s in rm.body] != ["return self.run_callable(method.code, (self.lattice.bottom(),) + args)"]:
        raise Untranslatable("RuntimeAnalysis.run_method")
    return facts


def _touches_flag_only(node):
    return any(isinstance(n, ast.Attribute) and n.attr == "is_quantum" for n in ast.walk(node))


DIALECTS = ("gate", "init", "measure", "path")


def device_facts(repo):
    names = []
    for d in DIALECTS:
        src = os.path.join(repo, f"src/bloqade/shuttle/dialects/{d}/runtime.py")
        tree = ast.parse(open(src).read())
        for stmt_name, f in _handlers(tree):
            args = [a.arg for a in f.args.args]
            if len(args) != 4 or args[2] != "frame" or args[3] != "stmt":
                raise Untranslatable(f"{d}/runtime.py {f.name}: parameters {args}")
            out = []
            _exec(list(f.body), Path(), args[1], out)
            if len(out) != 1 or out[0].raises or out[0].case is not None:
                raise Untranslatable(f"{d}/runtime.py {f.name}: not one straight path")
            if out[0].flag == "dev":
                names.append(stmt_name.split(".")[-1])
            elif out[0].flag is not None:
                raise Untranslatable(f"{d}/runtime.py {f.name}: flag {out[0].flag}")
    return sorted(names)


def generate(repo):
    f = analysis_facts(repo)
    dev = device_facts(repo)
    q = lambda l: "[" + "; ".join('"%s"' % x for x in l) + "]"
    return f"""(* GENERATED on every run from analysis/runtime.py and dialects/*/runtime.py by harness/gen/runtime_translate.py *)
From Coq Require Import String List Bool.
From BS Require Import Core.Show Core.Base Model.Runtime Proofs.RuntimeProofs.
Import ListNotations.
Local Open Scope string_scope.

Definition step_src (inv : string -> seen) (go : list rstmt -> seen) (s : rstmt) : seen :=
  match s with
  | RDev => mkseen true false
  | RIf t e => {f['if']}
  | RFor b => {f['for']}
  | RInvoke m => {f['invoke']}
  | RCallLam (Some b) => {f['call_lambda']}
  | RCallLam None => {f['call_unknown']}
  end.
Definition higher_src (inv : string -> seen) (go : list rstmt -> seen) (c : hcallee) : seen :=
  match c with
  | HMethod m => {f['h_method']}
  | HLambda b => {f['h_lambda']}
  | HUnknown => {f['h_unknown']}
  end.
Definition answer_src (s : seen) : answer := if s_dyn s then ARefuse else if s_dev s then ATrue else AFalse.
Definition device_src : list string := {q(dev)}.
Definition higher_names_src : list string := {q(f['higher_names'])}.

Ltac flags :=
  repeat match goal with
         | go : list rstmt -> seen |- context [?g ?l] => constr_eq g go; let a := fresh in let b := fresh in generalize (go l); intros [a b]
         | inv : string -> seen |- context [?g ?l] => constr_eq g inv; let a := fresh in let b := fresh in generalize (inv l); intros [a b]
         end;
  unfold seen_or, nothing; cbn; f_equal;
  repeat match goal with x : bool |- _ => destruct x end; reflexivity.

Lemma step_src_eq : forall inv go s, step_src inv go s = step_model inv go s.
Proof. intros inv go s; destruct s as [|t e|b|m|[b|]]; cbn [step_src step_model]; try reflexivity; flags. Qed.
Lemma higher_src_eq : forall inv go c, higher_src inv go c = higher_model inv go c.
Proof. intros inv go c; destruct c as [m|b|]; cbn [higher_src higher_model]; try reflexivity; flags. Qed.
Lemma answer_src_eq : forall s, answer_src s = answer_of s.
Proof. reflexivity. Qed.
Lemma device_src_eq : device_src = device_statements.
Proof. reflexivity. Qed.
Lemma higher_names_src_eq : higher_names_src = higher_order_statements.
Proof. reflexivity. Qed.

(* the model's recursive scan is the code's propagation, for every program *)
Theorem src_scan_stmt : forall inv s, scan_stmt inv s = step_src inv (scan_list inv) s.
Proof. intros; rewrite step_src_eq; apply scan_stmt_step. Qed.
Theorem src_scan_higher : forall inv c, scan_stmt inv (abs_higher c) = higher_src inv (scan_list inv) c.
Proof. intros; rewrite higher_src_eq; apply scan_higher. Qed.
Theorem src_analyze : forall d p body, analyze d p body = answer_src (scan_list (scan_depth d p) body).
Proof. intros; rewrite answer_src_eq; apply analyze_answer_of. Qed.
Print Assumptions src_scan_stmt.
Print Assumptions src_scan_higher.
Print Assumptions src_analyze.
"""


if __name__ == "__main__":
    import sys
    print(generate(sys.argv[1] if len(sys.argv) > 1 else "/repo"))
