"""Source reading for C13: what do Layout / ArchSpec equality, hashing and the zone index look at?

Reads /repo/src/bloqade/shuttle/arch.py with `ast` (fail-closed: anything unexpected is reported as a failed obligation):

  Layout.__eq__       `if not isinstance(other, Layout): return NotImplemented` + a conjunction of `self.f == other.f`   -> eq fields
  Layout.__hash__     `return hash((<frozenset(self.f.items()) | frozenset(self.f)>, ...))`                             -> hash fields
  Layout.__post_init__ one loop over the (name, grid) items of static_traps and special_grid (chain(...) or a + b) that raises
                      on a grid already in the index and records grid -> name                                           -> indexed tables
  Layout.get_zone_id  `return self._zone_to_id.get(zone, None)` (or `.get(zone)`)
  ArchSpec            a frozen dataclass (equality generated over all fields) whose __hash__ hashes the layout and both constant tables

Model/Arch.v compares and hashes the five tables of a layout and the three fields of a spec; the generated file states that the code
looks at exactly those.
"""
import ast

LAYOUT_TABLES = ["static_traps", "fillable", "has_cz", "has_local", "special_grid"]
SPEC_FIELDS = ["layout", "float_constants", "int_constants"]


_INDEX_READS = {
    "self._zone_to_id.get(zone, None)", "self._zone_to_id.get(zone)",
    "self._zone_to_id[zone] if zone in self._zone_to_id else None",
    "None if zone not in self._zone_to_id else self._zone_to_id[zone]",
}


class _Subst(ast.NodeTransformer):
    def __init__(self, env):
        self.env = env

    def visit_Name(self, node):
        return self.env.get(node.id, node)


def _reads_the_index_only(body):
    """get_zone_id only looks the zone up in the index: local aliases are substituted away, `if zone in index: return index[zone]`
    followed by `return None` is the conditional expression, and what remains must be one of the known look-ups."""
    env = {}
    body = list(body)
    while body and isinstance(body[0], ast.Assign) and len(body[0].targets) == 1 and isinstance(body[0].targets[0], ast.Name):
        env[body[0].targets[0].id] = _Subst(env).visit(body[0].value)
        body = body[1:]
    text = lambda e: ast.unparse(_Subst(env).visit(e))
    if len(body) == 1 and isinstance(body[0], ast.Return) and body[0].value is not None:
        return text(body[0].value) in _INDEX_READS
    if (len(body) == 2 and isinstance(body[0], ast.If) and not body[0].orelse and len(body[0].body) == 1
            and isinstance(body[0].body[0], ast.Return) and isinstance(body[1], ast.Return)):
        then, other = body[0].body[0].value, body[1].value
        if then is None or (other is not None and ast.unparse(other) != "None"):
            return False
        return f"{text(then)} if {text(body[0].test)} else None" in _INDEX_READS
    return False


def _method(cls, name):
    return next((s for s in cls.body if isinstance(s, ast.FunctionDef) and s.name == name), None)


def _body(fn):
    return [s for s in fn.body if not (isinstance(s, ast.Expr) and isinstance(s.value, ast.Constant))]


def analyse(path):
    tree = ast.parse(open(path).read())
    classes = {n.name: n for n in tree.body if isinstance(n, ast.ClassDef)}
    L, A = classes.get("Layout"), classes.get("ArchSpec")
    info = {"problems": []}
    bad = info["problems"].append
    if L is None or A is None:
        bad("Layout / ArchSpec not found")
        return info
    # declared fields
    lf = {}
    for s in L.body:
        if isinstance(s, ast.AnnAssign) and isinstance(s.target, ast.Name):
            txt = ast.unparse(s.value) if s.value is not None else ""
            lf[s.target.id] = "compare=False" in txt.replace(" ", "")
    info["layout_fields"] = sorted(k for k, nocmp in lf.items() if not nocmp)
    info["layout_hidden_fields"] = sorted(k for k, nocmp in lf.items() if nocmp)
    # __eq__
    eq = _method(L, "__eq__")
    info["eq_fields"] = None
    if eq is None:
        bad("Layout has no __eq__")
    else:
        b = _body(eq)
        ok_guard = (len(b) == 2 and isinstance(b[0], ast.If) and ast.unparse(b[0].test) == "not isinstance(other, Layout)"
                    and len(b[0].body) == 1 and ast.unparse(b[0].body[0]) == "return NotImplemented" and not b[0].orelse)
        if not ok_guard or not isinstance(b[-1], ast.Return):
            bad("Layout.__eq__ is not `guard; return <conjunction>`")
        else:
            v = b[-1].value
            parts = v.values if isinstance(v, ast.BoolOp) and isinstance(v.op, ast.And) else [v]
            fields = []
            for p in parts:
                if (isinstance(p, ast.Compare) and len(p.ops) == 1 and isinstance(p.ops[0], ast.Eq) and isinstance(p.left, ast.Attribute)
                        and isinstance(p.comparators[0], ast.Attribute) and isinstance(p.left.value, ast.Name) and isinstance(p.comparators[0].value, ast.Name)
                        and {p.left.value.id, p.comparators[0].value.id} == {"self", "other"} and p.left.attr == p.comparators[0].attr):
                    fields.append(p.left.attr)
                else:
                    bad("Layout.__eq__ conjunct " + ast.unparse(p)[:60])
            info["eq_fields"] = sorted(fields)
    # __hash__ of both classes
    for cls, key in ((L, "hash_fields"), (A, "spec_hash_fields")):
        h = _method(cls, "__hash__")
        info[key] = None
        if h is None:
            bad(f"{cls.name} has no __hash__")
            continue
        b = _body(h)
        if not (len(b) == 1 and isinstance(b[0], ast.Return) and isinstance(b[0].value, ast.Call) and ast.unparse(b[0].value.func) == "hash"
                and len(b[0].value.args) == 1 and isinstance(b[0].value.args[0], ast.Tuple)):
            bad(f"{cls.name}.__hash__ is not `return hash((...))`")
            continue
        fields = []
        for e in b[0].value.args[0].elts:
            t = ast.unparse(e)
            f = None
            for pat in ("frozenset(self.%s.items())", "frozenset(self.%s)", "self.%s"):
                for cand in (LAYOUT_TABLES + SPEC_FIELDS + list(lf)):
                    if t == pat % cand:
                        f = cand
            if f is None:
                bad(f"{cls.name}.__hash__ element {t[:60]}")
            else:
                fields.append(f)
        info[key] = sorted(fields)
    # __post_init__ / get_zone_id
    pi = _method(L, "__post_init__")
    info["indexed_tables"] = None
    if pi is None:
        bad("Layout has no __post_init__")
    else:
        b = _body(pi)
        if not (len(b) == 1 and isinstance(b[0], ast.For)):
            bad("Layout.__post_init__ is not a single loop")
        else:
            it = ast.unparse(b[0].iter).replace(" ", "").replace("\n", "")
            tables = [t for t in ("static_traps", "special_grid") if f"self.{t}.items()" in it]
            if not (it.startswith("chain(") or "+" in it or it.startswith("list(")) or len(tables) != 2:
                bad("Layout.__post_init__ does not loop over the items of both tables: " + it[:80])
            body = b[0].body
            raises = any(isinstance(s, ast.If) and any(isinstance(x, ast.Raise) for x in s.body) and "in self._zone_to_id" in ast.unparse(s.test) for s in body)
            writes = any(isinstance(s, ast.Assign) and ast.unparse(s.targets[0]).startswith("self._zone_to_id[") for s in body)
            extra = [ast.unparse(s)[:50] for s in body if not (isinstance(s, ast.If) or isinstance(s, ast.Assign))]
            if not raises or not writes or extra or len(body) != 2:
                bad(f"Layout.__post_init__ loop body is not `if grid in index: raise; index[grid] = name` ({extra})")
            info["indexed_tables"] = sorted(tables)
    gz = _method(L, "get_zone_id")
    if gz is None or not _reads_the_index_only(_body(gz)):
        bad("Layout.get_zone_id is not `return self._zone_to_id.get(zone, None)` (or an equivalent read of the index)")
    # ArchSpec: frozen dataclass without its own __eq__
    decos = [ast.unparse(d).replace(" ", "") for d in A.decorator_list]
    info["spec_fields"] = sorted(s.target.id for s in A.body if isinstance(s, ast.AnnAssign) and isinstance(s.target, ast.Name))
    if _method(A, "__eq__") is not None:
        bad("ArchSpec defines its own __eq__")
    if not any(d.startswith("dataclass") and "eq=False" not in d for d in decos):
        bad("ArchSpec is not a dataclass with generated equality: " + str(decos))
    # anything else on the two classes that could take part in identity
    for cls in (L, A):
        for m in ("__ne__", "__lt__", "__le__", "__getattribute__", "__setattr__", "__reduce__"):
            if _method(cls, m) is not None:
                bad(f"{cls.name} defines {m}")
    return info


def obligations(info):
    out = [("source: arch.py is inside the fragment the reader understands", not info["problems"], "; ".join(info["problems"])[:300])]
    if info["problems"]:
        return out
    out.append(("source: Layout.__eq__ compares exactly the five tables, which are exactly the comparable declared fields",
                info["eq_fields"] == sorted(LAYOUT_TABLES) and info["layout_fields"] == sorted(LAYOUT_TABLES), f"eq: {info['eq_fields']}, fields: {info['layout_fields']}"))
    out.append(("source: Layout.__hash__ hashes only tables that __eq__ compares (equal layouts hash equally)",
                info["hash_fields"] is not None and set(info["hash_fields"]) <= set(info["eq_fields"]), f"hash: {info['hash_fields']}"))
    out.append(("source: the zone index is built once from static_traps and special_grid and get_zone_id only reads it",
                info["indexed_tables"] == ["special_grid", "static_traps"] and info["layout_hidden_fields"] == ["_zone_to_id"],
                f"indexed: {info['indexed_tables']}, hidden: {info['layout_hidden_fields']}"))
    out.append(("source: ArchSpec equality is the generated one over layout and both constant tables, and its hash uses only those",
                info["spec_fields"] == sorted(SPEC_FIELDS) and info["spec_hash_fields"] is not None and set(info["spec_hash_fields"]) <= set(SPEC_FIELDS),
                f"fields: {info['spec_fields']}, hash: {info['spec_hash_fields']}"))
    return out


def coq_file(info):
    q = lambda l: "[" + "; ".join('"%s"' % x for x in (l or [])) + "]"
    return ("(* GENERATED on every run from src/bloqade/shuttle/arch.py by harness/gen/arch_reader.py *)\n"
            "From Coq Require Import String List Bool.\nImport ListNotations.\nLocal Open Scope string_scope.\n"
            f"Definition eq_fields : list string := {q(info.get('eq_fields'))}.\n"
            f"Definition hash_fields : list string := {q(info.get('hash_fields'))}.\n"
            f"Definition spec_fields : list string := {q(info.get('spec_fields'))}.\n"
            f"Definition spec_hash_fields : list string := {q(info.get('spec_hash_fields'))}.\n"
            "(* the tables Model/Arch.v's layout_eqb / layout_hash and archspec_eqb / archspec_hash look at *)\n"
            f"Definition model_layout_tables : list string := {q(sorted(LAYOUT_TABLES))}.\n"
            f"Definition model_spec_fields : list string := {q(sorted(SPEC_FIELDS))}.\n"
            "Definition subset (a b : list string) : bool := forallb (fun x => existsb (String.eqb x) b) a.\n"
            "Lemma eq_looks_at_the_model_tables : subset eq_fields model_layout_tables = true /\\ subset model_layout_tables eq_fields = true.\n"
            "Proof. split; vm_compute; reflexivity. Qed.\n"
            "Lemma hash_looks_at_compared_tables_only : subset hash_fields eq_fields = true /\\ subset spec_hash_fields spec_fields = true.\n"
            "Proof. split; vm_compute; reflexivity. Qed.\n"
            "Lemma spec_fields_are_the_model_fields : subset spec_fields model_spec_fields = true /\\ subset model_spec_fields spec_fields = true.\n"
            "Proof. split; vm_compute; reflexivity. Qed.\n")
