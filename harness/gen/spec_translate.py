"""Translator: the two places where a spec lookup gets its value  ->  Gallina (Gen_C06_src.v)

    passes/inject_spec.py         InjectSpecRule.rewrite_Statement   (compile time: a lookup becomes a constant)
    dialects/spec/concrete.py     ArchSpecMethods.get_*              (run time: the spec-carrying interpreters)

For each of the four lookup kinds the translator extracts WHICH table is asked whether it knows the name and WHICH table the value comes
from, and emits  src_inject_rule / src_runtime_lookup : spec -> lk -> string -> option value ; both are proved equal to
Model.Inject.spec_lookup - so "a known name gets the value of its own table, an unknown name gets nothing" holds of the code as written,
for every spec (names shared between tables, falsy values) and every name.

Fragment (fail closed):
  InjectSpecRule: an if / elif chain; the path.Gen branch (stamps node.arch_spec when it is None); per lookup kind one branch
      isinstance(node, spec.<Stmt>) and <key> in self.arch_spec.<table>        [<key> = node.<attr> | (name := node.<attr>)]
          [value = self.arch_spec.<table'>[<key>]]   node.replace_by(Constant(self.arch_spec.<table'>[<key>] | value))   return ...
      in any order; the final return without a rewrite.
  ArchSpecMethods: one method per statement,  if (v := _interp.arch_spec.<table>.get(stmt.<attr>)) is None: raise ..   return (v,)
      or the same with  `stmt.<attr> not in <table>` / `<table>[stmt.<attr>]`.
A test by truthiness (`if not value`, `.get(..) or ..`) is outside the fragment: a constant 0 / 0.0 is a defined constant.
"""
import ast


class Untranslatable(Exception):
    pass


def _u(e):
    return ast.unparse(e)


STMT = {"GetStaticTrap": ("LStatic", "zone_id"), "GetSpecialGrid": ("LSpecial", "grid_id"), "GetIntConstant": ("LInt", "constant_id"), "GetFloatConstant": ("LFloat", "constant_id")}
TABLE = {"layout.static_traps": ("s_static", "VGrid"), "layout.special_grid": ("s_special", "VGrid"), "int_constants": ("s_int", "VInt"), "float_constants": ("s_float", "VFloat")}


def table_of(e, prefix):
    """self.arch_spec.<path> / _interp.arch_spec.<path> -> (field, constructor)"""
    t = _u(e)
    if not t.startswith(prefix + "."):
        raise Untranslatable(f"table {t}")
    p = t[len(prefix) + 1:]
    if p not in TABLE:
        raise Untranslatable(f"table {t}")
    return TABLE[p]


def inject_rule(path):
    tree = ast.parse(open(path).read())
    cls = next((n for n in tree.body if isinstance(n, ast.ClassDef) and n.name == "InjectSpecRule"), None)
    fn = next((f for f in (cls.body if cls else []) if isinstance(f, ast.FunctionDef) and f.name == "rewrite_Statement"), None)
    if fn is None:
        raise Untranslatable("no InjectSpecRule.rewrite_Statement")
    node = fn.args.args[1].arg
    body = [s for s in fn.body if not (isinstance(s, ast.Expr) and isinstance(s.value, ast.Constant))]
    if len(body) != 2 or not isinstance(body[0], ast.If) or not isinstance(body[1], ast.Return) or _u(body[1].value) not in ("RewriteResult()", "abc.RewriteResult()"):
        raise Untranslatable("rewrite_Statement is not one if/elif chain followed by `return RewriteResult()`")
    branches, cur = [], body[0]
    while True:
        branches.append((cur.test, cur.body))
        if len(cur.orelse) == 1 and isinstance(cur.orelse[0], ast.If):
            cur = cur.orelse[0]
        elif not cur.orelse:
            break
        else:
            raise Untranslatable("the chain ends in an else")
    found = {}
    gen_seen = False
    for test, blk in branches:
        if not (isinstance(test, ast.BoolOp) and isinstance(test.op, ast.And) and len(test.values) == 2):
            raise Untranslatable(f"branch test {_u(test)[:80]}")
        a, b = test.values
        if not (isinstance(a, ast.Call) and _u(a.func) == "isinstance" and _u(a.args[0]) == node):
            raise Untranslatable(f"branch test {_u(test)[:80]}")
        cname = _u(a.args[1]).split(".")[-1]
        if cname == "Gen":
            if _u(b) != f"{node}.arch_spec is None" or [_u(s) for s in blk][:1] != [f"{node}.arch_spec = self.arch_spec"]:
                raise Untranslatable("the path.Gen branch does not stamp a missing spec")
            gen_seen = True
            continue
        if cname not in STMT or cname in found:
            raise Untranslatable(f"branch for {cname}")
        kind, attr = STMT[cname]
        if not (isinstance(b, ast.Compare) and len(b.ops) == 1 and isinstance(b.ops[0], ast.In)):
            raise Untranslatable(f"{cname}: the name is not tested with `in`: {_u(b)}")
        key = b.left
        keys = {f"{node}.{attr}"}
        if isinstance(key, ast.NamedExpr):
            if _u(key.value) != f"{node}.{attr}":
                raise Untranslatable(f"{cname}: key {_u(key)}")
            keys.add(key.target.id)
        elif _u(key) != f"{node}.{attr}":
            raise Untranslatable(f"{cname}: key {_u(key)}")
        member = table_of(b.comparators[0], "self.arch_spec")
        stmts = [s for s in blk if not (isinstance(s, ast.Expr) and isinstance(s.value, ast.Constant))]
        local = {}
        if len(stmts) == 3 and isinstance(stmts[0], ast.Assign) and isinstance(stmts[0].targets[0], ast.Name):
            local[stmts[0].targets[0].id] = stmts[0].value
            stmts = stmts[1:]
        if len(stmts) != 2 or not isinstance(stmts[1], ast.Return) or not (isinstance(stmts[0], ast.Expr) and isinstance(stmts[0].value, ast.Call)
                                                                              and _u(stmts[0].value.func) == f"{node}.replace_by" and len(stmts[0].value.args) == 1):
            raise Untranslatable(f"{cname}: branch body")
        c = stmts[0].value.args[0]
        if not (isinstance(c, ast.Call) and _u(c.func) in ("Constant", "py.Constant") and len(c.args) == 1):
            raise Untranslatable(f"{cname}: replaced by {_u(c)[:60]}")
        v = c.args[0]
        if isinstance(v, ast.Name) and v.id in local:
            v = local[v.id]
        if not (isinstance(v, ast.Subscript) and _u(v.slice) in keys):
            raise Untranslatable(f"{cname}: value {_u(v)[:60]}")
        found[kind] = (member, table_of(v.value, "self.arch_spec"))
    if not gen_seen:
        raise Untranslatable("no path.Gen branch")
    return found


def runtime_lookup(path):
    tree = ast.parse(open(path).read())
    cls = next((n for n in tree.body if isinstance(n, ast.ClassDef) and n.name == "ArchSpecMethods"), None)
    if cls is None:
        raise Untranslatable("no class ArchSpecMethods")
    found = {}
    for fn in cls.body:
        if not isinstance(fn, ast.FunctionDef):
            continue
        impls = [_u(d.args[0]).split(".")[-1] for d in fn.decorator_list if isinstance(d, ast.Call) and _u(d.func) in ("interp.impl", "impl")]
        if not impls:
            raise Untranslatable(f"ArchSpecMethods.{fn.name} is not a statement implementation")
        if len(impls) != 1 or impls[0] not in STMT or STMT[impls[0]][0] in found:
            raise Untranslatable(f"{fn.name} implements {impls}")
        kind, attr = STMT[impls[0]]
        it, st = fn.args.args[1].arg, fn.args.args[3].arg
        body = [s for s in fn.body if not (isinstance(s, ast.Expr) and isinstance(s.value, ast.Constant))]
        local = {}
        while body and isinstance(body[0], ast.Assign) and isinstance(body[0].targets[0], ast.Name):
            local[body[0].targets[0].id] = body[0].value
            body = body[1:]
        if len(body) != 2 or not isinstance(body[0], ast.If) or body[0].orelse or not isinstance(body[0].body[-1], ast.Raise) or not isinstance(body[1], ast.Return):
            raise Untranslatable(f"{fn.name}: not `if <unknown>: raise; return (value,)`")
        t = body[0].test
        res = lambda e: local[e.id] if isinstance(e, ast.Name) and e.id in local else e
        if isinstance(t, ast.Compare) and len(t.ops) == 1 and isinstance(t.ops[0], ast.Is) and _u(t.comparators[0]) == "None":
            g = t.left
            name = None
            if isinstance(g, ast.NamedExpr):
                name, g = g.target.id, g.value
            g = res(g)
            if not (isinstance(g, ast.Call) and isinstance(g.func, ast.Attribute) and g.func.attr == "get" and 1 <= len(g.args) <= 2 and _u(g.args[0]) == f"{st}.{attr}"
                    and (len(g.args) == 1 or _u(g.args[1]) == "None")):
                raise Untranslatable(f"{fn.name}: lookup {_u(g)[:60]}")
            member = value = table_of(res(g.func.value), f"{it}.arch_spec")
            rv = body[1].value
            if not (isinstance(rv, ast.Tuple) and len(rv.elts) == 1 and (_u(rv.elts[0]) == name or _u(res(rv.elts[0])) == _u(g))):
                raise Untranslatable(f"{fn.name}: returns {_u(rv)[:60]}")
        elif isinstance(t, ast.Compare) and len(t.ops) == 1 and isinstance(t.ops[0], ast.NotIn) and _u(t.left) == f"{st}.{attr}":
            member = table_of(res(t.comparators[0]), f"{it}.arch_spec")
            rv = body[1].value
            if not (isinstance(rv, ast.Tuple) and len(rv.elts) == 1 and isinstance(rv.elts[0], ast.Subscript) and _u(rv.elts[0].slice) == f"{st}.{attr}"):
                raise Untranslatable(f"{fn.name}: returns {_u(rv)[:60]}")
            value = table_of(res(rv.elts[0].value), f"{it}.arch_spec")
        else:
            raise Untranslatable(f"{fn.name}: the name is not tested with `is None` / `not in`: {_u(t)[:60]}")
        found[kind] = (member, value)
    return found


def _definition(name, found):
    if set(found) != {"LStatic", "LSpecial", "LInt", "LFloat"}:
        raise Untranslatable(f"{name}: lookup kinds covered: {sorted(found)}")
    arms = []
    for k in ("LStatic", "LSpecial", "LInt", "LFloat"):
        (mt, _), (vt, vc) = found[k]
        arms.append(f"  | {k} => if known name ({mt} s) then option_map {vc} (assoc name ({vt} s)) else None")
    return f"Definition {name} (s : spec) (k : lk) (name : string) : option value :=\n  match k with\n" + "\n".join(arms) + "\n  end.\n"


PRELUDE = r"""
Definition known {A} (x : string) (t : list (string * A)) : bool := match assoc x t with Some _ => true | None => false end.
"""
LEMMAS = r"""
Theorem src_inject_rule_eq : forall s k name, src_inject_rule s k name = spec_lookup s k name.
Proof. intros s k name; destruct k; unfold src_inject_rule, spec_lookup, known; destruct (assoc name _); reflexivity. Qed.
Theorem src_runtime_lookup_eq : forall s k name, src_runtime_lookup s k name = spec_lookup s k name.
Proof. intros s k name; destruct k; unfold src_runtime_lookup, spec_lookup, known; destruct (assoc name _); reflexivity. Qed.
(* hence the compile-time rule and the run-time getters agree on every spec and name (also names shared between tables, falsy values) *)
Theorem src_rule_agrees_with_runtime : forall s k name, src_inject_rule s k name = src_runtime_lookup s k name.
Proof. intros. rewrite src_inject_rule_eq, src_runtime_lookup_eq. reflexivity. Qed.
Print Assumptions src_inject_rule_eq.
Print Assumptions src_runtime_lookup_eq.
Print Assumptions src_rule_agrees_with_runtime.
"""


def generate(repo):
    import os
    hdr = ("(* GENERATED on every run from passes/inject_spec.py and dialects/spec/concrete.py by harness/gen/spec_translate.py *)\n"
           "From Coq Require Import String.\nFrom Coq Require Import ZArith List Bool.\nFrom BS Require Import Core.Show Core.Base Model.Inject.\nImport ListNotations.\n")
    a = _definition("src_inject_rule", inject_rule(os.path.join(repo, "src/bloqade/shuttle/passes/inject_spec.py")))
    b = _definition("src_runtime_lookup", runtime_lookup(os.path.join(repo, "src/bloqade/shuttle/dialects/spec/concrete.py")))
    return hdr + PRELUDE + a + b + LEMMAS
