"""Translator: the three implementations of path.Gen  ->  Gallina (Gen_C05_src.v)

    dialects/path/concrete.py     PathInterpreter.gen       (key main:       the spec recorded on the statement)
    dialects/path/spec_interp.py  SpecPathInterpreter.gen   (key spec.interp: the interpreter's spec)
    dialects/path/constprop.py    ConstProp.gen             (key constprop:  folds when spec, task and inputs are constants)

Each method is executed SYMBOLICALLY over the vocabulary of Model/Gen3.v and the result is proved equal to gen_main / gen_spec /
gen_constprop for all specs, tasks, operands and keyword lists.  The symbolic state knows, for the task operand, which of the three
cases of `task` it is in (device function / reversed device function / anything else) and whether a name currently denotes the
WRAPPER or the device function inside a ReverseDeviceFunction; when a test needs a fact that is not known yet (is the recorded spec
None? is the lattice value a constant? which kind of task?) the execution splits there and the generated term gets a `match`.

Fragment (anything else raises Untranslatable - fail closed):

  if stmt.arch_spec is None: ..               X = frame.get(stmt.device_task)        X = frame.get_values(stmt.inputs)     X = stmt.kwargs
  if [not] isinstance(X, const.Value): ..     if isinstance(X | X := Y.data, schedule.DeviceFunction | schedule.ReverseDeviceFunction): .. elif .. else ..
  if not all(isinstance(i, const.Value) for i in INPUTS): ..
  X = Y.device_task     X = True | False | isinstance(..) | not ..     X = A if TEST else B     X = TraceInterpreter(SPEC)
  X = interp.permute_values(D.move_fn.arg_names, INPUTS, KW)
  X = TraceInterpreter(stmt.arch_spec | interp.arch_spec).run_trace(D.move_fn, ARGS, {})       ARGS = X | tuple(<unwrap> for a in X)
  if FLAG: X = reverse_path(X)                raise ..        return (const.Result.top(),)
  return (types.Path(x_tones=D.x_tones, y_tones=D.y_tones, path=X),) | (const.Value(types.Path(..)),)
"""
import ast


class Untranslatable(Exception):
    pass


def _u(e):
    return ast.unparse(e)


class St:
    def __init__(self, route):
        self.route = route
        self.spec = "unknown" if route != "spec" else "n/a"      # unknown | none | some
        self.tasklat = "unknown" if route == "constprop" else "n/a"   # unknown | value | notvalue
        self.inlat = "unknown" if route == "constprop" else "n/a"
        self.world = "unknown"                                  # unknown | dev | rev | other
        self.loc = {}

    def copy(self):
        c = St(self.route)
        c.spec, c.tasklat, c.inlat, c.world, c.loc = self.spec, self.tasklat, self.inlat, self.world, dict(self.loc)
        return c


class NeedSplit(Exception):
    def __init__(self, what):
        self.what = what


class Method:
    def __init__(self, fn, route):
        a = [x.arg for x in fn.args.args]
        if len(a) != 4:
            raise Untranslatable(f"{fn.name}: expected (self, interp, frame, stmt)")
        self.selfn, self.interp, self.frame, self.stmt = a
        self.fn, self.route = fn, route
        self.n = 0

    # ---- values ----
    def val(self, e, st):
        if isinstance(e, ast.NamedExpr):
            v = self.val(e.value, st)
            st.loc[e.target.id] = v
            return v
        if isinstance(e, ast.Name):
            if e.id in st.loc:
                return st.loc[e.id]
            raise Untranslatable(f"{self.fn.name}: name {e.id}")
        if isinstance(e, ast.Constant) and isinstance(e.value, bool):
            return ("bool", e.value)
        if isinstance(e, ast.IfExp):
            return self.val(e.body if self.test(e.test, st) else e.orelse, st)
        if isinstance(e, ast.UnaryOp) and isinstance(e.op, ast.Not):
            return ("bool", self.test(e, st))
        if isinstance(e, ast.Attribute):
            if isinstance(e.value, ast.Name) and e.value.id == self.stmt:
                if e.attr == "arch_spec":
                    if st.route == "spec":
                        raise Untranslatable(f"{self.fn.name}: the spec route reads stmt.arch_spec")
                    return ("stamped",)
                if e.attr == "kwargs":
                    return ("kw",)
                raise Untranslatable(f"{self.fn.name}: stmt.{e.attr}")
            if isinstance(e.value, ast.Name) and e.value.id == self.interp and e.attr == "arch_spec":
                if st.route != "spec":
                    raise Untranslatable(f"{self.fn.name}: reads interp.arch_spec on the {st.route} route")
                return ("ispec",)
            base = self.val(e.value, st)
            if base[0] == "tasklat" and e.attr == "data":
                if st.tasklat == "unknown":
                    raise NeedSplit("tasklat")
                if st.tasklat != "value":
                    raise Untranslatable(f"{self.fn.name}: .data of a lattice value that is not a constant")
                return ("task", "wrapper")
            if base[0] == "task":
                if st.world == "unknown":
                    raise NeedSplit("world")
                inner = (st.world == "dev" and base[1] == "wrapper") or (st.world == "rev" and base[1] == "inner")
                if e.attr == "device_task":
                    if st.world == "rev" and base[1] == "wrapper":
                        return ("task", "inner")
                    return ("attrerror",)
                if e.attr in ("move_fn", "x_tones", "y_tones"):
                    return ({"move_fn": "kernel", "x_tones": "xt", "y_tones": "yt"}[e.attr],) if inner else ("attrerror",)
            if base[0] == "kernel" and e.attr == "arg_names":
                return ("sig",)
            if base[0] == "attrerror":
                return base
            raise Untranslatable(f"{self.fn.name}: {_u(e)}")
        if isinstance(e, ast.Call):
            f = e.func
            if isinstance(f, ast.Attribute) and isinstance(f.value, ast.Name) and f.value.id == self.frame and f.attr in ("get", "get_values") and len(e.args) == 1:
                a = e.args[0]
                if isinstance(a, ast.Attribute) and isinstance(a.value, ast.Name) and a.value.id == self.stmt:
                    if a.attr == "device_task" and f.attr == "get":
                        return ("tasklat",) if st.route == "constprop" else ("task", "wrapper")
                    if a.attr == "inputs" and f.attr == "get_values":
                        return ("inlat",) if st.route == "constprop" else ("vals", "vals")
                raise Untranslatable(f"{self.fn.name}: {_u(e)}")
            if _u(f) == "TraceInterpreter" and len(e.args) == 1 and not e.keywords:
                sp = self.val(e.args[0], st)
                if sp[0] == "stamped":
                    if st.spec == "unknown":
                        raise NeedSplit("spec")
                    return ("tracer", "s") if st.spec == "some" else ("attrerror",)
                if sp[0] == "ispec":
                    return ("tracer", "interp_spec")
                raise Untranslatable(f"{self.fn.name}: tracer built from {_u(e.args[0])}")
            if _u(f) in ("isinstance", "all"):
                return ("bool", self.test(e, st))
            if _u(f) == "reverse_path" and len(e.args) == 1:
                p = self.val(e.args[0], st)
                if p[0] != "path":
                    raise Untranslatable(f"{self.fn.name}: reverse_path of {_u(e.args[0])}")
                return ("path", f"(reverse_path {p[1]})")
            if _u(f) == "tuple" and len(e.args) == 1 and isinstance(e.args[0], ast.GeneratorExp):
                g = e.args[0]
                if len(g.generators) == 1 and not g.generators[0].ifs and isinstance(g.generators[0].target, ast.Name):
                    v = g.generators[0].target.id
                    src = self.val(g.generators[0].iter, st)
                    ok = _u(g.elt) in (f"cast(const.Value, {v}).data if isinstance({v}, const.Value) else {v}", f"{v}.data", f"cast(const.Value, {v}).data")
                    if src[0] == "args" and ok:
                        return src
            raise Untranslatable(f"{self.fn.name}: call {_u(e)[:80]}")
        raise Untranslatable(f"{self.fn.name}: expression {_u(e)[:80]}")

    # ---- tests ----
    def test(self, t, st):
        """-> bool, or raises NeedSplit"""
        if isinstance(t, ast.UnaryOp) and isinstance(t.op, ast.Not):
            return not self.test(t.operand, st)
        if isinstance(t, ast.Compare) and len(t.ops) == 1 and isinstance(t.ops[0], (ast.Is, ast.IsNot)) and _u(t.comparators[0]) == "None":
            v = self.val(t.left, st)
            if v[0] != "stamped":
                raise Untranslatable(f"{self.fn.name}: {_u(t)}")
            if st.spec == "unknown":
                raise NeedSplit("spec")
            return (st.spec == "none") == isinstance(t.ops[0], ast.Is)
        if isinstance(t, ast.Call) and _u(t.func) == "isinstance" and len(t.args) == 2:
            cls = _u(t.args[1])
            v = self.val(t.args[0], st)
            if cls == "const.Value" and v[0] == "tasklat":
                if st.tasklat == "unknown":
                    raise NeedSplit("tasklat")
                return st.tasklat == "value"
            if cls in ("schedule.DeviceFunction", "schedule.ReverseDeviceFunction", "DeviceFunction", "ReverseDeviceFunction") and v[0] == "task":
                if st.world == "unknown":
                    raise NeedSplit("world")
                is_dev = (st.world == "dev" and v[1] == "wrapper") or (st.world == "rev" and v[1] == "inner")
                is_rev = st.world == "rev" and v[1] == "wrapper"
                return is_rev if "Reverse" in cls else is_dev
            raise Untranslatable(f"{self.fn.name}: {_u(t)}")
        if isinstance(t, ast.Call) and _u(t.func) == "all" and len(t.args) == 1 and isinstance(t.args[0], ast.GeneratorExp):
            g = t.args[0]
            if len(g.generators) == 1 and isinstance(g.generators[0].target, ast.Name) and _u(g.elt) == f"isinstance({g.generators[0].target.id}, const.Value)":
                v = self.val(g.generators[0].iter, st)
                if v[0] == "inlat":
                    if st.inlat == "unknown":
                        raise NeedSplit("inlat")
                    return st.inlat == "value"
            raise Untranslatable(f"{self.fn.name}: {_u(t)}")
        if isinstance(t, ast.Name):
            v = self.val(t, st)
            if v[0] == "bool":
                return v[1]
        if isinstance(t, ast.BoolOp):
            vals = []
            for x in t.values:
                b = self.test(x, st)
                vals.append(b)
                if isinstance(t.op, ast.And) and not b:
                    return False
                if isinstance(t.op, ast.Or) and b:
                    return True
            return vals[-1]
        raise Untranslatable(f"{self.fn.name}: condition {_u(t)}")

    # ---- statements ----
    def run(self, stmts, st):
        try:
            return self.run1(stmts, st.copy())
        except NeedSplit as ns:
            w = ns.what
            if w == "spec":
                a, b = st.copy(), st.copy()
                a.spec, b.spec = "none", "some"
                return f"match stamped with\n | None => {self.run(stmts, a)}\n | Some s => {self.run(stmts, b)}\n end"
            if w == "tasklat":
                a, b = st.copy(), st.copy()
                a.tasklat, b.tasklat = "notvalue", "value"
                return f"match task_const with\n | None => {self.run(stmts, a)}\n | Some t => {self.run(stmts, b)}\n end"
            if w == "inlat":
                a, b = st.copy(), st.copy()
                a.inlat, b.inlat = "notvalue", "value"
                return f"match inputs_const with\n | None => {self.run(stmts, a)}\n | Some vals => {self.run(stmts, b)}\n end"
            if w == "world":
                outs = []
                for world, pat in (("dev", "TDev k xt yt"), ("rev", "TRev k xt yt"), ("other", "TOther")):
                    c = st.copy()
                    c.world = world
                    outs.append(f" | {pat} => {self.run(stmts, c)}")
                return "match t with\n" + "\n".join(outs) + "\n end"
            raise

    def run1(self, stmts, st):
        if not stmts:
            raise Untranslatable(f"{self.fn.name}: a path through the method ends without return")
        s, rest = stmts[0], stmts[1:]
        if isinstance(s, ast.Expr) and isinstance(s.value, ast.Constant):
            return self.run1(rest, st)
        if isinstance(s, ast.Raise):
            return "ORaise"
        if isinstance(s, ast.If):
            return self.run1((list(s.body) if self.test(s.test, st) else list(s.orelse)) + rest, st)
        if isinstance(s, ast.Return):
            return self.ret(s.value, st)
        if isinstance(s, ast.Assign) and len(s.targets) == 1 and isinstance(s.targets[0], ast.Name):
            name, e = s.targets[0].id, s.value
            # the two effectful calls: permute_values and run_trace
            if isinstance(e, ast.Call) and isinstance(e.func, ast.Attribute) and e.func.attr == "permute_values" and isinstance(e.func.value, ast.Name) \
                    and e.func.value.id == self.interp and len(e.args) == 3 and not e.keywords:
                sig, inp, kw = (self.val(a, st) for a in e.args)
                if "attrerror" in (sig[0], inp[0], kw[0]):
                    return "ORaise"
                if inp[0] == "inlat":
                    if st.inlat == "unknown":
                        raise NeedSplit("inlat")
                    if st.inlat != "value":
                        raise Untranslatable(f"{self.fn.name}: permute_values over inputs that are not all constants")
                    inp = ("vals", "vals")
                if sig[0] != "sig" or inp[0] != "vals" or kw[0] != "kw":
                    raise Untranslatable(f"{self.fn.name}: {_u(e)}")
                st.loc[name] = ("args", "args")
                return f"match permute V (sig_of k) vals kw with\n | Err _ => ORaise\n | Ok args => {self.run(rest, st)}\n end"
            if isinstance(e, ast.Call) and isinstance(e.func, ast.Attribute) and e.func.attr == "run_trace" and len(e.args) == 3 and _u(e.args[2]) == "{}" \
                    and not e.keywords:
                tr = self.val(e.func.value, st)
                if tr[0] == "attrerror":
                    return "ORaise"          # TraceInterpreter(None): no spec to look anything up in
                if tr[0] != "tracer":
                    raise Untranslatable(f"{self.fn.name}: run_trace on {_u(e.func.value)}")
                sterm = tr[1]
                kern, args = self.val(e.args[0], st), self.val(e.args[1], st)
                if kern[0] == "attrerror":
                    return "ORaise"
                if kern[0] != "kernel" or args[0] != "args":
                    raise Untranslatable(f"{self.fn.name}: {_u(e)}")
                self.n += 1
                p = f"p{self.n}"
                st.loc[name] = ("path", p)
                return f"match trace {sterm} k {args[1]} with\n | Err _ => ORaise\n | Ok {p} => {self.run(rest, st)}\n end"
            v = self.val(e, st)
            if v[0] == "attrerror":
                return "ORaise"
            st.loc[name] = v
            return self.run1(rest, st)
        raise Untranslatable(f"{self.fn.name}: statement {_u(s)[:80]}")

    def ret(self, e, st):
        if not (isinstance(e, ast.Tuple) and len(e.elts) == 1):
            raise Untranslatable(f"{self.fn.name}: returns {_u(e)[:60]}")
        v = e.elts[0]
        if _u(v) == "const.Result.top()":
            if st.route != "constprop":
                raise Untranslatable(f"{self.fn.name}: lattice top on a run-time route")
            return "OTop"
        if isinstance(v, ast.Call) and _u(v.func) == "const.Value" and len(v.args) == 1 and st.route == "constprop":
            v = v.args[0]
        elif st.route == "constprop":
            raise Untranslatable(f"{self.fn.name}: the folding route returns {_u(v)[:60]}")
        if not (isinstance(v, ast.Call) and _u(v.func) in ("types.Path", "Path") and not v.args and {k.arg for k in v.keywords} == {"x_tones", "y_tones", "path"}):
            raise Untranslatable(f"{self.fn.name}: returns {_u(v)[:60]}")
        kw = {k.arg: self.val(k.value, st) for k in v.keywords}
        if "attrerror" in (kw["x_tones"][0], kw["y_tones"][0], kw["path"][0]):
            return "ORaise"
        if kw["x_tones"][0] not in ("xt", "yt") or kw["y_tones"][0] not in ("xt", "yt") or kw["path"][0] != "path":
            raise Untranslatable(f"{self.fn.name}: Path built from {_u(v)[:80]}")
        return f"OPath {kw['x_tones'][0]} {kw['y_tones'][0]} {kw['path'][1]}"

    def translate(self):
        return self.run(list(self.fn.body), St(self.route))


def _gen_method(path, cls_name, key):
    tree = ast.parse(open(path).read())
    cls = next((n for n in tree.body if isinstance(n, ast.ClassDef) and n.name == cls_name), None)
    if cls is None:
        raise Untranslatable(f"no class {cls_name} in {path}")
    reg = [_u(d) for d in cls.decorator_list]
    want = "dialect.register" if key is None else f"dialect.register(key='{key}')"
    if reg != [want]:
        raise Untranslatable(f"{cls_name} is registered as {reg}, expected {want}")
    fns = [f for f in cls.body if isinstance(f, ast.FunctionDef)]
    gens = [f for f in fns if any(_u(d) in ("impl(stmts.Gen)", "impl(Gen)") for d in f.decorator_list)]
    if len(gens) != 1 or len(fns) != 1:
        raise Untranslatable(f"{cls_name}: methods {[f.name for f in fns]}")
    return gens[0]


LEMMAS = r"""
Ltac crush :=
  repeat match goal with
  | |- context [match ?x with _ => _ end] => destruct x
  end; reflexivity.
Theorem src_gen_main_eq : forall stamped t vals kw, src_gen_main stamped t vals kw = gen_main V K S T trace sig_of stamped t vals kw.
Proof. intros. unfold src_gen_main, gen_main, core. crush. Qed.
Theorem src_gen_spec_eq : forall interp_spec t vals kw, src_gen_spec interp_spec t vals kw = gen_spec V K S T trace sig_of interp_spec t vals kw.
Proof. intros. unfold src_gen_spec, gen_spec, core. crush. Qed.
Theorem src_gen_constprop_eq : forall stamped task_const inputs_const kw,
  src_gen_constprop stamped task_const inputs_const kw = gen_constprop V K S T trace sig_of stamped task_const inputs_const kw.
Proof. intros. unfold src_gen_constprop, gen_constprop, core. crush. Qed.
End Src.

(* hence the route-independence theorem holds of the three methods as written *)
From BS Require Import Proofs.Gen3Proofs.
Check src_gen_main_eq.
Print Assumptions src_gen_main_eq.
Print Assumptions src_gen_spec_eq.
Print Assumptions src_gen_constprop_eq.
"""


def generate(repo):
    import os
    base = os.path.join(repo, "src/bloqade/shuttle/dialects/path")
    out = ["(* GENERATED on every run from dialects/path/{concrete,spec_interp,constprop}.py by harness/gen/gen3_translate.py *)",
           "From Coq Require Import String.", "From Coq Require Import List Bool.", "From BS Require Import Core.Base Model.Reverse Model.Gen3.",
           "Import ListNotations.", "Section Src.", "  Variable V K S T : Type.", "  Variable trace : S -> K -> list V -> res (list action).",
           "  Variable sig_of : K -> list string.", "  Notation task := (task K T).", "  Notation outcome := (outcome T)."]
    jobs = [("main", "concrete.py", "PathInterpreter", None, "(stamped : option S) (t : task) (vals : list V) (kw : list string)"),
            ("spec", "spec_interp.py", "SpecPathInterpreter", "spec.interp", "(interp_spec : S) (t : task) (vals : list V) (kw : list string)"),
            ("constprop", "constprop.py", "ConstProp", "constprop", "(stamped : option S) (task_const : option task) (inputs_const : option (list V)) (kw : list string)")]
    for route, rel, cname, key, sig in jobs:
        fn = _gen_method(os.path.join(base, rel), cname, key)
        body = Method(fn, route).translate()
        out.append(f"Definition src_gen_{route} {sig} : outcome :=\n {body}.\n")
    return "\n".join(out) + LEMMAS
