"""Translator: three methods of arch.py's Layout  ->  Gallina (Gen_C13_fun_src.v)

    Layout.__post_init__     the loop that builds the zone index      -> build_index_src     = Model.Arch.build_index
    Layout.get_zone_id       the look-up                              -> get_zone_id_src     = Model.Arch.get_zone_id
    Layout.bounding_box      +-inf sentinels, min / max, final test   -> bounding_box_src    = Model.Arch.bounding_box

bounding_box is emitted in the sentinel form it is written in (Proofs/ArchSentinel.v: ext, emin, emax); the generated step, start and
final test are proved equal to that file's sstep / sstart / sfinish, and bounding_box_sentinel_eq (proved by hand, once, for every
layout) carries it to the option form of Model/Arch.v - so C13_bounding_box_tight speaks about the method as written.

Fragment (fail closed):
  __post_init__   for <name>, <grid> in chain(self.<t1>.items(), self.<t2>.items()) | ... + ...:
                      if <grid> in self._zone_to_id: raise ..        self._zone_to_id[<grid>] = <name>
  get_zone_id     a pure read of the index (see arch_reader._reads_the_index_only)
  bounding_box    V = float("inf") | float("-inf")  (four accumulators)
                  for zone in chain(self.<t1>.values(), self.<t2>.values()):
                      if zone.x_init is None or zone.y_init is None: continue
                      V = min(V, E) | max(V, E)      E ::= zone.x_init | zone.y_init | E + zone.width | E + zone.height
                  if V == float(..) or ..: raise ..          return V1, V2, V3, V4
"""
import ast

from gen import arch_reader


class Untranslatable(Exception):
    pass


def _u(e):
    return ast.unparse(e)


TABLES = {"static_traps": "static_traps l", "special_grid": "special_grid l"}


def _chain(e, suffix):
    """chain(self.a.<suffix>(), self.b.<suffix>()) or a sum of lists -> Coq list expression over the layout l"""
    t = _u(e).replace(" ", "").replace("\n", "")
    parts = None
    if t.startswith("chain(") and t.endswith(")"):
        parts = t[6:-1].split(",")
    elif "+" in t:
        parts = [p[5:-1] if p.startswith("list(") and p.endswith(")") else p for p in t.split("+")]
    if not parts:
        raise Untranslatable(f"iteration over {t}")
    out = []
    for p in parts:
        if not (p.startswith("self.") and p.endswith(f".{suffix}()")) or p[5:-len(suffix) - 3] not in TABLES:
            raise Untranslatable(f"iteration over {t}")
        out.append(TABLES[p[5:-len(suffix) - 3]])
    if len(set(out)) != len(out):
        raise Untranslatable(f"a table is visited twice: {t}")
    return " ++ ".join(out)


def post_init(L):
    f = arch_reader._method(L, "__post_init__")
    b = arch_reader._body(f) if f else []
    if not (len(b) == 1 and isinstance(b[0], ast.For) and isinstance(b[0].target, ast.Tuple) and len(b[0].target.elts) == 2 and not b[0].orelse):
        raise Untranslatable("__post_init__ is not one loop over (name, grid) pairs")
    name, grid = (_u(x) for x in b[0].target.elts)
    entries = _chain(b[0].iter, "items")
    body = b[0].body
    if not (len(body) == 2 and isinstance(body[0], ast.If) and _u(body[0].test) == f"{grid} in self._zone_to_id" and not body[0].orelse
            and len(body[0].body) == 1 and isinstance(body[0].body[0], ast.Raise) and _u(body[1]) == f"self._zone_to_id[{grid}] = {name}"):
        raise Untranslatable("__post_init__ loop body is not `if grid in index: raise; index[grid] = name`")
    return entries


def get_zone_id(L):
    f = arch_reader._method(L, "get_zone_id")
    if f is None or not arch_reader._reads_the_index_only(arch_reader._body(f)):
        raise Untranslatable("get_zone_id is not a pure read of the index")


def _inf(e):
    t = _u(e).replace('"', "'").replace(" ", "")
    return {"float('inf')": "PosInf", "float('-inf')": "NegInf", "-float('inf')": "NegInf", "math.inf": "PosInf", "-math.inf": "NegInf"}.get(t)


def _coord(e):
    if isinstance(e, ast.BinOp) and isinstance(e.op, ast.Add):
        return f"({_coord(e.left)} + {_coord(e.right)})"
    t = _u(e)
    m = {"zone.x_init": "x", "zone.y_init": "y", "zone.width": "width g", "zone.height": "height g"}
    if t not in m:
        raise Untranslatable(f"bounding_box: coordinate {t}")
    return m[t]


def bounding_box(L):
    f = arch_reader._method(L, "bounding_box")
    b = arch_reader._body(f) if f else []
    start, k = {}, 0
    while k < len(b) and isinstance(b[k], ast.Assign) and len(b[k].targets) == 1 and isinstance(b[k].targets[0], ast.Name) and _inf(b[k].value):
        start[b[k].targets[0].id] = _inf(b[k].value)
        k += 1
    rest = b[k:]
    if len(start) != 4 or len(rest) != 3 or not isinstance(rest[0], ast.For) or not isinstance(rest[1], ast.If) or not isinstance(rest[2], ast.Return):
        raise Untranslatable("bounding_box is not `four sentinels; one loop; one test; return`")
    loop = rest[0]
    if _u(loop.target) != "zone" or loop.orelse:
        raise Untranslatable("bounding_box: loop variable")
    zones = _chain(loop.iter, "values")
    body = [s for s in loop.body if not (isinstance(s, ast.Expr) and isinstance(s.value, ast.Constant))]
    if not (body and isinstance(body[0], ast.If) and not body[0].orelse and [type(s) for s in body[0].body] == [ast.Continue]
            and sorted(p.strip() for p in _u(body[0].test).split(" or ")) == ["zone.x_init is None", "zone.y_init is None"]):
        raise Untranslatable("bounding_box: the loop does not start with `if zone.x_init is None or zone.y_init is None: continue`")
    upd = {}
    for s in body[1:]:
        if not (isinstance(s, ast.Assign) and len(s.targets) == 1 and isinstance(s.targets[0], ast.Name) and isinstance(s.value, ast.Call)
                and _u(s.value.func) in ("min", "max") and len(s.value.args) == 2 and not s.value.keywords):
            raise Untranslatable(f"bounding_box: loop statement {_u(s)[:60]}")
        v = s.targets[0].id
        if v not in start or v in upd or _u(s.value.args[0]) != v:
            raise Untranslatable(f"bounding_box: update {_u(s)[:60]}")
        upd[v] = f"e{_u(s.value.func)} {{V}} {_coord(s.value.args[1])}"
    if set(upd) != set(start):
        raise Untranslatable("bounding_box: not every accumulator is updated exactly once")
    test = rest[1]
    if test.orelse or len(test.body) != 1 or not isinstance(test.body[0], ast.Raise):
        raise Untranslatable("bounding_box: the final test does not raise")
    parts = test.test.values if isinstance(test.test, ast.BoolOp) and isinstance(test.test.op, ast.Or) else [test.test]
    tests = {}
    for p in parts:
        if not (isinstance(p, ast.Compare) and len(p.ops) == 1 and isinstance(p.ops[0], ast.Eq) and isinstance(p.left, ast.Name) and _inf(p.comparators[0])):
            raise Untranslatable(f"bounding_box: final test {_u(p)}")
        tests[p.left.id] = {"PosInf": "is_posinf", "NegInf": "is_neginf"}[_inf(p.comparators[0])]
    if set(tests) != set(start):
        raise Untranslatable("bounding_box: the final test does not look at every accumulator")
    ret = rest[2].value
    order = [_u(x) for x in ret.elts] if isinstance(ret, ast.Tuple) else []
    if sorted(order) != sorted(start):
        raise Untranslatable(f"bounding_box returns {order}")
    names = dict(zip(order, "abcd"))
    return {"zones": zones, "start": "(" + ", ".join(start[v] for v in order) + ")",
            "step": "(" + ", ".join(upd[v].replace("{V}", names[v]) for v in order) + ")",
            "test": " || ".join(f"{tests[v]} {names[v]}" for v in order)}


def generate(path):
    tree = ast.parse(open(path).read())
    L = next((n for n in tree.body if isinstance(n, ast.ClassDef) and n.name == "Layout"), None)
    if L is None:
        raise Untranslatable("no class Layout")
    entries = post_init(L)
    get_zone_id(L)
    bb = bounding_box(L)
    return f"""(* GENERATED on every run from src/bloqade/shuttle/arch.py by harness/gen/arch_translate.py *)
From Coq Require Import String.
From Coq Require Import ZArith QArith List Bool.
From BS Require Import Core.Show Core.Base Core.GridQ Model.Arch Proofs.ArchSentinel.
Import ListNotations.
Local Open Scope Q_scope.

(* __post_init__ *)
Definition entries_src (l : layout) : list (string * gridv) := {entries}.
Definition index_step_src (ix : index) (e : string * gridv) : res index :=
  match index_find ix (snd e) with Some _ => Err EValue | None => Ok (ix ++ [(snd e, fst e)]) end.
Definition build_index_src (l : layout) : res index := loop_index index_step_src [] (entries_src l).
Theorem build_index_src_eq : forall l, build_index_src l = build_index l.
Proof. intros l. unfold build_index_src. change index_step_src with index_step. rewrite loop_index_model. reflexivity. Qed.
(* get_zone_id *)
Definition get_zone_id_src (ix : index) (g : gridv) : option string := index_find ix g.
Theorem get_zone_id_src_eq : forall ix g, get_zone_id_src ix g = get_zone_id ix g.
Proof. reflexivity. Qed.

(* bounding_box, as written: sentinels, min / max, a final test *)
Definition sstart_src : sacc := {bb['start']}.
Definition sstep_src (acc : sacc) (g : gridq) : sacc :=
  let '(a, b, c, d) := acc in
  match xin g, yin g with
  | Some x, Some y => {bb['step']}
  | _, _ => acc
  end.
Definition sfinish_src (acc : sacc) : res (Q * Q * Q * Q) :=
  let '(a, b, c, d) := acc in
  if {bb['test']} then Err EValue else Ok (fin_of a, fin_of b, fin_of c, fin_of d).
Definition bounding_box_src (l : layout) : res (Q * Q * Q * Q) :=
  sfinish_src (fold_left sstep_src (map (fun e => geom (snd e)) ({bb['zones']})) sstart_src).

Lemma sstep_src_eq : forall acc g, sstep_src acc g = sstep acc g.
Proof. intros [[[a b] c] d] g. reflexivity. Qed.
Lemma sfinish_src_eq : forall acc, sfinish_src acc = sfinish acc.
Proof. intros [[[a b] c] d]. reflexivity. Qed.
Lemma fold_ext {{A B}} (f g : A -> B -> A) : (forall a b, f a b = g a b) -> forall l a, fold_left f l a = fold_left g l a.
Proof. intros H l; induction l as [|x l IH]; intros a; cbn; [reflexivity | rewrite H; apply IH]. Qed.
Theorem bounding_box_src_eq : forall l, bounding_box_src l = bounding_box l.
Proof.
  intros l. rewrite <- bounding_box_sentinel_eq. unfold bounding_box_src, bounding_box_sentinel.
  rewrite sfinish_src_eq, (fold_ext _ _ sstep_src_eq). reflexivity.
Qed.
Print Assumptions build_index_src_eq.
Print Assumptions bounding_box_src_eq.
"""


if __name__ == "__main__":
    import sys
    print(generate(sys.argv[1] if len(sys.argv) > 1 else "/repo/src/bloqade/shuttle/arch.py"))
