"""Translator: the three plain architecture builders  ->  Gallina (Gen_C14_src.v)

    stdlib/layouts/single_col_zone.py  get_spec(num_x, num_y, spacing)
    stdlib/spec.py                     single_zone_spec(num_x, num_y, spacing)          (deprecated twin)
    stdlib/layouts/two_col_zone.py     get_spec(num_x, num_y, spacing, gate_spacing)

Each is a straight-line function: assignments of expressions, then `return spec.ArchSpec(layout=spec.Layout(...))`.  The body is
translated expression by expression (fail closed - Untranslatable on anything else) and the result is PROVED equal to the hand-written
Model/Builders.v, so the geometry theorems of C14 (and the parking theorem C08 builds on) hold of the builders as written.

  counts (nat)      NAME | INT | a - b (truncated, as a repeat count / range bound) | a + b | a * b
  lengths (Q)       NAME | FLOAT (exact rational of the literal)
  spacing tuples    tuple(repeat(q, n)) | sum(repeat((q, ..), n), ()) | (q, ..) | t + t
  index lists       ilist.IList(range(..)) | range(a) | range(a, b) | range(a, b, c)  with a positive literal step
  grids             grid.Grid(t, t, q, q) | G.get_view(l, l)   (G a plain grid)
  the result        spec.ArchSpec(layout=spec.Layout(DICT, SET, SET, SET [, special_grid=DICT]) [, float_constants=DICT] [, int_constants=DICT])
                    with positional or keyword arguments, SET = set([..]) | {..} | set()
"""
import ast
from fractions import Fraction


class Untranslatable(Exception):
    pass


def _u(e):
    return ast.unparse(e)


def q_lit(v):
    f = Fraction(v)
    return f"({f.numerator}#{f.denominator})" if f.denominator != 1 or f.numerator < 0 else f"{f.numerator}"


class Fn:
    def __init__(self, fn, nat_params, q_params):
        self.fn = fn
        self.env = {}        # python name -> (type, gallina)
        for p in nat_params:
            self.env[p] = ("nat", p)
        for p in q_params:
            self.env[p] = ("Q", p)
        self.lets = []

    def nat(self, e):
        if isinstance(e, ast.Name) and self.env.get(e.id, ("",))[0] == "nat":
            return self.env[e.id][1]
        if isinstance(e, ast.Constant) and isinstance(e.value, int) and not isinstance(e.value, bool) and 0 <= e.value < 1000:
            return f"{e.value}%nat"
        if isinstance(e, ast.BinOp) and isinstance(e.op, (ast.Sub, ast.Add, ast.Mult)):
            op = {ast.Sub: "-", ast.Add: "+", ast.Mult: "*"}[type(e.op)]
            return f"({self.nat(e.left)} {op} {self.nat(e.right)})%nat"
        raise Untranslatable(f"count {_u(e)}")

    def q(self, e):
        if isinstance(e, ast.Name) and self.env.get(e.id, ("",))[0] == "Q":
            return self.env[e.id][1]
        if isinstance(e, ast.Constant) and isinstance(e.value, (int, float)) and not isinstance(e.value, bool):
            return q_lit(e.value)
        if isinstance(e, ast.UnaryOp) and isinstance(e.op, ast.USub) and isinstance(e.operand, ast.Constant):
            return q_lit(-e.operand.value)
        raise Untranslatable(f"length {_u(e)}")

    def repeat_call(self, e):
        """repeat(x, n) -> (x ast, n gallina)"""
        if isinstance(e, ast.Call) and _u(e.func) in ("repeat", "itertools.repeat") and len(e.args) == 2 and not e.keywords:
            return e.args[0], self.nat(e.args[1])
        return None

    def qlist(self, e):
        if isinstance(e, ast.Name) and self.env.get(e.id, ("",))[0] == "qlist":
            return self.env[e.id][1]
        if isinstance(e, ast.Tuple):
            return "[" + "; ".join(self.q(x) for x in e.elts) + "]"
        if isinstance(e, ast.BinOp) and isinstance(e.op, ast.Add):
            return f"({self.qlist(e.left)} ++ {self.qlist(e.right)})"
        if isinstance(e, ast.Call) and _u(e.func) == "tuple" and len(e.args) == 1:
            r = self.repeat_call(e.args[0])
            if r is not None:
                return f"(List.repeat {self.q(r[0])} {r[1]})"
        if isinstance(e, ast.Call) and _u(e.func) == "sum" and len(e.args) == 2 and _u(e.args[1]) == "()":
            r = self.repeat_call(e.args[0])
            if r is not None and isinstance(r[0], ast.Tuple):
                return f"(concat (List.repeat {self.qlist(r[0])} {r[1]}))"
        raise Untranslatable(f"spacing tuple {_u(e)}")

    def natlist(self, e):
        if isinstance(e, ast.Name) and self.env.get(e.id, ("",))[0] == "natlist":
            return self.env[e.id][1]
        if isinstance(e, ast.Call) and _u(e.func) in ("ilist.IList", "IList", "list") and len(e.args) == 1 and not e.keywords:
            return self.natlist(e.args[0])
        if isinstance(e, ast.Call) and _u(e.func) == "range" and 1 <= len(e.args) <= 3 and not e.keywords:
            a = [self.nat(x) for x in e.args]
            if len(a) == 1:
                return f"(seq 0 {a[0]})"
            if len(a) == 2:
                return f"(range_step {a[0]} {a[1]} 1)"
            if not (isinstance(e.args[2], ast.Constant) and isinstance(e.args[2].value, int) and e.args[2].value >= 1):
                raise Untranslatable(f"range step {_u(e.args[2])}")
            return f"(range_step {a[0]} {a[1]} {a[2]})"
        raise Untranslatable(f"index list {_u(e)}")

    def grid(self, e):
        """-> ('plain', gridq term) | ('view', gridv term)"""
        if isinstance(e, ast.Name) and self.env.get(e.id, ("",))[0] in ("plain", "view"):
            return self.env[e.id]
        if isinstance(e, ast.Call) and _u(e.func) in ("grid.Grid", "Grid") and len(e.args) == 4 and not e.keywords:
            return "plain", f"(mkGQ {self.qlist(e.args[0])} {self.qlist(e.args[1])} (Some {self.q(e.args[2])}) (Some {self.q(e.args[3])}))"
        if isinstance(e, ast.Call) and isinstance(e.func, ast.Attribute) and e.func.attr == "get_view" and len(e.args) == 2 and not e.keywords:
            t, g = self.grid(e.func.value)
            if t != "plain":
                raise Untranslatable(f"view of a view {_u(e)}")
            return "view", f"(GSub {g} {self.natlist(e.args[0])} {self.natlist(e.args[1])})"
        raise Untranslatable(f"grid {_u(e)}")

    def gridv(self, e):
        t, g = self.grid(e)
        return f"(GPlain {g})" if t == "plain" else g

    def names(self, e):
        if isinstance(e, ast.Call) and _u(e.func) == "set" and not e.keywords:
            if not e.args:
                return "[]"
            if len(e.args) == 1 and isinstance(e.args[0], (ast.List, ast.Tuple)):
                e = e.args[0]
            else:
                raise Untranslatable(f"name set {_u(e)}")
        if isinstance(e, (ast.Set, ast.List, ast.Tuple)):
            out = []
            for x in e.elts:
                if not (isinstance(x, ast.Constant) and isinstance(x.value, str)):
                    raise Untranslatable(f"zone name {_u(x)}")
                if x.value not in out:
                    out.append(x.value)
            return "[" + "; ".join(f'"{n}"%string' for n in out) + "]"
        raise Untranslatable(f"name set {_u(e)}")

    def table(self, e, val):
        if not isinstance(e, ast.Dict):
            raise Untranslatable(f"table {_u(e)}")
        items = []
        for k, v in zip(e.keys, e.values):
            if not (isinstance(k, ast.Constant) and isinstance(k.value, str)):
                raise Untranslatable(f"table key {_u(k)}")
            items.append(f'("{k.value}"%string, {val(v)})')
        return "[" + "; ".join(items) + "]"

    def bind_args(self, call, params, defaults):
        got = dict(zip(params, call.args))
        if len(call.args) > len(params):
            raise Untranslatable(f"too many arguments in {_u(call)[:60]}")
        for kw in call.keywords:
            if kw.arg not in params or kw.arg in got:
                raise Untranslatable(f"argument {kw.arg} of {_u(call.func)}")
            got[kw.arg] = kw.value
        for p in params:
            if p not in got and p not in defaults:
                raise Untranslatable(f"missing argument {p} of {_u(call.func)}")
        return got

    def spec(self, e):
        if not (isinstance(e, ast.Call) and _u(e.func) in ("spec.ArchSpec", "ArchSpec")):
            raise Untranslatable(f"result {_u(e)[:60]}")
        a = self.bind_args(e, ["layout", "float_constants", "int_constants"], {"float_constants", "int_constants"})
        L = a["layout"]
        if not (isinstance(L, ast.Call) and _u(L.func) in ("spec.Layout", "Layout")):
            raise Untranslatable(f"layout {_u(L)[:60]}")
        kw_only = [k for k in L.keywords if k.arg == "special_grid"]
        la = self.bind_args(ast.Call(func=L.func, args=L.args, keywords=[k for k in L.keywords if k.arg != "special_grid"]),
                            ["static_traps", "fillable", "has_cz", "has_local"], set())
        special = self.table(kw_only[0].value, self.gridv) if kw_only else "[]"
        fc = self.table(a["float_constants"], self.q) if "float_constants" in a else "[]"
        if "int_constants" in a:
            raise Untranslatable("int_constants in a plain builder")
        return (f"mkArch (mkLayout {self.table(la['static_traps'], self.gridv)} {self.names(la['fillable'])} {self.names(la['has_cz'])} "
                f"{self.names(la['has_local'])} {special}) {fc} []")

    def translate(self):
        body = [s for s in self.fn.body if not (isinstance(s, ast.Expr) and isinstance(s.value, ast.Constant))]
        if not body or not isinstance(body[-1], ast.Return):
            raise Untranslatable(f"{self.fn.name}: does not end in a return")
        ver = {}

        def rebind(name, kind, term):
            ver[name] = ver.get(name, 0) + 1
            g = name if ver[name] == 1 else f"{name}_{ver[name]}"
            self.env[name] = (kind, g)
            self.lets.append(f"let {g} := {term} in")

        def appended(st, acc):
            """NAME.append(q) | NAME += (q, ..)  -> list of Q terms, for the accumulator NAME"""
            if isinstance(st, ast.Expr) and isinstance(st.value, ast.Call) and isinstance(st.value.func, ast.Attribute) and st.value.func.attr == "append" \
                    and isinstance(st.value.func.value, ast.Name) and len(st.value.args) == 1 and (acc is None or st.value.func.value.id == acc):
                return st.value.func.value.id, [self.q(st.value.args[0])]
            if isinstance(st, ast.AugAssign) and isinstance(st.op, ast.Add) and isinstance(st.target, ast.Name) and isinstance(st.value, ast.Tuple) \
                    and (acc is None or st.target.id == acc):
                return st.target.id, [self.q(x) for x in st.value.elts]
            return None
        for s in body[:-1]:
            # a spacing tuple built by accumulation: NAME = [] / (); for _ in range(n): NAME.append(..) / NAME += (..); NAME = tuple(NAME)
            if isinstance(s, ast.Assign) and len(s.targets) == 1 and isinstance(s.targets[0], ast.Name) and _u(s.value) in ("[]", "()", "list()", "tuple()"):
                rebind(s.targets[0].id, "qlist", "(@nil Q)")
                continue
            ap = appended(s, None)
            if ap is not None and self.env.get(ap[0], ("",))[0] == "qlist":
                rebind(ap[0], "qlist", f"({self.env[ap[0]][1]} ++ [{'; '.join(ap[1])}])")
                continue
            if isinstance(s, ast.For) and not s.orelse and isinstance(s.iter, ast.Call) and _u(s.iter.func) == "range" and len(s.iter.args) == 1 \
                    and isinstance(s.target, ast.Name) and s.body:
                first = appended(s.body[0], None)
                if first is None or self.env.get(first[0], ("",))[0] != "qlist":
                    raise Untranslatable(f"{self.fn.name}: loop {_u(s)[:60]}")
                used = {n.id for st in s.body for n in ast.walk(st) if isinstance(n, ast.Name)}
                if s.target.id in used:
                    raise Untranslatable(f"{self.fn.name}: the loop body reads its index")
                items = []
                for st in s.body:
                    a = appended(st, first[0])
                    if a is None:
                        raise Untranslatable(f"{self.fn.name}: loop body {_u(st)[:60]}")
                    items += a[1]
                rebind(first[0], "qlist", f"({self.env[first[0]][1]} ++ concat (List.repeat [{'; '.join(items)}] {self.nat(s.iter.args[0])}))")
                continue
            if isinstance(s, ast.Assign) and len(s.targets) == 1 and isinstance(s.targets[0], ast.Name) and isinstance(s.value, ast.Call) \
                    and _u(s.value.func) in ("tuple", "list") and len(s.value.args) == 1 and isinstance(s.value.args[0], ast.Name) \
                    and self.env.get(s.value.args[0].id, ("",))[0] == "qlist":
                rebind(s.targets[0].id, "qlist", self.env[s.value.args[0].id][1])
                continue
            if not (isinstance(s, ast.Assign) and len(s.targets) == 1 and isinstance(s.targets[0], ast.Name)):
                raise Untranslatable(f"{self.fn.name}: statement {_u(s)[:60]}")
            name = s.targets[0].id
            for kind, f in (("qlist", self.qlist), ("natlist", self.natlist), ("grid", None), ("nat", self.nat), ("Q", self.q)):
                try:
                    if kind == "grid":
                        t, g = self.grid(s.value)
                        rebind(name, t, g)
                    else:
                        rebind(name, kind, f(s.value))
                    break
                except Untranslatable:
                    continue
            else:
                raise Untranslatable(f"{self.fn.name}: {_u(s)[:80]}")
        return "\n  ".join(self.lets + [self.spec(body[-1].value)])


def _function(path, name, params):
    tree = ast.parse(open(path).read())
    fn = next((n for n in tree.body if isinstance(n, ast.FunctionDef) and n.name == name), None)
    if fn is None:
        raise Untranslatable(f"no {name} in {path}")
    got = [a.arg for a in fn.args.args]
    if got != params or fn.args.kwonlyargs or fn.args.vararg or fn.args.kwarg:
        raise Untranslatable(f"{name}{tuple(got)}: expected parameters {params}")
    if fn.decorator_list:
        raise Untranslatable(f"{name} is decorated")
    return fn


PRELUDE = r"""
(* range(a, b, st) for st >= 1 over natural numbers *)
Definition range_step (a b st : nat) : list nat := map (fun i => (a + st * i)%nat) (seq 0 ((b - a + st - 1) / st)).
"""

LEMMAS = r"""
From Coq Require Import Arith Lia.
From BS Require Import Proofs.BuildersProofs.

Lemma concat_repeat_pair : forall (gs s : Q) k, concat (List.repeat [gs; s] k) = pair_spacing gs s k.
Proof. intros gs s k; induction k as [|k IH]; [reflexivity|]. cbn [List.repeat concat pair_spacing app]. rewrite IH. reflexivity. Qed.

Lemma range_step_evens : forall a n, (a <= 1)%nat -> range_step a (n * 2) 2 = evens_from a n.
Proof.
  intros a n Ha. unfold range_step. rewrite evens_from_map.
  assert (E : ((n * 2 - a + 2 - 1) / 2 = n)%nat).
  { destruct n as [|m]; [destruct a as [|[|a]]; [reflexivity | reflexivity | lia]|].
    destruct a as [|[|a]]; [| | lia].
    - replace (S m * 2 - 0 + 2 - 1)%nat with (1 + (S m) * 2)%nat by lia.
      rewrite Nat.div_add by lia. reflexivity.
    - replace (S m * 2 - 1 + 2 - 1)%nat with (0 + (S m) * 2)%nat by lia.
      rewrite Nat.div_add by lia. reflexivity. }
  rewrite E. reflexivity.
Qed.

Theorem gen_single_col_spec_eq : forall nx ny s, gen_single_col_spec nx ny s = single_col_spec nx ny s.
Proof. intros. cbv zeta. rewrite ?app_nil_l, ?app_nil_r. reflexivity. Qed.
Theorem gen_deprecated_single_zone_spec_eq : forall nx ny s, gen_deprecated_single_zone_spec nx ny s = deprecated_single_zone_spec nx ny s.
Proof. intros. cbv zeta. rewrite ?app_nil_l, ?app_nil_r. reflexivity. Qed.
Theorem gen_two_col_spec_eq : forall nx ny s gs, gen_two_col_spec nx ny s gs = two_col_spec nx ny s gs.
Proof.
  intros nx ny s gs. unfold gen_two_col_spec, two_col_spec, two_col_traps, two_col_xsp, rep.
  cbv zeta. rewrite ?app_nil_l, ?app_nil_r, !concat_repeat_pair, !range_step_evens by lia. reflexivity.
Qed.

(* hence the theorems about the builders hold of the builders as translated *)
Theorem gen_deprecated_equals_replacement : forall nx ny s, gen_deprecated_single_zone_spec nx ny s = gen_single_col_spec nx ny s.
Proof. intros. rewrite gen_deprecated_single_zone_spec_eq, gen_single_col_spec_eq. apply deprecated_equal. Qed.
Theorem gen_builders_caps_name_zones : forall nx ny s gs,
  caps_name_zones (gen_single_col_spec nx ny s) = true /\ caps_name_zones (gen_two_col_spec nx ny s gs) = true.
Proof. intros. rewrite gen_single_col_spec_eq, gen_two_col_spec_eq. split; [apply caps_single | apply caps_two_col]. Qed.
Print Assumptions gen_single_col_spec_eq.
Print Assumptions gen_deprecated_single_zone_spec_eq.
Print Assumptions gen_two_col_spec_eq.
Print Assumptions gen_deprecated_equals_replacement.
Print Assumptions gen_builders_caps_name_zones.
"""


def generate(repo):
    import os
    base = os.path.join(repo, "src/bloqade/shuttle/stdlib")
    out = ["(* GENERATED on every run from the three plain builders by harness/gen/builders_translate.py *)",
           "From Coq Require Import String.", "From Coq Require Import ZArith QArith List Bool.",
           "From BS Require Import Core.Show Core.Base Core.GridQ Model.Arch Model.Builders.", "Import ListNotations.", "Local Open Scope Q_scope.", PRELUDE]
    jobs = [("gen_single_col_spec", "layouts/single_col_zone.py", "get_spec", ["num_x", "num_y", "spacing"], "(num_x num_y : nat) (spacing : Q)"),
            ("gen_deprecated_single_zone_spec", "spec.py", "single_zone_spec", ["num_x", "num_y", "spacing"], "(num_x num_y : nat) (spacing : Q)"),
            ("gen_two_col_spec", "layouts/two_col_zone.py", "get_spec", ["num_x", "num_y", "spacing", "gate_spacing"], "(num_x num_y : nat) (spacing gate_spacing : Q)")]
    for gname, rel, fname, params, sig in jobs:
        fn = _function(os.path.join(base, rel), fname, params)
        body = Fn(fn, params[:2], params[2:]).translate()
        out.append(f"Definition {gname} {sig} : archspec :=\n  {body}.\n")
    return "\n".join(out) + LEMMAS
