"""Translator: the action classes and reverse_path of /repo/src/bloqade/shuttle/codegen/taskgen.py, and
ScheduleInterpreter.reverse of dialects/schedule/concrete.py  ->  Gallina (Gen_C02_src.v).

Fail-closed (Untranslatable on anything outside the fragment).  What is read:

  class K(TurnOnAction | TurnOffAction): x_tone_indices: <slice | ilist.IList[...]>; y_tone_indices: <...>
      def inv(self): return K2(self.<field>, self.<field>)
  class WayPointsAction: def inv(self): return WayPointsAction(list(reversed(self.way_points)))
  def reverse_path(path): return [a.inv() for a in reversed(path)]
  ScheduleInterpreter.reverse: if isinstance(v, DeviceFunction): return (ReverseDeviceFunction(device_task=v),)
                               elif isinstance(v, ReverseDeviceFunction): return (v.device_task,)  else: raise

A switch class is identified with the constructor pattern  ASwitch k fx fy  of Core.Base.action by its base class (on/off) and the
annotations of its two fields (slice -> FSlice, IList -> FList); two classes with one pattern, or a pattern without a class, are
untranslatable.  The generated gen_inv / gen_reverse_path / gen_sched_reverse are proved equal to the hand-written model.
"""
import ast


class Untranslatable(Exception):
    pass


def _ann_form(a):
    t = ast.unparse(a)
    if t == "slice":
        return "FSlice"
    if t.startswith("ilist.IList") or t.startswith("IList"):
        return "FList"
    raise Untranslatable(f"field annotation {t}")


def _self_field(e):
    if isinstance(e, ast.Attribute) and isinstance(e.value, ast.Name) and e.value.id == "self":
        return e.attr
    raise Untranslatable("inv argument " + ast.unparse(e))


def translate_taskgen(path):
    tree = ast.parse(open(path).read())
    classes = {n.name: n for n in tree.body if isinstance(n, ast.ClassDef)}
    kinds = {}
    for name, c in classes.items():
        bases = [b.id for b in c.bases if isinstance(b, ast.Name)]
        if "TurnOnAction" in bases or "TurnOffAction" in bases:
            k = "On" if "TurnOnAction" in bases else "Off"
            fields = [(s.target.id, s.annotation) for s in c.body if isinstance(s, ast.AnnAssign) and isinstance(s.target, ast.Name)]
            if [f for f, _ in fields] != ["x_tone_indices", "y_tone_indices"]:
                raise Untranslatable(f"{name}: fields {[f for f, _ in fields]}")
            kinds[name] = (k, _ann_form(fields[0][1]), _ann_form(fields[1][1]))
    # nothing else in these classes may carry behaviour: a constructor hook, an equality or another method is outside the fragment
    allowed = {"WayPointsAction": {"add_waypoint", "inv", "__repr__"}, "AbstractAction": {"inv"}, "TurnOnAction": set(), "TurnOffAction": set()}
    for name, c in classes.items():
        if name in kinds or name in allowed:
            extra = {s.name for s in c.body if isinstance(s, ast.FunctionDef)} - allowed.get(name, {"inv"})
            if extra:
                raise Untranslatable(f"{name} defines {sorted(extra)}")
    w0 = classes.get("WayPointsAction")
    if w0 is not None:
        add = next((s for s in w0.body if isinstance(s, ast.FunctionDef) and s.name == "add_waypoint"), None)
        if add is not None and [ast.unparse(x) for x in add.body if not (isinstance(x, ast.Expr) and isinstance(x.value, ast.Constant))] != ["self.way_points.append(pos)"]:
            raise Untranslatable("WayPointsAction.add_waypoint is not `self.way_points.append(pos)`")
    pats = {v: k for k, v in kinds.items()}
    want = {(k, fx, fy) for k in ("On", "Off") for fx in ("FList", "FSlice") for fy in ("FList", "FSlice")}
    if len(pats) != len(kinds) or set(pats) != want:
        raise Untranslatable(f"switch classes do not cover the eight (kind, x form, y form) patterns exactly once: {sorted(kinds.values())}")
    arms = []
    for name, (k, fx, fy) in sorted(kinds.items(), key=lambda kv: kv[1]):
        inv = next((s for s in classes[name].body if isinstance(s, ast.FunctionDef) and s.name == "inv"), None)
        if inv is None or len(inv.body) != 1 or not isinstance(inv.body[0], ast.Return):
            raise Untranslatable(f"{name}.inv is not a single return")
        v = inv.body[0].value
        if not (isinstance(v, ast.Call) and isinstance(v.func, ast.Name) and v.func.id in kinds and len(v.args) == 2 and not v.keywords):
            raise Untranslatable(f"{name}.inv returns {ast.unparse(v)}")
        k2, fx2, fy2 = kinds[v.func.id]
        a = {"x_tone_indices": "x", "y_tone_indices": "y"}
        try:
            x2, y2 = a[_self_field(v.args[0])], a[_self_field(v.args[1])]
        except KeyError as e:
            raise Untranslatable(f"{name}.inv passes an unknown field {e}")
        arms.append(f"  | ASwitch {k} {fx} {fy} x y => ASwitch {k2} {fx2} {fy2} {x2} {y2}")
    w = classes.get("WayPointsAction")
    if w is None:
        raise Untranslatable("no WayPointsAction")
    inv = next((s for s in w.body if isinstance(s, ast.FunctionDef) and s.name == "inv"), None)
    if inv is None or len(inv.body) != 1 or not isinstance(inv.body[0], ast.Return) or \
            ast.unparse(inv.body[0].value) != "WayPointsAction(list(reversed(self.way_points)))":
        raise Untranslatable("WayPointsAction.inv is not `return WayPointsAction(list(reversed(self.way_points)))`")
    rp = next((n for n in tree.body if isinstance(n, ast.FunctionDef) and n.name == "reverse_path"), None)
    if rp is None or len(rp.args.args) != 1:
        raise Untranslatable("no reverse_path(path)")
    body = [s for s in rp.body if not (isinstance(s, ast.Expr) and isinstance(s.value, ast.Constant))]
    arg = rp.args.args[0].arg
    ok = False
    if len(body) == 1 and isinstance(body[0], ast.Return) and isinstance(body[0].value, ast.ListComp):
        lc = body[0].value
        if len(lc.generators) == 1 and not lc.generators[0].ifs and isinstance(lc.generators[0].target, ast.Name):
            var = lc.generators[0].target.id
            ok = (ast.unparse(lc.elt) == f"{var}.inv()" and ast.unparse(lc.generators[0].iter) in (f"reversed({arg})", f"{arg}[::-1]"))
    if not ok:
        raise Untranslatable("reverse_path is not `return [a.inv() for a in reversed(path)]` (or over path[::-1])")
    out = ["Definition gen_inv (a : action) : action :=\n  match a with\n  | AWay ws => AWay (rev ws)"] + arms + ["  end.",
           "Definition gen_reverse_path (p : list action) : list action := map gen_inv (rev p).\n"]
    return "\n".join(out)


def translate_sched_reverse(path):
    tree = ast.parse(open(path).read())
    cls = next((n for n in tree.body if isinstance(n, ast.ClassDef) and n.name == "ScheduleInterpreter"), None)
    fn = next((s for s in (cls.body if cls else []) if isinstance(s, ast.FunctionDef) and s.name == "reverse"), None)
    if fn is None:
        raise Untranslatable("no ScheduleInterpreter.reverse")
    body = list(fn.body)
    if not (len(body) >= 2 and isinstance(body[0], ast.Assign) and ast.unparse(body[0].value) == "frame.get(stmt.device_fn)" and isinstance(body[0].targets[0], ast.Name)):
        raise Untranslatable("reverse does not start with `v = frame.get(stmt.device_fn)`")
    v = body[0].targets[0].id
    iff = body[1]
    if not (len(body) == 2 and isinstance(iff, ast.If)):
        raise Untranslatable("reverse is not one if/elif/else after the operand is read")
    def test_is(t, cls_name):
        return ast.unparse(t) in (f"isinstance({v}, types.{cls_name})", f"isinstance({v}, {cls_name})")
    if not (test_is(iff.test, "DeviceFunction") and len(iff.body) == 1 and isinstance(iff.body[0], ast.Return)
            and ast.unparse(iff.body[0].value) in (f"(types.ReverseDeviceFunction(device_task={v}),)", f"(ReverseDeviceFunction(device_task={v}),)")):
        raise Untranslatable("first branch is not DeviceFunction -> ReverseDeviceFunction(device_task=v)")
    if not (len(iff.orelse) == 1 and isinstance(iff.orelse[0], ast.If)):
        raise Untranslatable("no elif branch")
    el = iff.orelse[0]
    if not (test_is(el.test, "ReverseDeviceFunction") and len(el.body) == 1 and isinstance(el.body[0], ast.Return)
            and ast.unparse(el.body[0].value) == f"({v}.device_task,)"):
        raise Untranslatable("second branch is not ReverseDeviceFunction -> v.device_task")
    if not (len(el.orelse) == 1 and isinstance(el.orelse[0], ast.Raise)):
        raise Untranslatable("anything else must raise")
    return "Definition gen_sched_reverse {D} (v : dev D) : dev D := match v with Fwd d => Rev d | Rev d => Fwd d end.\n"


LEMMAS = r"""
Lemma gen_inv_eq : forall a, gen_inv a = inv a.
Proof. intros [ws | k fx fy x y]; [reflexivity|]. destruct k, fx, fy; reflexivity. Qed.
Lemma gen_reverse_path_eq : forall p, gen_reverse_path p = reverse_path p.
Proof. intros p. unfold gen_reverse_path, reverse_path. apply map_ext. exact gen_inv_eq. Qed.
Lemma gen_sched_reverse_eq : forall D (v : dev D), gen_sched_reverse v = sched_reverse v.
Proof. intros D [d | d]; reflexivity. Qed.

(* hence the reversal laws hold of the code as translated *)
From BS Require Import Proofs.ReverseProofs.
Theorem gen_reverse_involutive : forall p, gen_reverse_path (gen_reverse_path p) = p.
Proof. intros p. rewrite !gen_reverse_path_eq. apply reverse_involutive. Qed.
Theorem gen_sched_reverse_involutive : forall D (v : dev D), gen_sched_reverse (gen_sched_reverse v) = v.
Proof. intros D v. rewrite !gen_sched_reverse_eq. destruct v; reflexivity. Qed.
Print Assumptions gen_inv_eq.
Print Assumptions gen_reverse_path_eq.
Print Assumptions gen_sched_reverse_eq.
Print Assumptions gen_reverse_involutive.
"""


def generate(repo):
    import os
    hdr = ("(* GENERATED on every run from codegen/taskgen.py and dialects/schedule/concrete.py by harness/gen/taskgen_translate.py *)\n"
           "From Coq Require Import ZArith List String Bool.\nFrom BS Require Import Core.Show Core.Base Model.Reverse.\nImport ListNotations.\n\n")
    return (hdr + translate_taskgen(os.path.join(repo, "src/bloqade/shuttle/codegen/taskgen.py")) +
            translate_sched_reverse(os.path.join(repo, "src/bloqade/shuttle/dialects/schedule/concrete.py")) + LEMMAS)
