"""Generator of @tweezer kernels (source text) for C01 / C11 / C15 and, as device functions,
for the move-program properties.  Structured, mostly valid programs plus an error stream."""
import json
from dataclasses import dataclass, field
from fractions import Fraction

SHAPES = [(2, 1), (2, 2), (1, 1), (1, 3), (3, 2)]


# what the harness DECLARED as static trap zones when it built a layout (id(layout) -> names, in order): a check that needs
# "the static trap zones" must not read them back from the object under test
DECLARED_STATIC = {}
_KEEP = []


def declared_static(S):
    names = DECLARED_STATIC.get(id(S.layout))
    return list(names) if names is not None else list(S.layout.static_traps)


def harness_spec():
    from bloqade.geometry.dialects.grid import Grid
    from bloqade.shuttle.arch import ArchSpec, Layout
    traps = Grid.from_positions([0.0, 2.0, 4.0, 6.5], [0.0, 3.0, 6.0])
    aux = Grid.from_positions([20.0, 21.0, 22.0], [1.0, 2.0, 3.0, 4.0])
    park = Grid.from_positions([-4.0, -2.0], [0.5, 1.5])
    lay = Layout(static_traps={"traps": traps, "aux": aux}, fillable={"traps"}, has_cz={"traps"},
                 has_local={"aux"}, special_grid={"park": park})
    DECLARED_STATIC[id(lay)] = ["traps", "aux"]
    _KEEP.append(lay)
    return ArchSpec(layout=lay, float_constants={"pitch": 2.5, "dup": 1.5, "origin": 0.0}, int_constants={"rows": 3, "dup": 2, "zero": 0})


def harness_spec_inexact():
    """the same zone names and shapes with coordinates that are not binary fractions (pitches 3.3 / 2.2 / 0.7, origin 1.1):
    only for checks that compare grids with each other and never with the exact-rational model"""
    from bloqade.geometry.dialects.grid import Grid
    from bloqade.shuttle.arch import ArchSpec, Layout
    traps = Grid((3.3, 3.3, 3.3), (2.2, 2.2), 1.1, 0.0)
    aux = Grid((0.7, 0.7), (0.1, 0.1, 0.1), 20.3, 1.1)
    park = Grid((2.2,), (1.1,), -4.4, 0.3)
    lay = Layout(static_traps={"traps": traps, "aux": aux}, fillable={"traps"}, has_cz={"traps"}, has_local={"aux"}, special_grid={"park": park})
    return ArchSpec(layout=lay, float_constants={"pitch": 2.5, "dup": 1.5, "origin": 0.0}, int_constants={"rows": 3, "dup": 2, "zero": 0})


ZONES = {"traps": (4, 3), "aux": (3, 4)}
SPECIALS = {"park": (2, 2)}


@dataclass
class TProg:
    src: str
    main: str
    params: list            # [(name, kind)] kind in int,bool,float,selS,selL,selU(ntyped)
    arg_tuples: list
    tags: set = field(default_factory=set)

    def key(self):
        return self.src


def flt(rng):
    return repr(float(Fraction(rng.randint(-16, 40), 4)))


def asc(rng, n):
    xs, x = [], Fraction(rng.randint(-8, 8), 4)
    for _ in range(n):
        xs.append(x)
        x += Fraction(rng.randint(1, 12), 4)
    return "[" + ", ".join(repr(float(v)) for v in xs) + "]"


def idx_expr(rng, size, n):
    """an index expression selecting n entries out of size: int (n=1), slice, or list"""
    forms = ["list"]
    if n == 1:
        forms += ["int", "int"]
    if n <= size:
        forms += ["slice", "slice"]
    f = rng.choice(forms)
    if f == "int":
        return str(rng.choice(list(range(size)) + [-1]))
    if f == "slice":
        a = rng.randint(0, size - n)
        if a == 0 and n == size and rng.random() < 0.5:
            return ":"
        if rng.random() < 0.3 and size - a >= 2 * n - 1 and n > 1:
            return f"{a}:{a + 2 * n - 1}:2"
        return f"{a}:{a + n}" if rng.random() < 0.7 or a else f":{n}"
    pick = sorted(rng.sample(range(size), n)) if n <= size else [rng.randrange(size) for _ in range(n)]
    return "[" + ", ".join(map(str, pick)) + "]"


def list_expr(rng, size, n):
    pick = sorted(rng.sample(range(size), n))
    return "[" + ", ".join(map(str, pick)) + "]"


SEL_SLICES = ["slice(None)", "action.ALL", "slice(0, 2)", "slice(0, 2, 1)", "slice(1, None)", "slice(None, None, 2)"]
SEL_LISTS = ["[0]", "[0, 1]", "[1]", "[2, 0]", "[]"]


class G:
    def __init__(self, rng, p_err=0.25, closures=True):
        self.rng = rng
        self.lines = []
        self.helpers = []          # (name, nsel, gshape, requires_shape, returns_grid)
        self.tags = set()
        self.err_mode = None
        if rng.random() < p_err:
            self.err_mode = rng.choice(["early", "early_cond", "shape", "shape_cond", "assert", "badzone", "badindex"])
            self.tags.add("err:" + self.err_mode)
        self.err_done = False
        self.closures = closures
        self.nvar = 0

    def fresh(self, p):
        self.nvar += 1
        return f"{p}{self.nvar}"

    # ---- expressions ----
    def grid_expr(self, env, shape, depth=0):
        rng = self.rng
        nx, ny = shape
        opts = ["from_pos", "zone_idx", "zone_sub"]
        if env["grids"].get(shape):
            opts += ["var", "var", "shift", "scale"]
        if "fx" in env["params"]:
            opts.append("arg_pos")
        if shape == (2, 2):
            opts.append("special")
        o = rng.choice(opts)
        if o == "from_pos":
            return f"grid.from_positions({asc(rng, nx)}, {asc(rng, ny)})"
        if o == "arg_pos":
            xs = ", ".join(["fx"] + [f"fx + {float(i)}" for i in range(1, nx)])
            ys = ", ".join(["fy"] + [f"fy + {2.0 * i}" for i in range(1, ny)])
            return f"grid.from_positions([{xs}], [{ys}])"
        if o == "var":
            return rng.choice(env["grids"][shape])
        if o == "shift":
            if rng.random() < 0.3:
                # displacement read from the spec at trace time (constants 0.0 / 1.5 / 2.5: a falsy one included)
                cst = lambda: 'spec.get_float_constant(constant_id="' + rng.choice(["origin", "dup", "pitch"]) + '")'
                return f"grid.shift({rng.choice(env['grids'][shape])}, {cst()}, {cst()})"
            return f"grid.shift({rng.choice(env['grids'][shape])}, {flt(rng)}, {flt(rng)})"
        if o == "scale":
            return f"grid.scale({rng.choice(env['grids'][shape])}, {rng.choice(['2.0', '0.5', '1.0'])}, {rng.choice(['2.0', '1.5'])})"
        if o == "special":
            return "spec.get_special_grid(grid_id=\"park\")"
        zname = rng.choice([z for z, (zx, zy) in ZONES.items() if zx >= nx and zy >= ny])
        zx, zy = ZONES[zname]
        z = env["zones"].get(zname) or f"spec.get_static_trap(zone_id=\"{zname}\")"
        if o == "zone_idx":
            return f"{z}[{idx_expr(rng, zx, nx)}, {idx_expr(rng, zy, ny)}]"
        return f"grid.sub_grid({z}, {list_expr(rng, zx, nx)}, {list_expr(rng, zy, ny)})"

    def sel_expr(self, env, form=None):
        rng = self.rng
        form = form or rng.choice(["S", "L"])
        vs = [v for v, f in env["sels"].items() if f == form]
        if vs and rng.random() < 0.35:
            return rng.choice(vs)
        return rng.choice(SEL_SLICES if form == "S" else SEL_LISTS)

    def cond_expr(self, env):
        rng = self.rng
        opts = [p for p in ("c", "d") if p in env["params"]]
        for i in env["ints"]:
            opts += [f"{i} == {rng.randint(0, 2)}", f"{i} < {rng.randint(0, 2)}"]
        if "n" in env["params"]:
            opts.append(f"n > {rng.randint(0, 2)}")
        return rng.choice(opts) if opts else "True"

    # ---- statements ----
    def emit(self, ind, s):
        self.out.append("    " * ind + s)

    def aod_op(self, env, ind, st):
        """one AOD statement valid in state st (= current shape or None); returns new state"""
        rng = self.rng
        if st is None:
            shape = rng.choice(env["shapes"])
            self.emit(ind, f"action.set_loc({self.grid_expr(env, shape)})")
            return shape
        r = rng.random()
        if r < 0.40:
            self.emit(ind, f"action.move({self.grid_expr(env, st)})")
        elif r < 0.80:
            k = rng.choice(["turn_on", "turn_off"])
            self.emit(ind, f"action.{k}({self.sel_expr(env)}, {self.sel_expr(env)})")
        elif r < 0.90:
            self.emit(ind, f"action.set_loc({self.grid_expr(env, st)})")
        else:
            hs = [h for h in self.helpers if h[3] == st or h[3] is None]
            hs = [h for h in hs if h[0] not in env.get("forbid", ())]
            if not hs:
                self.emit(ind, f"action.move({self.grid_expr(env, st)})")
            else:
                self.call_helper(env, ind, rng.choice(hs), st)
        return st

    def call_helper(self, env, ind, h, st):
        name, nsel, gshape, req, ret = h
        args = [self.sel_expr(env) for _ in range(nsel)]
        if gshape is not None:
            args.append(self.grid_expr(env, gshape))
        call = f"{name}({', '.join(args)})"
        if ret:
            v = self.fresh("r")
            self.emit(ind, f"{v} = {call}")
            env["grids"].setdefault(gshape, []).append(v)
        else:
            self.emit(ind, call)
        self.tags.add("helper-call")

    def maybe_error(self, env, ind, st, top):
        """insert the program's error statement once, at a random point"""
        rng = self.rng
        m = self.err_mode
        if m is None or self.err_done or rng.random() > 0.3:
            return
        if m in ("shape", "shape_cond") and st is not None:
            other = rng.choice([s for s in SHAPES if s != st])
            g = self.grid_expr(env, other)
            if m == "shape_cond":
                self.emit(ind, f"if {self.cond_expr(env)}:")
                self.emit(ind + 1, f"action.move({g})")
            else:
                self.emit(ind, f"action.move({g})")
            self.err_done = True
        elif m == "assert" and st is not None:
            self.emit(ind, f"assert {self.cond_expr(env)}")
            self.err_done = True
        elif m == "badzone" and top:
            self.emit(ind, f"action.set_loc(spec.get_static_trap(zone_id=\"nowhere\"))")
            self.err_done = True
        elif m == "badindex" and top:
            self.emit(ind, f"action.set_loc({env['zones'].get('traps') or 'spec.get_static_trap(zone_id=' + chr(34) + 'traps' + chr(34) + ')'}[{self.rng.choice(['7', '0:2'])}, {self.rng.choice(['5', '-9'])}])")
            self.err_done = True

    def block(self, env, ind, st, budget, depth, top=False):
        """emit up to `budget` statements starting in AOD state st; the block returns to a
        state of the same shape as it started in (or sets a shape if it started unset)."""
        rng = self.rng
        n = 0
        while n < budget:
            n += 1
            self.maybe_error(env, ind, st, top)
            r = rng.random()
            if depth < 2 and r < 0.14 and st is not None:
                # for loop (body preserves the shape)
                it = rng.choice([x for x in ("n", "m") if x in env["params"]] + [str(rng.randint(0, 3))] +
                                ['spec.get_int_constant(constant_id="zero")', 'spec.get_int_constant(constant_id="dup")'])   # trip counts 0 / 2 from the spec
                i = self.fresh("i")
                self.emit(ind, f"{i} = 0")   # kirin rejects an impure loop body that carries no variable
                self.emit(ind, f"for {i} in range({it}):")
                env2 = dict(env, ints=env["ints"] + [i], grids={k: list(v) for k, v in env["grids"].items()},
                            sels=dict(env["sels"]))
                self.block(env2, ind + 1, st, rng.randint(1, 3), depth + 1)
                self.tags.add("for")
            elif depth < 2 and r < 0.28 and st is not None:
                self.emit(ind, f"if {self.cond_expr(env)}:")
                env2 = dict(env, grids={k: list(v) for k, v in env["grids"].items()}, sels=dict(env["sels"]))
                self.block(env2, ind + 1, st, rng.randint(1, 3), depth + 1)
                if rng.random() < 0.6:
                    self.emit(ind, "else:")
                    env3 = dict(env, grids={k: list(v) for k, v in env["grids"].items()}, sels=dict(env["sels"]))
                    self.block(env3, ind + 1, st, rng.randint(1, 2), depth + 1)
                self.tags.add("if")
            elif r < 0.36:
                # local variable: grid or selector (possibly branch-joined)
                if rng.random() < 0.5:
                    shape = st or rng.choice(env["shapes"])
                    v = self.fresh("g")
                    self.emit(ind, f"{v} = {self.grid_expr(env, shape)}")
                    env["grids"].setdefault(shape, []).append(v)
                else:
                    v = self.fresh("s")
                    form = rng.choice(["S", "L"])
                    if rng.random() < 0.4 and (("c" in env["params"]) or env["ints"]):
                        self.emit(ind, f"if {self.cond_expr(env)}:")
                        self.emit(ind + 1, f"{v} = {self.sel_expr(env, form)}")
                        self.emit(ind, "else:")
                        form2 = form if rng.random() < 0.7 else ("L" if form == "S" else "S")
                        self.emit(ind + 1, f"{v} = {self.sel_expr(env, form2)}")
                        if form2 != form:
                            self.tags.add("joined-mixed-sel")
                            form = "U"
                        else:
                            self.tags.add("joined-sel")
                    else:
                        self.emit(ind, f"{v} = {self.sel_expr(env, form)}")
                    env["sels"][v] = form
            elif st is not None and r < 0.42 and depth == 0 and rng.random() < 0.5:
                # re-position with a different shape
                shape = rng.choice(env["shapes"])
                self.emit(ind, f"action.set_loc({self.grid_expr(env, shape)})")
                st = shape
            else:
                st = self.aod_op(env, ind, st)
        return st

    # ---- whole program ----
    def helper(self, idx):
        rng = self.rng
        name = f"h{idx}"
        nsel = rng.randint(0, 2)
        gshape = rng.choice(SHAPES[:3]) if rng.random() < 0.8 else None
        req = gshape if (gshape and rng.random() < 0.7) else None
        ret = gshape is not None and rng.random() < 0.3
        typed = rng.random() < 0.4
        params, sels = [], {}
        for k in range(nsel):
            p = f"hs{k}"
            if typed:
                form = rng.choice(["S", "L"])
                params.append(f"{p}: slice" if form == "S" else f"{p}: ilist.IList[int, Any]")
                sels[p] = form
            else:
                params.append(p)
                sels[p] = "U"
                self.tags.add("untyped-sel-param")
        grids = {}
        if gshape is not None:
            params.append("hg: grid.Grid[Any, Any]" if typed else "hg")
            grids[gshape] = ["hg"]
        self.out = []
        self.emit(0, "@tweezer")
        self.emit(0, f"def {name}({', '.join(params)}):")
        env = dict(params=[], grids=grids, sels=sels, ints=[], zones={}, shapes=[gshape or (2, 1)],
                   forbid=[name])
        # untyped selector params may be used as either form
        for p, f in list(sels.items()):
            if f == "U":
                env["sels"][p] = rng.choice(["S", "L"])
        st = req
        if req is None:
            st = gshape or (2, 1)
            self.emit(1, f"action.set_loc({self.grid_expr(env, st)})")
        self.block(env, 1, st, rng.randint(1, 4), 1)
        if ret:
            self.emit(1, f"return grid.shift(hg, {flt(rng)}, {flt(rng)})")
        self.lines += self.out + [""]
        return (name, nsel, gshape, req, ret)

    def program(self):
        rng = self.rng
        for i in range(rng.choice([0, 0, 1, 1, 2])):
            self.helpers.append(self.helper(i))
        params = []
        for p, kind, prob in [("n", "int", 0.7), ("m", "int", 0.3), ("c", "bool", 0.7), ("d", "bool", 0.3),
                              ("fx", "float", 0.3), ("ps", "selS", 0.15), ("pl", "selL", 0.15), ("pu", "selU", 0.2)]:
            if rng.random() < prob:
                params.append((p, kind))
        if any(p == "fx" for p, _ in params):
            params.append(("fy", "float"))
        ann = {"int": ": int", "bool": ": bool", "float": ": float", "selS": ": slice",
               "selL": ": ilist.IList[int, Any]", "selU": ""}
        self.out = []
        self.emit(0, "@tweezer")
        self.emit(0, f"def main({', '.join(p + ann[k] for p, k in params)}):")
        env = dict(params=[p for p, _ in params], grids={}, sels={}, ints=[], zones={},
                   shapes=rng.sample(SHAPES, 2))
        for p, k in params:
            if k.startswith("sel"):
                env["sels"][p] = {"selS": "S", "selL": "L", "selU": rng.choice(["S", "L"])}[k]
                if k == "selU":
                    self.tags.add("untyped-sel-arg")
        if rng.random() < 0.6:
            z = rng.choice(list(ZONES))
            self.emit(1, f"z_{z} = spec.get_static_trap(zone_id=\"{z}\")")
            env["zones"][z] = f"z_{z}"
        st = None
        body_budget = rng.randint(2, 9)
        if self.err_mode in ("early", "early_cond"):
            # AOD use before any set_loc
            bad = rng.choice([f"action.move({self.grid_expr(env, (2, 1))})",
                              f"action.turn_on({self.sel_expr(env)}, {self.sel_expr(env)})",
                              f"action.turn_off({self.sel_expr(env)}, {self.sel_expr(env)})"])
            hs = [h for h in self.helpers if h[3] is not None]
            if hs and rng.random() < 0.4:
                h = rng.choice(hs)
                self.call_helper(env, 1, h, None)
            elif self.err_mode == "early_cond":
                self.emit(1, f"if {self.cond_expr(env)}:")
                self.emit(2, bad)
            else:
                pre = rng.randint(0, 2)
                for _ in range(pre):
                    v = self.fresh("g")
                    sh = rng.choice(env["shapes"])
                    self.emit(1, f"{v} = {self.grid_expr(env, sh)}")
                    env["grids"].setdefault(sh, []).append(v)
                if rng.random() < 0.3:
                    self.emit(1, "i0 = 0")
                    self.emit(1, f"for i0 in range({rng.choice(['n', '1', '0']) if 'n' in env['params'] else rng.choice(['1', '0'])}):")
                    self.emit(2, bad)
                else:
                    self.emit(1, bad)
            self.err_done = True
        if self.closures and rng.random() < 0.15:
            sh = rng.choice(env["shapes"])
            self.emit(1, "def inner(ig):")
            self.emit(2, "action.move(ig)")
            self.emit(2, f"action.turn_on({self.sel_expr(env)}, {self.sel_expr(env)})")
            self.helpers.append(("inner", 0, sh, sh, False))
            self.tags.add("closure")
        self.block(env, 1, st, body_budget, 0, top=True)
        self.lines += self.out
        src = "\n".join(self.lines) + "\n"
        return src, params

    def args_for(self, params, k):
        from kirin.dialects import ilist
        rng = self.rng
        tuples = []
        for t in range(k):
            a = []
            for p, kind in params:
                if kind == "int":
                    a.append(rng.choice([0, 1, 2, 3]) if t else 2)
                elif kind == "bool":
                    a.append(rng.random() < 0.5 if t else True)
                elif kind == "float":
                    a.append(float(Fraction(rng.randint(-8, 8), 4)))
                elif kind == "selS":
                    a.append(rng.choice([slice(None), slice(0, 1), slice(0, 2, 1)]))
                elif kind == "selL":
                    a.append(ilist.IList(rng.choice([[0], [0, 1], [1]])))
                else:
                    a.append(rng.choice([slice(None), ilist.IList([0]), slice(1, 2), ilist.IList([1, 0])]))
            tuples.append(tuple(a))
        return tuples


def gen_prog(rng, p_err=0.25, nargs=3):
    g = G(rng, p_err)
    src, params = g.program()
    return TProg(src=src, main="main", params=params, arg_tuples=g.args_for(params, nargs), tags=g.tags)


# ---- straight-line rendering of an op list (exhaustive scopes, shrinking) ----
def grid_literal(g):
    return f"grid.from_positions({list(map(float, g.x_positions))!r}, {list(map(float, g.y_positions))!r})"


def sel_literal(s):
    if isinstance(s, slice):
        return f"slice({s.start!r}, {s.stop!r}, {s.step!r})"
    return repr(list(s))


def straightline_src(ops):
    lines = ["@tweezer", "def main():"]
    for o in ops:
        if o[0] == "set":
            lines.append(f"    action.set_loc({grid_literal(o[1])})")
        elif o[0] == "move":
            lines.append(f"    action.move({grid_literal(o[1])})")
        else:
            lines.append(f"    action.turn_{o[0]}({sel_literal(o[1])}, {sel_literal(o[2])})")
    if len(lines) == 2:
        lines.append("    return")
    return "\n".join(lines) + "\n"
