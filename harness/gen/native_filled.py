"""A filled grid for the harness's own (native) evaluation of kernel sources: (plain parent grid, vacancies) with its OWN view / shift /
scale / repeat / fill / vacate - nothing of bloqade.shuttle's FilledGrid is executed to obtain a reference value.  Only at the boundary
(an AOD position recorded, an event emitted, an argument handed to the implementation) is it turned into the library's class, through the
dataclass constructor alone.  The plain-grid geometry underneath (bloqade.geometry) is outside the repository and trusted."""


class NativeFilled:
    def __init__(self, parent, vac):
        self.parent, self.vac = parent, frozenset((int(a), int(b)) for a, b in vac)

    shape = property(lambda s: s.parent.shape)
    x_positions = property(lambda s: s.parent.x_positions)
    y_positions = property(lambda s: s.parent.y_positions)

    def get_view(self, x_indices, y_indices):
        xs = list(getattr(x_indices, "data", x_indices))
        ys = list(getattr(y_indices, "data", y_indices))
        view = self.parent.get_view(x_indices, y_indices)
        return NativeFilled(view, {(i, j) for i, x in enumerate(xs) for j, y in enumerate(ys) if (x, y) in self.vac})

    def __getitem__(self, indices):
        from bloqade.geometry.dialects.grid.types import get_indices
        if len(indices) != 2:
            raise IndexError("Grid indexing requires two indices (x, y)")
        nx, ny = self.parent.shape
        return self.get_view(get_indices(nx, indices[0]), get_indices(ny, indices[1]))

    def shift(self, dx, dy):
        return NativeFilled(self.parent.shift(dx, dy), self.vac)

    def scale(self, a, b):
        return NativeFilled(self.parent.scale(a, b), self.vac)

    def repeat(self, a, b, gx, gy):
        nx, ny = self.parent.shape
        return NativeFilled(self.parent.repeat(a, b, gx, gy), {(x + nx * i, y + ny * j) for i in range(a) for j in range(b) for (x, y) in self.vac})

    def real(self):
        from bloqade.shuttle.dialects.filled.types import FilledGrid
        return FilledGrid(parent=self.parent, vacancies=self.vac)


def vacate(g, sites):
    sites = [tuple(s) for s in sites]
    if isinstance(g, NativeFilled):
        return NativeFilled(g.parent, set(g.vac) | set(sites))
    return NativeFilled(g, sites)


def fill(g, sites):
    sites = {tuple(s) for s in sites}
    if isinstance(g, NativeFilled):
        return NativeFilled(g.parent, set(g.vac) - sites)
    nx, ny = g.shape
    return NativeFilled(g, {(i, j) for i in range(nx) for j in range(ny)} - sites)


def wrap(v):
    """library value -> native value (FilledGrid -> NativeFilled), through containers"""
    from kirin.dialects import ilist
    if type(v).__name__ == "FilledGrid" and hasattr(v, "vacancies"):
        return NativeFilled(v.parent, v.vacancies)
    if isinstance(v, ilist.IList):
        return ilist.IList([wrap(x) for x in v.data])
    if isinstance(v, (list, tuple)):
        return type(v)(wrap(x) for x in v)
    return v


def real(v):
    """native value -> library value"""
    from kirin.dialects import ilist
    if isinstance(v, NativeFilled):
        return v.real()
    if isinstance(v, ilist.IList):
        return ilist.IList([real(x) for x in v.data])
    if isinstance(v, (list, tuple)):
        return type(v)(real(x) for x in v)
    return v
