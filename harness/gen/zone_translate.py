"""Translator: the transfer functions of the zone analysis  ->  Gallina (Gen_C10_src.v)

    analysis/zone/analysis.py      ZoneAnalysis.get_grid_lattice, eval_stmt_fallback
    analysis/zone/impl/spec.py     spec.GetStaticTrap
    analysis/zone/impl/grid.py     grid.GetSubGrid
    analysis/zone/impl/py.py       py.indexing.GetItem, py.Constant
    analysis/zone/lattice.py       the class hierarchy (which elements are InvalidZone, what top / bottom are)

Each handler is read as a decision list  `if <guard>: return (<element>,)` ... `return (<element>,)`  and emitted as the matching
branch of  astep_src statics env : zstmt -> zone ; the generated file proves  astep_src = Model.ZoneAn.astep  for every statement,
environment and set of static trap names, so the C10 theorems (soundness of the analysis with respect to provenance) are about the
transfer functions as written.  What stays correspondence-only: kirin's forward-analysis driver, how compiled IR maps to zstmt.

Fragment (fail closed):
  locals        v = frame.get(stmt.<field>)      v = stmt.value.unwrap()      v = interp.get_grid_lattice(<grid>)
                v = self.arch_spec.layout.get_zone_id(zone)   (in get_grid_lattice)
  guards        isinstance(v, lattice.InvalidZone)         -> is_invalid_src v   (the subclasses of InvalidZone, from lattice.py)
                isinstance(v, lattice.Zone)                -> true of every element (checked against the hierarchy)
                stmt.zone_id in interp.arch_spec.layout.static_traps
                isinstance(v, SubGrid) / isinstance(v, Grid)  (constants; SubGrid tested first)       v is not None
  elements      lattice.K(..)   lattice.Zone.bottom() / top()   a local   interp.get_grid_lattice(<grid>)   frame.get(stmt.<field>)
"""
import ast
import os


class Untranslatable(Exception):
    pass


def _u(e):
    return ast.unparse(e)


ZONE_DIR = "src/bloqade/shuttle/analysis/zone"


def hierarchy(repo):
    tree = ast.parse(open(os.path.join(repo, ZONE_DIR, "lattice.py")).read())
    bases = {c.name: [b.id for b in c.bases if isinstance(b, ast.Name)] for c in tree.body if isinstance(c, ast.ClassDef)}

    def is_a(c, k):
        return c == k or any(is_a(b, k) for b in bases.get(c, []))
    elements = ["NotZone", "UnknownZone", "InvalidZone", "InvalidSpecId", "SpecZone", "GetItemOfZone", "GetSubGridOfZone"]
    for e in elements:
        if e not in bases or not is_a(e, "Zone"):
            raise Untranslatable(f"lattice.py: {e} is not an element class")
    extra = [c for c in bases if is_a(c, "Zone") and c not in elements + ["Zone"]]
    if extra:
        raise Untranslatable(f"lattice.py: element classes the model does not know: {extra}")
    zone = next(c for c in tree.body if isinstance(c, ast.ClassDef) and c.name == "Zone")
    ends = {}
    for f in zone.body:
        if isinstance(f, ast.FunctionDef) and f.name in ("top", "bottom"):
            body = [s for s in f.body if not (isinstance(s, ast.Expr) and isinstance(s.value, ast.Constant))]
            if len(body) != 1 or not isinstance(body[0], ast.Return) or not isinstance(body[0].value, ast.Call) or body[0].value.args:
                raise Untranslatable(f"Zone.{f.name}")
            ends[f.name] = _u(body[0].value.func)
    if set(ends) != {"top", "bottom"} or any(v not in elements for v in ends.values()):
        raise Untranslatable(f"Zone.top / Zone.bottom: {ends}")
    return {"invalid": [e for e in elements if is_a(e, "InvalidZone")], "top": ends["top"], "bottom": ends["bottom"], "elements": elements}


ARITY = {"NotZone": 0, "UnknownZone": 0, "InvalidZone": 0, "InvalidSpecId": 1, "SpecZone": 1, "GetItemOfZone": 2, "GetSubGridOfZone": 3}
FIELDS = {"GetItemOfZone": ["zone", "index"], "GetSubGridOfZone": ["zone", "x_indices", "y_indices"], "SpecZone": ["spec_id"], "InvalidSpecId": ["spec_id"]}


class Handler:
    """one handler as a decision list; `operand` maps  frame.get(stmt.<field>)  to a Coq term, `name` maps stmt.<attr> to a Coq term"""

    def __init__(self, what, H, operand, name, interp="interp", lat="lattice."):
        self.what, self.H, self.operand, self.name, self.interp, self.lat = what, H, operand, name, interp, lat
        self.loc = {}

    def element(self, e):
        t = _u(e)
        if isinstance(e, ast.Name) and e.id in self.loc:
            return self.loc[e.id]
        if t in (f"{self.lat}Zone.bottom()", "self.lattice.bottom()"):
            return "bottom_src"
        if t in (f"{self.lat}Zone.top()", "self.lattice.top()"):
            return "top_src"
        if isinstance(e, ast.Call) and _u(e.func).startswith(self.lat) and _u(e.func)[len(self.lat):] in ARITY:
            k = _u(e.func)[len(self.lat):]
            names = FIELDS.get(k, [])
            args = list(e.args)
            kw = {x.arg: x.value for x in e.keywords}
            if set(kw) - set(names[len(args):]):
                raise Untranslatable(f"{self.what}: {t}")
            for nm in names[len(args):]:
                if nm not in kw:
                    raise Untranslatable(f"{self.what}: {t}")
                args.append(kw[nm])
            if len(args) != ARITY[k]:
                raise Untranslatable(f"{self.what}: {t}")
            if k in ("SpecZone", "InvalidSpecId"):
                return f"({k} {self.string(args[0])})"
            return "(" + " ".join([k] + [self.element(a) for a in args]) + ")" if args else k
        if isinstance(e, ast.Call) and _u(e.func) == "frame.get" and len(e.args) == 1:
            return self.operand(_u(e.args[0]), self.what)
        if isinstance(e, ast.Call) and _u(e.func) == f"{self.interp}.get_grid_lattice" and len(e.args) == 1:
            return f"(grid_lattice_src {self.grid(e.args[0])})"
        raise Untranslatable(f"{self.what}: element {t}")

    def string(self, e):
        t = _u(e)
        if isinstance(e, ast.Name) and e.id in self.loc and self.loc[e.id].startswith("str:"):
            return self.loc[e.id][4:]
        return self.name(t, self.what)

    def grid(self, e):
        raise Untranslatable(f"{self.what}: grid {_u(e)}")

    def guard(self, e):
        t = _u(e).replace(" ", "")
        if isinstance(e, ast.Call) and _u(e.func) == "isinstance" and len(e.args) == 2:
            k = _u(e.args[1])
            if k == f"{self.lat}InvalidZone":
                return f"is_invalid_src {self.element(e.args[0])}"
            if k == f"{self.lat}Zone":
                self.element(e.args[0])
                return "true"
        raise Untranslatable(f"{self.what}: guard {_u(e)}")

    def result(self, r):
        if not (isinstance(r, ast.Return) and isinstance(r.value, ast.Tuple) and len(r.value.elts) == 1):
            raise Untranslatable(f"{self.what}: {_u(r)[:80]}")
        return self.element(r.value.elts[0])

    def local(self, s):
        """an assignment that names an element / an operand; returns False if it is not one"""
        if not (isinstance(s, ast.Assign) and len(s.targets) == 1 and isinstance(s.targets[0], ast.Name)):
            return False
        self.loc[s.targets[0].id] = self.element(s.value)
        return True

    def body(self, stmts):
        stmts = [s for s in stmts if not (isinstance(s, ast.Expr) and isinstance(s.value, ast.Constant))]
        if not stmts:
            raise Untranslatable(f"{self.what}: falls off the end")
        s, rest = stmts[0], stmts[1:]
        if isinstance(s, ast.Return):
            return self.result(s)
        if isinstance(s, ast.If):
            g = self.guard(s.test)
            saved = dict(self.loc)
            then = self.body(list(s.body))
            self.loc = dict(saved)
            other = self.body(list(s.orelse) + rest) if s.orelse else self.body(rest)
            self.loc = saved
            return then if g == "true" else f"(if {g} then {then} else {other})"
        if self.local(s):
            return self.body(rest)
        raise Untranslatable(f"{self.what}: statement {_u(s)[:80]}")


def _handlers(path, key="zone.analysis"):
    tree = ast.parse(open(path).read())
    out = {}
    for cls in tree.body:
        if not isinstance(cls, ast.ClassDef):
            continue
        regs = [_u(d).replace(" ", "").replace('"', "'") for d in cls.decorator_list]
        if not any(r.endswith(f"register(key='{key}')") for r in regs):
            continue
        for f in cls.body:
            if isinstance(f, ast.FunctionDef):
                for d in f.decorator_list:
                    if isinstance(d, ast.Call) and _u(d.func).endswith("impl") and len(d.args) == 1:
                        if _u(d.args[0]) in out:
                            raise Untranslatable(f"two handlers for {_u(d.args[0])}")
                        out[_u(d.args[0])] = f
    return out


def _params(f, what):
    a = [x.arg for x in f.args.args]
    if len(a) != 4 or a[2] != "frame" or a[3] != "stmt":
        raise Untranslatable(f"{what}: parameters {a}")
    return a[1]


def generate(repo):
    H = hierarchy(repo)
    base = os.path.join(repo, ZONE_DIR)
    spec_h, grid_h, py_h = _handlers(f"{base}/impl/spec.py"), _handlers(f"{base}/impl/grid.py"), _handlers(f"{base}/impl/py.py")
    if set(spec_h) != {"spec.GetStaticTrap"} or set(grid_h) != {"grid.GetSubGrid"} or set(py_h) != {"py.indexing.GetItem", "py.Constant"}:
        raise Untranslatable(f"handlers: {sorted(spec_h)} {sorted(grid_h)} {sorted(py_h)}")

    def no_name(t, what):
        raise Untranslatable(f"{what}: name {t}")

    def no_operand(t, what):
        raise Untranslatable(f"{what}: operand {t}")

    # ---- spec.GetStaticTrap ----
    f = spec_h["spec.GetStaticTrap"]
    it = _params(f, "get_static_trap")

    class StaticH(Handler):
        def guard(self, e):
            if _u(e).replace(" ", "") == f"stmt.zone_idin{it}.arch_spec.layout.static_traps":
                return "existsb (String.eqb name) statics"
            return super().guard(e)
    static = StaticH("get_static_trap", H, no_operand, lambda t, w: "name" if t == "stmt.zone_id" else no_name(t, w), interp=it).body(list(f.body))

    # ---- grid.GetSubGrid ----
    f = grid_h["grid.GetSubGrid"]
    sub = Handler("sub_grid", H, lambda t, w: "(get x)" if t == "stmt.zone" else no_operand(t, w), no_name, interp=_params(f, "sub_grid")).body(list(f.body))

    # ---- py.indexing.GetItem ----
    f = py_h["py.indexing.GetItem"]
    item = Handler("get_item", H, lambda t, w: {"stmt.obj": "(get x)", "stmt.index": "(get i)"}.get(t) or no_operand(t, w), no_name,
                   interp=_params(f, "get_item")).body(list(f.body))

    # ---- py.Constant: case split on what the constant is ----
    f = py_h["py.Constant"]
    ci = _params(f, "constant")
    body = [s for s in f.body if not (isinstance(s, ast.Expr) and isinstance(s.value, ast.Constant))]
    if not (len(body) >= 2 and isinstance(body[0], ast.Assign) and _u(body[0].value) == "stmt.value.unwrap()" and isinstance(body[0].targets[0], ast.Name)):
        raise Untranslatable("constant: does not start with `v = stmt.value.unwrap()`")
    cv = body[0].targets[0].id
    chain, cur, tail = [], body[1], body[2:]
    while isinstance(cur, ast.If):
        t = _u(cur.test).replace(" ", "")
        if t not in (f"isinstance({cv},SubGrid)", f"isinstance({cv},Grid)"):
            raise Untranslatable(f"constant: test {_u(cur.test)}")
        chain.append((t.split(",")[1][:-1], list(cur.body)))
        if len(cur.orelse) == 1 and isinstance(cur.orelse[0], ast.If):
            cur = cur.orelse[0]
        else:
            tail = list(cur.orelse) + tail
            break
    if [k for k, _ in chain] != ["SubGrid", "Grid"]:
        raise Untranslatable(f"constant: the cases are {[k for k, _ in chain]} (a SubGrid is a Grid: it has to be tested first)")

    class ConstH(Handler):
        def __init__(self, what, kind):
            super().__init__(what, H, no_operand, no_name, interp=ci)
            self.kind = kind

        def grid(self, e):
            t = _u(e)
            if (self.kind == "sub" and t == f"{cv}.parent") or (self.kind == "grid" and t == cv):
                return "zid"
            raise Untranslatable(f"{self.what}: grid {t}")
    const_sub = ConstH("constant/SubGrid", "sub").body(chain[0][1])
    const_grid = ConstH("constant/Grid", "grid").body(chain[1][1])
    const_other = ConstH("constant/other", "other").body(tail)

    # ---- ZoneAnalysis.get_grid_lattice / eval_stmt_fallback ----
    tree = ast.parse(open(f"{base}/analysis.py").read())
    za = next((c for c in tree.body if isinstance(c, ast.ClassDef) and c.name == "ZoneAnalysis"), None)
    meth = {f.name: f for f in (za.body if za else []) if isinstance(f, ast.FunctionDef)}
    g = meth.get("get_grid_lattice")
    gb = [s for s in (g.body if g else []) if not (isinstance(s, ast.Expr) and isinstance(s.value, ast.Constant))]
    if not (len(gb) == 3 and _u(gb[0]) == "zone_id = self.arch_spec.layout.get_zone_id(zone)" and isinstance(gb[1], ast.If)
            and _u(gb[1].test) == "zone_id is not None" and not gb[1].orelse and len(gb[1].body) == 1):
        raise Untranslatable("get_grid_lattice is not `zone_id = ..get_zone_id(zone); if zone_id is not None: return ..; return ..`")

    class GL(Handler):
        def result(self, r):
            if not isinstance(r, ast.Return) or r.value is None:
                raise Untranslatable("get_grid_lattice: " + _u(r))
            return self.element(r.value)
    gl = GL("get_grid_lattice", H, no_operand, lambda t, w: "z" if t == "zone_id" else no_name(t, w), lat="")
    some, none = gl.result(gb[1].body[0]), gl.result(gb[2])
    fb = meth.get("eval_stmt_fallback")
    fbt = _u(fb.body[-1]).replace(" ", "").replace("\n", "") if fb else ""
    if fbt != "returntuple((self.lattice.top()ifresult.type.is_subseteq(grid.GridType)elseself.lattice.bottom()forresultinstmt.results))":
        raise Untranslatable("eval_stmt_fallback is not `top for grid-typed results, bottom otherwise`")

    inv = " | ".join(k + (" _" * ARITY[k]) for k in H["invalid"])
    return f"""(* GENERATED on every run from analysis/zone/{{analysis,lattice}}.py and impl/{{spec,grid,py}}.py by harness/gen/zone_translate.py *)
From Coq Require Import String List Bool.
From BS Require Import Core.Show Core.Base Model.Lattice Model.ZoneAn.
Import ListNotations.

Definition is_invalid_src (a : zone) : bool := match a with {inv} => true | _ => false end.
Definition bottom_src : zone := {H['bottom']}.
Definition top_src : zone := {H['top']}.
(* ZoneAnalysis.get_grid_lattice, given what layout.get_zone_id answers *)
Definition grid_lattice_src (zid : option string) : zone := match zid with Some z => {some} | None => {none} end.

Definition astep_src (statics : list string) (env : list zone) (s : zstmt) : zone :=
  let get := fun k => nth k env UnknownZone in
  match s with
  | ZStatic name => {static}
  | ZConstGrid zid => {const_grid}
  | ZConstSub zid => {const_sub}
  | ZSubGrid x => {sub}
  | ZGetItem x i => {item}
  | ZOtherGrid _ => top_src
  | ZOtherNonGrid _ => bottom_src
  end.
Definition const_other_src : zone := {const_other}.

Lemma is_invalid_src_eq : forall a, is_invalid_src a = is_invalid a.
Proof. destruct a; reflexivity. Qed.
Theorem astep_src_eq : forall statics env s, astep_src statics env s = astep statics env s.
Proof.
  intros statics env s; destruct s as [n | [z|] | [z|] | x | x i | o | o]; cbn [astep_src astep grid_lattice_src bottom_src top_src];
    rewrite ?is_invalid_src_eq; try reflexivity;
    repeat match goal with |- context [is_invalid ?a] => destruct (is_invalid a) end; reflexivity.
Qed.
(* a constant that is no grid gets what every other non-grid statement gets *)
Lemma const_other_src_eq : const_other_src = astep [] [] (ZOtherNonGrid []).
Proof. reflexivity. Qed.
Theorem arun_src : forall statics p env,
  arun statics env p = fold_left (fun e s => e ++ [astep_src statics e s]) p env.
Proof. intros statics p; induction p as [|s r IH]; intros env; cbn [arun fold_left]; [reflexivity|]. rewrite astep_src_eq. apply IH. Qed.
Print Assumptions astep_src_eq.
Print Assumptions arun_src.
"""


if __name__ == "__main__":
    import sys
    print(generate(sys.argv[1] if len(sys.argv) > 1 else "/repo"))
