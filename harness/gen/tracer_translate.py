"""Translator: the method table ActionTracer of /repo/src/bloqade/shuttle/codegen/taskgen.py  ->  Gallina (Gen_C01_src.v).

The three handlers (action.Set, action.Move, the eight turn_on/turn_off statements) are small imperative methods over the tracer's
two attributes `trace` (a list of actions) and `curr_pos` (None or a grid).  They are translated by SYMBOLIC EXECUTION of their statement
lists into functions  ist -> operands -> res ist  over Model.Tracer's state record, and the result is PROVED equal to the hand-written
`istep` (so the refinement theorem of C01, the invariant of C11 and the reuse theorem of C15 hold of the code as translated).

Fragment (anything else raises Untranslatable - fail closed):

  if <interp.curr_pos> is None: <block ending in raise>          match cur with None => Err .. | Some c => ..
  NAME = frame.get(stmt.F) | frame.get_typed(stmt.F, T)          the operand F of the statement (grid / x_tones / y_tones)
  assert isinstance(interp.trace[-1], WayPointsAction)           match split_last_way tr with None => Err EAssert | Some (pre, ws) => ..
  interp.trace[-1].add_waypoint(E | NAME := E)                   the last segment grows (WayPointsAction.add_waypoint must be `append`)
  if A.shape != B.shape: <block> [else: <block>]                 if negb (shape_eqb A B) then .. else ..
  interp.curr_pos = E          interp.trace.append(ACTION)       state updates
  raise X(...)                 return ()                         Err <kind of X>  /  Ok (mkist tr cur)
  ACTION ::= WayPointsAction([E]) | WayPointsAction(way_points=[E]) | <class expression>(X, Y)
  NAME = <python expression without interp / frame>              only on the way to <class expression>: see below

The class of a recorded tone switch is computed by ordinary Python (`issubclass`, a dict of classes, DesugarTurn*Rewrite.get_stmt_type).
That part is not translated symbolically: it has a FINITE domain (8 statement classes x the slice/list form of the two run-time values),
so the translator EXECUTES exactly those assignment statements and the class expression for all 32 combinations and emits the result as
the table `gen_cls`; the generated lemma `gen_cls_ok` says the recorded class is (on/off of the statement, form of x, form of y).
Error kinds: InterpreterError -> EInterp, AssertionError -> EAssert, anything else -> EOther; indexing an empty trace counts as the
failing assert (both are "raises", the property does not distinguish them).
"""
import ast
import itertools


class Untranslatable(Exception):
    pass


ERR = {"InterpreterError": "EInterp", "interp.InterpreterError": "EInterp", "AssertionError": "EAssert", "ValueError": "EValue"}
SWITCH_STMTS = {"TurnOnXY": ("On", "FList", "FList"), "TurnOffXY": ("Off", "FList", "FList"), "TurnOnXSlice": ("On", "FSlice", "FList"),
                "TurnOffXSlice": ("Off", "FSlice", "FList"), "TurnOnYSlice": ("On", "FList", "FSlice"), "TurnOffYSlice": ("Off", "FList", "FSlice"),
                "TurnOnXYSlice": ("On", "FSlice", "FSlice"), "TurnOffXYSlice": ("Off", "FSlice", "FSlice")}


def _u(e):
    return ast.unparse(e)


class State:
    def __init__(self, interp, frame, stmt, selfn):
        self.interp, self.frame, self.stmt, self.selfn = interp, frame, stmt, selfn
        self.tr = "(tr s)"
        self.cur = ("opt", "(cur s)")
        self.lastway = None            # (pre, ws): tr is known to be pre ++ [AWay ws]
        self.locals = {}               # python name -> ("grid" | "selx" | "sely" | "py", gallina expr)
        self.pystmts = []              # assignments executed for the class table
        self.fresh = itertools.count()
        self.used_params = set()

    def copy(self):
        c = State(self.interp, self.frame, self.stmt, self.selfn)
        c.tr, c.cur, c.lastway, c.locals, c.pystmts, c.fresh, c.used_params = self.tr, self.cur, self.lastway, dict(self.locals), list(self.pystmts), self.fresh, self.used_params
        return c


class MethodTranslator:
    def __init__(self, fn, kind):
        a = [x.arg for x in fn.args.args]
        if len(a) != 4:
            raise Untranslatable(f"{fn.name}: expected (self, interp, frame, stmt)")
        self.fn, self.kind = fn, kind
        self.st0 = State(a[1], a[2], a[3], a[0])
        self.class_expr = None         # (ast of the callee expression, x arg name, y arg name, pystmts)

    # ---- expressions ----
    def operand(self, e, st):
        """frame.get(stmt.F) / frame.get_typed(stmt.F, T) -> (type, gallina)"""
        if isinstance(e, ast.Call) and isinstance(e.func, ast.Attribute) and isinstance(e.func.value, ast.Name) and e.func.value.id == st.frame \
                and e.func.attr in ("get", "get_typed", "get_casted") and e.args and isinstance(e.args[0], ast.Attribute) \
                and isinstance(e.args[0].value, ast.Name) and e.args[0].value.id == st.stmt:
            f = e.args[0].attr
            want = {"set": {"grid": ("grid", "g")}, "move": {"grid": ("grid", "g")}, "switch": {"x_tones": ("selx", "x"), "y_tones": ("sely", "y")}}[self.kind]
            if f not in want:
                raise Untranslatable(f"{self.fn.name}: reads operand {f}")
            st.used_params.add(f)
            return want[f]
        return None

    def is_cur(self, e, st):
        return isinstance(e, ast.Attribute) and e.attr == "curr_pos" and isinstance(e.value, ast.Name) and e.value.id == st.interp

    def is_trace(self, e, st):
        return isinstance(e, ast.Attribute) and e.attr == "trace" and isinstance(e.value, ast.Name) and e.value.id == st.interp

    def is_last(self, e, st):
        return isinstance(e, ast.Subscript) and self.is_trace(e.value, st) and _u(e.slice) == "-1"

    def grid_expr(self, e, st):
        if isinstance(e, ast.NamedExpr):
            t, g = self.grid_expr(e.value, st)
            st.locals[e.target.id] = (t, g)
            return t, g
        if self.is_cur(e, st):
            if st.cur[0] != "some":
                raise Untranslatable(f"{self.fn.name}: interp.curr_pos used as a grid where it may be None")
            return "grid", st.cur[1]
        if isinstance(e, ast.Name) and e.id in st.locals and st.locals[e.id][0] == "grid":
            return st.locals[e.id]
        op = self.operand(e, st)
        if op is not None and op[0] == "grid":
            return op
        raise Untranslatable(f"{self.fn.name}: grid expression {_u(e)}")

    def action_expr(self, e, st):
        if isinstance(e, ast.Call) and isinstance(e.func, ast.Name) and e.func.id == "WayPointsAction":
            arg = e.args[0] if (len(e.args) == 1 and not e.keywords) else e.keywords[0].value if (not e.args and len(e.keywords) == 1 and e.keywords[0].arg == "way_points") else None
            if not (isinstance(arg, ast.List) and len(arg.elts) == 1):
                raise Untranslatable(f"{self.fn.name}: {_u(e)}")
            return "way", self.grid_expr(arg.elts[0], st)[1]
        if isinstance(e, ast.Call) and len(e.args) == 2 and not e.keywords and self.kind == "switch":
            names = []
            for a in e.args:
                if not (isinstance(a, ast.Name) and a.id in st.locals and st.locals[a.id][0] in ("selx", "sely")):
                    raise Untranslatable(f"{self.fn.name}: switch constructed from {_u(a)}")
                names.append(a.id)
            if self.class_expr is not None:
                raise Untranslatable(f"{self.fn.name}: more than one recorded switch")
            self.class_expr = (e.func, names, list(st.pystmts), {n: v for n, v in st.locals.items() if v[0] in ("selx", "sely")})
            gx, gy = st.locals[names[0]][1], st.locals[names[1]][1]
            return "switch", f"(mk_switch (gen_cls k sfx sfy (form_of {gx}) (form_of {gy})) {gx} {gy})"
        raise Untranslatable(f"{self.fn.name}: appended value {_u(e)}")

    # ---- statements ----
    def block(self, stmts, st):
        if not stmts:
            raise Untranslatable(f"{self.fn.name}: a path through the method ends without return")
        s, rest = stmts[0], stmts[1:]
        if isinstance(s, ast.Expr) and isinstance(s.value, ast.Constant):
            return self.block(rest, st)
        if isinstance(s, ast.Raise):
            exc = s.exc.func if isinstance(s.exc, ast.Call) else s.exc
            return f"Err {ERR.get(_u(exc) if exc is not None else '', 'EOther')}"
        if isinstance(s, ast.Return):
            if s.value is not None and _u(s.value) != "()":
                raise Untranslatable(f"{self.fn.name}: returns {_u(s.value)}")
            cur = st.cur[1] if st.cur[0] == "opt" else f"(Some {st.cur[1]})"
            return f"Ok (mkist {st.tr} {cur})"
        if isinstance(s, ast.If):
            t = s.test
            if isinstance(t, ast.Compare) and len(t.ops) == 1 and isinstance(t.ops[0], (ast.Is, ast.IsNot)) and self.is_cur(t.left, st) and _u(t.comparators[0]) == "None":
                none_blk, some_blk = (s.body, s.orelse) if isinstance(t.ops[0], ast.Is) else (s.orelse, s.body)
                if st.cur[0] == "some":
                    return self.block(list(some_blk) + rest, st)
                c = f"c{next(st.fresh)}"
                st_some = st.copy()
                st_some.cur = ("some", c)
                st_none = st.copy()
                return (f"match {st.cur[1]} with\n  | None => {self.block(list(none_blk) + rest, st_none)}\n"
                        f"  | Some {c} => {self.block(list(some_blk) + rest, st_some)}\n  end")
            cond = self.bool_expr(t, st)
            return f"(if {cond} then {self.block(list(s.body) + rest, st.copy())} else {self.block(list(s.orelse) + rest, st.copy())})"
        if isinstance(s, ast.Assert):
            t = s.test
            if isinstance(t, ast.Call) and _u(t.func) == "isinstance" and len(t.args) == 2 and self.is_last(t.args[0], st) and _u(t.args[1]) == "WayPointsAction":
                return self.with_last(st, "EAssert", lambda st2: self.block(rest, st2))
            raise Untranslatable(f"{self.fn.name}: assert {_u(t)}")
        if isinstance(s, ast.Expr) and isinstance(s.value, ast.Call):
            c = s.value
            if isinstance(c.func, ast.Attribute) and c.func.attr == "add_waypoint" and self.is_last(c.func.value, st) and len(c.args) == 1 and not c.keywords:
                def grow(st2):
                    g = self.grid_expr(c.args[0], st2)[1]
                    pre, ws = st2.lastway
                    st2.lastway = (pre, f"({ws} ++ [{g}])")
                    st2.tr = f"({pre} ++ [AWay {st2.lastway[1]}])"
                    return self.block(rest, st2)
                return self.with_last(st, "EOther", grow)
            if isinstance(c.func, ast.Attribute) and c.func.attr == "append" and self.is_trace(c.func.value, st) and len(c.args) == 1 and not c.keywords:
                kind, a = self.action_expr(c.args[0], st)
                old = st.tr
                if kind == "way":
                    st.tr, st.lastway = f"({old} ++ [AWay [{a}]])", (old, f"[{a}]")
                else:
                    st.tr, st.lastway = f"({old} ++ [{a}])", None
                return self.block(rest, st)
            raise Untranslatable(f"{self.fn.name}: call {_u(c)}")
        if isinstance(s, ast.Assign) and len(s.targets) == 1:
            tg = s.targets[0]
            if self.is_cur(tg, st):
                st.cur = ("some", self.grid_expr(s.value, st)[1])
                return self.block(rest, st)
            if isinstance(tg, ast.Name):
                op = self.operand(s.value, st)
                if op is not None:
                    st.locals[tg.id] = op
                    return self.block(rest, st)
                if isinstance(s.value, ast.Name) and s.value.id in st.locals:
                    st.locals[tg.id] = st.locals[s.value.id]
                    return self.block(rest, st)
                if self.is_cur(s.value, st) and st.cur[0] == "some":
                    st.locals[tg.id] = ("grid", st.cur[1])
                    return self.block(rest, st)
                if self.kind == "switch":
                    names = {n.id for n in ast.walk(s.value) if isinstance(n, ast.Name)}
                    if st.interp in names or st.frame in names:
                        raise Untranslatable(f"{self.fn.name}: {_u(s)} reads the interpreter")
                    st.pystmts.append(s)
                    st.locals[tg.id] = ("py", None)
                    return self.block(rest, st)
            raise Untranslatable(f"{self.fn.name}: assignment {_u(s)}")
        raise Untranslatable(f"{self.fn.name}: statement {_u(s)[:80]}")

    def with_last(self, st, err, k):
        """continue with the knowledge that tr = pre ++ [AWay ws]"""
        if st.lastway is not None:
            return k(st)
        n = next(st.fresh)
        pre, ws = f"pre{n}", f"ws{n}"
        st2 = st.copy()
        st2.lastway, st2.tr = (pre, ws), f"({pre} ++ [AWay {ws}])"
        return f"match split_last_way {st.tr} with\n  | None => Err {err}\n  | Some ({pre}, {ws}) => {k(st2)}\n  end"

    def bool_expr(self, t, st):
        if isinstance(t, ast.UnaryOp) and isinstance(t.op, ast.Not):
            return f"(negb {self.bool_expr(t.operand, st)})"
        if isinstance(t, ast.Compare) and len(t.ops) == 1 and isinstance(t.ops[0], (ast.Eq, ast.NotEq)):
            l, r = t.left, t.comparators[0]
            if isinstance(l, ast.Attribute) and l.attr == "shape" and isinstance(r, ast.Attribute) and r.attr == "shape":
                e = f"(shape_eqb {self.grid_expr(l.value, st)[1]} {self.grid_expr(r.value, st)[1]})"
                return e if isinstance(t.ops[0], ast.Eq) else f"(negb {e})"
        raise Untranslatable(f"{self.fn.name}: condition {_u(t)}")

    def translate(self):
        body = self.block(list(self.fn.body) + [ast.Return(value=None)], self.st0)
        return body


def _impl_targets(fn):
    out = []
    for d in fn.decorator_list:
        if isinstance(d, ast.Call) and _u(d.func) in ("impl", "interp.impl") and len(d.args) == 1:
            out.append(_u(d.args[0]).split(".")[-1])
    return out


def class_table(taskgen_path, class_expr):
    """execute the python part (class selection) for the 8 statement classes x 4 value forms -> {(stmt, fx, fy): (k, fx', fy')}"""
    import dataclasses
    import importlib
    from kirin.dialects import ilist
    T = importlib.import_module("bloqade.shuttle.codegen.taskgen")
    from bloqade.shuttle.dialects import action
    func, names, pystmts, sel_locals = class_expr
    samples = {"FSlice": slice(None, None, 2), "FList": ilist.IList([1, 0])}
    tracer = T.ActionTracer()
    table = {}
    for sname in SWITCH_STMTS:
        for fx, fy in itertools.product(("FList", "FSlice"), repeat=2):
            ns = dict(vars(T))
            ns["self"] = tracer
            ns["stmt"] = object.__new__(getattr(action, sname))
            for n, (t, _) in sel_locals.items():
                ns[n] = samples[fx] if t == "selx" else samples[fy]
            try:
                for s in pystmts:
                    exec(compile(ast.Module(body=[s], type_ignores=[]), "<taskgen>", "exec"), ns)
                cls = eval(compile(ast.Expression(body=func), "<taskgen>", "eval"), ns)
            except Exception as e:
                raise Untranslatable(f"class selection raises for {sname}/{fx}/{fy}: {type(e).__name__}: {e}")
            if not (isinstance(cls, type) and dataclasses.is_dataclass(cls)):
                raise Untranslatable(f"class selection yields {cls!r}")
            k = "On" if issubclass(cls, T.TurnOnAction) else "Off" if issubclass(cls, T.TurnOffAction) else None
            flds = {f.name: str(f.type) for f in dataclasses.fields(cls)}
            if k is None or set(flds) != {"x_tone_indices", "y_tone_indices"}:
                raise Untranslatable(f"class selection yields {cls.__name__}")
            form = lambda t: "FSlice" if "slice" in t else "FList"
            # constructor argument order: the two positional arguments are (x, y) iff the dataclass fields are declared in that order
            order = [f.name for f in dataclasses.fields(cls)]
            if order != ["x_tone_indices", "y_tone_indices"]:
                raise Untranslatable(f"{cls.__name__}: field order {order}")
            table[(sname, fx, fy)] = (k, form(flds["x_tone_indices"]), form(flds["y_tone_indices"]))
    return table


PRELUDE = r"""
(* the last element of the trace, when it is a waypoint segment *)
Fixpoint split_last_way (t : list action) : option (list action * list grid) :=
  match t with
  | [] => None
  | [AWay ws] => Some ([], ws)
  | [ASwitch _ _ _ _ _] => None
  | a :: r => match split_last_way r with Some (pre, ws) => Some (a :: pre, ws) | None => None end
  end.
Definition mk_switch (c : onoff * form * form) (x y : sel) : action :=
  match c with (k, fx, fy) => ASwitch k fx fy x y end.

Lemma add_last_split : forall t g,
  add_last t g = match split_last_way t with Some (pre, ws) => Some (pre ++ [AWay (ws ++ [g])]) | None => None end.
Proof.
  induction t as [|a r IH]; intros g; [reflexivity|].
  destruct r as [|b r'].
  - destruct a; reflexivity.
  - assert (E1 : add_last (a :: b :: r') g = match add_last (b :: r') g with Some r0 => Some (a :: r0) | None => None end)
      by (destruct a; reflexivity).
    assert (E2 : split_last_way (a :: b :: r') = match split_last_way (b :: r') with Some (pre, ws) => Some (a :: pre, ws) | None => None end)
      by (destruct a; reflexivity).
    rewrite E1, E2, IH. destruct (split_last_way (b :: r')) as [[pre ws]|]; reflexivity.
Qed.
"""

LEMMAS = r"""
From BS Require Import Proofs.TracerProofs.

(* the property does not tell one error from another ("raises an error and yields no path"): outcomes are compared up to the error kind *)
Definition same_outcome {A} (a b : res A) : Prop :=
  match a, b with Ok x, Ok y => x = y | Err _, Err _ => True | _, _ => False end.
Lemma same_outcome_refl {A} (a : res A) : same_outcome a a.
Proof. destruct a; simpl; auto. Qed.

Lemma gen_cls_ok : forall k sfx sfy fx fy, gen_cls k sfx sfy fx fy = (k, fx, fy).
Proof. intros k sfx sfy fx fy; destruct k, sfx, sfy, fx, fy; reflexivity. Qed.

Ltac cases :=
  repeat match goal with
  | |- context [match cur ?s with _ => _ end] => destruct (cur s)
  | |- context [match split_last_way ?t with _ => _ end] => destruct (split_last_way t) as [[? ?]|]
  | |- context [shape_eqb ?a ?b] => destruct (shape_eqb a b)
  end; cbn [negb same_outcome mk_switch]; rewrite <- ?app_assoc; auto.

Lemma gen_set_eq : forall s g, same_outcome (gen_set s g) (istep s (OSet g)).
Proof. intros s g. unfold gen_set, istep. cases. Qed.

Lemma gen_move_eq : forall s g, same_outcome (gen_move s g) (istep s (OMove g)).
Proof.
  intros s g. unfold gen_move, istep. rewrite add_last_split.
  destruct (cur s) as [c|]; [|cases].
  rewrite ?(shape_eqb_sym g c). cases.
Qed.

Lemma gen_switch_eq : forall s k sfx sfy x y, same_outcome (gen_switch s k sfx sfy x y) (istep s (OSwitch k x y)).
Proof. intros s k sfx sfy x y. unfold gen_switch, istep. rewrite ?gen_cls_ok. cases. Qed.

(* the translated tracer, one statement at a time (the static forms a desugared statement carries do not matter) *)
Definition gen_istep (sfx sfy : form) (s : ist) (o : op) : res ist :=
  match o with
  | OSet g => gen_set s g
  | OMove g => gen_move s g
  | OSwitch k x y => gen_switch s k sfx sfy x y
  | OFail => Err EOther
  end.
Theorem gen_istep_eq : forall sfx sfy s o, same_outcome (gen_istep sfx sfy s o) (istep s o).
Proof. intros sfx sfy s [g|g|k x y|]; [apply gen_set_eq | apply gen_move_eq | apply gen_switch_eq | exact I]. Qed.

Fixpoint gen_irun (sfx sfy : form) (s : ist) (ops : list op) : res ist :=
  match ops with [] => Ok s | o :: r => bind (gen_istep sfx sfy s o) (fun s' => gen_irun sfx sfy s' r) end.
Definition gen_itrace (sfx sfy : form) (ops : list op) : res (list action) := bind (gen_irun sfx sfy init_ist ops) (fun s => Ok (tr s)).
Lemma gen_irun_eq : forall sfx sfy ops s, same_outcome (gen_irun sfx sfy s ops) (irun s ops).
Proof.
  intros sfx sfy ops; induction ops as [|o r IH]; intros s; [reflexivity|].
  cbn [gen_irun irun]. pose proof (gen_istep_eq sfx sfy s o) as H.
  destruct (gen_istep sfx sfy s o) as [s1|e1], (istep s o) as [s2|e2]; simpl in H; try contradiction; cbn [bind].
  - subst s2. apply IH.
  - exact I.
Qed.

(* hence the theorems of C01 / C11 hold of the code as translated *)
Theorem gen_tracer_refines_reference : forall sfx sfy ops, same_outcome (gen_itrace sfx sfy ops) (rtrace ops).
Proof.
  intros sfx sfy ops. rewrite <- (itrace_refines_rtrace ops). unfold gen_itrace, itrace.
  pose proof (gen_irun_eq sfx sfy ops init_ist) as H.
  destruct (gen_irun sfx sfy init_ist ops) as [s1|e1], (irun init_ist ops) as [s2|e2]; simpl in H; try contradiction; cbn [bind same_outcome]; auto.
  subst; reflexivity.
Qed.
Theorem gen_traced_paths_are_well_formed : forall sfx sfy ops p, gen_itrace sfx sfy ops = Ok p -> wfb p = true.
Proof.
  intros sfx sfy ops p H. pose proof (gen_tracer_refines_reference sfx sfy ops) as S. rewrite H in S.
  destruct (rtrace ops) as [q|e] eqn:E; simpl in S; [subst q; exact (rtrace_wf ops p E) | contradiction].
Qed.
Print Assumptions gen_istep_eq.
Print Assumptions gen_tracer_refines_reference.
Print Assumptions gen_traced_paths_are_well_formed.
"""


def translate(taskgen_path):
    tree = ast.parse(open(taskgen_path).read())
    cls = next((n for n in tree.body if isinstance(n, ast.ClassDef) and n.name == "ActionTracer"), None)
    if cls is None:
        raise Untranslatable("no class ActionTracer")
    handlers = {}
    for fn in cls.body:
        if isinstance(fn, ast.FunctionDef):
            tg = _impl_targets(fn)
            if not tg:
                continue
            kind = "set" if tg == ["Set"] else "move" if tg == ["Move"] else "switch" if set(tg) == set(SWITCH_STMTS) and len(tg) == 8 else None
            if kind is None or kind in handlers:
                raise Untranslatable(f"{fn.name} implements {tg}")
            handlers[kind] = fn
    if set(handlers) != {"set", "move", "switch"}:
        raise Untranslatable(f"handlers found: {sorted(handlers)}")
    # what the handlers rely on: add_waypoint appends its argument; the action classes have no constructor hooks
    classes = {n.name: n for n in tree.body if isinstance(n, ast.ClassDef)}
    w = classes.get("WayPointsAction")
    add = next((x for x in (w.body if w else []) if isinstance(x, ast.FunctionDef) and x.name == "add_waypoint"), None)
    if add is None or len(add.args.args) != 2:
        raise Untranslatable("no WayPointsAction.add_waypoint(self, pos)")
    body = [x for x in add.body if not (isinstance(x, ast.Expr) and isinstance(x.value, ast.Constant))]
    if [_u(x) for x in body] != [f"self.way_points.append({add.args.args[1].arg})"]:
        raise Untranslatable("WayPointsAction.add_waypoint is not `self.way_points.append(pos)`")
    for name, c in classes.items():
        bases = {_u(b) for b in c.bases}
        if name == "WayPointsAction" or name == "AbstractAction" or bases & {"AbstractAction", "TurnOnAction", "TurnOffAction"}:
            hooks = {x.name for x in c.body if isinstance(x, ast.FunctionDef)} & {"__init__", "__post_init__", "__new__", "__setattr__", "__getattribute__"}
            if hooks:
                raise Untranslatable(f"{name} defines {sorted(hooks)}")
    out, info = [], {}
    sigs = {"set": "(s : ist) (g : grid)", "move": "(s : ist) (g : grid)", "switch": "(s : ist) (k : onoff) (sfx sfy : form) (x y : sel)"}
    sw = None
    for kind in ("set", "move", "switch"):
        mt = MethodTranslator(handlers[kind], kind)
        body = mt.translate()
        need = {"set": {"grid"}, "move": {"grid"}, "switch": {"x_tones", "y_tones"}}[kind]
        if mt.st0.used_params != need:
            raise Untranslatable(f"{handlers[kind].name} reads operands {sorted(mt.st0.used_params)}")
        info[kind] = handlers[kind].name
        if kind == "switch":
            sw = mt
            if mt.class_expr is None:
                raise Untranslatable("the switch handler records no switch")
        out.append(f"Definition gen_{kind} {sigs[kind]} : res ist :=\n  {body}.\n")
    table = class_table(taskgen_path, sw.class_expr)
    arms = []
    for (sname, fx, fy), (k2, fx2, fy2) in sorted(table.items()):
        k, sfx, sfy = SWITCH_STMTS[sname]
        arms.append(f"  | {k}, {sfx}, {sfy}, {fx}, {fy} => ({k2}, {fx2}, {fy2})")
    cls_def = ("Definition gen_cls (k : onoff) (sfx sfy fx fy : form) : onoff * form * form :=\n  match k, sfx, sfy, fx, fy with\n" + "\n".join(arms) + "\n  end.\n")
    return cls_def + "\n".join(out), info


def generate(repo):
    import os
    hdr = ("(* GENERATED on every run from codegen/taskgen.py (class ActionTracer) by harness/gen/tracer_translate.py *)\n"
           "From Coq Require Import ZArith List String Bool.\nFrom BS Require Import Core.Show Core.Base Model.Tracer.\nImport ListNotations.\n")
    body, info = translate(os.path.join(repo, "src/bloqade/shuttle/codegen/taskgen.py"))
    return hdr + PRELUDE + "\n" + body + LEMMAS, info
