"""Translator: which renderer calls the PathVisualizer issues  ->  Gallina (Gen_C16_src.v)

    visualizer/interp.py            PathVisualizer.initialize
    visualizer/impl/gate.py         TopHatCZ, LocalR, LocalRz, GlobalR, GlobalRz
    visualizer/impl/init.py         Fill
    visualizer/impl/measure.py      Measure
    visualizer/impl/path.py         Play, Parallel, ParallelRuntime.__post_init__

Per statement the translator extracts the SEQUENCE of `_interp.renderer.<method>(<arguments>)` calls and where each argument comes from
(an operand `frame.get(stmt.f)` or an attribute `stmt.a`), for Play the case split on what is played (a Path: one render_path; a
ParallelRuntime: one render_path per member, in order; anything else: an error), for ParallelRuntime that it refuses members that are
not plain paths, and for initialize the loop over `static_traps.items()` calling render_traps(zone, zone_id).  The emitted
vis_event_src / vis_init_src are proved equal to Model.Visualizer.vis_event / vis_init for every event and every table.

Fragment (fail closed): handler bodies made of renderer calls followed by `return (..)`; the Play handler's if / elif / else over
isinstance(path, Path) / isinstance(path, ParallelRuntime); `for p in path.paths: _interp.renderer.render_path(p)`.
"""
import ast
import os


class Untranslatable(Exception):
    pass


def _u(e):
    return ast.unparse(e)


VIS = "src/bloqade/shuttle/visualizer"

# event constructor: (pattern, {source of an argument -> Coq variable})
EVENTS = {
    "TopHatCZ": ("ECz z ub lb", {"frame.get(stmt.zone)": "z", "stmt.upper_buffer": "ub", "stmt.lower_buffer": "lb"}),
    "LocalR": ("ELocalR ax rot z", {"frame.get(stmt.zone)": "z", "frame.get(stmt.axis_angle)": "ax", "frame.get(stmt.rotation_angle)": "rot"}),
    "LocalRz": ("ELocalRz rot z", {"frame.get(stmt.zone)": "z", "frame.get(stmt.rotation_angle)": "rot"}),
    "GlobalR": ("EGlobalR ax rot", {"frame.get(stmt.axis_angle)": "ax", "frame.get(stmt.rotation_angle)": "rot"}),
    "GlobalRz": ("EGlobalRz rot", {"frame.get(stmt.rotation_angle)": "rot"}),
    "Fill": ("EFill zs", {"frame.get_values(stmt.locations)": "zs"}),
    "Measure": ("EMeasure zs", {"frame.get_values(stmt.grids)": "zs"}),
}
# renderer method -> (constructor, arity)
CALLS = {"top_hat_cz": ("RCz", 3), "local_r": ("RLocalR", 1), "local_rz": ("RLocalRz", 1), "global_r": ("RGlobalR", 0), "global_rz": ("RGlobalRz", 0),
         "render_path": ("RPath", 1)}


def _handlers(path, key="path.visualizer"):
    tree = ast.parse(open(path).read())
    out = {}
    for cls in tree.body:
        if not isinstance(cls, ast.ClassDef):
            continue
        regs = [_u(d).replace(" ", "").replace('"', "'") for d in cls.decorator_list]
        if not any(r.endswith(f"register(key='{key}')") for r in regs):
            continue
        for f in cls.body:
            if isinstance(f, ast.FunctionDef):
                for d in f.decorator_list:
                    if isinstance(d, ast.Call) and _u(d.func).endswith("impl") and len(d.args) == 1:
                        if _u(d.args[0]) in out:
                            raise Untranslatable(f"two handlers for {_u(d.args[0])}")
                        out[_u(d.args[0])] = f
    return tree, out


def _interp_name(f):
    a = [x.arg for x in f.args.args]
    if len(a) != 4 or a[2] != "frame" or a[3] != "stmt":
        raise Untranslatable(f"{f.name}: parameters {a}")
    return a[1]


class _Subst(ast.NodeTransformer):
    def __init__(self, alias):
        self.alias = alias

    def visit_Name(self, node):
        return self.alias.get(node.id, node)


def _alias(s, it, env, alias):
    """`name = <it>.renderer` / `name = <a source of an argument>`: a local that only names something -> recorded, True"""
    if not (isinstance(s, ast.Assign) and len(s.targets) == 1 and isinstance(s.targets[0], ast.Name)):
        return False
    v = _Subst(alias).visit(s.value)
    if _u(v) == f"{it}.renderer" or _u(v) in env:
        alias[s.targets[0].id] = v
        return True
    return False


def _call(s, it, env, what, alias=None):
    """a statement `<it>.renderer.m(args)` -> Coq rcall term"""
    if not (isinstance(s, ast.Expr) and isinstance(s.value, ast.Call)):
        return None
    c = _Subst(alias or {}).visit(s.value)
    fn = _u(c.func)
    if not fn.startswith(f"{it}.renderer."):
        return None
    m = fn[len(f"{it}.renderer."):]
    if m not in CALLS or c.keywords:
        raise Untranslatable(f"{what}: renderer call {_u(c)[:80]}")
    ctor, ar = CALLS[m]
    if len(c.args) != ar:
        raise Untranslatable(f"{what}: renderer call {_u(c)[:80]}")
    args = []
    for a in c.args:
        t = _u(a)
        if t not in env:
            raise Untranslatable(f"{what}: argument {t} of {m}")
        args.append(env[t])
    return "(" + " ".join([ctor] + args) + ")" if args else ctor


def _straight(f, env, what):
    """renderer calls then a return -> Coq list of rcalls"""
    it = _interp_name(f)
    calls = []
    body = [s for s in f.body if not (isinstance(s, ast.Expr) and isinstance(s.value, ast.Constant))]
    alias = {}
    for k, s in enumerate(body):
        if _alias(s, it, env, alias):
            continue
        c = _call(s, it, env, what, alias)
        if c is not None:
            calls.append(c)
            continue
        if isinstance(s, ast.Return) and k == len(body) - 1:
            if any(isinstance(n, ast.Attribute) and n.attr == "renderer" for n in ast.walk(s)):
                raise Untranslatable(f"{what}: the return touches the renderer")
            return "[" + "; ".join(calls) + "]"
        raise Untranslatable(f"{what}: statement {_u(s)[:80]}")
    raise Untranslatable(f"{what}: no return")


def generate(repo):
    base = os.path.join(repo, VIS)
    out = {}
    for mod, want in (("gate", ["TopHatCZ", "LocalR", "LocalRz", "GlobalR", "GlobalRz"]), ("init", ["Fill"]), ("measure", ["Measure"])):
        _, hs = _handlers(f"{base}/impl/{mod}.py")
        if sorted(hs) != sorted(want):
            raise Untranslatable(f"impl/{mod}.py handles {sorted(hs)}, expected {sorted(want)}")
        for k, f in hs.items():
            out[k] = _straight(f, EVENTS[k][1], f"impl/{mod}.py {f.name}")
    # ---- path: Play / Parallel / ParallelRuntime ----
    tree, hs = _handlers(f"{base}/impl/path.py")
    if sorted(hs) != ["Parallel", "Play"]:
        raise Untranslatable(f"impl/path.py handles {sorted(hs)}")
    play = hs["Play"]
    it = _interp_name(play)
    body = [s for s in play.body if not (isinstance(s, ast.Expr) and isinstance(s.value, ast.Constant))]
    if not (len(body) == 3 and _u(body[0]) == "path = frame.get(stmt.path)" and isinstance(body[1], ast.If) and isinstance(body[2], ast.Return) and _u(body[2]) == "return ()"):
        raise Untranslatable("Play: not `path = frame.get(stmt.path); if ..; return ()`")
    cases, cur = {}, body[1]
    while True:
        t = _u(cur.test).replace(" ", "")
        if t == "isinstance(path,Path)":
            kind = "path"
        elif t == "isinstance(path,ParallelRuntime)":
            kind = "group"
        else:
            raise Untranslatable(f"Play: test {_u(cur.test)}")
        if kind in cases:
            raise Untranslatable(f"Play: two branches for {kind}")
        cases[kind] = list(cur.body)
        if len(cur.orelse) == 1 and isinstance(cur.orelse[0], ast.If):
            cur = cur.orelse[0]
            continue
        if not (len(cur.orelse) == 1 and isinstance(cur.orelse[0], ast.Raise)):
            raise Untranslatable("Play: the final else does not raise")
        break
    if set(cases) != {"path", "group"}:
        raise Untranslatable(f"Play: cases {sorted(cases)}")
    alias = {}
    single = [_call(s, it, {"path": "p"}, "Play/Path", alias) for s in cases["path"] if not _alias(s, it, {"path": "p"}, alias)]
    if None in single:
        raise Untranslatable("Play/Path: a statement that is not a renderer call")
    alias = {}
    g = [s for s in cases["group"] if not _alias(s, it, {}, alias)]
    if not (len(g) == 1 and isinstance(g[0], ast.For) and isinstance(g[0].target, ast.Name) and _u(g[0].iter) == "path.paths" and not g[0].orelse):
        raise Untranslatable("Play/ParallelRuntime: not `for p in path.paths: ..`")
    var = g[0].target.id
    per_member = [_call(s, it, {var: "p"}, "Play/ParallelRuntime", alias) for s in g[0].body if not _alias(s, it, {var: "p"}, alias)]
    if None in per_member:
        raise Untranslatable("Play/ParallelRuntime: a statement that is not a renderer call")
    par = hs["Parallel"]
    pb = [s for s in par.body if not (isinstance(s, ast.Expr) and isinstance(s.value, ast.Constant))]
    if [_u(s) for s in pb] != ["return (ParallelRuntime(frame.get_values(stmt.paths)),)"]:
        raise Untranslatable("Parallel: not `return (ParallelRuntime(frame.get_values(stmt.paths)),)`")
    pr = next((c for c in tree.body if isinstance(c, ast.ClassDef) and c.name == "ParallelRuntime"), None)
    post = next((f for f in (pr.body if pr else []) if isinstance(f, ast.FunctionDef) and f.name == "__post_init__"), None)
    pt = [_u(s).replace(" ", "") for s in (post.body if post else [])]
    if not (len(pt) == 1 and pt[0].startswith("ifany((notisinstance(p,Path)forpinself.paths)):") and "raise" in pt[0]):
        raise Untranslatable("ParallelRuntime.__post_init__ does not refuse members that are not paths")
    # ---- initialize ----
    tree = ast.parse(open(f"{base}/interp.py").read())
    pvz = next((c for c in tree.body if isinstance(c, ast.ClassDef) and c.name == "PathVisualizer"), None)
    ini = next((f for f in (pvz.body if pvz else []) if isinstance(f, ast.FunctionDef) and f.name == "initialize"), None)
    ib = [s for s in (ini.body if ini else []) if not (isinstance(s, ast.Expr) and isinstance(s.value, ast.Constant))]
    if not (len(ib) == 2 and isinstance(ib[0], ast.For) and _u(ib[0].iter) == "self.arch_spec.layout.static_traps.items()" and _u(ib[1]) == "return super().initialize()"
            and isinstance(ib[0].target, ast.Tuple) and len(ib[0].target.elts) == 2 and len(ib[0].body) == 1):
        raise Untranslatable("initialize: not one loop over static_traps.items() followed by super().initialize()")
    kname, vname = (_u(e) for e in ib[0].target.elts)
    c = ib[0].body[0]
    if not (isinstance(c, ast.Expr) and isinstance(c.value, ast.Call) and _u(c.value.func) == "self.renderer.render_traps" and len(c.value.args) == 2 and not c.value.keywords):
        raise Untranslatable("initialize: the loop body is not one render_traps call")
    env = {kname: "(fst e)", vname: "(snd e)"}
    ia = [env.get(_u(a)) for a in c.value.args]
    if None in ia:
        raise Untranslatable("initialize: render_traps arguments " + _u(c.value))
    cat = lambda l: "[" + "; ".join(l) + "]"
    return f"""(* GENERATED on every run from visualizer/interp.py and visualizer/impl/*.py by harness/gen/vis_translate.py *)
From Coq Require Import String List Bool.
From BS Require Import Core.Show Core.Base Model.Visualizer.
Import ListNotations.

Definition vis_init_src (static_traps : list (string * string)) : list rcall :=
  map (fun e => RTraps {ia[0]} {ia[1]}) static_traps.
Definition vis_event_src (e : event) : res (list rcall) :=
  match e with
  | EPlay (PV p) => Ok {cat(single)}
  | EPlay (PG ms) => match plain_members ms with Ok ps => Ok (flat_map (fun p => {cat(per_member)}) ps) | Err x => Err x end
  | ECz z ub lb => Ok {out['TopHatCZ']}
  | ELocalR ax rot z => Ok {out['LocalR']}
  | ELocalRz rot z => Ok {out['LocalRz']}
  | EGlobalR ax rot => Ok {out['GlobalR']}
  | EGlobalRz rot => Ok {out['GlobalRz']}
  | EFill zs => Ok {out['Fill']}
  | EMeasure zs => Ok {out['Measure']}
  end.

Lemma flat_map_single {{A B}} (f : A -> B) l : flat_map (fun x => [f x]) l = map f l.
Proof. induction l as [|a l IH]; cbn; [reflexivity | rewrite IH; reflexivity]. Qed.
Theorem vis_init_src_eq : forall t, vis_init_src t = vis_init t.
Proof. reflexivity. Qed.
Theorem vis_event_src_eq : forall e, vis_event_src e = vis_event e.
Proof.
  intros e; destruct e as [[p|ms]| | | | | | |]; cbn [vis_event_src vis_event]; try reflexivity.
  all: try (destruct (plain_members ms) as [ps|x]; [rewrite ?flat_map_single|]; reflexivity).
Qed.
Print Assumptions vis_init_src_eq.
Print Assumptions vis_event_src_eq.
"""


if __name__ == "__main__":
    import sys
    print(generate(sys.argv[1] if len(sys.argv) > 1 else "/repo"))
