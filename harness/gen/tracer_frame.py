"""Source reading for C15: which state does a TraceInterpreter carry from one run_trace call to the next, and is all of it reset?

Reads /repo/src/bloqade/shuttle/codegen/taskgen.py with `ast` and reports

  fields        dataclass fields declared on TraceInterpreter (ClassVar excluded)
  written       attributes of the interpreter (`self.X` inside TraceInterpreter, `interp.X` inside the method table) that are assigned,
                augmented, deleted, or mutated in place (a method call or subscript store on the attribute or on an element of it)
  reset         attribute -> source text of the value `initialize` assigns
  returned      source text of what run_trace returns
  class_state   class-level attributes of TraceInterpreter / ActionTracer that some method writes (shared between instances)
  globals       names declared `global` / `nonlocal` anywhere in the module, and module-level names that a function mutates in place

Model/TracerHeap.v has exactly the state (trace, curr_pos) [+ the heap of WayPointsAction cells reachable from trace]; the generated file
states that the code's written attributes are those two, that `initialize` rebinds both to fresh values, that run_trace returns a copy
of the trace, and that nothing else survives a call.  Anything the reader does not understand is reported as a failed obligation.
"""
import ast

MUTATORS = {"append", "extend", "insert", "pop", "remove", "clear", "update", "add", "discard", "setdefault", "sort", "reverse", "popitem",
            "add_waypoint", "__setitem__", "__delitem__"}


def _root_attr(e, names):
    """e = names.X, names.X[...], names.X[...].y ... -> X (the attribute of the interpreter that is reached), else None"""
    while True:
        if isinstance(e, ast.Attribute):
            if isinstance(e.value, ast.Name) and e.value.id in names:
                return e.attr
            e = e.value
        elif isinstance(e, ast.Subscript):
            e = e.value
        elif isinstance(e, ast.Call):
            e = e.func
        else:
            return None


def analyse(path):
    tree = ast.parse(open(path).read())
    classes = {n.name: n for n in tree.body if isinstance(n, ast.ClassDef)}
    if "TraceInterpreter" not in classes or "ActionTracer" not in classes:
        raise ValueError("TraceInterpreter / ActionTracer not found")
    ti, at = classes["TraceInterpreter"], classes["ActionTracer"]
    fields = [s.target.id for s in ti.body if isinstance(s, ast.AnnAssign) and isinstance(s.target, ast.Name) and "ClassVar" not in ast.unparse(s.annotation)]
    written, class_state = set(), set()

    def scan(fn, names, cls):
        cls_attrs = {t.id for s in cls.body if isinstance(s, (ast.Assign, ast.AnnAssign)) for t in (s.targets if isinstance(s, ast.Assign) else [s.target]) if isinstance(t, ast.Name)}
        for node in ast.walk(fn):
            targets = []
            if isinstance(node, ast.Assign):
                targets = node.targets
            elif isinstance(node, (ast.AugAssign, ast.AnnAssign)):
                targets = [node.target]
            elif isinstance(node, ast.Delete):
                targets = node.targets
            elif isinstance(node, ast.NamedExpr):
                targets = [node.target]
            for t in targets:
                for el in (t.elts if isinstance(t, (ast.Tuple, ast.List)) else [t]):
                    a = _root_attr(el, names)
                    if a is not None:
                        written.add(a)
                    a = _root_attr(el, {"self", "cls", cls.name}) if names != {"self"} or True else None
                    if a is not None and a in cls_attrs and cls is at:
                        class_state.add(f"{cls.name}.{a}")
            if isinstance(node, ast.Call) and isinstance(node.func, ast.Attribute) and node.func.attr in MUTATORS:
                a = _root_attr(node.func.value, names)
                if a is not None:
                    written.add(a)
                a2 = _root_attr(node.func.value, {"self", "cls", cls.name})
                if a2 is not None and a2 in cls_attrs and cls is at:
                    class_state.add(f"{cls.name}.{a2}")
            if isinstance(node, ast.Call) and isinstance(node.func, ast.Name) and node.func.id == "setattr":
                written.add("<setattr>")

    for fn in [s for s in ti.body if isinstance(s, ast.FunctionDef)]:
        scan(fn, {"self"}, ti)
    for fn in [s for s in at.body if isinstance(s, ast.FunctionDef)]:
        params = {a.arg for a in fn.args.args if a.annotation is not None and "TraceInterpreter" in ast.unparse(a.annotation)} or {"interp", "_interp"}
        scan(fn, params, at)
    # class-level attributes of the interpreter that are not dataclass fields but are written through self
    ti_class_attrs = {t.id for s in ti.body if isinstance(s, ast.Assign) for t in s.targets if isinstance(t, ast.Name)} | \
                     {s.target.id for s in ti.body if isinstance(s, ast.AnnAssign) and isinstance(s.target, ast.Name) and "ClassVar" in ast.unparse(s.annotation)}
    class_state |= {f"TraceInterpreter.{a}" for a in written if a in ti_class_attrs}
    init = next((s for s in ti.body if isinstance(s, ast.FunctionDef) and s.name == "initialize"), None)
    reset = {}
    if init is not None:
        for s in init.body:
            if isinstance(s, ast.Assign) and len(s.targets) == 1:
                a = _root_attr(s.targets[0], {"self"})
                if a is not None and isinstance(s.targets[0], ast.Attribute):
                    reset[a] = ast.unparse(s.value)
        calls_super = any(isinstance(s, ast.Return) and "super().initialize()" in ast.unparse(s) for s in init.body)
    else:
        calls_super = False
    rt = next((s for s in ti.body if isinstance(s, ast.FunctionDef) and s.name == "run_trace"), None)
    returned = [ast.unparse(n.value) for n in ast.walk(rt) if isinstance(n, ast.Return) and n.value is not None] if rt else []
    # the shape of run_trace: a guard that only raises, one run of the method, the return
    rt_shape = []
    for st in (rt.body if rt else []):
        if isinstance(st, ast.Expr) and isinstance(st.value, ast.Constant):
            continue
        if isinstance(st, ast.If) and not st.orelse and all(isinstance(b, ast.Raise) for b in st.body):
            rt_shape.append("guard")
        elif isinstance(st, ast.Assign) and all(isinstance(t, ast.Name) for t in st.targets) and not any(
                isinstance(n, ast.Attribute) and isinstance(n.value, ast.Name) and n.value.id == "self" and isinstance(n.ctx, ast.Store) for n in ast.walk(st)) and not any(
                isinstance(n, ast.Call) and isinstance(n.func, ast.Attribute) and isinstance(n.func.value, ast.Name) and n.func.value.id == "self" for n in ast.walk(st)):
            # a local computed for a guard (no attribute of the instance is written, no method of it is called)
            rt_shape.append("guard")
        elif isinstance(st, ast.Expr) and ast.unparse(st.value).startswith("self.run("):
            rt_shape.append("run")
        elif isinstance(st, ast.Return):
            rt_shape.append("return")
        else:
            rt_shape.append("other: " + ast.unparse(st)[:60])
    glob = sorted({nm for n in ast.walk(tree) if isinstance(n, (ast.Global, ast.Nonlocal)) for nm in n.names})
    # module-level containers mutated from inside functions / methods
    module_names = {t.id for s in tree.body if isinstance(s, ast.Assign) for t in s.targets if isinstance(t, ast.Name)}
    for fn in ast.walk(tree):
        if isinstance(fn, ast.FunctionDef):
            for node in ast.walk(fn):
                if isinstance(node, ast.Call) and isinstance(node.func, ast.Attribute) and node.func.attr in MUTATORS and isinstance(node.func.value, ast.Name) and node.func.value.id in module_names:
                    glob.append(node.func.value.id)
                if isinstance(node, (ast.Assign, ast.AugAssign)):
                    for t in (node.targets if isinstance(node, ast.Assign) else [node.target]):
                        if isinstance(t, ast.Subscript) and isinstance(t.value, ast.Name) and t.value.id in module_names:
                            glob.append(t.value.id)
    decorators = {s.name: [ast.unparse(d) for d in s.decorator_list] for s in list(ti.body) + list(at.body) if isinstance(s, ast.FunctionDef)}
    memo = sorted(n for n, ds in decorators.items() if any("cache" in d or "lru" in d for d in ds))
    return {"fields": fields, "written": sorted(written), "reset": reset, "initialize_calls_super": calls_super, "returned": returned,
            "class_state": sorted(class_state), "globals": sorted(set(glob)), "memoised_methods": memo, "run_trace_shape": rt_shape}


def obligations(info):
    """-> [(name, ok, detail)]"""
    out = []
    FRESH = {"None", "[]", "{}", "set()", "0", "0.0", "False", "True", "()", "''", '""', "dict()", "list()"}
    unreset = [a for a in info["written"] if info["reset"].get(a) not in FRESH]
    out.append(("source: every attribute a trace writes on the interpreter is rebound by initialize to a fresh constant (so no value written "
                "by one call is visible to the next; the model's trace and curr_pos are among them), and initialize runs the base initialisation",
                not unreset and {"trace", "curr_pos"} <= set(info["written"]) and info["reset"].get("trace") == "[]" and info["reset"].get("curr_pos") == "None"
                and info["initialize_calls_super"], f"written: {info['written']}, reset: {info['reset']}, super: {info['initialize_calls_super']}"))
    undeclared = [a for a in info["written"] if a not in info["fields"]]
    out.append(("source: every written attribute is a declared field of TraceInterpreter", not undeclared, f"undeclared: {undeclared}"))
    out.append(("source: run_trace is `guards that only raise; self.run(...); return a copy of the trace`",
                info["returned"] in (["self.trace.copy()"], ["list(self.trace)"]) and [x for x in info["run_trace_shape"] if x != "guard"] == ["run", "return"],
                f"returned: {info['returned']}, shape: {info['run_trace_shape']}"))
    out.append(("source: no class-level, module-level or memoised state is written while tracing",
                not info["class_state"] and not info["globals"] and not info["memoised_methods"],
                f"class: {info['class_state']}, module: {info['globals']}, memoised: {info['memoised_methods']}"))
    return out


def coq_file(info):
    q = lambda l: "[" + "; ".join('"%s"' % x for x in l) + "]"
    return ("(* GENERATED on every run from codegen/taskgen.py by harness/gen/tracer_frame.py *)\n"
            "From Coq Require Import String List Bool.\nImport ListNotations.\nLocal Open Scope string_scope.\n"
            f"Definition written_attributes : list string := {q(info['written'])}.\n"
            f"Definition reset_attributes : list string := {q(sorted(info['reset']))}.\n"
            "Definition model_state : list string := [\"curr_pos\"; \"trace\"].     (* hcur, htr (+ the heap reachable from it) of Model/TracerHeap.v *)\n"
            "Definition subset (a b : list string) : bool := forallb (fun x => existsb (String.eqb x) b) a.\n"
            "Lemma model_state_is_written_state : subset model_state written_attributes = true.\n"
            "Proof. vm_compute; reflexivity. Qed.\n"
            "Lemma every_written_attribute_is_reset : subset written_attributes reset_attributes = true.\n"
            "Proof. vm_compute; reflexivity. Qed.\n")
