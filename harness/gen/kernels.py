"""Defining kirin kernels from generated source text, and evaluating the same source
natively (decorators = identity, DSL wrappers = recording stubs)."""
import ast
import itertools
import linecache
import types as pytypes
from typing import Any

_counter = itertools.count()


def _register(src):
    fn = f"<verif-gen-{next(_counter)}>"
    linecache.cache[fn] = (len(src), None, src.splitlines(True), fn)
    return fn


def kirin_namespace(**extra):
    from bloqade.geometry.dialects import grid
    from kirin.dialects import ilist
    from bloqade.shuttle import action, spec, schedule, gate, init, measure, filled
    from bloqade.shuttle.prelude import move, tweezer
    from typing import Literal
    ns = dict(tweezer=tweezer, move=move, action=action, grid=grid, spec=spec, ilist=ilist, Any=Any, Literal=Literal,
              schedule=schedule, gate=gate, init=init, measure=measure, filled=filled)
    ns.update(extra)
    return ns


def define(src, **extra):
    """exec `src` (kernels decorated with @tweezer/@move...) and return its namespace."""
    fn = _register(src)
    ns = kirin_namespace(**extra)
    exec(compile(src, fn, "exec"), ns)
    return ns


class _ListToIList(ast.NodeTransformer):
    def visit_List(self, node):
        self.generic_visit(node)
        return ast.copy_location(
            ast.Call(func=ast.Name(id="__IList", ctx=ast.Load()), args=[node], keywords=[]), node)


def define_native(src, ns):
    """exec the same source natively; list literals become ILists as in kirin."""
    tree = ast.parse(src)
    tree = ast.fix_missing_locations(_ListToIList().visit(tree))
    from kirin.dialects import ilist
    ns = dict(ns)
    ns["__IList"] = ilist.IList
    exec(compile(tree, "<verif-native>", "exec"), ns)
    return ns


class AodRecorder:
    """Native stand-ins for the `action`, `grid`, `spec` modules."""

    def __init__(self, arch_spec):
        from bloqade.geometry.dialects.grid import Grid
        from kirin.dialects import ilist
        self.ops = []
        rec = self
        S = arch_spec

        class NativeError(Exception):
            pass
        self.NativeError = NativeError

        from gen import native_filled as NF

        def _grid(g):
            # a filled grid of the native evaluation becomes the library's class here, by its constructor alone
            if isinstance(g, NF.NativeFilled):
                return g.real()
            if not isinstance(g, Grid):
                raise NativeError("not a grid")
            return g

        def _geo(g):
            if not isinstance(g, (Grid, NF.NativeFilled)):
                raise NativeError("not a grid")
            return g

        action = pytypes.SimpleNamespace(
            ALL=slice(None),
            set_loc=lambda g: rec.ops.append(("set", _grid(g))),
            move=lambda g: rec.ops.append(("move", _grid(g))),
            turn_on=lambda x, y: rec.ops.append(("on", x, y)),
            turn_off=lambda x, y: rec.ops.append(("off", x, y)),
        )

        def _f(v):
            if not isinstance(v, float):
                raise NativeError("float expected")
            return v

        def _il(v):
            if not isinstance(v, ilist.IList):
                raise NativeError("IList expected")
            return v

        grid = pytypes.SimpleNamespace(
            Grid=Grid,
            from_positions=lambda xs, ys: Grid.from_positions(x_positions=xs, y_positions=ys),
            shift=lambda g, dx, dy: _geo(g).shift(_f(dx), _f(dy)),
            scale=lambda g, sx, sy: _geo(g).scale(_f(sx), _f(sy)),
            repeat=lambda g, nx, ny, gx, gy: _geo(g).repeat(nx, ny, _f(gx), _f(gy)),
            sub_grid=lambda g, xs, ys: _geo(g).get_view(_il(xs), _il(ys)),
            shape=lambda g: _geo(g).shape,
            get_xpos=lambda g: ilist.IList(list(_geo(g).x_positions)), get_ypos=lambda g: ilist.IList(list(_geo(g).y_positions)),
        )

        def _parent(g):
            if not isinstance(g, NF.NativeFilled):
                raise NativeError("filled grid expected")
            return g.parent
        filled = pytypes.SimpleNamespace(
            vacate=lambda g, l: NF.vacate(_geo(g), list(l)), fill=lambda g, l: NF.fill(_geo(g), list(l)), get_parent=_parent,
            shift=lambda g, dx, dy: _geo(g).shift(_f(dx), _f(dy)), scale=lambda g, a, b: _geo(g).scale(_f(a), _f(b)),
            repeat=lambda g, a, b, c, d: _geo(g).repeat(a, b, _f(c), _f(d)))

        def _lookup(table, key, what):
            v = table.get(key)
            if v is None:
                raise NativeError(f"{what} {key} not found")
            return NF.wrap(v)

        spec = pytypes.SimpleNamespace(
            get_static_trap=lambda *, zone_id: _lookup(S.layout.static_traps, zone_id, "zone"),
            get_special_grid=lambda *, grid_id: _lookup(S.layout.special_grid, grid_id, "special grid"),
            get_int_constant=lambda *, constant_id: _lookup(S.int_constants, constant_id, "int"),
            get_float_constant=lambda *, constant_id: _lookup(S.float_constants, constant_id, "float"),
        )
        # the list functions of kirin's ilist module that kernels use, evaluated natively
        ilist_ns = pytypes.SimpleNamespace(IList=ilist.IList, range=lambda *a: ilist.IList(list(range(*a))),
                                           map=lambda f, l: ilist.IList([f(x) for x in _il(l).data]),
                                           for_each=lambda f, l: [f(x) for x in _il(l).data] and None)
        self.ns = dict(action=action, grid=grid, spec=spec, filled=filled, ilist=ilist_ns, Any=Any,
                       tweezer=lambda f=None, **kw: (f if f is not None else (lambda g: g)))
