NOTE_COMMON = ("Trusted: Coq 8.16.1 kernel + vm_compute; no axioms (Print Assumptions: closed); the hand-written model is tied "
               "to the code only by this run's correspondence check and reflected tables (sampled/enumerated, not proved); "
               "Python harness encoders/comparator; kirin, bloqade.geometry, CPython not verified.")

CHECKS = {
    "C01": {
        "text": "Theorem (all op sequences, i.e. whatever loops/branches/helpers a terminating kernel executes): the statement-by-statement "
                "model of ActionTracer/TraceInterpreter equals the reference AOD model in segment vocabulary, fails exactly for AOD use "
                "before set_loc or a shape-changing move, and its internal assert is unreachable. Tables of recorded action classes are "
                "reflected from the live code each run and re-checked by Coq lemmas; the model is tied to run_trace by evaluating it (vm_compute) "
                "on the op lists of generated kernels (native evaluation of the same source) and on ALL op sequences up to length 3/4 through "
                "an interpreter kernel. The three handlers of ActionTracer are ALSO translated from taskgen.py on every run by symbolic execution of "
                "their statement lists (harness/gen/tracer_translate.py, fail-closed; the finite class-selection part is executed for all 32 cases) "
                "and the translation is proved to have the outcome of the hand model on every state and statement (build/C01/Gen_C01_src.v: "
                "gen_istep_eq, gen_tracer_refines_reference), so the refinement holds of the handlers as written. Every generated kernel with a "
                "lookup is also compiled with @tweezer(arch_spec=S) and traced without a spec.",
        "note": NOTE_COMMON + " kirin's lowering/type inference/control flow produce the op sequence and are exercised, not verified.",
        "technique": "Coq refinement proof (simulation invariant) + reflected tables + vm_compute correspondence on generated kernels",
    },
    "C02": {
        "text": "Theorems for ALL paths: reverse_path is an involution, reverses the waypoint order, flips every switch keeping class forms and "
                "tone fields, inverts position-wise; schedule-level reverse is an involution and f / reverse(f) yield mutually reversed paths for "
                "an arbitrary tracer. inv() of all classes is reflected from the live code (object identity of fields) and re-checked in Coq; "
                "reverse_path is compared on generated and traced paths; schedule level is run on the three Gen routes. The nine inv() methods, reverse_path "
                "and ScheduleInterpreter.reverse are ALSO translated from source on every run (harness/gen/taskgen_translate.py, fail-closed) and the "
                "translation is proved equal to the hand model (build/C02/Gen_C02_src.v), so the laws hold of the code as written.",
        "note": NOTE_COMMON,
        "technique": "Coq proofs by list induction + reflected inv() table + vm_compute correspondence",
    },
    "C03": {
        "text": "Theorem for ALL nesting shapes: the model of the pass pipeline (Canonicalize in kirin's post-order walk, call rewriting, "
                "RewriteScheduleRegion with its use-count rule for group members) equals the specification; the specification keeps every call "
                "exactly once, in source order, with callee/positional/keyword arguments untouched, gives one play per top-level call or block and "
                "merges directly nested same-kind blocks. The pass model is tied to the real pipeline by abstracting the compiled IR (following "
                "SSA edges from every path.Play) for all block shapes up to depth/width/calls 2/2/4 (quick) or 3/3/5 (thorough) and random "
                "programs with gates, fills, if/for; the IR is also scanned for surviving schedule blocks and device calls.",
        "note": NOTE_COMMON + " kirin's CSE/DCE and Python-to-IR lowering are exercised, not verified; auto blocks cannot be executed, so they are compared structurally only.",
        "technique": "Coq refinement proof over nested blocks (custom induction) + IR abstraction correspondence",
    },
    "C04": {
        "text": "PROVED: dead-code elimination and common-subexpression elimination restricted to Pure statements preserve the executed event "
                "list of every well-formed SSA program (arbitrary values, events, statement kinds) provided no Pure statement emits an event; "
                "that premise is re-checked on every run against the trait table reflected from every statement class of the move dialect "
                "group. The source-level semantics of move programs (Model.MoveLang: device calls with kirin's argument ordering, merged "
                "parallel blocks, gates, for/if, subroutines and closures with early return) is fuel-independent and deterministic. "
                "PROVED: with exactly the callees admitted by AggressiveUnroll.inline_heuristic (no return nested in the callee's control flow) inlined "
                "the way kirin's Inline pastes bodies, every program executes what its source executes; inlining every callee (the pinned heuristic) "
                "is refuted by a witness; the live heuristic is compared with the model's on every generated subroutine. "
                "NOT PROVED (exercised): kirin's Default/Fold/Inline/UnrollScf passes and interpreter - every generated program x argument tuple "
                "x route (quick: strength-2 covering array of 10 routes, thorough: all 2^5 decorator combinations + AggressiveUnroll + pipeline "
                "re-run) is executed and its event log compared with the natively evaluated source, whose labels are compared with "
                "Model.MoveLang evaluated in Coq.",
        "note": NOTE_COMMON + " Known finding recorded: @move(aggressive=True) (kirin's aggressive fold) ends the caller at an inlined early return.",
        "technique": "Coq proofs of pass-level event preservation + reflected purity table + differential over compilation routes against a Coq source semantics",
    },
    "C05": {
        "text": "Theorems for an ARBITRARY tracer, value, kernel and spec type: the plain interpreter with the recorded spec and the spec-carrying "
                "interpreter compute the same outcome; folding returns a path only if it is the run-time path and equals run-time evaluation on "
                "device tasks; with no spec, a non-device callee or a failing kernel no route returns a path (run time raises, folding leaves the "
                "call or raises); the reversed wrapper yields the reversed path with the same tones; EVERY permutation of the keyword pairs gives "
                "the same ordered argument list = positionals followed by the remaining parameters in signature order (missing keyword = error). "
                "Tie: kernels of arity 0-4 whose path encodes each argument, every split and every keyword permutation, both directions, "
                "constant and non-constant operands, on all routes; permute compared with the argument order read back from the played paths. The three gen methods (path/concrete.py, spec_interp.py, constprop.py) are ALSO translated from source on every run by symbolic execution with case splits on the recorded spec, the lattice values and the kind of task (harness/gen/gen3_translate.py, fail-closed) and proved equal to gen_main / gen_spec / gen_constprop (build/C05/Gen_C05_src.v), so the route-independence theorem holds of the methods as written.",
        "note": NOTE_COMMON + " kirin's const.Propagate/Fold machinery that decides WHEN folding happens is exercised, not verified.",
        "technique": "Coq proofs parametric in the tracer (incl. permutation invariance) + exhaustive small-arity correspondence",
    },
    "C06": {
        "text": "Theorem: if the injection rule has a case for every lookup kind then, for EVERY program (table of methods), environment, "
                "expression and fuel, the plain interpreter on the injected program computes the injected image of what the spec-carrying "
                "interpreter computes on the original - at any call depth, through recursion and through closures capturing looked-up values; "
                "closure-free results are literally equal; names absent from the spec fail on both routes; a kind without a case provably breaks. "
                "The rule's coverage of the four kinds (and that absent names are left in place) is reflected from the live code on every run "
                "and the totality lemma re-proved. Tie: generated tables of 2-4 @move kernels (recursive subroutines with depth parameters, "
                "closures returned and called, all four lookup kinds, absent names in live positions) compiled with arch_spec (fold on/off) and "
                "called through Method.__call__ vs the unspecialised kernels under ArchSpecInterpreter vs the Coq model. Which table each lookup kind is answered from - by InjectSpecRule at compile time and by the ArchSpecMethods getters at run time - is ALSO read from source on every run (harness/gen/spec_translate.py, fail-closed) and proved equal to the model's spec_lookup for every spec, kind and name (build/C06/Gen_C06_src.v).",
        "note": NOTE_COMMON + " kirin's CallGraphPass cloning and the Fold that follows injection are exercised, not verified.",
        "technique": "Coq proof by fuel induction with an injection map on values (closures) + reflected rule table + differential",
    },
    "C07": {
        "text": "Theorems about a store model (methods = opaque body + spec tag + call edges; compiling rewrites the root in place and redirects its "
                "calls to fresh specialised clones): every existing method other than the root is untouched; everything reachable from a compiled "
                "root is the root or a fresh clone and carries that root's spec; a later compilation of another root changes nothing an earlier "
                "compiled root can reach; the store stays well formed, so this holds along every history. Tie: histories (every order of compiling "
                "2-3 kernels with every assignment of 2 specs, interleaved with executions, re-compilation) replayed on real kernels that share "
                "4 generated subroutines and the library's move_by_waypoints; after EVERY step the printed IR and behaviour of every shared "
                "subroutine, the events of every compiled kernel under the plain interpreter (vs the unspecialised kernel under its spec on a "
                "pristine world) and deep equality + hash of both specs are checked; the compile steps are replayed on the Coq store model.",
        "note": NOTE_COMMON + " kirin's CallGraphPass/Method.similar perform the cloning and are exercised, not verified; the model clones every method (superset of the call graph); spec immutability is checked on the Python side only.",
        "technique": "Coq proofs over a store/call-graph model (frame, reachability invariant) + history replay with full observation after each step",
    },
    "C08": {
        "text": "'Physically executable' is defined by an AOD simulator (Model.Aod: trap sites, occupancy, held atoms, tone positions; refuses a "
                "spot lit off a trap site, a release onto a non-site or an occupied site, a jump of tones while atoms are held, two lit tones of one "
                "axis at the same coordinate, a waypoint of the wrong dimensions and a switch before any waypoint). PROVED for ALL site sets, "
                "occupancies and path lists: every accepted run conserves the atoms (none lost, none duplicated); accepted releases are onto vacant "
                "trap sites; accepted spots light up on trap sites; lit tweezers never coincide; jumps while holding and wrong dimensions are "
                "refused. PROVED for the CZ move, for ALL grid sizes, coordinates, waypoint lists, trap sets and occupancies: a run of the round-trip "
                "shape (pick everything up on a grid of trap sites, travel along any waypoints, travel back along the reversed list, release) is "
                "accepted and leaves every site holding the atom it held before; that the library's CZ moves (single_col_zone.cz_move, "
                "stdlib.moves.default_move_cz) play exactly this shape is decided per call by a recogniser evaluated in Coq on every enumerated valid "
                "call. PROVED likewise for the transport shape of two_col_zone.rearrange and of move_by_waypoints with pick and drop (pick up on a grid "
                "of trap sites, travel, release on the last grid whose sites are vacant or vacated by the move): accepted, the atom under tone (i,j) "
                "ends on the (i,j) site of the last grid, the source sites are vacated, every other site is unchanged; recognised per call in Coq; "
                "and for the same transport with only the tones of two index lists lit (gemini.logical.vertical_shift via move_by_shift). "
                "PROVED for the library kernels themselves (Model/LibMoves.v = the played paths of single_col_zone.cz_move / stdlib.moves.default_move_cz and "
                "two_col_zone.rearrange as functions of the zone's coordinates and the call's index lists, compared with the implementation - verdict and "
                "paths - on every enumerated call): the CZ move accepts exactly the documented calls, and EVERY call it accepts (any zone with ascending "
                "coordinates, any index lists, shifts and occupancy) is executable and returns every atom; every accepted rearrange call whose parking "
                "coordinates are pairwise different and whose destination is vacant delivers zone[src] to zone[dst]; on a zone where parking is "
                "possible (parking_ok, evaluated in Coq for every enumerated layout) EVERY rearrange call meeting the documented preconditions is accepted, "
                "strict and delivers (C08_rearrange_documented_call_delivers), and EVERY layout two_col_zone.get_spec builds with pitch > 6 and a positive gate "
                "spacing is such a zone, for any number of pairs and rows (C08_rearrange_on_every_two_column_layout, over Model.Builders; the real zone "
                "coordinates are compared with the builder model per layout); 'every accepted rearrange call is "
                "executable' is REFUTED in Coq with a witness (pair pitch 6: known finding). "
                "move_by_waypoints is modelled too (waypoints_model, compared per call incl. waypoint lists of mixed shapes): with pick and drop its path is a "
                "transport for ANY waypoints, and a move split over two calls glues into the path of one call over the concatenated waypoints. "
                "PROVED for moves played in several legs (move_by_waypoints with pick on the first call and drop on the last): consecutive paths glued at "
                "the waypoint they share simulate EXACTLY like the sequence of legs, from every state (merge_legs_sound), so the transport theorem "
                "applies through the recogniser legs_transport_ok, evaluated in Coq on every two- and three-leg call. "
                "PROVED too (AodPre.v): the documented preconditions (positive spacings, ascending in-range index lists) imply the hypotheses of those "
                "theorems, and when the played path starts on zone[src_x, src_y] and ends on zone[dst_x, dst_y] (documented_transport, evaluated in Coq "
                "for every accepted valid rearrange call) the atom of zone[src_x[i], src_y[j]] ends on zone[dst_x[i], dst_y[j]]. "
                "DECIDED BY ENUMERATION for the rest (the meaning of a single pick/drop flag, which grids the waypoint and Gemini moves "
                "compute, gemini.logical.gr_zero_to_one) and for invalid inputs: run on the layout the module "
                "builds for all layout sizes/spacings and index lists within the stated bounds (plus unsorted, duplicate, out-of-range, negative, "
                "empty lists); each accepted call's played paths go through the simulator with the compatible occupancy; valid input must be "
                "accepted, executable and end where the docstring says, invalid input must be rejected or still be executable. The Gallina "
                "simulator is run by vm_compute on the same paths and must print the same verdict and final occupancy as the Python simulator.",
        "note": NOTE_COMMON + " The library kernels are executed (kirin interpreter), not modelled in Coq: for the CZ move, rearrange, pick-and-drop waypoint moves and the Gemini vertical shift the all-inputs claim rests on the parametric theorems plus the per-call shape recognition over the enumerated calls (these kernels are straight-line code, so the shape of their path does not depend on the input); for the CZ move, rearrange and move_by_waypoints the kernels are also modelled in Gallina (Model/LibMoves.v, nat index lists, exact rationals) and that model is tied to the code by comparing verdict and paths on every enumerated call; negative indices, a single pick/drop flag on its own and the Gemini moves (a fixed layout: exhaustive in the thorough tier) stay enumerated. The simulator is this development's definition of executability (no such oracle exists in the repo).",
        "technique": "Coq theorems over an AOD simulator model (conservation/acceptance invariants; parametric round-trip and transport theorems for the CZ / rearrange / waypoint moves with verified recognisers) + exhaustive bounded enumeration of library calls + vm_compute correspondence of the two simulators",
    },
    "C09": {
        "text": "Theorems about a model of has_quantum_runtime over an abstraction of the compiled IR: if it answers False then NO execution - any "
                "branch, any trip count, any dynamically resolved callee, call depth bounded exactly like the interpreters' max_depth - performs a "
                "device-visible operation (so an acting kernel gets True or a refusal); a call graph without device-visible statements and "
                "without dynamically resolved calls gets False; a reachable dynamic call makes the query refuse. Tie: each of the eight "
                "device-visible statements and a quiet statement at 23 positions (branches, returning ifs, loops with carried variables up to "
                "depth 3, subroutines incl. recursive, closures called / returned / never called, before and after dynamic calls); the "
                "implementation's answer is compared with the model on the abstracted IR, and 'acts' is established by executing every kernel "
                "for all arguments of a small domain; single-statement answers of every statement kind are reflected. On every run the handlers of "
                "analysis/runtime.py and the four dialect runtime tables are translated from source (fail-closed) into one-step Gallina "
                "functions proved equal to the model's scan for every statement and every nested contribution.",
        "note": NOTE_COMMON + " 'dynamically resolved' is read as: the compiled call carries no constant hint for its callee (DESIGN.md section 10).",
        "technique": "Coq soundness proof of the analysis model against a nondeterministic execution relation + IR-abstraction correspondence",
    },
    "C10": {
        "text": "Two theorems carry the claim. (1) For EVERY straight-line program the analysis model tracks provenance soundly: a value "
                "attributed to zone z is exactly z (SpecZone) or a chain of views over z (GetItemOfZone/GetSubGridOfZone layers), a value flagged "
                "invalid is never computed, containers and non-grid results claim nothing - folded constants included (zone index lookup of the "
                "grid / of a SubGrid's parent). (2) Geometry over exact rationals: a view with ascending in-range indices shows only positions of "
                "its parent. The unrestricted form of (2) is refuted in Coq with a witness (index list [2;0;1]) - a recorded known finding whose "
                "root cause is bloqade.geometry's SubGrid arithmetic. Tie: the analysis model is compared with ZoneAnalysis entries for every "
                "top-level SSA value of generated kernels (two specs, unfolded and folded), and site containment is checked on run-time values "
                "recorded by an instrumented interpreter. On every run the transfer functions (the handlers of impl/{spec,grid,py}.py, "
                "get_grid_lattice, the fallback, lattice.py's hierarchy) are translated from source (fail-closed) and proved equal to the model's.",
        "note": NOTE_COMMON + " Values inside branches/loops/callees get no entries from the analysis (no method tables for scf/func) and are outside the model.",
        "technique": "Coq soundness proof of the abstract transfer functions (provenance) + exact-rational geometry lemma + correspondence",
    },
    "C11": {
        "text": "Theorems: every path the tracer model yields is well formed (invariant proved for all op sequences) and reversal preserves "
                "well-formedness. wfb is evaluated in Coq on every path produced by generated kernels, library kernels and their reversals; a Python "
                "twin of the predicate is the search oracle, and ill-formed canaries must be rejected by both. The handlers of ActionTracer are "
                "translated from taskgen.py on every run and proved to behave like the model (build/C11/Gen_C11_src.v: "
                "gen_traced_paths_are_well_formed). Path.path of PLAYED paths is checked on the three path.gen routes, forward and reversed.",
        "note": NOTE_COMMON + " The tracer model is tied to taskgen.py by C01's correspondence and by the translation.",
        "technique": "Coq invariant proof over all op sequences + vm_compute evaluation of wfb on implementation paths",
    },
    "C12": {
        "text": "13 theorems about a model of FilledGrid that is parametric in the underlying grid type and its operations: positions = sites of "
                "the underlying grid minus vacancies; fill/vacate cumulative and root-preserving; shift/scale transform the root and keep the "
                "vacancy set; views re-index the pattern for ALL index selections (repeated, reversed); repeat tiles it for any shape (exists- and "
                "mod-form); equality iff same root and same vacancy set. Tied to the code by evaluating the model over an exact-rational Grid model "
                "on every vacancy subset of small grids x a list of second operations and on random chains up to length 8; the property's "
                "statements are also evaluated directly on the implementation, and kernel-level statements are compared with the methods. Class FilledGrid (fill, vacate, get_view, shift, scale, repeat, positions, __eq__, __hash__) is ALSO translated from source on every run (harness/gen/filled_translate.py, fail-closed) and proved equal to the hand model (build/C12/Gen_C12_src.v), so the 13 theorems hold of the methods as written.",
        "note": NOTE_COMMON + " Floats are modelled by exact rationals; generators use dyadic values so both coincide. bloqade.geometry.Grid is modelled (GridQ), not verified.",
        "technique": "Coq proofs over a parametric model + vm_compute correspondence over an exact-rational grid model",
    },
    "C13": {
        "text": "Theorems about a model of arch.py: Layout equality over the field list it reads is an equivalence, distinguishes any differing "
                "field it reads, and equal layouts agree on every hashed field when hash reads only eq fields (both field lists are reflected "
                "behaviourally from the live code each run and the inclusion / completeness lemmas re-proved); ArchSpec equality is an equivalence; "
                "the constructor accepts exactly the layouts in which no two names share a grid; for an accepted layout every table grid is found "
                "under a name that maps back to it; the bounding box contains every site and each side is attained (non-negative spacings). "
                "Correspondence: all pairs of ~70/400 layouts with every field varied independently, constructor acceptance, get_zone_id of every "
                "pool grid, bounding_box; all pairs/triples for the laws on the implementation; every layout returned by the library builders. arch.py is also READ from source on every run (harness/gen/arch_reader.py, fail-closed): the fields __eq__ and __hash__ of Layout / ArchSpec look at, how the zone index is built and read; the generated file build/C13/Gen_C13_src.v states they are the tables the model compares and hashes. On every run Layout.__post_init__, get_zone_id and bounding_box (in the sentinel form it is written in) are translated from source (fail-closed) and proved equal to the model's build_index / get_zone_id / bounding_box.",
        "note": NOTE_COMMON + " Known finding recorded: gemini.logical.get_spec extends tables after construction (stale index, duplicate names).",
        "technique": "Coq proofs (equivalence, index invariant, min/max folds over Q) + reflected field tables + vm_compute correspondence",
    },
    "C14": {
        "text": "Theorems for ALL num_x, num_y >= 1 and ALL spacings (exact rationals): single zone has nx x ny sites at i*s, j*s; deprecated builder "
                "= replacement; two-column zone: left/right are the even/odd-column views with the same rows, pair i at i*(gate+spacing) and "
                "+gate, and the zone's columns are exactly their interleaving; capability sets name zones. Gemini base/logical are closed terms: "
                "documented block table (16 views), 7x5 block sizes, zone coordinates and constants decided by vm_compute. Builder models are "
                "compared zone by zone (spacings, inits, parent and index lists of views, capabilities, constants) with the specs the library "
                "returns for all sizes up to 4/7 and 5x3 spacings. The three plain builders (single_col_zone.get_spec, stdlib.spec.single_zone_spec, two_col_zone.get_spec) are ALSO translated from source on every run (harness/gen/builders_translate.py, fail-closed) and proved equal to the hand models for every size and spacing (build/C14/Gen_C14_src.v).",
        "note": NOTE_COMMON + " IEEE-754 rounding is not modelled (dyadic parameters in the correspondence).",
        "technique": "Coq proofs over exact rationals (prefix sums, views with ascending indices) + vm_compute on closed Gemini terms + correspondence",
    },
    "C15": {
        "text": "A heap model makes Python aliasing explicit (mutable waypoint cells, reference lists, shallow copy, dirty state after failures). "
                "Theorems over ALL histories from ANY starting state: each result, observed at any later time, equals the fresh-instance result; "
                "cells of a result are allocated by its own call. Tied to the implementation by replaying all histories up to length 3/4 over 5 "
                "items (incl. the three failure kinds) and random histories up to length 12, with object-identity checks on live results. taskgen.py is also READ from source on every run (harness/gen/tracer_frame.py, fail-closed): every attribute a trace writes on the interpreter is rebound by initialize to a fresh constant, run_trace is guards / one run / return of a copy, no class-level, module-level or memoised state is written - so the state the model carries between calls is all there is (build/C15/Gen_C15_src.v).",
        "note": NOTE_COMMON,
        "technique": "Coq proof over an explicit heap model (simulation to the pure tracer) + history replay correspondence",
    },
    "C16": {
        "text": "Theorems about the visualizer model: the calls are the static trap zones (once, first, in table order) followed by exactly one "
                "call per executed gate (zone and buffers) and one per played path, members of a parallel group in order, fills and measurements "
                "silent; a group that still contains a group is refused. The property's weight is in the tie: the real PathVisualizer is run with a "
                "recording RendererInterface (matplotlib replaced by name-only stub modules) on the C04 program corpus (device calls, parallel "
                "groups, five gate kinds with distinct parameters, fills, measurements, loops, branches, subroutines; compiled with and without "
                "spec) and its call list is compared with the model applied to the event log of the independent event executor; the dispatch "
                "table statement -> renderer method/argument order is reflected each run. On every run initialize and the handlers of visualizer/impl/*.py are translated from source (fail-closed) and proved equal to the model's vis_event / vis_init.",
        "note": NOTE_COMMON + " The matplotlib renderer itself is not exercised; auto groups / multi-region measure cannot be executed by any executor on this tree.",
        "technique": "Coq homomorphism proofs + reflected dispatch table + correspondence of PathVisualizer with a recording renderer",
    },
    "C17": {
        "text": "The property is finite (wrappers x kernel kinds). Theorems: the policy matrix is the documented vocabulary, and a passing "
                "finite check over reflected tables implies acceptance = policy for every wrapper and kind. On every run the dialect groups and "
                "every public wrapper with its statement's dialect are reflected from the live objects (new wrappers are picked up), the finite "
                "lemma is re-proved by vm_compute, and for every wrapper x decorator a one-statement kernel is actually defined and "
                "accept/reject compared with the matrix; the tracer's type guard is exercised on all four code kinds.",
        "note": NOTE_COMMON + " Argument synthesis for a wrapper can fail; such pairs are reported as 'acceptance side not exercised'.",
        "technique": "reflected finite tables + Coq vm_compute lemmas + exhaustive definition of one-statement kernels",
    },
    "C18": {
        "text": "All lattice laws (reflexive, transitive, antisymmetric order; bottom/top; join/meet commutative, idempotent, "
                "upper/lower bounds, consistent with the order) are Coq theorems by structural induction over ALL elements of any "
                "nesting depth and any names, about a model of lattice.py + kirin's Simple{Join,Meet}Mixin. The model is tied to the "
                "source in BOTH ways: (1) lattice.py is translated to Gallina on every run by a fail-closed Python-ast translator "
                "(harness/gen/lattice_translate.py: class hierarchy, dataclass fields, every is_subseteq and join body, top/bottom) and the generated "
                "order/join/meet are PROVED equal to the hand model in build/C18/Gen_C18.v, where the laws are restated for the generated "
                "definitions - so they hold of the code as written for elements of every depth; (2) the model is compared with the "
                "live classes by an exhaustive (thorough) / sampled-rows (quick) comparison of is_subseteq/join/meet on the 399 "
                "elements of depth<=1 over {a,b} and random depth-3 pairs; the laws are additionally evaluated directly on the live "
                "classes (all pairs, all comparable triples) to produce concrete replays.",
        "note": NOTE_COMMON,
        "technique": "Coq proof by structural induction + model regenerated from source by a translator and proved equal to the hand model + vm_compute correspondence against the live classes",
    },
}

NOT_APPLICABLE = {}
