NOTE_COMMON = ("Trusted: Coq 8.16.1 kernel + vm_compute; no axioms (Print Assumptions: closed); the hand-written model is tied "
               "to the code only by this run's correspondence check and reflected tables (sampled/enumerated, not proved); "
               "Python harness encoders/comparator; kirin, bloqade.geometry, CPython not verified.")

CHECKS = {
    "C18": {
        "text": "All lattice laws (reflexive, transitive, antisymmetric order; bottom/top; join/meet commutative, idempotent, "
                "upper/lower bounds, consistent with the order) are Coq theorems by structural induction over ALL elements of any "
                "nesting depth and any names, about a model of lattice.py + kirin's Simple{Join,Meet}Mixin. The model is tied to the "
                "live classes by an exhaustive (thorough) / sampled-rows (quick) comparison of is_subseteq/join/meet on the 399 "
                "elements of depth<=1 over {a,b} and random depth-3 pairs; the laws are additionally evaluated directly on the live "
                "classes (all pairs, all comparable triples) to produce concrete replays.",
        "note": NOTE_COMMON,
        "technique": "Coq proof by structural induction + vm_compute correspondence against the live classes",
    },
}

NOT_APPLICABLE = {}
