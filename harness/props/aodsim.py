"""An AOD simulator: the four physical conditions C08 names, nothing more.
State: trap sites of the layout, which of them hold an atom, the active x/y tones with their
coordinates (spots = cross product), atoms held by spots.  Used as the search oracle; its twin in
Gallina is Model/Aod.v."""
from fractions import Fraction


class Reject(Exception):
    def __init__(self, kind, detail=""):
        super().__init__(f"{kind}: {detail}")
        self.kind = kind


def F(v):
    return Fraction(v)


class Sim:
    def __init__(self, trap_sites, occupied):
        self.traps = set(trap_sites)            # {(x, y)} as Fractions
        self.occ = dict(occupied)               # site -> atom id
        self.xon = {}                            # tone index -> coordinate (active x tones)
        self.yon = {}
        self.held = {}                           # (ix, iy) -> atom id
        self.log = []

    # spots currently lit
    def apart(self):
        """two lit tones of one axis at the same coordinate: two tweezers on one spot"""
        for name, on in (("x", self.xon), ("y", self.yon)):
            vals = list(on.values())
            if len(set(vals)) != len(vals):
                raise Reject("ECollide", f"two lit {name} tones share a coordinate: {sorted(map(float, vals))}")

    def spots(self):
        return {(i, j): (self.xon[i], self.yon[j]) for i in self.xon for j in self.yon}

    def path(self, x_tones, y_tones, apath):
        nx, ny = len(x_tones), len(y_tones)
        cur = None                               # current waypoint grid of this path: (xs, ys)
        for a in apath:
            if a[0] == "W":
                for k, g in enumerate(a[1]):
                    xs, ys = [F(v) for v in g.x_positions], [F(v) for v in g.y_positions]
                    if len(xs) != nx or len(ys) != ny:
                        raise Reject("EDims", f"grid {len(xs)}x{len(ys)} with tone lists {nx}x{ny}")
                    if k == 0 and self.held:
                        # start of a segment while holding atoms: every active tone must already be there
                        for i, x in self.xon.items():
                            if xs[i] != x:
                                raise Reject("EJump", f"x tone {i} at {x} jumps to {xs[i]} while holding atoms")
                        for j, y in self.yon.items():
                            if ys[j] != y:
                                raise Reject("EJump", f"y tone {j} at {y} jumps to {ys[j]} while holding atoms")
                    for i in self.xon:
                        self.xon[i] = xs[i]
                    for j in self.yon:
                        self.yon[j] = ys[j]
                    self.apart()
                    cur = (xs, ys)
            elif a[0] == "S":
                if cur is None:
                    raise Reject("EIllFormed", "switch before any waypoint")
                xs, ys = cur
                sx = self.select(a[4], nx)
                sy = self.select(a[5], ny)
                if a[1] == "on":
                    before = set(self.spots())
                    for i in sx:
                        self.xon[i] = xs[i]
                    for j in sy:
                        self.yon[j] = ys[j]
                    self.apart()
                    for (i, j), pos in self.spots().items():
                        if (i, j) in before:
                            continue
                        if pos not in self.traps:
                            raise Reject("EPickOffTrap", f"spot lights up at {pos}, not a trap site")
                        if pos in self.occ:
                            self.held[(i, j)] = self.occ.pop(pos)
                            self.log.append(("pick", pos))
                else:
                    before = self.spots()
                    for i in sx:
                        self.xon.pop(i, None)
                    for j in sy:
                        self.yon.pop(j, None)
                    after = set(self.spots())
                    for (i, j), pos in before.items():
                        if (i, j) in after or (i, j) not in self.held:
                            continue
                        if pos not in self.traps:
                            raise Reject("EDropOffTrap", f"atom released at {pos}, not a trap site")
                        if pos in self.occ:
                            raise Reject("EDropOccupied", f"atom released onto the occupied site {pos}")
                        self.occ[pos] = self.held.pop((i, j))
                        self.log.append(("drop", pos))
            else:
                raise Reject("EIllFormed", "foreign action")

    @staticmethod
    def select(sel, n):
        if sel is None:
            raise Reject("ESelector", "not a selector")
        if sel[0] == "S":
            return list(range(n))[slice(sel[1], sel[2], sel[3])]
        out = []
        for i in sel[1]:
            if not (0 <= i < n):
                raise Reject("ESelector", f"tone index {i} outside the tone list of length {n}")
            out.append(i)
        return out


def layout_sites(S):
    out = set()
    for g in S.layout.static_traps.values():
        for p in g.positions:
            out.add((F(p[0]), F(p[1])))
    return out


def run_events_on(sim, evs):
    """feed an event log (vcommon.events) to the simulator; only plays matter"""
    from props import tracer_common as tc
    for e in evs:
        if e[0] != "play":
            continue
        pv = e[1]
        members = list(pv.members) if type(pv).__name__ == "Group" else [pv]
        for p in members:
            sim.path([int(t) for t in p.x_tones], [int(t) for t in p.y_tones], tc.abstract_path(p.path))


def dry_run_sites(S, evs):
    """sites at which spots light up / go dark first (to choose a compatible initial occupancy)"""
    sites = layout_sites(S)
    probe = Sim(sites, {})
    picks = []
    orig_path = probe.path

    class Collect(Sim):
        pass
    # run with everything vacant and no trap constraint, recording where spots light up
    c = Sim(sites | {None}, {})
    lit = []

    def free_path(x_tones, y_tones, apath):
        nx, ny = len(x_tones), len(y_tones)
        cur = None
        for a in apath:
            if a[0] == "W":
                for g in a[1]:
                    xs, ys = [F(v) for v in g.x_positions], [F(v) for v in g.y_positions]
                    if len(xs) != nx or len(ys) != ny:
                        return
                    for i in c.xon:
                        c.xon[i] = xs[i]
                    for j in c.yon:
                        c.yon[j] = ys[j]
                    cur = (xs, ys)
            elif a[0] == "S" and cur is not None:
                try:
                    sx, sy = Sim.select(a[4], nx), Sim.select(a[5], ny)
                except Reject:
                    return
                if a[1] == "on":
                    before = set(c.spots())
                    for i in sx:
                        c.xon[i] = cur[0][i]
                    for j in sy:
                        c.yon[j] = cur[1][j]
                    lit.extend(pos for k, pos in c.spots().items() if k not in before)
                else:
                    for i in sx:
                        c.xon.pop(i, None)
                    for j in sy:
                        c.yon.pop(j, None)
    from props import tracer_common as tc
    for e in evs:
        if e[0] == "play":
            pv = e[1]
            for p in (list(pv.members) if type(pv).__name__ == "Group" else [pv]):
                free_path([int(t) for t in p.x_tones], [int(t) for t in p.y_tones], tc.abstract_path(p.path))
    return [p for p in lit if p in sites]
