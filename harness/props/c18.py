"""C18 - zone lattice laws.  Correspondence: zleb/join/meet of Model/Lattice.v against
is_subseteq/join/meet of the live classes; oracle: the lattice laws on the live classes."""
import inspect
import os
import itertools

from vcommon import coqrun
from vcommon.coqrun import clist, cstr

NAMES = ["a", "b"]


def L():
    from bloqade.shuttle.analysis.zone import lattice
    return lattice


def atoms(names):
    l = L()
    return ([l.NotZone(), l.UnknownZone(), l.InvalidZone()]
            + [l.InvalidSpecId(n) for n in names] + [l.SpecZone(n) for n in names])


def layer(pool):
    l = L()
    return ([l.GetItemOfZone(z, i) for z in pool for i in pool]
            + [l.GetSubGridOfZone(z, x, y) for z in pool for x in pool for y in pool])


def elems1(names):
    a = atoms(names)
    return a + layer(a)


def to_coq(z):
    l = L()
    t = type(z)
    if t is l.NotZone:
        return "NotZone"
    if t is l.UnknownZone:
        return "UnknownZone"
    if t is l.InvalidZone:
        return "InvalidZone"
    if t is l.InvalidSpecId:
        return f"(InvalidSpecId {cstr(z.spec_id)})"
    if t is l.SpecZone:
        return f"(SpecZone {cstr(z.spec_id)})"
    if t is l.GetItemOfZone:
        return f"(GetItemOfZone {to_coq(z.zone)} {to_coq(z.index)})"
    if t is l.GetSubGridOfZone:
        return f"(GetSubGridOfZone {to_coq(z.zone)} {to_coq(z.x_indices)} {to_coq(z.y_indices)})"
    raise ValueError(f"lattice element of a class the model does not know: {t.__name__}")


def show(z):
    return to_coq(z).replace("%string", "")


class Raised:
    """the result of a lattice operation that raised: equal to nothing, below nothing"""
    def __init__(self, e): self.e = type(e).__name__
    def __eq__(self, o): return False
    def __hash__(self): return 0
    def is_subseteq(self, o): return False
    def join(self, o): return self
    def meet(self, o): return self


def J(a, b):
    try:
        return a.join(b)
    except Exception as e:
        return Raised(e)


def M(a, b):
    try:
        return a.meet(b)
    except Exception as e:
        return Raised(e)


def LE(a, b):
    try:
        return bool(a.is_subseteq(b))
    except Exception:
        return False


def code(r, a, b):
    """which of the five possible answers a join/meet gave"""
    l = L()
    if isinstance(r, Raised):
        return "!"
    if r == a:
        return "a"
    if r == b:
        return "b"
    if type(r) is l.UnknownZone:
        return "T"
    if type(r) is l.NotZone:
        return "B"
    if type(r) is l.InvalidZone:
        return "I"
    return "?"


COQ_DEFS = """From BS Require Import Core.Show Model.Lattice.
Definition code (r a b : zone) : string :=
  if zone_eqb r a then "a" else if zone_eqb r b then "b" else
  match r with UnknownZone => "T" | NotZone => "B" | InvalidZone => "I" | _ => "?" end.
Definition row (a : zone) (cols : list zone) : string :=
  String.concat "" (map (fun b => show_bool (zleb a b)) cols) ++ "|" ++
  String.concat "" (map (fun b => code (join a b) a b) cols) ++ "|" ++
  String.concat "" (map (fun b => code (meet a b) a b) cols).
Definition pairrow (p : zone * zone) : string :=
  let (a, b) := p in show_bool (zleb a b) ++ code (join a b) a b ++ code (meet a b) a b.
"""


def impl_row(a, cols):
    return ("".join("T" if LE(a, b) else "F" for b in cols) + "|"
            + "".join(code(J(a, b), a, b) for b in cols) + "|"
            + "".join(code(M(a, b), a, b) for b in cols))


def rand_elem(rng, depth, names):
    l = L()
    if depth == 0 or rng.random() < 0.25:
        return rng.choice(atoms(names))
    if rng.random() < 0.5:
        return l.GetItemOfZone(rand_elem(rng, depth - 1, names), rand_elem(rng, depth - 1, names))
    return l.GetSubGridOfZone(rand_elem(rng, depth - 1, names), rand_elem(rng, depth - 1, names),
                              rand_elem(rng, depth - 1, names))


def reflect_classes(ctx):
    l = L()
    concrete = sorted(n for n, c in inspect.getmembers(l, inspect.isclass)
                      if issubclass(c, l.Zone) and not inspect.isabstract(c))
    want = sorted(["NotZone", "UnknownZone", "InvalidZone", "InvalidSpecId", "SpecZone",
                   "GetItemOfZone", "GetSubGridOfZone"])
    ctx.obligation("reflected: concrete Zone classes = constructors of Model.Lattice.zone",
                   concrete == want, f"code has {concrete}")
    ok = type(l.Zone.top()) is l.UnknownZone and type(l.Zone.bottom()) is l.NotZone
    ctx.obligation("reflected: Zone.top()/bottom() are UnknownZone/NotZone", ok)


def oracle(ctx, E, tag):
    """The lattice laws evaluated on the live classes (search procedure for replays)."""
    l = L()
    n = len(E)
    le = [[E[i].is_subseteq(E[j]) for j in range(n)] for i in range(n)]
    top, bot = l.Zone.top(), l.Zone.bottom()

    def fail(law, *idx):
        els = [show(E[i]) for i in idx]
        ctx.fail({"law": law, "elements": els}, {"law": law, "elements": [to_coq(E[i]) for i in idx], "pool": tag},
                 f"{law} fails for {els}")

    for i in range(n):
        a = E[i]
        if not le[i][i]:
            fail("reflexive", i)
        if not LE(bot, a):
            fail("bottom_least", i)
        if not LE(a, top):
            fail("top_greatest", i)
        if not (J(a, a) == a):
            fail("join_idempotent", i)
        if not (M(a, a) == a):
            fail("meet_idempotent", i)
    for i in range(n):
        a = E[i]
        for j in range(n):
            b = E[j]
            if le[i][j] and le[j][i] and not (a == b):
                fail("antisymmetric", i, j)
            jn, jm = J(a, b), J(b, a)
            if not (jn == jm):
                fail("join_commutative", i, j)
            if not (LE(a, jn) and LE(b, jn)):
                fail("join_upper_bound", i, j)
            if le[i][j] != (jn == b):
                fail("join_consistent_with_order", i, j)
            mt, mm = M(a, b), M(b, a)
            if not (mt == mm):
                fail("meet_commutative", i, j)
            if not (LE(mt, a) and LE(mt, b)):
                fail("meet_lower_bound", i, j)
            if le[i][j] != (mt == a):
                fail("meet_consistent_with_order", i, j)
            ctx.evaluations += 1
    # transitivity over all triples by walking the order graph
    up = [[j for j in range(n) if le[i][j]] for i in range(n)]
    triples = 0
    for i in range(n):
        for j in up[i]:
            for k in up[j]:
                triples += 1
                if not le[i][k]:
                    fail("transitive", i, j, k)
    ctx.count(f"oracle_triples_with_a<=b<=c[{tag}]", triples)
    ctx.count(f"oracle_pairs[{tag}]", n * n)


def translated_model(ctx):
    """lattice.py translated to Gallina on every run (harness/gen/lattice_translate.py, fail-closed); the generated order, join,
    meet, top and bottom must be provably the hand-written model of Model/Lattice.v, so the laws hold of the code as written
    for elements of EVERY depth (the row comparison below is exhaustive for one constructor layer only)"""
    from gen import lattice_translate
    from vcommon import paths
    src_path = os.path.join(paths.REPO, "src/bloqade/shuttle/analysis/zone/lattice.py")
    try:
        body = lattice_translate.generate(src_path)
    except Exception as e:     # Untranslatable, or a source the translator cannot even parse: fail closed
        ctx.obligation("lattice.py is inside the translated fragment (generated model Gen_C18.v)", False, f"{type(e).__name__}: {e}"[:300])
        return
    ctx.obligation("lattice.py is inside the translated fragment (generated model Gen_C18.v)", True)
    ok, log = coqrun.compile_lemma_file(ctx.bdir, "Gen_C18", body)
    closed = log.count("Closed under the global context")
    ctx.obligation("generated model = hand model (gen_zleb_eq, gen_join_eq, gen_meet_eq, gen_top_eq, gen_bottom_eq) and the lattice laws "
                   "restated for the generated definitions compile, closed under the global context", ok and closed >= 4, log[-600:])
    ctx.extra["generated_model"] = {"file": "build/C18/Gen_C18.v", "lines": body.count("\n"), "closed_theorems_printed": closed}


def run(ctx):
    rng = ctx.rng
    reflect_classes(ctx)
    translated_model(ctx)
    E = elems1(NAMES)
    n = len(E)
    ctx.rule = ("elements: the 7 atoms over names {a,b} and every element with one constructor layer over them "
                f"({n} elements, same enumeration as Model.Lattice.elems1); rows = an element against all {n}; "
                "non-trivial pair = distinct elements that are not both atoms; plus random pairs of depth <= 3 "
                "over names {a,b,'',zone_x}")
    # --- correspondence: rows ---
    if ctx.quick:
        rows = sorted(set(range(7)) | set(rng.sample(range(n), 40)))
    else:
        rows = list(range(n))
    ctx.exhaustive = not ctx.quick
    shards = [rows[i::16] for i in range(16)]
    shards = [s for s in shards if s]
    bodies = []
    for k, sh in enumerate(shards):
        body = COQ_DEFS + f"Definition E := elems1 [{cstr('a')}; {cstr('b')}].\n"
        body += "Eval vm_compute in (lines (map (fun i => row (nth i E NotZone) E) %s))." % clist(
            [f"{i}%nat" for i in sh])
        bodies.append((f"rows_{k}", body))
    # canary: a row with a perturbed expectation must be reported
    results = coqrun.eval_many(ctx.bdir, bodies)
    mism = []
    for sh, (ok, vals, log) in zip(shards, results):
        if not ok or len(vals) != 1 or len(vals[0]) != len(sh):
            ctx.obligation("coqc rows file evaluates", False, log[-800:])
            continue
        for i, line in zip(sh, vals[0]):
            want = impl_row(E[i], E)
            ctx.evaluations += 3 * n
            if line != want:
                # locate the first differing column for the report
                j = next((c for c in range(len(want)) if c >= len(line) or line[c] != want[c]), -1)
                sec, col = divmod(j, n + 1)
                mism.append({"a": show(E[i]), "b": show(E[col]) if col < n else "?",
                             "op": ["is_subseteq", "join", "meet"][min(sec, 2)],
                             "model": line[j:j + 1], "impl": want[j:j + 1]})
            for j in range(n):
                if i != j and (i >= 7 or j >= 7):
                    ctx.nt(("pair", i, j))
    # canary
    canary_ok = impl_row(E[3], E) != impl_row(E[4], E)
    ctx.obligation("canary: comparator distinguishes different rows", canary_ok)
    ctx.correspondence("zleb/join/meet rows vs is_subseteq/join/meet", len(rows) * n, mism)
    # --- answers must not depend on WHICH objects are compared: elements built afresh, compared, and dropped, over and over (after the
    #     package's zone pass has been imported and run by the prelude); the answer for a pair of a given structure never changes ---
    import gc
    seen_answers, churn_bad = {}, []
    small = NAMES
    l = L()
    makers = [lambda: l.GetItemOfZone(l.SpecZone("a"), l.NotZone()), lambda: l.GetItemOfZone(l.SpecZone("b"), l.NotZone()),
              lambda: l.GetSubGridOfZone(l.SpecZone("a"), l.NotZone(), l.NotZone()), lambda: l.GetSubGridOfZone(l.SpecZone("b"), l.NotZone(), l.NotZone()),
              lambda: l.GetItemOfZone(l.UnknownZone(), l.NotZone()), lambda: l.GetItemOfZone(l.GetItemOfZone(l.SpecZone("a"), l.NotZone()), l.NotZone()),
              lambda: l.GetSubGridOfZone(l.GetItemOfZone(l.SpecZone("b"), l.NotZone()), l.NotZone(), l.NotZone()), lambda: l.GetItemOfZone(l.SpecZone("a"), l.SpecZone("b")),
              lambda: l.SpecZone("a"), lambda: l.UnknownZone(), lambda: l.NotZone(), lambda: l.InvalidZone()]
    for it in range(ctx.pick(6000, 40000)):
        # (a small family of structures, so that every pair of structures recurs many times on fresh objects)
        a, b = (rng.choice(makers)(), rng.choice(makers)()) if it % 4 else (rand_elem(rng, 2, small), rand_elem(rng, 2, small))
        key = (show(a), show(b))
        ans = ("T" if LE(a, b) else "F") + ("T" if LE(b, a) else "F") + code(J(a, b), a, b) + code(M(a, b), a, b)
        ctx.evaluations += 1
        if key in seen_answers and seen_answers[key] != ans and len(churn_bad) < 5:
            churn_bad.append((key, seen_answers[key], ans))
        seen_answers.setdefault(key, ans)
        del a, b
        if it % 500 == 0:
            gc.collect()
    ctx.count("pairs of freshly built and dropped elements compared (distinct structures)", len(seen_answers))
    for key, first, later in churn_bad:
        ctx.fail({"law": "answers_depend_only_on_structure", "elements": list(key)}, {"a": key[0], "b": key[1], "churn": True},
                 f"is_subseteq / join / meet of {key[0][:60]} and {key[1][:60]} answered {first} the first time and {later} for equal elements built later "
                 "(order a<=b, b<=a, join, meet)")
    # --- correspondence: random deep pairs ---
    names = NAMES + ["", "zone_x"]
    npairs = ctx.pick(400, 4000)
    pairs = [(rand_elem(rng, 3, names), rand_elem(rng, 3, names)) for _ in range(npairs)]
    # make half of them comparable-ish: b = a with some leaves replaced by top/bottom
    for k in range(0, npairs, 2):
        pairs[k] = (pairs[k][0], mutate(rng, pairs[k][0], names))
    chunks = [pairs[i:i + 500] for i in range(0, npairs, 500)]
    bodies = [(f"pairs_{k}", COQ_DEFS + "Eval vm_compute in (lines (map pairrow %s))." % clist(
        [f"({to_coq(a)}, {to_coq(b)})" for a, b in ch])) for k, ch in enumerate(chunks)]
    mism = []
    for ch, (ok, vals, log) in zip(chunks, coqrun.eval_many(ctx.bdir, bodies)):
        if not ok or len(vals) != 1 or len(vals[0]) != len(ch):
            ctx.obligation("coqc pairs file evaluates", False, log[-800:])
            continue
        for (a, b), line in zip(ch, vals[0]):
            want = ("T" if LE(a, b) else "F") + code(J(a, b), a, b) + code(M(a, b), a, b)
            ctx.evaluations += 3
            ctx.hist("deep_pair_outcome", want)
            ctx.nt(("deep", show(a), show(b)))
            if line != want:
                mism.append({"a": show(a), "b": show(b), "model": line, "impl": want})
    ctx.correspondence("random pairs up to depth 3", npairs, mism)
    ctx.sample({"a": show(pairs[0][0]), "b": show(pairs[0][1])})
    ctx.sample({"row": show(E[rows[-1]]), "against": f"all {n} elements", "impl_row": impl_row(E[rows[-1]], E)[:60] + "..."})
    # --- oracle on the implementation ---
    oracle(ctx, E, "elems1{a,b}")
    deep = []
    for a, b in pairs[:ctx.pick(60, 150)]:
        deep += [a, b]
    oracle(ctx, deep, "random-depth3")
    ctx.explanation = ("13 theorems (order laws, bounds, join/meet laws, consistency with the order) proved by structural "
                       "induction for all elements of any depth and any names; correspondence ties Model.Lattice to the live "
                       "classes; the law oracle runs on the live classes over all pairs and all comparable triples")


def mutate(rng, z, names):
    l = L()
    t = type(z)
    if t is l.GetItemOfZone:
        if rng.random() < 0.5:
            return l.GetItemOfZone(mutate(rng, z.zone, names), z.index)
        return l.GetItemOfZone(z.zone, mutate(rng, z.index, names))
    if t is l.GetSubGridOfZone:
        k = rng.randrange(3)
        parts = [z.zone, z.x_indices, z.y_indices]
        parts[k] = mutate(rng, parts[k], names)
        return l.GetSubGridOfZone(*parts)
    return rng.choice([l.UnknownZone(), l.NotZone(), z, l.InvalidZone(), rng.choice(atoms(names))])


def replay(data):
    """Re-evaluate one recorded law instance on the live classes."""
    import re
    l = L()
    env = {k: getattr(l, k) for k in ["NotZone", "UnknownZone", "InvalidZone", "InvalidSpecId", "SpecZone",
                                      "GetItemOfZone", "GetSubGridOfZone"]}

    def parse(s):
        s = s.replace("%string", "")
        s = re.sub(r"\b(NotZone|UnknownZone|InvalidZone)\b(?!\()", r"\1()", s)
        # (C x y) -> C(x, y)
        toks = re.findall(r'"[^"]*"|[()]|[A-Za-z]+\(\)|[A-Za-z]+', s)

        def rd(i):
            if toks[i] == "(":
                name = toks[i + 1]
                args, i = [], i + 2
                while toks[i] != ")":
                    v, i = rd(i)
                    args.append(v)
                return env[name](*args), i + 1
            if toks[i].startswith('"'):
                return toks[i][1:-1], i + 1
            return env[toks[i][:-2]](), i + 1
        return rd(0)[0]
    inp = data["input"]
    if inp.get("churn"):
        # rebuild equal elements many times over and watch the answers
        import gc
        first = None
        for it in range(4000):
            x, y = parse(inp["a"]), parse(inp["b"])
            ans = (LE(x, y), LE(y, x), code(J(x, y), x, y), code(M(x, y), x, y))
            first = first or ans
            if ans != first:
                return True, f"equal elements built later answer {ans}, the first pair answered {first}"
            # other elements in between, to move the allocator along
            parse(inp["b"]), parse(inp["a"])
            del x, y
        return False, "the answers depend on the structure only"
    els = [parse(s) for s in inp["elements"]]
    law = inp["law"]
    a = els[0]
    b = els[1] if len(els) > 1 else None
    c = els[2] if len(els) > 2 else None
    top, bot = l.Zone.top(), l.Zone.bottom()
    checks = {
        "reflexive": lambda: LE(a, a),
        "bottom_least": lambda: LE(bot, a),
        "top_greatest": lambda: LE(a, top),
        "join_idempotent": lambda: J(a, a) == a,
        "meet_idempotent": lambda: M(a, a) == a,
        "antisymmetric": lambda: not (LE(a, b) and LE(b, a)) or a == b,
        "join_commutative": lambda: J(a, b) == J(b, a),
        "join_upper_bound": lambda: LE(a, J(a, b)) and LE(b, J(a, b)),
        "join_consistent_with_order": lambda: LE(a, b) == (J(a, b) == b),
        "meet_commutative": lambda: M(a, b) == M(b, a),
        "meet_lower_bound": lambda: LE(M(a, b), a) and LE(M(a, b), b),
        "meet_consistent_with_order": lambda: LE(a, b) == (M(a, b) == a),
        "transitive": lambda: not (LE(a, b) and LE(b, c)) or LE(a, c),
    }
    holds = checks[law]()
    return (not holds), f"{law} on {inp['elements']}"
