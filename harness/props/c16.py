"""C16 - the path visualizer replays a program's events faithfully and in order."""
from vcommon import coqrun, events, stubs
from vcommon.coqrun import clist, cstr

from gen import kernels, move_native, move_prog, tweezer_prog
from props import tracer_common as tc

COQ_IMPORT = "From BS Require Import Core.Show Core.Base Model.Visualizer.\n"


def recorder(gt):
    stubs.install_matplotlib_stubs()
    from bloqade.shuttle.visualizer.renderers.interface import RendererInterface

    class Rec(RendererInterface):
        def __init__(self):
            self.calls = []

        def render_traps(self, traps, zone_id):
            self.calls.append(f"traps {zone_id} {gt.show(traps)}")

        # the optional hooks also run the interface's default implementation (an override calling super() is ordinary usage):
        # a default that draws through another hook shows up as an extra recorded call
        def top_hat_cz(self, location, upper_buffer, lower_buffer):
            self.calls.append(f"cz {gt.show(location)} {events.fnum(upper_buffer)} {events.fnum(lower_buffer)}")
            super().top_hat_cz(location, upper_buffer, lower_buffer)

        def local_r(self, location):
            self.calls.append(f"local_r {gt.show(location)}")
            super().local_r(location)

        def local_rz(self, location):
            self.calls.append(f"local_rz {gt.show(location)}")
            super().local_rz(location)

        def global_r(self):
            self.calls.append("global_r")
            super().global_r()

        def global_rz(self):
            self.calls.append("global_rz")
            super().global_rz()

        def render_path(self, pth):
            self.calls.append("path " + events.path_value_text(pth, gt))

        def set_title(self, title):
            self.calls.append("title")

        def show(self):
            self.calls.append("show")

        def clear_paths(self):
            self.calls.append("clear")
    return Rec()


def minimal_recorder(gt):
    """a renderer that implements only the abstract methods: the optional gate hooks keep their defaults, which must stay silent"""
    stubs.install_matplotlib_stubs()
    from bloqade.shuttle.visualizer.renderers.interface import RendererInterface

    class Min(RendererInterface):
        def __init__(self):
            self.calls = []

        def render_traps(self, traps, zone_id):
            self.calls.append(f"traps {zone_id} {gt.show(traps)}")

        def render_path(self, pth):
            self.calls.append("path " + events.path_value_text(pth, gt))

        def set_title(self, title):
            self.calls.append("title")

        def show(self):
            self.calls.append("show")

        def clear_paths(self):
            self.calls.append("clear")
    return Min()


def run_visualizer(m, args, S, gt, minimal=False):
    stubs.install_matplotlib_stubs()
    from bloqade.shuttle.visualizer import PathVisualizer
    rec = minimal_recorder(gt) if minimal else recorder(gt)
    try:
        PathVisualizer(m.dialects, arch_spec=S, renderer=rec).run(m, tuple(args), {})
        return "ok", rec.calls, None
    except Exception as e:
        return "err", rec.calls, type(e).__name__ + ": " + str(e)[:120]


def pval_coq(pv, gt):
    if type(pv).__name__ == "Group":
        return f"(PG {clist([pval_coq(m, gt) for m in pv.members])})"
    return f"(PV {cstr(events.path_value_text(pv, gt))})"


def event_coq(e, gt):
    k = e[0]
    s = lambda g: cstr(gt.show(g))
    n = lambda v: cstr(events.fnum(v))
    if k == "play":
        return f"EPlay {pval_coq(e[1], gt)}"
    if k == "cz":
        return f"ECz {s(e[1])} {n(e[2])} {n(e[3])}"
    if k == "local_r":
        return f"ELocalR {n(e[1])} {n(e[2])} {s(e[3])}"
    if k == "local_rz":
        return f"ELocalRz {n(e[1])} {s(e[2])}"
    if k == "global_r":
        return f"EGlobalR {n(e[1])} {n(e[2])}"
    if k == "global_rz":
        return f"EGlobalRz {n(e[1])}"
    if k == "fill":
        return f"EFill {clist([s(g) for g in e[1]])}"
    return f"EMeasure {clist([s(g) for g in e[1]])}"


def expected_calls(S, evs, gt):
    """the property, evaluated on the event log of an independent executor"""
    # the static trap zones as the harness DECLARED them (not read back from the layout under test, where it built the layout itself)
    out = [f"traps {n} {gt.show(S.layout.static_traps[n])}" for n in tweezer_prog.declared_static(S)]
    for e in evs:
        k = e[0]
        if k == "play":
            pv = e[1]
            members = list(pv.members) if type(pv).__name__ == "Group" else [pv]
            out += ["path " + events.path_value_text(m, gt) for m in members]
        elif k == "cz":
            out.append(f"cz {gt.show(e[1])} {events.fnum(e[2])} {events.fnum(e[3])}")
        elif k == "local_r":
            out.append(f"local_r {gt.show(e[3])}")
        elif k == "local_rz":
            out.append(f"local_rz {gt.show(e[2])}")
        elif k in ("global_r", "global_rz"):
            out.append(k)
    return out


def reflect_dispatch(ctx, S):
    """each device-visible statement once, with distinguishable arguments, against the recorder"""
    table = {}
    stmts = {"top_hat_cz": "gate.top_hat_cz(z0, 1.5, 4.0)", "local_r": "gate.local_r(0.25, 2.0, z1)", "local_rz": "gate.local_rz(2.0, z1)",
             "global_r": "gate.global_r(0.5, 2.0)", "global_rz": "gate.global_rz(2.0)", "fill": "init.fill([z0])", "measure": "measure.measure((z1,))"}
    for name, text in stmts.items():
        src = f"@move\ndef main():\n    z0 = spec.get_static_trap(zone_id=\"traps\")\n    z1 = spec.get_static_trap(zone_id=\"aux\")\n    {text}\n"
        m = kernels.define(src)["main"]
        gt = tc.GridTable()
        z0, z1 = S.layout.static_traps["traps"], S.layout.static_traps["aux"]
        gt.gid(z0), gt.gid(z1)
        st, calls, err = run_visualizer(m, (), S, gt)
        table[name] = calls[len(S.layout.static_traps):] if st == "ok" else ["ERR " + str(err)]
    want = {"top_hat_cz": ["cz g1 3/2 4/1"], "local_r": ["local_r g2"], "local_rz": ["local_rz g2"], "global_r": ["global_r"],
            "global_rz": ["global_rz"], "fill": [], "measure": []}
    ctx.extra["reflected_dispatch"] = table
    ctx.obligation("reflected dispatch table: statement -> renderer method and argument order", table == want, str({k: v for k, v in table.items() if v != want[k]}))
    for k in table:
        if table[k] != want[k]:
            ctx.fail({"kind": "dispatch", "stmt": k, "calls": table[k]}, {"stmt": stmts[k]}, f"{k} is drawn as {table[k]}, expected {want[k]}")


def thin_spec():
    """the harness layout plus static zones of a single row, a single column and a single site"""
    from bloqade.geometry.dialects.grid import Grid
    from bloqade.shuttle.arch import ArchSpec, Layout
    S = tweezer_prog.harness_spec()
    st = {n: S.layout.static_traps[n] for n in tweezer_prog.declared_static(S)}
    st["row"] = Grid.from_positions([30.0, 32.0, 34.0, 36.0, 38.0], [0.0])
    st["col"] = Grid.from_positions([44.0], [1.0, 2.5, 4.0, 5.5])
    st["dot"] = Grid.from_positions([50.0], [7.0])
    lay = Layout(static_traps=st, fillable={"traps", "row"}, has_cz={"traps"}, has_local={"aux", "row", "col", "dot"},
                 special_grid=dict(S.layout.special_grid))
    tweezer_prog.DECLARED_STATIC[id(lay)] = ["traps", "aux", "row", "col", "dot"]
    tweezer_prog._KEEP.append(lay)
    return ArchSpec(layout=lay, float_constants=dict(S.float_constants), int_constants=dict(S.int_constants))


THIN_PROGRAMS = [
    # fills and measurements of zones, views and shifted copies between gates: silent, whatever is filled
    ("""
@move
def main(n: int):
    z0 = spec.get_static_trap(zone_id="traps")
    z1 = spec.get_static_trap(zone_id="aux")
    r = spec.get_static_trap(zone_id="row")
    c = spec.get_static_trap(zone_id="col")
    d = spec.get_static_trap(zone_id="dot")
    gate.top_hat_cz(z0, 1.0, 2.0)
    init.fill([grid.sub_grid(z0, [0], [0, 1]), z0[1:3, :], r])
    gate.local_rz(0.5, z1)
    init.fill([grid.shift(z0, 1.0, 0.0), r[n:, :]])
    gate.local_r(0.125, 0.25, r)
    measure.measure((c,))
    gate.local_rz(0.75, d)
    gate.global_rz(0.375)
    init.fill([z0])
    gate.local_r(0.5, 1.5, c[:, 1:n])
    gate.global_r(0.25, 0.5)
""", [(1,), (3,)]),
    # only local_rz gates (a renderer without the optional hooks sees nothing but the traps)
    ("""
@move
def main(n: int):
    z1 = spec.get_static_trap(zone_id="aux")
    d = spec.get_static_trap(zone_id="dot")
    for i in range(n):
        gate.local_rz(0.5, z1)
        gate.local_rz(0.25, d)
""", [(0,), (2,)]),
    # measurement results that are kept: carried through a loop, handed to a subroutine, returned
    ("""
@move
def keep(r, z: grid.Grid[Any, Any]):
    gate.local_r(0.25, 0.5, z)
    return r

@move
def main(n: int):
    z0 = spec.get_static_trap(zone_id="traps")
    z1 = spec.get_static_trap(zone_id="aux")
    syndrome = measure.measure((z1,))
    gate.top_hat_cz(z0, 1.0, 2.0)
    for i in range(n):
        gate.local_rz(0.5, z1)
        syndrome = measure.measure((z1,))
        gate.global_r(0.25, 0.5)
    kept = keep(syndrome, z1)
    gate.global_rz(0.125)
    return kept
""", [(0,), (2,)]),
    # the same through a subroutine entered repeatedly
    ("""
@move
def sub(z: grid.Grid[Any, Any], k: int):
    init.fill([z[k:, :]])
    gate.local_r(0.5, 0.25, z)
    gate.local_rz(0.5, z[:, :])

@move
def main(n: int):
    r = spec.get_static_trap(zone_id="row")
    c = spec.get_static_trap(zone_id="col")
    gate.global_r(1.0, 2.0)
    sub(r, n)
    sub(c, 0)
    gate.global_rz(3.0)
    sub(r, 1)
""", [(0,), (2,)]),
]


ORDER_PROGRAMS = [
    # nested groups followed by further members, reversed device functions with run-time operands
    """
@move
def main(n: int, c: bool):
    f0 = schedule.device_fn(k0, [0, 1], [0])
    f1 = schedule.device_fn(k1, [0, 1], [0])
    r0 = schedule.reverse(f0)
    x = 1.0 * n
    with schedule.parallel():
        f0(x, 2.0)
        with schedule.parallel():
            f1(x, 0.5, n)
            r0(2.0, x)
        f0(3.0, x)
        with schedule.parallel():
            r0(x, 0.5)
        f1(0.5, x, n + 1)
    gate.global_rz(0.5)
    z = spec.get_static_trap(zone_id="traps")
    gate.top_hat_cz(z, 1.5, lower_buffer=2.5)
    gate.top_hat_cz(z, lower_buffer=0.5, upper_buffer=4.5)
    gate.top_hat_cz(z, upper_buffer=1.25)
    gate.top_hat_cz(zone=z)
    gate.local_r(rotation_angle=0.25, axis_angle=0.5, zone=z)
    gate.local_rz(0.125, zone=z[0:2, 0:1])
    if c:
        r0(x, 1.5)
    schedule.reverse(f1)(x, 1.0, n)
    schedule.reverse(r0)(b=x, a=0.25)
""",
    # gates on a zone chosen by a run-time branch between two FILLED copies of one zone that differ only in their vacancies
    """
@move
def main(n: int, c: bool):
    z = spec.get_static_trap(zone_id="traps")
    a = filled.vacate(z, [(0, 0)])
    b = filled.vacate(z, [(1, 1)])
    if c:
        w = a
    else:
        w = b
    gate.top_hat_cz(w)
    gate.local_rz(0.5, w)
    gate.local_r(0.25, 0.5, w)
    f0 = schedule.device_fn(k0, [0, 1], [0])
    f0(1.0 * n, 2.0)
    gate.local_rz(0.25, a)
    gate.local_rz(0.75, b)
""",
    # constants of the spec whose value is 0.0 / 0, read while the program is replayed
    """
@move
def main(n: int, c: bool):
    gate.global_rz(spec.get_float_constant(constant_id="origin"))
    f0 = schedule.device_fn(k0, [0, 1], [0])
    f0(1.0 * n, 2.0)
    gate.global_r(0.5, 1.0 * spec.get_int_constant(constant_id="zero"))
    if c:
        gate.global_rz(0.25 + spec.get_float_constant(constant_id="origin"))
    f0(2.0, 1.0 * spec.get_int_constant(constant_id="zero"))
""",
    # one device function played forward and reversed with the SAME compile-time constant arguments (folded when compiled with a spec:
    # a memo of folded paths must tell forward from reversed, one tone selection from another, one argument order from another)
    """
@move
def main(n: int, c: bool):
    f0 = schedule.device_fn(k0, [0, 1], [0])
    g0 = schedule.device_fn(k0, [1, 0], [0])
    f0(1.0, 2.0)
    gate.global_rz(0.5)
    schedule.reverse(f0)(1.0, 2.0)
    gate.global_rz(0.25)
    g0(1.0, 2.0)
    f0(1.0, 2.0)
    schedule.reverse(g0)(1.0, 2.0)
    schedule.reverse(schedule.reverse(f0))(1.0, 2.0)
    if c:
        f0(b=2.0, a=1.0)
    f0(2.0, 1.0)
    schedule.reverse(f0)(2.0, 1.0)
""",
]


def judge_case(ctx, m, args, S, rep, cases, key, native=None):
    gt = tc.GridTable()
    st, calls, err = run_visualizer(m, args, S, gt)
    est, evs, eextra = events.run_events(m, args, S)
    ctx.evaluations += 1
    if native is not None and native[0] == "ok":
        # the program's SOURCE evaluated directly (no compiler, no interpreter of the package): what is drawn must be the events the source
        # prescribes, in its order, with the paths the tracer gives for each call
        gtn = tc.PosTable()
        stn, callsn, errn = run_visualizer(m, args, S, gtn)
        wantn = expected_calls(S, native[1], gtn)
        ctx.hist("against the source evaluated natively", "same calls" if stn == "ok" and callsn == wantn else "DIFFER")
        if stn != "ok" or callsn != wantn:
            k = next((j for j in range(min(len(callsn), len(wantn))) if callsn[j] != wantn[j]), min(len(callsn), len(wantn)))
            ctx.fail({"kind": "calls-differ-from-source", "symptom": "order/count" if sorted(callsn) == sorted(wantn) or len(callsn) != len(wantn) else "content"},
                     dict(rep, reference="source evaluated natively"),
                     f"renderer calls differ from the program's source evaluated directly at call {k}: {(callsn[k] if k < len(callsn) else '<none>')[:120]} vs "
                     f"{(wantn[k] if k < len(wantn) else '<none>')[:120]}" + (f" ({errn})" if stn != "ok" else ""))
    if est != "ok":
        ctx.hist("outcome", "program raises in the reference executor")
        return
    want = expected_calls(S, evs, gt)
    if st != "ok":
        ctx.fail({"kind": "visualizer-raises", "error": (err or "")[:60]}, rep, f"PathVisualizer raised {err} on a program the event executor runs")
        return
    ntr = len(tweezer_prog.declared_static(S))
    if calls != want:
        k = next((j for j in range(min(len(calls), len(want))) if calls[j] != want[j]), min(len(calls), len(want)))
        ctx.fail({"kind": "calls-differ", "at": "traps" if k < ntr else "events",
                  "symptom": "order/count" if sorted(calls) == sorted(want) or len(calls) != len(want) else "content"}, rep,
                 f"renderer calls differ from the executed events at call {k}: {(calls[k] if k < len(calls) else '<none>')[:120]} vs "
                 f"{(want[k] if k < len(want) else '<none>')[:120]}")
    # a renderer that leaves the optional gate hooks at their defaults sees the traps and the paths, nothing else
    gt2 = tc.GridTable()
    st2, calls2, err2 = run_visualizer(m, args, S, gt2, minimal=True)
    est2, evs2, _ = events.run_events(m, args, S)
    want2 = [c for c in expected_calls(S, evs2, gt2) if c.startswith(("traps ", "path "))] if est2 == "ok" else None
    if want2 is not None and (st2 != "ok" or calls2 != want2):
        ctx.fail({"kind": "minimal-renderer-calls-differ", "status": st2}, dict(rep, renderer="minimal"),
                 f"a renderer implementing only the abstract methods received {[c[:40] for c in calls2 if c not in want2][:3] or st2} "
                 f"({len(calls2)} calls, expected the {len(want2)} trap and path calls)")
    ctx.count("cases also replayed on a renderer that implements only the abstract methods")
    ctx.hist("outcome", "replayed")
    if len(calls) - ntr >= 2:
        ctx.nt(key)
    traps = clist([f"({cstr(n)}, {cstr(gt.show(S.layout.static_traps[n]))})" for n in tweezer_prog.declared_static(S)])
    cases.append((f"({traps}, {clist([event_coq(e, gt) for e in evs])})", " | ".join(calls), rep))


HIST_TW = """
@tweezer
def kq(a: float):
    z = spec.get_static_trap(zone_id="traps")
    s = z[0:2, 1]
    action.set_loc(s)
    action.turn_on([0, 1], [0])
    action.move(grid.shift(s, a, spec.get_float_constant(constant_id="neg")))
    action.turn_off([0, 1], [0])
"""
HIST_MV = """
@move
def shuttle_round(x: float):
    # no lookup of its own: it only plays device calls (whose kernel reads the spec while it is traced)
    f = schedule.device_fn(kq, [0, 1], [0])
    f(x)
    with schedule.parallel():
        f(x + 1.0)
        schedule.reverse(f)(2.0)
    gate.global_rz(0.25)

@move{DEC}
def main(n: int, c: bool):
    i = 0
    for i in range(n):
        shuttle_round(0.5 * i)
    gate.top_hat_cz(spec.get_static_trap(zone_id="traps"))
    shuttle_round(3.0)
"""


def spec_histories(ctx, cases):
    """programs replayed for DIFFERENT specs one after the other in one process - among them two specs that differ in one constant and
    have the SAME hash (-1.0 / -2.0) - compiled with the spec and with the spec only given to the visualizer, over one shared helper that
    plays device calls: every replay shows the paths of its own spec (reference: the source evaluated natively under that spec)"""
    from bloqade.geometry.dialects.grid import Grid
    from bloqade.shuttle.arch import ArchSpec, Layout

    def mk(dx, neg):
        lay = Layout({"traps": Grid.from_positions([0.0 + dx, 2.0 + dx, 4.0 + dx, 6.5 + dx], [0.0, 3.0, 6.0]), "aux": Grid.from_positions([20.0, 21.0, 22.0], [1.0, 2.0, 3.0, 4.0])},
                     {"traps"}, {"traps"}, {"aux"}, special_grid={})
        return ArchSpec(layout=lay, float_constants={"neg": neg}, int_constants={})
    specs = {"A": mk(0.0, -1.0), "B": mk(0.0, -2.0), "C": mk(100.0, -1.0)}
    ctx.extra["spec_histories"] = {"hash(A) == hash(B)": hash(specs["A"]) == hash(specs["B"]), "A == B": specs["A"] == specs["B"]}
    ns = {"kq": kernels.define(HIST_TW)["kq"]}
    helper = kernels.define(HIST_MV.split("@move{DEC}")[0], **ns)["shuttle_round"]
    main_src = "@move{DEC}" + HIST_MV.split("@move{DEC}")[1]
    n = 0
    for order in (("A", "B", "C", "A"), ("B", "A", "B")):
        for with_spec in (False, True):
            for step, name in enumerate(order):
                S = specs[name]
                try:
                    m = kernels.define(main_src.replace("{DEC}", "(arch_spec=S)" if with_spec else ""), S=S, shuttle_round=helper, **ns)["main"]
                except Exception as e:
                    ctx.obligation("the spec-history program compiles", False, f"{type(e).__name__}: {e}"[:200])
                    continue
                nat = move_native.run_native(HIST_TW + HIST_MV.replace("{DEC}", ""), (2, True), S, kernel_ns=ns)
                if nat[0] != "ok":
                    ctx.obligation("the spec-history program runs natively", False, str(nat[-1])[:200])
                judge_case(ctx, m, (2, True), S, {"spec_history": list(order), "step": step, "compiled_with_spec": with_spec, "args": "(2, True)"}, cases,
                           ("spec-history", order, step, with_spec), native=nat)
                n += 1
    ctx.count("replays in histories over three specs (two of them with equal hashes) sharing one helper", n)


def translated_visualizer(ctx):
    """which renderer calls the visualizer issues, read from source on every run (harness/gen/vis_translate.py, fail-closed): initialize and
    the handlers of visualizer/impl/{gate,init,measure,path}.py become vis_init_src / vis_event_src, proved equal to Model.Visualizer's
    for every event and every table of zones"""
    from gen import vis_translate
    from vcommon import paths
    name = "visualizer/interp.py and visualizer/impl/*.py are inside the translated fragment (generated model Gen_C16_src.v)"
    try:
        body = vis_translate.generate(paths.REPO)
    except Exception as e:
        ctx.obligation(name, False, f"{type(e).__name__}: {e}"[:300])
        return
    ctx.obligation(name, True)
    ok, log = coqrun.compile_lemma_file(ctx.bdir, "Gen_C16_src", body, timeout=300)
    closed = log.count("Closed under the global context")
    ctx.obligation("the translated renderer calls equal Model.Visualizer.vis_event / vis_init for every event and table (vis_event_src_eq, "
                   "vis_init_src_eq), closed under the global context", ok and closed >= 2, log[-600:])


def run(ctx):
    translated_visualizer(ctx)
    S = tweezer_prog.harness_spec()
    reflect_dispatch(ctx, S)
    ctx.rule = ("the move-program corpus of C04 (device calls, parallel groups, all five gate kinds with distinct parameters, fills, "
                "measurements, loops, branches, subroutines) x argument tuples: each compiled kernel is run in PathVisualizer with a "
                "recording RendererInterface and in the independent event executor; non-trivial = distinct (program, args) with >= 2 renderer calls "
                "beyond the traps")
    tw_src = "".join(f"@tweezer\ndef {n}{sig}:{body}\n" for n, (sig, body, _) in move_prog.TWEEZERS.items())
    kernel_ns = {k: v for k, v in kernels.define(tw_src).items() if k in move_prog.TWEEZERS}
    cases = []
    for i in range(ctx.pick(60, 600)):
        prog = move_prog.gen_move_prog(ctx.rng, autos=False, subs=True)
        src = move_prog.render(prog)
        nsrc = move_prog.render(prog, native_markers=True)
        natives = {}
        for with_spec in (False, True):
            try:
                tw, mv = move_native.split_source(src)
                msrc = mv if not with_spec else mv.rsplit("@move", 1)[0] + "@move(arch_spec=S)" + mv.rsplit("@move", 1)[1]
                m = kernels.define(msrc, S=S, **kernel_ns)["main"]
            except Exception as e:
                ctx.hist("compile", "error")
                continue
            for args in prog.arg_tuples[:ctx.pick(2, 3)]:
                if args not in natives:
                    natives[args] = move_native.run_native(nsrc, args, S, kernel_ns=kernel_ns)
                judge_case(ctx, m, args, S, {"src": src, "args": repr(args), "compiled_with_spec": with_spec}, cases, (i, args, with_spec), native=natives[args])
        if i == 0 and cases:
            ctx.sample({"program": src[src.index("@move"):][:600], "renderer_calls": cases[0][1][:500]})
    for j, fsrc in enumerate(ORDER_PROGRAMS):
        for with_spec in (False, True):
            msrc = fsrc if not with_spec else fsrc.rsplit("@move", 1)[0] + "@move(arch_spec=S)" + fsrc.rsplit("@move", 1)[1]
            try:
                m = kernels.define(msrc, S=S, **kernel_ns)["main"]
            except Exception as e:
                ctx.obligation(f"order program {j} compiles", False, type(e).__name__ + ": " + str(e)[:200])
                continue
            for args in ((1, True), (0, False)):
                nat = move_native.run_native(tw_src + fsrc, args, S, kernel_ns=kernel_ns)
                if nat[0] != "ok":
                    ctx.obligation(f"order program {j} runs natively", False, str(nat[-1])[:200])
                judge_case(ctx, m, args, S, {"src": tw_src + fsrc, "args": repr(args), "compiled_with_spec": with_spec}, cases, ("order", j, args, with_spec), native=nat)
    spec_histories(ctx, cases)
    T = thin_spec()
    for j, (tsrc, targs) in enumerate(THIN_PROGRAMS):
        for with_spec in (False, True):
            msrc = tsrc if not with_spec else tsrc.rsplit("@move", 1)[0] + "@move(arch_spec=S)" + tsrc.rsplit("@move", 1)[1]
            try:
                m = kernels.define(msrc, S=T)["main"]
            except Exception as e:
                ctx.obligation(f"thin-zone program {j} compiles", False, type(e).__name__ + ": " + str(e)[:200])
                continue
            for args in targs:
                judge_case(ctx, m, args, T, {"thin_src": msrc, "args": repr(args), "compiled_with_spec": with_spec}, cases, ("thin", j, args, with_spec))
                ctx.count("programs on a layout with single-row, single-column and single-site zones (fills of views between gates)")
    chunks = [cases[i:i + 40] for i in range(0, len(cases), 40)]
    bodies = [(f"vis_{k}", COQ_IMPORT + "Eval vm_compute in (lines (map (fun c => show_vis (vis (fst c) (snd c))) %s))." %
               clist([c[0] for c in ch])) for k, ch in enumerate(chunks)]
    mism = []
    for ch, (ok, vals, log) in zip(chunks, coqrun.eval_many(ctx.bdir, bodies)):
        if not ok or len(vals) != 1 or len(vals[0]) != len(ch):
            ctx.obligation("coqc vis file evaluates", False, log[-800:])
            continue
        for c, line in zip(ch, vals[0]):
            if line != c[1]:
                mism.append({"model": line[:300], "impl": c[1][:300], "args": c[2]["args"]})
    ctx.correspondence("Model.Visualizer.vis (event log of the independent executor) vs the calls PathVisualizer made on a recording renderer", len(cases), mism)
    ctx.explanation = ("Theorems: the visualizer model is a homomorphism on the event log (traps first, once, then one call per gate and per "
                       "member path, fills/measurements silent), nested groups are refused. Tie: real PathVisualizer with a recording renderer vs the "
                       "model applied to the event log of the independent executor. The matplotlib renderer is not exercised (not installed); auto "
                       "groups and multi-region measure cannot be executed by any executor and are outside the quantifier.")


def replay(data):
    inp = data["input"]
    if "spec_history" in inp:
        class C:
            evaluations = 0
            def __init__(s): s.fails, s.extra = [], {}
            def fail(s, sig, rep, what):
                if rep.get("spec_history") == inp["spec_history"] and rep.get("step") == inp["step"] and rep.get("compiled_with_spec") == inp["compiled_with_spec"]:
                    s.fails.append(what)
            def hist(s, *a): pass
            def nt(s, *a): pass
            def count(s, *a): pass
            def obligation(s, n, ok, log=""):
                if not ok: s.fails.append(n)
        c = C()
        spec_histories(c, [])
        return bool(c.fails), (c.fails or ["every replay shows the paths of its own spec"])[0][:200]
    if "thin_src" in inp:
        T = thin_spec()
        m = kernels.define(inp["thin_src"], S=T)["main"]
        args = eval(inp["args"])
        gt = tc.GridTable()
        mini = inp.get("renderer") == "minimal"
        st, calls, err = run_visualizer(m, args, T, gt, minimal=mini)
        est, evs, _ = events.run_events(m, args, T)
        want = expected_calls(T, evs, gt)
        if mini:
            want = [c for c in want if c.startswith(("traps ", "path "))]
        return st != "ok" or calls != want, f"{len(calls)} calls ({st})"
    if "src" not in inp:
        return True, "re-run bin/check C16"
    S = tweezer_prog.harness_spec()
    tw_src = "".join(f"@tweezer\ndef {n}{sig}:{body}\n" for n, (sig, body, _) in move_prog.TWEEZERS.items())
    kernel_ns = {k: v for k, v in kernels.define(tw_src).items() if k in move_prog.TWEEZERS}
    tw, mv = move_native.split_source(inp["src"])
    msrc = mv if not inp.get("compiled_with_spec") else mv.rsplit("@move", 1)[0] + "@move(arch_spec=S)" + mv.rsplit("@move", 1)[1]
    m = kernels.define(msrc, S=S, **kernel_ns)["main"]
    args = eval(inp["args"])
    if inp.get("reference") == "source evaluated natively":
        nat = move_native.run_native(inp["src"], args, S, kernel_ns=kernel_ns)
        gtn = tc.PosTable()
        stn, callsn, errn = run_visualizer(m, args, S, gtn)
        return nat[0] == "ok" and (stn != "ok" or callsn != expected_calls(S, nat[1], gtn)), f"{len(callsn)} calls ({stn}) against the source's {len(nat[1])} events"
    gt = tc.GridTable()
    mini = inp.get("renderer") == "minimal"
    st, calls, err = run_visualizer(m, args, S, gt, minimal=mini)
    est, evs, _ = events.run_events(m, args, S)
    want = expected_calls(S, evs, gt)
    if mini:
        want = [c for c in want if c.startswith(("traps ", "path "))]
    return st != "ok" or calls != want, f"{len(calls)} calls ({st})"
