"""Shared by C01/C02/C11/C15: running kernels on the implementation and natively,
canonical rendering (same syntax as Core/Base.v show_*), Python reference tracer."""
from vcommon.coqrun import cZ, clist, copt

from gen import kernels


def site_shape(g):
    """(columns, rows) counted from the coordinates themselves - not the grid's own `shape` attribute"""
    return (len(tuple(g.x_positions)), len(tuple(g.y_positions)))


class GridTable:
    """canonicalise Python grids by == into small ids (grids are opaque in these models)"""

    def __init__(self):
        self.items = []

    def gid(self, g):
        for i, h in enumerate(self.items):
            if h == g and type(h).__name__ != "NoneType":
                return i + 1
        self.items.append(g)
        return len(self.items)

    def coq(self, g):
        nx, ny = site_shape(g)
        return f"(mkgrid {cZ(self.gid(g))} {cZ(nx)} {cZ(ny)})"

    def show(self, g):
        return f"g{self.gid(g)}"


class PosTable(GridTable):
    """names a grid by its coordinates (and vacancies): for comparing two executions of the implementation
    with each other, where a grid at other positions must not get the same name"""

    def show(self, g):
        from fractions import Fraction
        try:
            f = lambda v: str(Fraction(v))
            txt = "g<" + ",".join(f(v) for v in g.x_positions) + "|" + ",".join(f(v) for v in g.y_positions) + ">"
            vac = getattr(g, "vacancies", None)
            if vac:
                txt += "-" + str(sorted(vac))
            return txt
        except Exception:
            return "g?" + repr(g)[:80]


def norm_sel(s):
    """-> ('S', start, stop, step) | ('L', [ints]) | None if not a selector"""
    from kirin.dialects import ilist
    if isinstance(s, slice):
        ok = all(v is None or isinstance(v, int) for v in (s.start, s.stop, s.step))
        return ("S", s.start, s.stop, s.step) if ok else None
    if isinstance(s, (ilist.IList, list, tuple, range)):
        data = list(s.data) if isinstance(s, ilist.IList) else list(s)
        if all(isinstance(v, int) and not isinstance(v, bool) for v in data):
            return ("L", data)
    return None


def sel_text(ns):
    if ns[0] == "S":
        f = lambda v: "N" if v is None else str(v)
        return f"sl({f(ns[1])},{f(ns[2])},{f(ns[3])})"
    return "[" + ",".join(map(str, ns[1])) + "]"


def sel_coq(ns):
    if ns[0] == "S":
        return f"(SSlice {copt(ns[1], cZ)} {copt(ns[2], cZ)} {copt(ns[3], cZ)})"
    return f"(SList {clist([cZ(v) for v in ns[1]])})"


def op_coq(o, gt):
    if o[0] == "set":
        return f"OSet {gt.coq(o[1])}"
    if o[0] == "move":
        return f"OMove {gt.coq(o[1])}"
    k = "On" if o[0] == "on" else "Off"
    return f"OSwitch {k} {sel_coq(norm_sel(o[1]))} {sel_coq(norm_sel(o[2]))}"


def ops_coq(ops, gt):
    return clist([op_coq(o, gt) for o in ops])


def ops_in_domain(ops):
    for o in ops:
        if o[0] in ("on", "off") and (norm_sel(o[1]) is None or norm_sel(o[2]) is None):
            return False
    return True


# ---- implementation side ----
def action_class_info():
    from bloqade.shuttle.codegen import taskgen as T
    return {
        T.TurnOnXYAction: ("on", "L", "L"), T.TurnOffXYAction: ("off", "L", "L"),
        T.TurnOnXSliceAction: ("on", "S", "L"), T.TurnOffXSliceAction: ("off", "S", "L"),
        T.TurnOnYSliceAction: ("on", "L", "S"), T.TurnOffYSliceAction: ("off", "L", "S"),
        T.TurnOnXYSliceAction: ("on", "S", "S"), T.TurnOffXYSliceAction: ("off", "S", "S"),
    }


def abstract_path(actions):
    """implementation path -> [('W', [grids]) | ('S', k, fx, fy, xsel, ysel)]; raises on foreign objects"""
    from bloqade.shuttle.codegen import taskgen as T
    info = action_class_info()
    out = []
    for a in actions:
        if type(a) is T.WayPointsAction:
            out.append(("W", list(a.way_points)))
        elif type(a) in info:
            k, fx, fy = info[type(a)]
            out.append(("S", k, fx, fy, norm_sel(a.x_tone_indices), norm_sel(a.y_tone_indices)))
        else:
            out.append(("?", type(a).__name__))
    return out


def path_text(apath, gt):
    parts = []
    for a in apath:
        if a[0] == "W":
            parts.append("W[" + ",".join(gt.show(g) for g in a[1]) + "]")
        elif a[0] == "S":
            x = sel_text(a[4]) if a[4] else "?"
            y = sel_text(a[5]) if a[5] else "?"
            parts.append(f"S({a[1]},{a[2]},{a[3]},{x},{y})")
        else:
            parts.append("?" + a[1])
    return ";".join(parts) if parts else "-"


def path_coq(apath, gt):
    items = []
    for a in apath:
        if a[0] == "W":
            items.append(f"AWay {clist([gt.coq(g) for g in a[1]])}")
        else:
            k = "On" if a[1] == "on" else "Off"
            f = lambda c: "FSlice" if c == "S" else "FList"
            items.append(f"ASwitch {k} {f(a[2])} {f(a[3])} {sel_coq(a[4])} {sel_coq(a[5])}")
    return clist(items)


def new_tracer(arch_spec):
    from bloqade.shuttle.codegen.taskgen import TraceInterpreter
    return TraceInterpreter(arch_spec)


def run_impl(method, args, arch_spec=None, tracer=None, kwargs=None):
    """-> ('ok', actions) | ('err', exception-class-name)"""
    ti = tracer if tracer is not None else new_tracer(arch_spec)
    try:
        r = ti.run_trace(method, tuple(args), dict(kwargs or {}))
        return ("ok", r)
    except Exception as e:  # every failure kind is 'no path'
        return ("err", type(e).__name__ + ": " + str(e)[:120])


def run_native(src, main, args, arch_spec):
    """evaluate the kernel source directly -> ('ok', ops) | ('err', ops_so_far, exc)"""
    rec = kernels.AodRecorder(arch_spec)
    try:
        from gen import native_filled
        ns = kernels.define_native(src, rec.ns)
        ns[main](*native_filled.wrap(tuple(args)))
        return ("ok", rec.ops)
    except Exception as e:
        return ("err", rec.ops, type(e).__name__ + ": " + str(e)[:120])


# ---- Python twin of the Coq reference (search oracle) ----
def ref_trace(ops):
    """the reference AOD model of C01 over an op list -> abstract path or None (error)"""
    done, seg, pos = [], None, None
    for o in ops:
        if o[0] == "set":
            if seg is not None:
                done.append(("W", seg))
            seg, pos = [o[1]], o[1]
        elif pos is None:
            return None
        elif o[0] == "move":
            if site_shape(pos) != site_shape(o[1]):
                return None
            seg = seg + [o[1]]
            pos = o[1]
        else:
            x, y = norm_sel(o[1]), norm_sel(o[2])
            done.append(("W", seg))
            done.append(("S", o[0], x[0], y[0], x, y))
            seg = [pos]
    if seg is not None:
        done.append(("W", seg))
    return done


def rev_abs(ap):
    """time reversal in the reference model's vocabulary: the actions in the opposite order, every waypoint list reversed, on <-> off"""
    out = []
    for a in reversed(ap):
        if a[0] == "W":
            out.append(("W", list(reversed(a[1]))))
        else:
            out.append(("S", "off" if a[1] == "on" else "on") + tuple(a[2:]))
    return out


def concrete_path(apath):
    """abstract path (the reference model's vocabulary) -> the library's action objects"""
    from kirin.dialects import ilist
    from bloqade.shuttle.codegen import taskgen as T
    inv = {v: k for k, v in action_class_info().items()}

    def sel(ns):
        return slice(ns[1], ns[2], ns[3]) if ns[0] == "S" else ilist.IList(list(ns[1]))
    out = []
    for a in apath:
        if a[0] == "W":
            out.append(T.WayPointsAction(list(a[1])))
        else:
            out.append(inv[(a[1], a[2], a[3])](sel(a[4]), sel(a[5])))
    return out


def wf_py(apath):
    """C11 well-formedness on an abstract path; returns None if fine, else a reason"""
    if not apath:
        return None
    if apath[0][0] != "W" or apath[-1][0] != "W":
        return "does not begin and end with a waypoint segment"
    for i, a in enumerate(apath):
        if a[0] == "W":
            if not a[1]:
                return f"empty segment at {i}"
            if any(site_shape(g) != site_shape(a[1][0]) for g in a[1]):
                return f"segment {i} mixes shapes"
        elif a[0] == "S":
            if i == 0 or i + 1 >= len(apath) or apath[i - 1][0] != "W" or apath[i + 1][0] != "W":
                return f"switch {i} not between segments"
            if not apath[i - 1][1] or not apath[i + 1][1] or not (apath[i - 1][1][-1] == apath[i + 1][1][0]):
                return f"segments around switch {i} do not meet"
        else:
            return f"foreign action {a[1]} at {i}"
    return None


def traced_corpus(ctx, nprog, p_err=0.1, spec=None):
    """generated kernels x argument tuples that trace successfully -> [(src, args, actions)]"""
    from gen import tweezer_prog
    S = spec or tweezer_prog.harness_spec()
    out = []
    for i in range(nprog):
        prog = tweezer_prog.gen_prog(ctx.rng, p_err=p_err)
        try:
            m = kernels.define(prog.src)["main"]
        except Exception:
            continue
        for args in prog.arg_tuples:
            st, r = run_impl(m, args, S)
            if st == "ok":
                out.append((prog.src, args, r))
    return out


def random_path(rng, max_len=8):
    """a path built directly from the action classes (any shape, also ill-formed ones)"""
    from kirin.dialects import ilist
    from bloqade.geometry.dialects.grid import Grid
    from bloqade.shuttle.codegen import taskgen as T
    info = action_class_info()
    classes = list(info)
    grids = [Grid.from_positions([float(i), float(i) + 1.0], [0.0]) for i in range(4)] + [Grid.from_positions([0.0], [0.0, 2.0])]
    sl = [slice(None), slice(0, 2), slice(0, 2, 1), slice(1, None, 2)]
    li = [ilist.IList([0]), ilist.IList([0, 1]), ilist.IList(range(2)), ilist.IList([])]
    p = []
    for _ in range(rng.randint(0, max_len)):
        if rng.random() < 0.5:
            p.append(T.WayPointsAction([rng.choice(grids) for _ in range(rng.randint(0, 5))]))
        else:
            c = rng.choice(classes)
            _, fx, fy = info[c]
            p.append(c(rng.choice(sl if fx == "S" else li), rng.choice(sl if fy == "S" else li)))
    return p
