"""C11 - every produced path is well formed (traced paths and their reversals)."""
import itertools

from vcommon import coqrun
from vcommon.coqrun import clist

from gen import kernels, tweezer_prog
from props import tracer_common as tc

COQ_IMPORT = "From BS Require Import Core.Show Core.Base Model.Tracer Model.Reverse.\n"


def library_paths(ctx):
    """every library tweezer kernel on its module's layout, arguments enumerated"""
    from kirin.dialects import ilist
    from bloqade.shuttle.stdlib.layouts import single_col_zone
    from bloqade.shuttle.stdlib import waypoints
    out = []
    S = single_col_zone.get_spec(4, 3, 2.0)
    zone = S.layout.static_traps["traps"]
    lists = [[0], [1], [0, 1], [0, 2], [1, 3], [0, 1, 2], [2, 1], []]
    for cx, cy, qx, qy in itertools.product(lists, [[0], [0, 1], [1, 2]], lists, [[0], [1], [0, 2], [1, 2]]):
        if ctx.quick and ctx.rng.random() < 0.7:
            continue
        args = (zone, ilist.IList(cx), ilist.IList(cy), ilist.IList(qx), ilist.IList(qy), 0.5, -0.5)
        st, r = tc.run_impl(single_col_zone.single_zone_move_cz, args, S)
        ctx.hist("library:single_zone_move_cz", st)
        if st == "ok":
            out.append(("single_col_zone.single_zone_move_cz", repr((cx, cy, qx, qy)), r))
    g = [zone[0:2, 0:2], zone[1:3, 0:2], zone[2:4, 1:3], zone[0:2, 1:3].shift(0.5, 0.5)]
    for n in range(0, 5):
        for wps in itertools.permutations(g, n):
            for pick, drop in itertools.product([False, True], repeat=2):
                if ctx.quick and ctx.rng.random() < 0.6:
                    continue
                st, r = tc.run_impl(waypoints.move_by_waypoints_kernel, (ilist.IList(list(wps)), pick, drop), S)
                ctx.hist("library:move_by_waypoints_kernel", st)
                if st == "ok":
                    out.append(("waypoints.move_by_waypoints_kernel", f"{n} waypoints pick={pick} drop={drop}", r))
    return out


def reused_tracer_paths(ctx, nprog):
    """paths produced by ONE tracer instance reused over a sequence of kernels, some of which fail (a path
    produced in any way must be well formed; the history is part of the replay)"""
    S = tweezer_prog.harness_spec()
    out, ti, hist = [], tc.new_tracer(S), []
    for i in range(nprog):
        if i % 12 == 0:
            ti, hist = tc.new_tracer(S), []
        prog = tweezer_prog.gen_prog(ctx.rng, p_err=0.45)
        try:
            m = kernels.define(prog.src)["main"]
        except Exception:
            continue
        for args in prog.arg_tuples[:2]:
            st, r = tc.run_impl(m, args, tracer=ti)
            hist.append({"src": prog.src, "args": repr(args)})
            ctx.hist("reused tracer", st)
            if st == "ok":
                out.append(({"history_on_one_tracer": list(hist[-6:])}, r))
    return out


def played_paths(ctx, nprog):
    """Path.path of PLAYED paths: generated tweezer kernels called as device functions, forward and reversed, by a move kernel on the three
    path.gen routes (spec-carrying interpreter; plain interpreter with the recorded spec; compile-time folding when the operands are literals)"""
    from vcommon import events
    S = tweezer_prog.harness_spec()
    out = []
    from types import SimpleNamespace as NS
    fixed = [
        # a tone switch that selects nothing, followed by moves, then a switch that selects something; ends with the tones on
        NS(src="@tweezer\ndef main(x: float, n: int):\n    g = grid.from_positions([x, x + 2.0], [0.0, 1.0])\n    action.set_loc(g)\n    action.turn_on([], action.ALL)\n"
               "    action.move(grid.shift(g, 1.0, 0.5))\n    action.move(grid.shift(g, 1.0, 2.5))\n    action.turn_on([0, 1], [])\n    action.move(grid.shift(g, 3.0, 2.5))\n"
               "    action.turn_on(action.ALL, [0])\n    i = 0\n    for i in range(n):\n        action.move(grid.shift(g, 4.0 + i, 2.5))\n",
           params=["x", "n"], arg_tuples=[(1.0, 2), (0.5, 0)]),
        # pick up, carry, and keep holding (the shape of the library CZ kernel): the reversal starts with a turn-off
        NS(src="@tweezer\ndef main(x: float, n: int):\n    g = grid.from_positions([x], [0.0, 1.0, 4.0])\n    action.set_loc(g)\n    action.turn_on(action.ALL, action.ALL)\n"
               "    action.move(grid.shift(g, 1.0, 0.5))\n    action.turn_off([0], [1])\n    action.move(grid.shift(g, 1.0, 2.5))\n    action.turn_on([0], [1, 2])\n",
           params=["x", "n"], arg_tuples=[(1.0, 2)]),
        # waypoints that are VIEWS of a filled grid next to waypoints that are not (the shifted view, another view)
        NS(src="@tweezer\ndef main(x: float, n: int):\n    z = grid.from_positions([x, x + 2.0, x + 4.0], [0.0, 1.0])\n    f = filled.vacate(z, [(0, 0)])\n    v = grid.sub_grid(f, [0, 1], [0, 1])\n"
               "    action.set_loc(v)\n    action.turn_on(action.ALL, action.ALL)\n    action.move(grid.shift(v, 1.0, 0.5))\n    action.move(grid.sub_grid(f, [1, 2], [0, 1]))\n    action.move(f[0:2, 0:2])\n"
               "    action.turn_off([0], action.ALL)\n",
           params=["x", "n"], arg_tuples=[(1.0, 2)]),
        # an AOD grid with an EMPTY axis (the column list is computed and turns out empty): segments stay non-empty
        NS(src="@tweezer\ndef main(x: float, n: int):\n    def col(i: int):\n        return x + 2.0 * i\n    g = grid.from_positions(ilist.map(col, ilist.range(n)), [0.0, 1.0])\n    action.set_loc(g)\n"
               "    action.turn_on(action.ALL, [0])\n    action.move(grid.shift(g, 1.0, 0.5))\n    action.turn_off(action.ALL, [0])\n    action.move(grid.shift(g, 0.0, 2.0))\n",
           params=["x", "n"], arg_tuples=[(1.0, 0), (0.5, 2)]),
        # no switch at all / only a set_loc
        NS(src="@tweezer\ndef main(x: float, n: int):\n    g = grid.from_positions([x], [0.0])\n    action.set_loc(g)\n    action.move(grid.shift(g, 1.0, 0.5))\n",
           params=["x", "n"], arg_tuples=[(1.0, 0)]),
    ]
    for i in range(-len(fixed), nprog):
        prog = fixed[i] if i < 0 else tweezer_prog.gen_prog(ctx.rng, p_err=0.02)
        try:
            k = kernels.define(prog.src)["main"]
        except Exception:
            if i < 0:
                ctx.obligation("the fixed played kernels can be defined", False, prog.src[:100])
            continue
        names = [f"a{j}" for j in range(len(prog.params))]
        for args in prog.arg_tuples[:2]:
            st, direct = tc.run_impl(k, args, S)
            if st != "ok":
                continue
            literal = all(isinstance(a, (bool, int, float)) for a in args)
            routes = [("spec-carrying interpreter", "", False, False), ("plain interpreter, recorded spec", "(arch_spec=S)", True, False)]
            if literal:
                routes.append(("compile-time folding", "(arch_spec=S)", True, True))
            for rname, dec, plain, lit in routes:
                ops = ", ".join(repr(a) for a in args) if lit else ", ".join(names)
                src = (f"@move{dec}\ndef mv({'' if lit else ', '.join(names)}):\n    f = schedule.device_fn(k, [0], [0])\n    f({ops})\n    schedule.reverse(f)({ops})\n")
                rep = {"src": prog.src, "args": repr(args), "played_by": src, "route": rname}
                try:
                    m = kernels.define(src, k=k, S=S)["mv"]
                    st2, evs, extra = events.run_events(m, () if lit else tuple(args), S, plain=plain)
                except Exception as e:
                    st2, evs, extra = "err", [], f"{type(e).__name__}: {e}"
                ctx.hist("played", rname + ": " + ("two paths" if st2 == "ok" and len(evs) == 2 else "no paths"))
                if st2 != "ok" or len(evs) != 2:
                    ctx.fail({"kind": "traced-kernel-not-played", "route": rname}, rep, f"{rname}: a kernel that traces could not be played forward and reversed: {str(extra)[:120]}")
                    continue
                for which, e in zip(("played", "played reversed"), evs):
                    out.append((f"played/{rname}", dict(rep, which=which), list(e[1].path)))
    return out


def visualized_paths(ctx):
    """what the library's PathVisualizer hands to render_path when a program plays kernels of DIFFERENT grid shapes one after the other
    (and the Path values the program holds afterwards): played paths are well formed wherever they are observed"""
    from vcommon import stubs
    stubs.install_matplotlib_stubs()
    from bloqade.shuttle.visualizer import PathVisualizer
    from bloqade.shuttle.visualizer.renderers.interface import RendererInterface
    S = tweezer_prog.harness_spec()
    ksrc = ("@tweezer\ndef ka(x: float):\n    g = grid.from_positions([x, x + 2.0], [0.0, 1.0])\n    action.set_loc(g)\n    action.turn_on(action.ALL, [0])\n"
            "    action.move(grid.shift(g, 1.0, 0.5))\n    action.turn_off(action.ALL, [0])\n"
            "@tweezer\ndef kb(x: float):\n    g = grid.from_positions([x + 9.0], [0.0, 1.0, 4.0])\n    action.set_loc(g)\n    action.turn_on([0], action.ALL)\n"
            "    action.move(grid.shift(g, 1.0, 0.5))\n    action.move(grid.shift(g, 1.0, 2.5))\n"
            "@tweezer\ndef kc(x: float):\n    action.set_loc(grid.from_positions([x], [5.0]))\n")
    ns = kernels.define(ksrc)
    out = []

    class Rec(RendererInterface):
        def __init__(self): self.paths = []
        def render_traps(self, traps, zone_id): pass
        def render_path(self, pth): self.paths.append(pth)
        def set_title(self, title): pass
        def show(self): pass
        def clear_paths(self): pass
    for dec in ("", "(arch_spec=S)"):
        src = (f"@move{dec}\ndef mv(x: float):\n    fa = schedule.device_fn(ka, [0, 1], [0, 1])\n    fb = schedule.device_fn(kb, [0], [0, 1, 2])\n    fc = schedule.device_fn(kc, [0], [0])\n"
               "    fa(x)\n    fb(x)\n    schedule.reverse(fa)(x)\n    fc(x)\n    schedule.reverse(fb)(1.0)\n    with schedule.parallel():\n        fa(2.0)\n        fb(x)\n    fa(x)\n")
        rep = {"visualized_by": src, "kernels": ksrc}
        try:
            m = kernels.define(src, S=S, **{k: ns[k] for k in ("ka", "kb", "kc")})["mv"]
            rec = Rec()
            PathVisualizer(m.dialects, arch_spec=S, renderer=rec).run(m, (0.5,), {})
        except Exception as e:
            ctx.fail({"kind": "traced-kernel-not-played", "route": "PathVisualizer"}, rep, f"PathVisualizer could not replay a program that plays kernels of different shapes: {type(e).__name__}: {str(e)[:100]}")
            continue
        ctx.hist("played", f"PathVisualizer{dec}: {len(rec.paths)} paths drawn")
        if len(rec.paths) != 8:
            ctx.fail({"kind": "traced-kernel-not-played", "route": "PathVisualizer", "drawn": len(rec.paths)}, rep, f"PathVisualizer drew {len(rec.paths)} paths for 8 played paths")
        for j, pv in enumerate(rec.paths):
            out.append((f"played/PathVisualizer{dec}", dict(rep, which=f"path {j} handed to render_path"), list(pv.path)))
    return out


FILLED_VIEW_SRC = """
@tweezer
def main(x: float, how: int):
    z = grid.from_positions([x, x + 2.0], [0.0, 1.0])
    f = filled.vacate(z, [(0, 0)])
    action.set_loc(f)
    action.turn_on(action.ALL, action.ALL)
    action.move(filled.shift(f, 1.0, 0.5))
    s = grid.shape(f)
    if how == 0:
        action.move(grid.sub_grid(f, [0], [0, 1]))
    if how == 1:
        action.move(f[0:2, 1])
    if how == 2:
        action.move(filled.repeat(f, 1, 2, 0.0, 5.0))
    if how == 3:
        action.move(grid.sub_grid(f, [1, 0], [0, 1]))
    action.turn_off(action.ALL, action.ALL)
"""


def filled_views_after_use(ctx):
    """a filled grid that has already been a waypoint (its shape has been read, its geometry cached) and THEN views / repetitions of it of
    another shape as move targets: whatever tracing returns - and its reversal - is judged by counting coordinates, not by the grids' own
    `shape` attribute"""
    from bloqade.shuttle.codegen import taskgen as T
    S = tweezer_prog.harness_spec()
    m = kernels.define(FILLED_VIEW_SRC)["main"]
    out = []
    for how in (0, 1, 2, 3, 4):
        st, r = tc.run_impl(m, (1.0, how), S)
        ctx.hist("filled views after use", f"how={how}: {'a path' if st == 'ok' else 'no path'}")
        if st == "ok":
            rep = {"src": FILLED_VIEW_SRC, "args": repr((1.0, how))}
            out.append(("traced/filled-view-after-use", dict(rep, which="traced"), list(r)))
            out.append(("reversed/filled-view-after-use", dict(rep, which="reversed"), T.reverse_path(list(r))))
    return out


def shape_text(ap):
    out = []
    for a in ap:
        if a[0] == "W":
            out.append("W" + ";".join(f"{tuple(g.x_positions)}x{tuple(g.y_positions)}" for g in a[1]))
        else:
            out.append(f"S({a[1]},{a[4]},{a[5]})")
    return " ".join(out)


def rendered_paths(ctx, corpus):
    """drawing a path with the library's renderer must leave the path as it was (it is played, reversed, replayed later)"""
    from kirin.dialects import ilist
    from bloqade.shuttle.dialects import path as path_d
    from vcommon import stubs
    try:
        rnd = stubs.matplotlib_renderer()
    except Exception as e:
        ctx.obligation("the library's MatplotlibRenderer can be driven with mock pyplot objects", False, f"{type(e).__name__}: {e}"[:200])
        return
    n = 0
    for kind, rep, p in corpus:
        segs = [a for a in tc.abstract_path(p) if a[0] == "W" and a[1]]
        if not segs:
            continue
        nx, ny = tc.site_shape(segs[0][1][0])
        before = shape_text(tc.abstract_path(p))
        try:
            rnd.render_path(path_d.Path(ilist.IList(range(nx)), ilist.IList(range(ny)), p))
        except Exception as e:
            ctx.hist("rendering", "renderer raised " + type(e).__name__)
            continue
        after_ap = tc.abstract_path(p)
        n += 1
        ctx.hist("rendering", "rendered")
        if shape_text(after_ap) != before:
            ctx.fail({"kind": "path-changed-by-rendering", "from": kind.split(":")[0]}, dict(rep, which="traced, then drawn with MatplotlibRenderer.render_path"),
                     f"drawing the path changed it: {before[:120]} became {shape_text(after_ap)[:120]}" +
                     (f" (now ill formed: {tc.wf_py(after_ap)})" if tc.wf_py(after_ap) else ""))
    ctx.count("paths drawn by the library renderer and re-read", n)


def run(ctx):
    from bloqade.shuttle.codegen import taskgen as T
    ctx.rule = ("paths traced from generated kernels (loops, branches, helpers, closures, all argument tuples on which tracing succeeds), "
                "from the library tweezer kernels with enumerated arguments, and the reversal of each; non-trivial = distinct paths with a switch")
    from props import c01
    c01.translated_tracer(ctx, who="C11")
    corpus = [("generated", {"src": s, "args": repr(a)}, r) for s, a, r in tc.traced_corpus(ctx, ctx.pick(250, 3000), p_err=0.05)]
    corpus += [("generated/inexact-coordinates", {"src": s, "args": repr(a), "spec": "inexact"}, r)
               for s, a, r in tc.traced_corpus(ctx, ctx.pick(120, 1000), p_err=0.05, spec=tweezer_prog.harness_spec_inexact())]
    corpus += [("library:" + n, {"kernel": n, "args": a}, r) for n, a, r in library_paths(ctx)]
    corpus += [("reused-tracer", rep, r) for rep, r in reused_tracer_paths(ctx, ctx.pick(120, 1200))]
    rendered_paths(ctx, corpus[:ctx.pick(150, 1500)])
    corpus += [(k, rep, r) for k, rep, r in filled_views_after_use(ctx) if k.startswith("traced/")]
    played = played_paths(ctx, ctx.pick(60, 600)) + visualized_paths(ctx)
    ctx.count("played paths (Path.path of path.Play events, three routes, forward and reversed)", len(played))
    cases = []
    for kind, rep, p in corpus + played:
        for which, q in ((("traced", p), ("reversed", T.reverse_path(p))) if not kind.startswith("played/") else ((rep["which"], p),)):
            ap = tc.abstract_path(q)
            why = tc.wf_py(ap)
            ctx.evaluations += 1
            ctx.hist("source", kind.split(":")[0] + "/" + which)
            gt = tc.GridTable()
            if why is not None:
                ctx.fail({"kind": "ill-formed", "which": which, "why": why, "from": kind}, dict(rep, which=which),
                         f"{which} path from {kind} is ill formed: {why}: {tc.path_text(ap, gt)[:200]}")
            if any(a[0] == "?" or (a[0] == "S" and (a[4] is None or a[5] is None)) for a in ap):
                continue
            if any(a[0] == "S" for a in ap):
                ctx.nt(tc.path_text(ap, gt))
            cases.append((tc.path_coq(ap, gt), "T" if why is None else "F", rep))
    if corpus:
        ctx.sample({"from": corpus[0][0], "case": corpus[0][1], "path": tc.path_text(tc.abstract_path(corpus[0][2]), tc.GridTable())})
    # ill-formed canaries: wfb (Coq) and wf_py must both reject them
    bad = [p for p in (tc.random_path(ctx.rng) for _ in range(300))]
    nbad = 0
    for p in bad:
        ap = tc.abstract_path(p)
        if any(a[0] == "S" and (a[4] is None or a[5] is None) for a in ap):
            continue
        why = tc.wf_py(ap)
        nbad += why is not None
        cases.append((tc.path_coq(ap, tc.GridTable()), "T" if why is None else "F", {"kind": "random-direct"}))
    ctx.count("random_direct_paths_ill_formed", nbad)
    chunks = [cases[i:i + 150] for i in range(0, len(cases), 150)]
    bodies = [(f"wf_{k}", COQ_IMPORT + "Eval vm_compute in (lines (map (fun p => show_bool (wfb p)) %s))." %
               clist([c[0] for c in ch])) for k, ch in enumerate(chunks)]
    mism = []
    for ch, (ok, vals, log) in zip(chunks, coqrun.eval_many(ctx.bdir, bodies)):
        if not ok or len(vals) != 1 or len(vals[0]) != len(ch):
            ctx.obligation("coqc wf file evaluates", False, log[-800:])
            continue
        for c, line in zip(ch, vals[0]):
            if line != c[1]:
                mism.append({"wfb(model)": line, "wf(python oracle on impl path)": c[1], "case": c[2]})
    ctx.correspondence("Coq wfb on shipped implementation paths = Python well-formedness oracle (incl. ill-formed canaries)", len(cases), mism)
    ctx.obligation("canary: some directly built paths are ill formed and rejected", nbad > 20, f"{nbad}")
    ctx.explanation = ("Theorems: every path the tracer model yields is well formed (invariant over all op sequences), reversal preserves "
                       "well-formedness; model tied to taskgen by C01's correspondence; here wfb is evaluated in Coq on every produced path and "
                       "its reversal and the same predicate is evaluated in Python as the search oracle")


def replay(data):
    from bloqade.shuttle.codegen import taskgen as T
    from kirin.dialects import ilist
    inp = data["input"]
    if "history_on_one_tracer" in inp:
        S = tweezer_prog.harness_spec()
        ti, last = tc.new_tracer(S), None
        for h in inp["history_on_one_tracer"]:
            m = kernels.define(h["src"])["main"]
            last = tc.run_impl(m, eval(h["args"], {"slice": slice, "IList": ilist.IList}), tracer=ti)
        if last is None or last[0] != "ok":
            return False, "last call of the history does not produce a path now"
        q = last[1] if inp.get("which") == "traced" else T.reverse_path(last[1])
        why = tc.wf_py(tc.abstract_path(q))
        return why is not None, why or "well formed"
    if "visualized_by" in inp:
        class C:
            def __init__(s): s.fails = []
            def fail(s, sig, rep, what): s.fails.append(what)
            def hist(s, *a): pass
        c = C()
        bad = [f"{rep['which']}: {tc.wf_py(tc.abstract_path(p))}" for k, rep, p in visualized_paths(c) if rep["visualized_by"] == inp["visualized_by"] and tc.wf_py(tc.abstract_path(p))]
        return bool(bad or c.fails), (bad + c.fails + ["well formed"])[0][:200]
    if "played_by" in inp:
        from vcommon import events
        S = tweezer_prog.harness_spec()
        k = kernels.define(inp["src"])["main"]
        args = eval(inp["args"], {"slice": slice, "IList": ilist.IList})
        m = kernels.define(inp["played_by"], k=k, S=S)["mv"]
        lit = "def mv()" in inp["played_by"]
        st, evs, extra = events.run_events(m, () if lit else tuple(args), S, plain="arch_spec" in inp["played_by"])
        if st != "ok" or len(evs) != 2:
            return True, "not played: " + str(extra)[:100]
        q = list(evs[0 if inp.get("which") == "played" else 1][1].path)
        why = tc.wf_py(tc.abstract_path(q))
        return why is not None, why or "well formed"
    if "src" not in inp:
        return True, "library-kernel replay: re-run bin/check C11: " + str(data.get("what"))
    S = tweezer_prog.harness_spec_inexact() if inp.get("spec") == "inexact" else tweezer_prog.harness_spec()
    m = kernels.define(inp["src"])["main"]
    args = eval(inp["args"], {"slice": slice, "IList": ilist.IList})
    st, r = tc.run_impl(m, args, S)
    if st != "ok":
        return False, "tracing fails now"
    if str(inp.get("which", "")).startswith("traced, then drawn"):
        from bloqade.shuttle.dialects import path as path_d
        from vcommon import stubs
        segs = [a for a in tc.abstract_path(r) if a[0] == "W" and a[1]]
        nx, ny = tc.site_shape(segs[0][1][0])
        before = shape_text(tc.abstract_path(r))
        stubs.matplotlib_renderer().render_path(path_d.Path(ilist.IList(range(nx)), ilist.IList(range(ny)), r))
        after = shape_text(tc.abstract_path(r))
        return after != before, "the drawn path " + ("changed" if after != before else "is unchanged")
    q = r if inp.get("which") == "traced" else T.reverse_path(r)
    why = tc.wf_py(tc.abstract_path(q))
    return why is not None, why or "well formed"
