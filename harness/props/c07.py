"""C07 - specialising one kernel never affects another kernel or the spec."""
import copy
import io
import itertools

from vcommon import coqrun, events
from vcommon.coqrun import clist, cnat

from gen import kernels, tweezer_prog
from props import tracer_common as tc

COQ_IMPORT = "From BS Require Import Core.Show Model.Store.\n"


def two_specs():
    from bloqade.geometry.dialects.grid import Grid
    from bloqade.shuttle.arch import ArchSpec, Layout
    def mk(dx, rows, pitch):
        traps = Grid.from_positions([0.0 + dx, 2.0 + dx, 4.0 + dx, 6.5 + dx], [0.0, 3.0, 6.0])
        aux = Grid.from_positions([20.0 + dx, 21.0 + dx, 22.0 + dx], [1.0, 2.0, 3.0, 4.0])
        lay = Layout({"traps": traps, "aux": aux}, {"traps"}, {"traps"}, {"aux"}, special_grid={"park": Grid.from_positions([-4.0 - dx, -2.0], [0.5, 1.5])})
        return ArchSpec(layout=lay, float_constants={"pitch": pitch}, int_constants={"rows": rows})
    # C has the layout of A (equal grids, equal tables) and other constants; only B defines the constant "bonus"
    out = {"A": mk(0.0, 2, 2.5), "B": mk(100.0, 3, 7.5), "C": mk(0.0, 3, 4.0)}
    out["B"].float_constants["bonus"] = 9.5
    # D and E differ in one constant only, and their hashes are EQUAL (hash(-1.0) == hash(-2.0)): two specs, not one
    out["D"], out["E"] = mk(0.0, 2, -1.0), mk(0.0, 2, -2.0)
    return out


SHARED = '''
@tweezer
def hop(dx: float):
    z = spec.get_static_trap(zone_id="traps")
    s = z[0:2, 1]
    action.set_loc(s)
    action.turn_on([1, 0], [0])
    action.move(grid.shift(s, dx, 0.0))
    action.turn_off([0, 1], [0])

@move
def lib_gate():
    z = spec.get_static_trap(zone_id="traps")
    gate.top_hat_cz(z)
    gate.local_rz(spec.get_float_constant(constant_id="pitch"), spec.get_static_trap(zone_id="aux"))

@move
def lib_rows(k: int):
    n = spec.get_int_constant(constant_id="rows")
    i = 0
    for i in range(n):
        lib_gate()
        gate.global_rz(spec.get_float_constant(constant_id="pitch"))
    f = schedule.device_fn(hop, [0, 1], [0])
    f(1.0)
    return n + k

@move
def lib_park():
    init.fill([spec.get_special_grid(grid_id="park")])
    return lib_rows(1)

@move
def lib_dyn(n: int):
    f = schedule.device_fn(hop, ilist.range(n), [0])
    f(2.0)
    return n

@move
def lib_hopx(x: float):
    f = schedule.device_fn(hop, [0, 1], [0])
    f(x)

@move(fold=False)
def lib_raw(k: int):
    x = 1 + 2
    lib_gate()
    gate.global_rz(spec.get_float_constant(constant_id="pitch"))
    return x + k

@move
def lib_layer(k: int):
    lib_gate()
    return lib_rows(k)

@move
def lib_getter():
    def zone_of():
        return spec.get_static_trap(zone_id="traps")
    def lookup():
        return zone_of()
    return lookup
'''
KERNELS = {
    "K1": "def K1():\n    lib_gate()\n    return lib_rows(0)\n",
    "K2": "def K2():\n    x = lib_park()\n    lib_gate()\n    return x\n",
    "K6": "def K6(x: float):\n    lib_gate()\n    lib_hopx(x)\n    return 6\n",       # its device call can only be evaluated at run time
    "K7": "def K7():\n    return lib_raw(1)\n",                                   # reaches a subroutine that was defined without folding
    "K5": "def K5():\n    lib_gate()\n    return lib_dyn(3)\n",      # (tone lists no shared subroutine builds with constants: (0, 1, 2) x (0))
    "K4": "def K4():\n    return lib_layer(1)\n",
    # a subroutine that hands out a closure which captured another closure doing the lookup
    "K8": "def K8():\n    get = lib_getter()\n    z = get()\n    gate.local_rz(0.5, z)\n    return 8\n",
    # a lookup only spec B can answer: under A and C it fails, whatever was compiled before
    "K9": "def K9():\n    lib_gate()\n    gate.global_rz(spec.get_float_constant(constant_id=\"bonus\"))\n    return 9\n",
    # a FLOAT constant asked for under a name the specs only know as an INT constant: refused on every route, and asking leaves the spec alone
    "K10": "def K10():\n    lib_gate()\n    gate.global_rz(spec.get_float_constant(constant_id=\"rows\"))\n    return 10\n",
    "K3": "def K3():\n    from_way = spec.get_static_trap(zone_id=\"traps\")\n    move_by_waypoints(ilist.IList([from_way[0:2, 0:2], from_way[1:3, 0:2]]), True, True)\n    return lib_rows(2)\n",
}
KARGS = {"K6": (1.5,)}
SHARED_NAMES = ["lib_gate", "lib_rows", "lib_park", "lib_layer", "lib_dyn", "lib_hopx", "lib_raw", "lib_getter", "move_by_waypoints", "move_by_waypoints_kernel", "hop"]


SHARED_IDS = {}      # id(shared method of the current world) -> name


def ir_text(m):
    """printed IR plus WHICH method objects the calls go to (a call redirected to a clone prints the same)"""
    from kirin.dialects import func
    from kirin.print import Printer
    from rich.console import Console
    buf = io.StringIO()
    m.print(Printer(console=Console(file=buf, force_terminal=False, no_color=True, width=400)))
    callees = [f"{st.callee.sym_name}->{SHARED_IDS.get(id(st.callee), 'NOT-THE-SHARED-METHOD')}"
               for st in m.callable_region.walk() if isinstance(st, func.Invoke)]
    # methods held as constants (tweezer kernels handed to device_fn, lifted closures) and inside folded device functions
    from kirin import ir
    from kirin.dialects import py
    held = []
    for st in m.callable_region.walk():
        if isinstance(st, py.Constant) and isinstance(st.value, ir.PyAttr):
            v = st.value.data
            v = getattr(v, "move_fn", v)
            if isinstance(v, ir.Method):
                held.append(f"{v.sym_name}->{SHARED_IDS.get(id(v), 'NOT-THE-SHARED-METHOD')}" + captured_text(v, 0))
    return buf.getvalue() + "\ncallees: " + ", ".join(callees) + "\nheld methods: " + ", ".join(held)


def captured_text(v, depth):
    """the code of the closures a held method captured (Method.fields), recursively: part of what the method does"""
    from kirin import ir
    from kirin.print import Printer
    from rich.console import Console
    out = ""
    for f in getattr(v, "fields", ()) or ():
        if isinstance(f, ir.Method) and depth < 4:
            buf = io.StringIO()
            f.print(Printer(console=Console(file=buf, force_terminal=False, no_color=True, width=400)))
            out += f"\n  captured by {v.sym_name}: {buf.getvalue()}" + captured_text(f, depth + 1)
    return out


def log_text(st, evs, res):
    gt = tc.PosTable()
    return (st, tuple(events.events_text(evs, gt)), repr(res) if st == "ok" else None)


class World:
    """one set of shared subroutines, compiled kernels, snapshots"""

    def __init__(self, specs):
        from bloqade.shuttle.stdlib import waypoints
        self.specs = specs
        self.spec_snap = {k: (copy.deepcopy(v), hash(v)) for k, v in specs.items()}
        self.ns = kernels.define(SHARED)
        self.ns["move_by_waypoints"] = waypoints.move_by_waypoints
        self.ns["move_by_waypoints_kernel"] = waypoints.move_by_waypoints_kernel
        self.shared = {n: self.ns[n] for n in SHARED_NAMES}
        SHARED_IDS.clear()
        SHARED_IDS.update({id(m): n for n, m in self.shared.items()})
        self.shared_ir = {n: ir_text(m) for n, m in self.shared.items()}
        self.compiled = {}            # kernel name -> (method, spec key)

    def shared_behaviour(self):
        out = {}
        for sk, S in self.specs.items():
            for n in ("lib_gate", "lib_rows", "lib_park", "lib_layer", "lib_dyn", "lib_hopx", "lib_raw"):
                args = (1,) if n in ("lib_rows", "lib_layer", "lib_raw") else (2,) if n == "lib_dyn" else (0.5,) if n == "lib_hopx" else ()
                out[(n, sk)] = log_text(*events.run_events(self.shared[n], args, S))
        return out

    def compile(self, kname, sk):
        src = "@move(arch_spec=S)\n" + KERNELS[kname]
        self.compiled[kname] = (kernels.define(src, S=self.specs[sk], **self.ns)[kname], sk)

    def run_compiled(self, kname):
        m, sk = self.compiled[kname]
        # plain interpreter: the kernel may only see what was specialised into it
        return log_text(*events.run_events(m, KARGS.get(kname, ()), self.specs[sk], plain=True))


def expected_logs(specs):
    """each kernel, unspecialised, on a pristine world, under the spec-carrying interpreter"""
    out = {}
    for kname in KERNELS:
        for sk, S in specs.items():
            w = World(specs)
            m = kernels.define("@move\n" + KERNELS[kname], **w.ns)[kname]
            out[(kname, sk)] = log_text(*events.run_events(m, KARGS.get(kname, ()), S))
    return out


NATIVE_KERNELS = ["K1", "K2", "K4", "K5", "K6", "K7", "K8", "K9", "K10"]       # K3 uses a library kernel


def source_reference(ctx, specs, expect):
    """the reference logs above come from the implementation itself (the unspecialised kernel under a spec-carrying interpreter); here
    the SOURCE of the shared subroutines and of each kernel is evaluated natively under each spec and the events must be the same -
    a shared subroutine that already carries some spec's paths when it is defined makes every route agree on the wrong events"""
    from gen import move_native
    w = World(specs)
    n = 0
    for kname in NATIVE_KERNELS:
        for sk, S in specs.items():
            src = SHARED + "\n@move\n" + KERNELS[kname]
            nat = move_native.run_native(src, KARGS.get(kname, ()), S, kernel_ns={"hop": w.ns["hop"]}, main=kname)
            ctx.evaluations += 1
            n += 1
            imp = expect[(kname, sk)]
            if nat[0] != "ok":
                if imp[0] == "ok":
                    ctx.fail({"kind": "kernel-behaviour-differs", "kernel": kname, "reference": "source"}, {"history": [], "kernel": kname, "spec": sk},
                             f"{kname} under spec {sk}: the source evaluated natively raises ({nat[-1]}) but the kernel runs")
                continue
            got = tuple(events.events_text(nat[1], tc.PosTable()))
            if imp[0] != "ok" or imp[1] != got:
                k = next((j for j in range(min(len(got), len(imp[1]))) if got[j] != imp[1][j]), min(len(got), len(imp[1])))
                ctx.fail({"kind": "kernel-observes-wrong-spec", "kernel": kname, "reference": "source"}, {"history": [], "kernel": kname, "spec": sk, "source_reference": True},
                         f"{kname} run unspecialised under spec {sk} executes events that differ from its source evaluated under that spec at event {k}: "
                         f"{(imp[1][k] if k < len(imp[1]) else '<none>')[:110]} vs {(got[k] if k < len(got) else '<none>')[:110]}")
            else:
                ctx.nt(("source-reference", kname, sk))
    ctx.count("kernels whose reference log was also obtained by evaluating the source natively", n)


def run_history(ctx, hist, specs, expect, base_behaviour):
    """hist: list of ('compile', K, specKey) | ('run', K) | ('run-shared',)"""
    w = World(specs)
    rep = {"history": [list(h) for h in hist]}
    for step, h in enumerate(hist):
        if h[0] == "compile":
            try:
                w.compile(h[1], h[2])
            except Exception as e:
                ctx.fail({"kind": "compile-fails", "kernel": h[1]}, rep, f"step {step}: compiling {h[1]} with spec {h[2]} raised {type(e).__name__}: {str(e)[:120]}")
                return
        # after every step: every observation
        for n, m in w.shared.items():
            if ir_text(m) != w.shared_ir[n]:
                ctx.fail({"kind": "shared-subroutine-changed", "subroutine": n}, rep, f"after step {step} {h}: the printed IR of shared subroutine {n} changed")
                w.shared_ir[n] = ir_text(m)
        if h[0] in ("run-shared",) or step == len(hist) - 1:
            beh = w.shared_behaviour()
            for k, v in beh.items():
                if v != base_behaviour[k]:
                    ctx.fail({"kind": "shared-subroutine-behaves-differently", "subroutine": k[0]}, rep,
                             f"after step {step} {h}: shared subroutine {k[0]} under spec {k[1]} executes different events than before any compilation")
        for kname, (m, sk) in w.compiled.items():
            if h[0] == "run" and h[1] != kname and step != len(hist) - 1:
                continue
            got = w.run_compiled(kname)
            if got != expect[(kname, sk)]:
                other = [s for s in specs if s != sk and got == expect[(kname, s)]]
                ctx.fail({"kind": "kernel-observes-wrong-spec" if other else "kernel-behaviour-differs", "kernel": kname}, rep,
                         f"after step {step} {h}: {kname} compiled with spec {sk} executes " +
                         (f"as if compiled with spec {other[0]}" if other else f"{len(got[1])} events / status {got[0]} instead of the expected {len(expect[(kname, sk)][1])}"))
        for sk, S in specs.items():
            snap, hsh = w.spec_snap[sk]
            if not (S == snap) or hash(S) != hsh or S.layout.static_traps.keys() != snap.layout.static_traps.keys():
                ctx.fail({"kind": "spec-modified", "spec": sk}, rep, f"after step {step} {h}: spec {sk} was modified")
    ctx.evaluations += 1
    ctx.hist("history_len", len(hist))
    if len({h[2] for h in hist if h[0] == "compile"}) >= 2:
        ctx.nt(tuple(map(tuple, hist)))


def native_logs(specs):
    from gen import move_native
    w = World(specs)
    out = {}
    for kname in NATIVE_KERNELS:
        for sk, S in specs.items():
            nat = move_native.run_native(SHARED + "\n@move\n" + KERNELS[kname], KARGS.get(kname, ()), S, kernel_ns={"hop": w.ns["hop"]}, main=kname)
            if nat[0] == "ok":
                out[(kname, sk)] = tuple(events.events_text(nat[1], tc.PosTable()))
    return out


def first_histories(ctx, specs):
    """histories run BEFORE anything else of this check has executed a shared subroutine in this process: the expectation is the source
    evaluated natively (no kernel of the package is interpreted to obtain it), so that nothing this check does first can hide what an
    earlier compilation leaves behind for a later one"""
    nat = native_logs(specs)
    hists = [[("compile", "K5", "A"), ("run", "K5"), ("compile", "K5", "B"), ("run", "K5")],
             [("compile", "K1", "B"), ("compile", "K6", "A"), ("run", "K6"), ("compile", "K6", "C"), ("run", "K6"), ("compile", "K2", "A")],
             [("compile", "K5", "C"), ("compile", "K5", "B"), ("compile", "K5", "A"), ("run", "K5")]]
    n = 0
    for hist in hists:
        w = World(specs)
        rep = {"history": [list(h) for h in hist], "first_in_process": True}
        for step, h in enumerate(hist):
            if h[0] == "compile":
                try:
                    w.compile(h[1], h[2])
                except Exception as e:
                    ctx.fail({"kind": "compile-fails", "kernel": h[1], "first": True}, rep, f"step {step}: compiling {h[1]} with spec {h[2]} raised {type(e).__name__}: {str(e)[:120]}")
                    break
            for kname, (m, sk) in w.compiled.items():
                got = w.run_compiled(kname)
                want = nat.get((kname, sk))
                ctx.evaluations += 1
                n += 1
                if want is not None and (got[0] != "ok" or got[1] != want):
                    other = [s for s in specs if s != sk and nat.get((kname, s)) == got[1]]
                    ctx.fail({"kind": "kernel-observes-wrong-spec" if other else "kernel-behaviour-differs", "kernel": kname, "first": True}, rep,
                             f"after step {step} {h}: {kname} compiled with spec {sk} executes " + (f"the events its source gives under spec {other[0]}" if other else
                             f"{len(got[1])} events / status {got[0]}, not the {len(want)} events its source gives under spec {sk}"))
                else:
                    ctx.nt(("first-history", tuple(map(tuple, hist)), step, kname))
            for sk, S in specs.items():
                snap, hsh = w.spec_snap[sk]
                if not (S == snap) or hash(S) != hsh or S.layout.static_traps.keys() != snap.layout.static_traps.keys():
                    ctx.fail({"kind": "spec-modified", "spec": sk, "first": True}, rep, f"after step {step} {h}: spec {sk} was modified")
                    w.spec_snap[sk] = (copy.deepcopy(S), hash(S))
    ctx.count("observations in histories run before the check interprets any shared subroutine itself", n)


def specs_untouched(ctx, specs, pristine, when):
    for sk, S in specs.items():
        snap, hsh = pristine[sk]
        if not (S == snap) or hash(S) != hsh or S.layout.static_traps.keys() != snap.layout.static_traps.keys() or S.float_constants != snap.float_constants \
                or S.int_constants != snap.int_constants or S.layout.special_grid.keys() != snap.layout.special_grid.keys():
            ctx.fail({"kind": "spec-modified", "spec": sk, "when": when}, {"history": [], "when": when}, f"{when}: spec {sk} is no longer what it was when this check started")
            pristine[sk] = (copy.deepcopy(S), hash(S))


def long_lived_interpreter(ctx, specs, expect):
    """ONE spec-carrying interpreter that lives through a history: unspecialised kernels, kernels compiled with ANOTHER spec (one of which
    fails at run time, K10), unspecialised kernels again - every unspecialised run plays what its kernel means under the interpreter's own
    spec, whatever ran (or failed) on that interpreter before"""
    n = 0
    for own, other in (("B", "A"), ("A", "B"), ("C", "B")):
        w = World(specs)
        plain = {k: kernels.define("@move\n" + KERNELS[k], **w.ns)[k] for k in ("K1", "K2", "K4")}
        foreign = {}
        # K11: plays a device call (its path.gen carries the spec it was compiled with), then fails
        extra = {"K11": "def K11():\n    lib_hopx(0.5)\n    gate.global_rz(spec.get_float_constant(constant_id=\"rows\"))\n    return 11\n"}
        for k in ("K10", "K11", "K2", "K1", "K6"):
            try:
                foreign[k] = kernels.define("@move(arch_spec=S)\n" + {**KERNELS, **extra}[k], S=specs[other], **w.ns)[k]
            except Exception as e:
                ctx.fail({"kind": "compile-fails", "kernel": k}, {"long_lived": True, "own": own, "other": other}, f"compiling {k} with spec {other} raised {type(e).__name__}: {str(e)[:100]}")
        it = events.make_interp(specs[own])
        steps = [("plain", "K1"), ("foreign", "K2"), ("plain", "K2"), ("foreign", "K10"), ("plain", "K1"), ("foreign", "K6"), ("plain", "K4"), ("foreign", "K11"),
                 ("plain", "K1"), ("plain", "K4"), ("foreign", "K1"), ("plain", "K2")]
        for pos, (how, k) in enumerate(steps):
            m = plain[k] if how == "plain" else foreign.get(k)
            if m is None:
                continue
            start = len(it.events)
            try:
                res = it.run(m, tuple(KARGS.get(k, ())), {})
                got = log_text("ok", it.events[start:], res)
            except Exception as e:
                got = log_text("err", it.events[start:], None)
            ctx.evaluations += 1
            n += 1
            if how != "plain":
                continue
            want = expect[(k, own)]
            if got[:2] != want[:2]:
                j = next((j for j in range(min(len(got[1]), len(want[1]))) if got[1][j] != want[1][j]), min(len(got[1]), len(want[1])))
                ctx.fail({"kind": "kernel-observes-wrong-spec", "kernel": k, "reference": "one long-lived interpreter", "own": own},
                         {"long_lived": True, "own": own, "other": other, "step": pos},
                         f"one interpreter carrying spec {own}: after the steps {steps[:pos]} (foreign = compiled with spec {other}) the unspecialised {k} plays "
                         f"{(got[1][j] if j < len(got[1]) else '<none>' if got[0] == 'ok' else 'an error')[:100]} where spec {own} means {(want[1][j] if j < len(want[1]) else '<none>')[:100]}")
                break
        else:
            ctx.nt(("long-lived-interpreter", own, other))
    ctx.count("runs on one long-lived spec-carrying interpreter (unspecialised kernels around kernels compiled with another spec, one failing)", n)


def translated_library_spec(ctx):
    """the Gemini logical library (vertical_shift and the helper kernels it reaches: get_block, calc_vertical_shifts, move_by_shift) under the
    stock spec and under a copy of it whose every zone is translated by (+1000, +500): a kernel compiled with / run under the translated
    spec plays every waypoint of the stock run translated by exactly that offset - each specialised kernel observes only its own spec,
    also inside the library's own helper kernels, in both compilation orders"""
    import copy
    from bloqade.shuttle.arch import ArchSpec
    from bloqade.shuttle.stdlib.layouts.gemini import logical
    DX, DY = 1000.0, 500.0
    # specs built WITHOUT constants of their own, before the Gemini spec (which extends its own tables after construction) exists in this
    # history, and after: they have no constants, and building / compiling with another spec does not give them any
    from bloqade.shuttle.stdlib.layouts import single_col_zone
    bystanders = {"ArchSpec()": ArchSpec(), "single_col_zone.get_spec(2, 2)": single_col_zone.get_spec(2, 2)}
    G0 = logical.get_spec()
    bystanders["ArchSpec() built afterwards"] = ArchSpec()
    bystanders["single_col_zone.get_spec(3, 2) built afterwards"] = single_col_zone.get_spec(3, 2)
    for name, sp in bystanders.items():
        ctx.evaluations += 1
        if dict(sp.int_constants) or dict(sp.float_constants):
            ctx.fail({"kind": "spec-modified", "spec": "bystander without constants"}, {"translated_library_spec": True, "bystander": name},
                     f"{name}, a spec built without any constant, has the constants {dict(sp.int_constants)} / {dict(sp.float_constants)} once gemini.logical.get_spec() "
                     f"has been built in the same process")
        else:
            ctx.nt(("bystander", name))
    L1 = copy.deepcopy(G0.layout)
    for table in (L1.static_traps, L1.special_grid):
        for k in list(table):
            table[k] = table[k].shift(DX, DY)
    G1 = ArchSpec(layout=L1, float_constants=dict(G0.float_constants), int_constants=dict(G0.int_constants))
    src = ("@move{DEC}\ndef main():\n    logical.vertical_shift(1, 0, [0, 1])\n    logical.vertical_shift(-1, 1, [1, 2])\n")

    def coords(evs):
        out = []
        for e in evs:
            if e[0] != "play":
                out.append((e[0],))
                continue
            for a in e[1].path:
                wps = getattr(a, "way_points", None)
                if wps is None:
                    out.append((type(a).__name__,))
                else:
                    out.append(("W", [(tuple(g.x_positions), tuple(g.y_positions)) for g in wps]))
        return out

    def shifted(c, dx, dy):
        return [(t[0], [(tuple(x + dx for x in xs), tuple(y + dy for y in ys)) for xs, ys in t[1]]) if t[0] == "W" else t for t in c]

    def close(a, b):
        if len(a) != len(b):
            return False
        for s, t in zip(a, b):
            if s[0] != t[0] or (s[0] == "W" and (len(s[1]) != len(t[1]) or any(len(p[0]) != len(q[0]) or len(p[1]) != len(q[1]) or
                                any(abs(u - v) > 1e-6 for u, v in zip(p[0] + p[1], q[0] + q[1])) for p, q in zip(s[1], t[1])))):
                return False
        return True
    n = 0
    for order in (("G0", "G1"), ("G1", "G0")):
        got = {}
        for name in order:
            X = {"G0": G0, "G1": G1}[name]
            for how in ("compiled", "run under"):
                ctx.evaluations += 1
                n += 1
                try:
                    if how == "compiled":
                        m = kernels.define(src.replace("{DEC}", "(arch_spec=S)"), S=X, logical=logical)["main"]
                        st, evs, extra = events.run_events(m, (), X, plain=True)
                    else:
                        m = kernels.define(src.replace("{DEC}", ""), logical=logical)["main"]
                        st, evs, extra = events.run_events(m, (), X)
                except Exception as e:
                    st, evs, extra = "err", [], f"{type(e).__name__}: {e}"
                got[(name, how)] = coords(evs) if st == "ok" else "ERR " + str(extra)[:120]
        base = got[("G0", "run under")]
        if isinstance(base, str) or sum(1 for t in base if t[0] == "W") < 2:
            ctx.obligation("the Gemini library moves run under the stock spec", False, str(base)[:200])
            continue
        for (name, how), c in got.items():
            want = shifted(base, DX, DY) if name == "G1" else base
            if isinstance(c, str) or not close(c, want):
                k = "-" if isinstance(c, str) else next((j for j in range(min(len(c), len(want))) if not close(c[j:j + 1], want[j:j + 1])), min(len(c), len(want)))
                ctx.fail({"kind": "kernel-observes-wrong-spec", "library": "gemini.logical", "how": how, "spec": name},
                         {"translated_library_spec": True, "order": list(order), "how": how, "spec": name},
                         f"gemini.logical.vertical_shift {how} the {'translated' if name == 'G1' else 'stock'} spec (compilation order {order}): "
                         f"action {k} is {str(c if isinstance(c, str) else (c[k] if k < len(c) else '<none>'))[:130]} where the spec means {str(want[k] if not isinstance(c, str) and k < len(want) else '')[:130]}")
            else:
                ctx.nt(("translated-library-spec", order, name, how))
    ctx.count("Gemini library moves under the stock and the translated spec (2 compilation orders x 2 specs x compiled / run under)", n)


FILLED_ZONE_SRC = """
@move(arch_spec=F)
def first():
    z = spec.get_static_trap(zone_id="reg")
    return filled.vacate(z, [(0, 0), (0, 1)])

@move(arch_spec=F)
def second():
    return spec.get_static_trap(zone_id="reg")

@move(arch_spec=F)
def third(n: int):
    base = filled.vacate(spec.get_static_trap(zone_id="reg"), [(0, 0)])
    return filled.vacate(base, [(n, n)])
"""


def filled_zone_spec(ctx):
    """a spec whose static trap zone is itself a FilledGrid (legal: it is a Grid): kernels that vacate / re-vacate the looked-up zone, compiled
    one after the other against the SAME spec object and called repeatedly - the spec stays what it was (deep equality, hash, the zone's
    vacancy set), the later kernel sees the spec's zone, and every call of a compiled kernel gives the value its source denotes"""
    from bloqade.geometry.dialects.grid import Grid
    from bloqade.shuttle.arch import ArchSpec, Layout
    from bloqade.shuttle.dialects.filled.types import FilledGrid
    root = Grid.from_positions([0.0, 2.0, 4.0], [0.0, 3.0, 6.0])
    def vac(v):
        return sorted(tuple(int(i) for i in p) for p in getattr(v, "vacancies", ()))
    def rootof(v):
        return v.parent if isinstance(v, FilledGrid) else v
    F = ArchSpec(layout=Layout({"reg": FilledGrid.vacate(root, [(2, 2)])}, {"reg"}, {"reg"}, {"reg"}))
    snap, hsh = copy.deepcopy(F), hash(F)
    rep = {"filled_zone_src": FILLED_ZONE_SRC}
    def untouched(when):
        ctx.evaluations += 1
        z = F.layout.static_traps["reg"]
        if not (F == snap) or hash(F) != hsh or vac(z) != [(2, 2)] or not (z == snap.layout.static_traps["reg"]):
            ctx.fail({"kind": "spec-modified", "spec": "filled-zone", "when": when}, dict(rep, when=when),
                     f"{when}: the spec's FilledGrid zone now has vacancies {vac(z)} (was [(2, 2)]): compiling / running a kernel modified the spec")
            return False
        ctx.nt(("filled-zone-spec", when))
        return True
    try:
        ns = kernels.define(FILLED_ZONE_SRC, F=F)
    except Exception as e:
        ctx.obligation("kernels over a spec with a FilledGrid zone compile", False, f"{type(e).__name__}: {e}"[:300])
        return
    if not untouched("after compiling three kernels against a spec with a FilledGrid zone"):
        return
    steps = [("first", (), [(0, 0), (0, 1), (2, 2)]), ("second", (), [(2, 2)]), ("third", (1,), [(0, 0), (1, 1), (2, 2)]), ("third", (2,), [(0, 0), (2, 2)]),
             ("third", (1,), [(0, 0), (1, 1), (2, 2)]), ("first", (), [(0, 0), (0, 1), (2, 2)]), ("second", (), [(2, 2)])]
    for i, (k, args, want) in enumerate(steps):
        ctx.evaluations += 1
        try:
            got = ns[k](*args)
        except Exception as e:
            ctx.fail({"kind": "kernel-raises", "scenario": "filled-zone-spec", "kernel": k}, dict(rep, step=i), f"step {i}: {k}{args} raises {type(e).__name__}: {str(e)[:150]}")
            continue
        if vac(got) != want or not (rootof(got) == root):
            ctx.fail({"kind": "behaviour-differs", "scenario": "filled-zone-spec", "kernel": k}, dict(rep, step=i),
                     f"step {i} of the history first, second, third(1), third(2), third(1), first, second: {k}{args} returns vacancies {vac(got)}, the source denotes {want}")
        else:
            ctx.nt(("filled-zone-spec-step", i))
        if not untouched(f"after step {i} ({k}{args})"):
            return
    ctx.count("history over a spec whose zone is a FilledGrid: steps", len(steps))


def run(ctx):
    specs = two_specs()
    pristine = {k: (copy.deepcopy(v), hash(v)) for k, v in specs.items()}
    first_histories(ctx, specs)
    specs_untouched(ctx, specs, pristine, "after the first histories")
    expect = expected_logs(specs)
    base = World(specs).shared_behaviour()
    for (k, sk), v in expect.items():
        if v[0] != "ok" and not (k == "K9" and sk != "B") and k != "K10":
            ctx.obligation(f"reference run of {k} under spec {sk} succeeds", False, str(v)[:200])
    if len({expect[("K1", "A")], expect[("K1", "B")]}) != 2:
        ctx.obligation("the two specs are distinguishable by the kernels", False)
    specs_untouched(ctx, specs, pristine, "after every kernel was run unspecialised under each spec")
    source_reference(ctx, specs, expect)
    translated_library_spec(ctx)
    filled_zone_spec(ctx)
    long_lived_interpreter(ctx, specs, expect)
    specs_untouched(ctx, specs, pristine, "after the long-lived interpreter histories")
    ctx.rule = ("histories over 3 kernels sharing 4 generated subroutines (spec lookups of all kinds, loops, a device call) and the library's "
                "move_by_waypoints, 2 specs with the same zone names but different geometry/constants: every order of compiling 2-3 kernels with "
                "every assignment of specs, interleaved with executions (exhaustive in the thorough tier, sampled in quick); after every step: "
                "printed IR of every shared subroutine, behaviour of the shared subroutines under both specs, events of every compiled kernel "
                "under the plain interpreter vs the unspecialised kernel under its spec, deep equality and hash of both specs; non-trivial = "
                "distinct histories that use both specs")
    hists = []
    names = list(KERNELS)
    for r in (2, 3):
        for ks in itertools.permutations(names, r):
            for sks in itertools.product("ABC", repeat=r):
                base_h = [("compile", k, s) for k, s in zip(ks, sks)]
                hists.append(base_h)
                # interleave executions
                inter = []
                for i, c in enumerate(base_h):
                    inter.append(c)
                    inter.append(("run", ks[0]))
                    if i == 0:
                        inter.append(("run-shared",))
                hists.append(inter)
    # recompiling the same kernel with the other spec, and compiling one kernel twice
    hists += [[("compile", "K1", "A"), ("compile", "K1", "B"), ("run", "K1")], [("compile", "K2", "B"), ("run", "K2"), ("compile", "K2", "A"), ("compile", "K1", "B")],
              # equal layouts, different constants; a kernel over a subroutine that was defined without folding
              [("compile", "K1", "A"), ("run", "K1"), ("compile", "K2", "C"), ("run", "K2"), ("compile", "K7", "C"), ("compile", "K7", "A")],
              [("compile", "K7", "A"), ("run-shared",), ("compile", "K1", "C"), ("compile", "K6", "A")],
              # a shared subroutine handing out a closure that captured a looking-up closure, compiled against two specs in both orders
              [("compile", "K8", "A"), ("run-shared",), ("compile", "K8", "B"), ("run", "K8")],
              [("compile", "K8", "B"), ("compile", "K1", "A"), ("run", "K8"), ("compile", "K8", "A")],
              # a device function built at RUN time (run-time tones) from a tweezer kernel that looks the spec up, by kernels compiled with
              # different specs and executed one after the other in both orders
              [("compile", "K5", "A"), ("run", "K5"), ("compile", "K5", "B"), ("run", "K5")],
              [("compile", "K5", "B"), ("compile", "K1", "A"), ("run", "K5"), ("compile", "K5", "A"), ("run", "K5")],
              [("compile", "K1", "A"), ("compile", "K5", "C"), ("run", "K5"), ("compile", "K5", "B"), ("run", "K5")],
              # two specs with equal hashes, in both orders, alone and around a third spec
              [("compile", "K1", "D"), ("run", "K1"), ("compile", "K1", "E"), ("run", "K1")],
              [("compile", "K2", "E"), ("compile", "K2", "D"), ("run", "K2"), ("compile", "K7", "E"), ("compile", "K1", "A"), ("compile", "K4", "D")],
              # a constant only B defines, asked for by a kernel compiled with A / C after B has been used
              [("compile", "K1", "B"), ("compile", "K9", "A"), ("run", "K9")],
              [("compile", "K9", "B"), ("run", "K9"), ("compile", "K9", "C"), ("compile", "K2", "A")]]
    if ctx.quick:
        hists = ctx.rng.sample(hists, 22) + hists[-13:]
    elif len(hists) > 700:
        # six kernels: every history of two compilations, and a sample of the histories of three
        two = [h for h in hists if sum(1 for x in h if x[0] == "compile") == 2]
        rest = [h for h in hists if h not in two]
        hists = two + ctx.rng.sample(rest, 700 - len(two)) if len(two) < 700 else two
    else:
        ctx.exhaustive = True
    for h in hists:
        run_history(ctx, h, specs, expect, base)
    specs_untouched(ctx, specs, pristine, "after all histories")
    ctx.sample({"history": [list(x) for x in hists[1]]})
    store_model(ctx, hists)
    ctx.explanation = ("Theorems about a store model (methods with opaque bodies, spec tags and call edges; compilation rewrites the root in place and "
                       "redirects its calls to fresh clones): existing methods other than the root are untouched, clones are fresh and private, every "
                       "method seen from a compiled root carries that root's spec, and later compilations of other roots do not change what an earlier "
                       "root sees. Tie: the same histories replayed on real kernels with all observations after every step. kirin's CallGraphPass / "
                       "Method.similar do the cloning and are exercised, not verified; spec immutability has no Gallina content and is checked on the "
                       "Python side only.")


def store_model(ctx, hists):
    """replay the compile steps on Model.Store and let Coq predict which observations may change"""
    # method ids: 0 lib_gate, 1 lib_rows, 2 lib_park, 3 move_by_waypoints, 4 K1, 5 K2, 6 K3, 7 lib_layer, 8 K4, 9 lib_dyn, 10 K5 ; calls as in the sources
    calls = {0: [], 1: [0], 2: [1], 3: [], 4: [0, 1], 5: [2, 0], 6: [3, 1], 7: [0, 1], 8: [7], 9: [], 10: [0, 9], 11: [], 12: [0, 11], 13: [0], 14: [13],
             15: [], 16: [15], 17: [0], 18: [0]}         # 15 lib_getter, 16 K8, 17 K9, 18 K10
    kid = {"K1": 4, "K2": 5, "K3": 6, "K4": 8, "K5": 10, "K6": 12, "K7": 14, "K8": 16, "K9": 17, "K10": 18}
    init = clist([f"(mkmeth {cnat(i)} None {clist([cnat(c) for c in calls[i]])})" for i in range(19)])
    rows = []
    for h in hists[:40]:
        steps = clist([f"({cnat(kid[x[1]])}, {cnat({'A': 1, 'B': 2, 'C': 3, 'D': 4, 'E': 5}[x[2]])})" for x in h if x[0] == "compile"])
        rows.append(steps)
    body = COQ_IMPORT + f"Definition st0 : store := {init}.\n"
    body += ("Definition row (steps : list (nat * nat)) : string :=\n"
             "  let st := fold_left (fun s c => compile s (fst c) (snd c)) steps st0 in\n"
             "  (show_bool (shared_unchanged 4%nat st0 st && meth_eqb (nth 7 st0 dflt) (nth 7 st dflt) && meth_eqb (nth 9 st0 dflt) (nth 9 st dflt) && meth_eqb (nth 11 st0 dflt) (nth 11 st dflt) && meth_eqb (nth 13 st0 dflt) (nth 13 st dflt) && meth_eqb (nth 15 st0 dflt) (nth 15 st dflt)) ++ show_bool (forallb (fun c => sees_only 12%nat st (fst c) (last_spec steps (fst c))) steps))%string.\n")
    body += "Eval vm_compute in (lines (map row " + clist(rows) + "))."
    ok, vals, log = coqrun.eval_lines(ctx.bdir, "store", body)
    if not ok or len(vals) != 1:
        ctx.obligation("coqc store file evaluates", False, log[-600:])
        return
    bad = [i for i, l in enumerate(vals[0]) if l != "TT"]
    ctx.correspondence("Model.Store replay of the compile steps: shared methods unchanged and every root sees only its own spec (as observed on the real kernels)",
                       len(rows), [{"history": i} for i in bad])


def replay(data):
    if "filled_zone_src" in data.get("input", {}):
        class K:
            def __init__(s): s.fails, s.evaluations = [], 0
            def fail(s, sig, rep, what): s.fails.append(what)
            def nt(s, *a): pass
            def count(s, *a): pass
            def obligation(s, n, ok, log=""):
                if not ok: s.fails.append(n + ": " + log)
        k = K()
        filled_zone_spec(k)
        return bool(k.fails), (k.fails or ["the spec with a FilledGrid zone is untouched and every kernel returns what its source denotes"])[0][:200]
    if data["input"].get("long_lived"):
        class C:
            def __init__(s): s.fails, s.evaluations = [], 0
            def fail(s, sig, rep, what): s.fails.append(what)
            def nt(s, *a): pass
            def count(s, *a): pass
        c = C()
        sp = two_specs()
        long_lived_interpreter(c, sp, expected_logs(sp))
        return bool(c.fails), (c.fails or ["every unspecialised run plays its own spec"])[0][:200]
    if data["input"].get("translated_library_spec"):
        class C:
            def __init__(s): s.fails, s.evaluations = [], 0
            def fail(s, sig, rep, what): s.fails.append(what)
            def nt(s, *a): pass
            def count(s, *a): pass
            def obligation(s, n, ok, log=""):
                if not ok: s.fails.append(n)
        c = C()
        translated_library_spec(c)
        return bool(c.fails), (c.fails or ["the library observes the spec it is compiled with / run under"])[0][:200]
    inp = data["input"]
    specs = two_specs()

    class C:
        evaluations = 0
        def __init__(s): s.fails = []
        def fail(s, sig, rep, what): s.fails.append(what)
        def hist(s, *a): pass
        def nt(s, *a): pass
    c = C()
    c.count = lambda *a: None
    if inp.get("first_in_process"):
        first_histories(c, specs)
        return bool(c.fails), "; ".join(c.fails[:2])[:300] or "every kernel executes the events of its source under its own spec"
    if inp.get("source_reference"):
        source_reference(c, specs, expected_logs(specs))
        return bool(c.fails), "; ".join(c.fails[:2])[:300] or "the kernels execute the events of their source"
    run_history(c, [tuple(h) for h in inp["history"]], specs, expected_logs(specs), World(specs).shared_behaviour())
    return bool(c.fails), "; ".join(c.fails[:2]) or "history is isolated"
